// Independent strict RFC 8259 reference: incremental (byte-at-a-time) recogniser + value builder, written with std:: only.
// It is itself cross-checked against python3's json module by the harnesses (tools/ref_json.py).
#pragma once
#include <string>
#include <vector>
#include <map>
#include <memory>
#include <stdio.h>
#include <stdlib.h>
#include <math.h>

namespace rj {

struct RV {
	enum T { NUL, FALSE_, TRUE_, NUM, STR, ARR, OBJ } t;
	double num; std::string str;
	std::vector<RV> arr;
	std::vector<std::pair<std::string, RV> > obj; // insertion order; duplicates resolved at dump time (last wins)
	RV() : t(NUL), num(0) {}
};

inline std::string hexs(const std::string& s) { static const char* d = "0123456789abcdef"; std::string r; for (size_t i = 0; i < s.size(); i++) { unsigned char c = s[i]; r += d[c >> 4]; r += d[c & 15]; } return r; }
inline std::string numstr(double d) {
	if (d == 0) return "0"; // -0 and 0 are numerically equal
	char b[64]; snprintf(b, sizeof b, "%.17g", d); return b;
}
// canonical dump: n t f  #<%.17g>  s<hex>  [..,..]  {<hexkey>:..,..} with keys sorted bytewise, last duplicate wins
inline std::string dump(const RV& v) {
	switch (v.t) {
	case RV::NUL: return "n"; case RV::TRUE_: return "t"; case RV::FALSE_: return "f";
	case RV::NUM: return "#" + numstr(v.num);
	case RV::STR: return "s" + hexs(v.str);
	case RV::ARR: { std::string s = "["; for (size_t i = 0; i < v.arr.size(); i++) s += (i ? "," : "") + dump(v.arr[i]); return s + "]"; }
	case RV::OBJ: { std::map<std::string, std::string> m; for (size_t i = 0; i < v.obj.size(); i++) m[v.obj[i].first] = dump(v.obj[i].second); std::string s = "{"; bool f = true; for (std::map<std::string, std::string>::iterator it = m.begin(); it != m.end(); ++it) { s += (f ? "" : ",") + hexs(it->first) + ":" + it->second; f = false; } return s + "}"; }
	}
	return "?";
}

struct Ref {
	enum Mode { VALUE, OBJ_FIRST, OBJ_KEY, COLON, AFTER, STRING, ESC, UHEX, N_MINUS, N_ZERO, N_INT, N_DOT, N_FRAC, N_E, N_ESIGN, N_EXP, LIT, DONE, DEAD };
	struct Frame { bool isObj; RV val; std::string key; };
	Mode mode; std::vector<Frame> st; bool inKey, excluded;
	std::string buf; int ucount; unsigned ucode, hi; int utf8need; const char* lit; int litpos;
	RV result; bool haveResult;
	Ref() { reset(); }
	void reset() { mode = VALUE; st.clear(); inKey = false; excluded = false; buf.clear(); ucount = 0; ucode = 0; hi = 0; utf8need = 0; lit = 0; litpos = 0; haveResult = false; result = RV(); }
	static bool ws(char c) { return c == ' ' || c == '\t' || c == '\n' || c == '\r'; }
	static bool dig(char c) { return c >= '0' && c <= '9'; }
	void put(const RV& v) {
		if (st.empty()) { result = v; haveResult = true; mode = DONE; return; }
		Frame& f = st.back();
		if (f.isObj) f.val.obj.push_back(std::make_pair(f.key, v)); else f.val.arr.push_back(v);
		mode = AFTER;
	}
	void endNumber() { RV v; v.t = RV::NUM; v.num = strtod(buf.c_str(), 0); buf.clear(); put(v); }
	void appendUtf8(unsigned c) {
		if (c < 0x80) buf += char(c);
		else if (c < 0x800) { buf += char(0xc0 | (c >> 6)); buf += char(0x80 | (c & 0x3f)); }
		else if (c < 0x10000) { buf += char(0xe0 | (c >> 12)); buf += char(0x80 | ((c >> 6) & 0x3f)); buf += char(0x80 | (c & 0x3f)); }
		else { buf += char(0xf0 | (c >> 18)); buf += char(0x80 | ((c >> 12) & 0x3f)); buf += char(0x80 | ((c >> 6) & 0x3f)); buf += char(0x80 | (c & 0x3f)); }
	}
	void startValue(char c) {
		if (c == '"') { mode = STRING; inKey = false; buf.clear(); }
		else if (c == '{') { Frame f; f.isObj = true; f.val.t = RV::OBJ; st.push_back(f); mode = OBJ_FIRST; }
		else if (c == '[') { Frame f; f.isObj = false; f.val.t = RV::ARR; st.push_back(f); mode = VALUE; arrayJustOpened = true; return; }
		else if (c == '-') { buf = "-"; mode = N_MINUS; }
		else if (c == '0') { buf = "0"; mode = N_ZERO; }
		else if (dig(c)) { buf = std::string(1, c); mode = N_INT; }
		else if (c == 't') { lit = "true"; litpos = 1; mode = LIT; }
		else if (c == 'f') { lit = "false"; litpos = 1; mode = LIT; }
		else if (c == 'n') { lit = "null"; litpos = 1; mode = LIT; }
		else mode = DEAD;
		arrayJustOpened = false;
	}
	bool arrayJustOpened;
	void closeContainer() { Frame f = st.back(); st.pop_back(); put(f.val); }
	void feed(char c) {
		unsigned char uc = (unsigned char)c;
		switch (mode) {
		case DEAD: return;
		case DONE: if (!ws(c)) mode = DEAD; return;
		case VALUE:
			if (ws(c)) return;
			if (c == ']' && !st.empty() && !st.back().isObj && arrayJustOpened) { arrayJustOpened = false; closeContainer(); return; }
			startValue(c); return;
		case OBJ_FIRST: if (ws(c)) return; if (c == '}') { closeContainer(); return; } // fallthrough
		case OBJ_KEY: if (ws(c)) return; if (c == '"') { mode = STRING; inKey = true; buf.clear(); } else mode = DEAD; return;
		case COLON: if (ws(c)) return; if (c == ':') { mode = VALUE; arrayJustOpened = false; } else mode = DEAD; return;
		case AFTER:
			if (ws(c)) return;
			if (c == ',') { if (st.back().isObj) mode = OBJ_KEY; else { mode = VALUE; arrayJustOpened = false; } }
			else if (c == '}' && st.back().isObj) closeContainer();
			else if (c == ']' && !st.back().isObj) closeContainer();
			else mode = DEAD;
			return;
		case STRING:
			if (hi && c != '\\') { excluded = true; hi = 0; } // high surrogate not followed by another \u escape
			if (utf8need) { if ((uc & 0xc0) == 0x80) { utf8need--; buf += c; } else excluded = true, utf8need = 0, feed(c); return; }
			if (c == '"') { if (inKey) { st.back().key = buf; buf.clear(); mode = COLON; } else { RV v; v.t = RV::STR; v.str = buf; buf.clear(); put(v); } return; }
			if (c == '\\') { mode = ESC; return; }
			if (uc < 0x20) { mode = DEAD; return; }
			if (uc >= 0x80) { if (uc >= 0xc2 && uc <= 0xdf) utf8need = 1; else if (uc >= 0xe0 && uc <= 0xef) utf8need = 2; else if (uc >= 0xf0 && uc <= 0xf4) utf8need = 3; else excluded = true; }
			buf += c; return;
		case ESC:
			mode = STRING;
			switch (c) { case '"': buf += '"'; break; case '\\': buf += '\\'; break; case '/': buf += '/'; break; case 'b': buf += '\b'; break; case 'f': buf += '\f'; break; case 'n': buf += '\n'; break; case 'r': buf += '\r'; break; case 't': buf += '\t'; break;
			case 'u': mode = UHEX; ucount = 0; ucode = 0; break; default: mode = DEAD; }
			if (hi && mode != UHEX) { excluded = true; hi = 0; }
			return;
		case UHEX: {
			int h = c >= '0' && c <= '9' ? c - '0' : c >= 'a' && c <= 'f' ? c - 'a' + 10 : c >= 'A' && c <= 'F' ? c - 'A' + 10 : -1;
			if (h < 0) { mode = DEAD; return; }
			ucode = ucode * 16 + h;
			if (++ucount == 4) {
				mode = STRING;
				if (hi) { if (ucode >= 0xdc00 && ucode <= 0xdfff) appendUtf8(0x10000 + ((hi - 0xd800) << 10) + (ucode - 0xdc00)); else excluded = true; hi = 0; }
				else if (ucode >= 0xd800 && ucode <= 0xdbff) hi = ucode;
				else if (ucode >= 0xdc00 && ucode <= 0xdfff) excluded = true;
				else if (ucode == 0) excluded = true;
				else appendUtf8(ucode);
			}
			return;
		}
		case N_MINUS: if (c == '0') { buf += c; mode = N_ZERO; } else if (dig(c)) { buf += c; mode = N_INT; } else mode = DEAD; return;
		case N_ZERO: case N_INT: case N_FRAC: case N_EXP:
			if (dig(c) && mode != N_ZERO) { buf += c; return; }
			if (c == '.' && (mode == N_ZERO || mode == N_INT)) { buf += c; mode = N_DOT; return; }
			if ((c == 'e' || c == 'E') && mode != N_EXP) { buf += c; mode = N_E; return; }
			if (dig(c)) { mode = DEAD; return; } // digit after leading zero
			endNumber(); feed(c); return;
		case N_DOT: if (dig(c)) { buf += c; mode = N_FRAC; } else mode = DEAD; return;
		case N_E: if (c == '+' || c == '-') { buf += c; mode = N_ESIGN; } else if (dig(c)) { buf += c; mode = N_EXP; } else mode = DEAD; return;
		case N_ESIGN: if (dig(c)) { buf += c; mode = N_EXP; } else mode = DEAD; return;
		case LIT:
			if (c != lit[litpos]) { mode = DEAD; return; }
			if (!lit[++litpos]) { RV v; v.t = lit[0] == 't' ? RV::TRUE_ : lit[0] == 'f' ? RV::FALSE_ : RV::NUL; put(v); }
			return;
		}
	}
	void feed(const std::string& s) { for (size_t i = 0; i < s.size(); i++) feed(s[i]); }
	bool dead() const { return mode == DEAD; }
	// the text seen so far is a complete RFC 8259 document (a trailing number is completed by end of input)
	bool complete() const { return mode == DONE || (st.empty() && (mode == N_ZERO || mode == N_INT || mode == N_FRAC || mode == N_EXP)); }
	RV value() const { if (mode == DONE) return result; RV v; v.t = RV::NUM; v.num = strtod(buf.c_str(), 0); return v; }
	// alive, and the text stops inside an unterminated top-level array, object or string
	bool openTopLevel() const { if (mode == DEAD || mode == DONE) return false; if (!st.empty()) return true; return mode == STRING || mode == ESC || mode == UHEX; }
	std::string stateKey() const {
		if (mode == DEAD) return "DEAD";
		std::string s; char b[64]; snprintf(b, sizeof b, "m%d k%d x%d u%d.%x h%x 8%d l%d j%d|", (int)mode, (int)inKey, (int)excluded, ucount, ucode, hi, utf8need, litpos, (int)arrayJustOpened); s = b;
		if (mode == LIT) s += lit;
		s += buf + "|";
		for (size_t i = 0; i < st.size(); i++) s += st[i].isObj ? 'o' : 'a';
		return s;
	}
};

// batch helper
inline bool parse(const std::string& text, RV& out, bool* excluded = 0) { Ref r; r.feed(text); if (excluded) *excluded = r.excluded; if (!r.complete()) return false; out = r.value(); return true; }

} // namespace rj
