// vf: shared plumbing for the bounded-exhaustive harnesses (DESIGN.md §2, §3).
//  - option parsing, known-findings file, evidence part writer
//  - forked worker pool with per-worker "current case" slot in shared memory (crash attribution)
//  - AddressSanitizer as an oracle (recover mode + error callback)
//  - level-synchronous explicit-state BFS over operation histories replayed on fresh objects
#pragma once
#include <stdint.h>
#include <stdio.h>
#include <stdlib.h>
#include <string.h>
#include <string>
#include <vector>
#include <map>
#include <set>
#include <functional>
#include <unordered_set>
#include <algorithm>
#include <unistd.h>

namespace vf {

struct Options {
	std::string tier = "quick", out, kase, property, part;
	bool replay = false;
	int jobs = 16;
	long seed = 0;
	double deadline_s = 0; // 0 = none
	bool thorough() const { return tier == "thorough"; }
};
extern Options opt;

void init(int argc, char** argv, const char* property, const char* part);
double now_s();
bool deadline_passed();

// ---- counters (live in shared memory: they survive a crashing worker) ----
int counter(const char* name);              // register in the parent before parallel()
void add(int c, uint64_t n = 1);
uint64_t get(int c);                        // parent: sum over all workers
void note(const std::string& key, uint64_t n = 1); // dynamic counters (parent, or flushed by a worker on normal exit)
void sample(const std::string& s);          // keeps the first few
void setinfo(const std::string& key, const std::string& json_fragment); // extra key in the part file
void cap_hit(const std::string& what);      // marks the run non-exhaustive
void set_exhaustive(bool e);

// ---- verdicts ----
// A violation carries a signature (class of failure), a description and a re-runnable case string.
void violation(const std::string& sig, const std::string& desc, const std::string& kase);
bool known(const std::string& sig);         // listed as "known: property=<id> sig=<sig>" in KNOWN_FINDINGS.txt
void known_hit(const std::string& sig, const std::string& desc); // a pruned/confirmed occurrence of a known finding
uint64_t nviolations();

// ---- current case (for crash attribution) ----
void cur(const std::string& s);
void cur_sig(const char* sig);              // signature to use if the process dies in this case (default "crash")

// ---- ASan oracle ----
bool asan_tripped();
std::string asan_what();
void asan_clear();
uint64_t heap_bytes();                      // currently allocated (0 when not built with ASan)
bool have_asan();

// ---- parallel items ----
// body(i) is called once for every i in [0,n) in some worker process. A worker that dies is
// reported as a violation for the case it had published with cur(); the rest of that item is
// abandoned (counted) and a replacement worker continues with the remaining items.
void parallel(uint64_t n, const std::function<void(uint64_t)>& body, int chunk = 1);
bool in_worker();
void restart_worker(); // worker: flush and exit; a fresh worker continues with the item after the current one
int worker_id();
// file in the scratch dir that a worker may append records to; the parent reads them after parallel()
std::string scratch_dir();
std::vector<std::string> list_scratch(const std::string& prefix); // full paths

int finish(); // writes the part file; returns the process exit code (0 ok, 1 violation)

// ---- helpers ----
std::string hex(const void* p, size_t n);
std::string hex(const std::string& s);
std::string unhex(const std::string& s);
std::string jstr(const std::string& s); // JSON string literal
std::string fmt(const char* f, ...) __attribute__((format(printf, 1, 2)));
struct H128 { uint64_t a, b; bool operator==(const H128& o) const { return a == o.a && b == o.b; } bool operator<(const H128& o) const { return a < o.a || (a == o.a && b < o.b); } };
H128 hash128(const std::string& s);
struct H128Hash { size_t operator()(const H128& h) const { return (size_t)(h.a ^ (h.b * 0x9e3779b97f4a7c15ULL)); } };

// ---- explicit-state BFS over histories ----
// Sys concept:
//   int  nops();                         size of the op alphabet (instances)
//   void reset();                        fresh implementation + model (previous ones fully destroyed)
//   bool enabled(int op);                decided from the MODEL state only
//   bool apply(int op, std::string& err) apply to impl and model, compare observations; false = divergence
//   std::string canon();                 canonical state: model + implementation shape
//   std::string opname(int op);
//   const char* predict(int op);         optional: signature of a defect this op is predicted to hit in this state (or 0)
typedef std::vector<uint16_t> Hist;
std::string hist_str(const Hist& h);
Hist hist_parse(const std::string& s);

struct BfsResult { uint64_t states = 0, transitions = 0, traces = 0; int depth_done = 0; bool fixed_point = false; std::vector<uint64_t> per_depth; };

template <class Sys>
struct Bfs {
	Sys& sys;
	int c_trans, c_traces, c_pruned, c_leakchk;
	std::string label;
	std::map<std::string, Hist> known_example;
	Bfs(Sys& s, const std::string& lbl) : sys(s), label(lbl) {
		c_trans = counter((lbl + ".transitions").c_str());
		c_traces = counter((lbl + ".traces").c_str());
		c_pruned = counter((lbl + ".pruned_known").c_str());
		c_leakchk = counter((lbl + ".leak_checks").c_str());
	}
	std::string describe(const Hist& h) {
		sys.reset();
		std::string s, err;
		for (size_t i = 0; i < h.size(); i++) {
			s += (i ? " ; " : "") + sys.opname(h[i]);
			if (i + 1 < h.size()) sys.apply(h[i], err); // advance the model so that names of later ops are in context
		}
		sys.reset();
		return s;
	}
	// Runs history h then op (op<0: none). Returns false if a violation was recorded. key = hash of canon after.
	bool run_one(const Hist& h, int op, H128* key, bool report = true, const char* predicted = 0, bool retry = false) {
		Hist full = h;
		if (op >= 0) full.push_back((uint16_t)op);
		std::string kase = label + ":" + hist_str(full);
		std::string sig, desc; sig.reserve(64); desc.reserve(1024);
		cur(kase);
		if (predicted) cur_sig(predicted);
		asan_clear();
		sys.reset();
		uint64_t base = heap_bytes(); // lazily built statics were warmed by the first (unmeasured) run
		bool ok = true;
		{
			std::string err;
			for (size_t i = 0; i < full.size() && ok; i++) {
				if (!sys.enabled(full[i])) { ok = false; sig = "harness_disabled_op"; desc = "op not enabled on replay: " + sys.opname(full[i]); break; }
				std::string name = sys.opname(full[i]);
				if (!sys.apply(full[i], err)) { ok = false; sig = "diverge"; desc = "after [" + name + "] (step " + fmt("%d", (int)i + 1) + "): " + err; }
				if (asan_tripped()) { ok = false; sig = "asan"; desc = "ASan " + asan_what() + " in [" + name + "] (step " + fmt("%d", (int)i + 1) + ")" + (err.empty() ? "" : "; " + err); }
			}
			if (ok && key) *key = hash128(sys.canon());
		}
		sys.reset();
		if (ok && asan_tripped()) { ok = false; sig = "asan"; desc = "ASan " + asan_what() + " during teardown"; }
		if (ok && have_asan()) {
			add(c_leakchk);
			uint64_t after = heap_bytes();
			if (after != base && !retry) return run_one(h, op, key, report, predicted, true); // lazily built statics allocate once: only a delta that repeats is a leak
			if (after != base) { ok = false; sig = "leak"; desc = fmt("allocated bytes %+lld after dropping everything", (long long)(after - base)); }
		}
		add(c_traces);
		if (!ok && predicted && sig != "harness_disabled_op") { desc = "[" + sig + "] " + desc; sig = predicted; } // failure of an op predicted to hit a classified defect
		if (!ok && report) violation(sig, desc + "  history: " + describe(full), kase);
		asan_clear();
		return ok;
	}
	BfsResult run(int maxDepth, uint64_t maxStates = 0) {
		BfsResult r;
		std::unordered_set<H128, H128Hash> seen;
		std::vector<Hist> frontier;
		H128 k0;
		run_one(Hist(), -1, &k0, false); // warm-up (lazily built statics)
		if (!run_one(Hist(), -1, &k0)) return r;
		seen.insert(k0);
		frontier.push_back(Hist());
		r.states = 1; r.per_depth.push_back(1);
		int nops = sys.nops();
		for (int d = 0; d < maxDepth && !frontier.empty(); d++) {
			if (deadline_passed()) { cap_hit(label + fmt(": deadline before depth %d", d + 1)); break; }
			std::string dir = scratch_dir();
			uint64_t N = frontier.size();
			parallel(N, [&](uint64_t i) {
				static FILE* out = 0; static int outw = -1;
				if (!out || outw != worker_id()) { outw = worker_id(); out = fopen((dir + fmt("/bfs.%d.%d", d, worker_id())).c_str(), "ab"); }
				const Hist& h = frontier[i];
				// enabled set from the model state after h
				std::string err;
				sys.reset();
				bool ok = true;
				for (size_t j = 0; j < h.size() && ok; j++) ok = sys.apply(h[j], err);
				std::vector<int> en; std::vector<const char*> pred;
				for (int op = 0; op < nops && ok; op++) if (sys.enabled(op)) { en.push_back(op); pred.push_back(sys.predict(op)); }
				sys.reset();
				asan_clear();
				for (size_t e = 0; e < en.size(); e++) {
					int op = en[e];
					if (pred[e] && known(pred[e])) {
						add(c_pruned); Hist f = h; f.push_back(op); known_hit(pred[e], describe(f));
						static std::set<std::string> wrote;
						if (wrote.insert(pred[e]).second) { FILE* kf = fopen((dir + fmt("/bfsk.%d.%d", d, worker_id())).c_str(), "a"); if (kf) { fprintf(kf, "%s %s\n", pred[e], hist_str(f).c_str()); fclose(kf); } }
						continue;
					}
					H128 k;
					add(c_trans);
					if (!run_one(h, op, &k, true, pred[e])) continue; // violation recorded; do not expand a broken state
					uint32_t idx = (uint32_t)i; uint16_t o = (uint16_t)op;
					fwrite(&k, sizeof k, 1, out); fwrite(&idx, 4, 1, out); fwrite(&o, 2, 1, out);
				}
				fflush(out);
			});
			// merge
			struct Rec { H128 k; uint32_t i; uint16_t op; };
			std::vector<Rec> recs;
			std::vector<std::string> files = list_scratch(fmt("bfs.%d.", d));
			for (size_t w = 0; w < files.size(); w++) {
				std::string fn = files[w];
				FILE* f = fopen(fn.c_str(), "rb");
				if (!f) continue;
				Rec rc;
				while (fread(&rc.k, sizeof rc.k, 1, f) == 1 && fread(&rc.i, 4, 1, f) == 1 && fread(&rc.op, 2, 1, f) == 1) recs.push_back(rc);
				fclose(f); remove(fn.c_str());
			}
			std::vector<std::string> kfiles = list_scratch(fmt("bfsk.%d.", d));
			for (size_t w = 0; w < kfiles.size(); w++) {
				FILE* f = fopen(kfiles[w].c_str(), "r");
				char sg[200], hs[2000];
				while (f && fscanf(f, "%199s %1999s", sg, hs) == 2) if (!known_example.count(sg)) known_example[sg] = hist_parse(hs);
				if (f) fclose(f);
				remove(kfiles[w].c_str());
			}
			std::sort(recs.begin(), recs.end(), [](const Rec& a, const Rec& b) { return a.i < b.i || (a.i == b.i && a.op < b.op); });
			std::vector<Hist> next;
			for (size_t j = 0; j < recs.size(); j++) {
				if (seen.insert(recs[j].k).second) { Hist h = frontier[recs[j].i]; h.push_back(recs[j].op); next.push_back(h); }
			}
			r.depth_done = d + 1;
			r.states += next.size();
			r.per_depth.push_back(next.size());
			frontier.swap(next);
			if (maxStates && r.states > maxStates) { cap_hit(label + fmt(": state cap %llu reached at depth %d", (unsigned long long)maxStates, d + 1)); break; }
		}
		if (frontier.empty()) r.fixed_point = true;
		// one confirming run per pruned known finding, in a sacrificial child: does the listed defect still fail?
		for (std::map<std::string, Hist>::iterator it = known_example.begin(); it != known_example.end(); ++it) {
			int c_still = counter((label + ".known_no_longer_fails:" + it->first).c_str());
			Hist kh = it->second; std::string ksig = it->first;
			parallel(1, [&](uint64_t) { cur(label + ":" + hist_str(kh)); cur_sig(ksig.c_str()); if (run_one(kh, -1, 0, false, ksig.c_str())) add(c_still); });
			note(get(c_still) ? "known_not_reproduced:" + ksig : "known_confirmed_still_failing:" + ksig);
		}
		r.transitions = get(c_trans);
		r.traces = get(c_traces);
		// a few written-out samples of deepest histories
		for (size_t j = 0; j < frontier.size() && j < 3; j++) sample(label + ": " + describe(frontier[frontier.size() - 1 - j]));
		return r;
	}
	// replay of a case string "label:1.2.3" — returns true when it reproduces a violation
	bool replay(const std::string& kase) {
		size_t p = kase.find(':');
		Hist h = hist_parse(kase.substr(p + 1));
		run_one(Hist(), -1, 0, false);
		return !run_one(h, -1, 0);
	}
};

} // namespace vf
