// helpers shared by harnesses that touch asl types
#pragma once
#include <asl/String.h>
#include <string>
#include "vf.h"

#if defined(__SANITIZE_ADDRESS__)
extern "C" void __asan_poison_memory_region(void const volatile* addr, size_t size);
extern "C" void __asan_unpoison_memory_region(void const volatile* addr, size_t size);
#define VF_POISON(a, n) __asan_poison_memory_region((a), (n))
#define VF_UNPOISON(a, n) __asan_unpoison_memory_region((a), (n))
#else
#define VF_POISON(a, n) ((void)0)
#define VF_UNPOISON(a, n) ((void)0)
#endif

namespace vfx {

inline std::string S(const asl::String& s) { return std::string(*s, s.length()); }
inline asl::String A(const std::string& s) { return asl::String(s.data(), (int)s.size()); }

// While alive, every byte of the String's buffer after its terminating NUL is poisoned, so that
// any read beyond the terminator is an ASan error ("flush against the end of the allocation").
// Only for read-only use of the String.
struct Flush {
	char* b; size_t n;
	explicit Flush(const asl::String& s) {
		char* p = const_cast<char*>(*s);
		size_t cap = s._size == 0 ? (size_t)ASL_STR_SPACE : (size_t)s._size;
		b = p + s.length() + 1;
		n = (size_t)s.length() + 1 <= cap ? cap - s.length() - 1 : 0;
		if (n) VF_POISON(b, n);
	}
	~Flush() { if (n) VF_UNPOISON(b, n); }
};

// a NUL-terminated copy of bytes placed flush against the end of a malloc block
struct FlushBuf {
	char* p;
	explicit FlushBuf(const std::string& s) { p = (char*)malloc(s.size() + 1); memcpy(p, s.data(), s.size()); p[s.size()] = 0; }
	~FlushBuf() { free(p); }
};

} // namespace vfx
