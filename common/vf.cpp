#include "vf.h"
#include <stdarg.h>
#include <unistd.h>
#include <signal.h>
#include <time.h>
#include <dirent.h>
#include <fcntl.h>
#include <sys/mman.h>
#include <sys/wait.h>
#include <sys/stat.h>
#include <errno.h>

#if defined(__SANITIZE_ADDRESS__)
#define VF_ASAN 1
extern "C" {
size_t __sanitizer_get_current_allocated_bytes(void);
void __asan_set_error_report_callback(void (*)(const char*));
const char* __asan_default_options() {
	return "halt_on_error=0:detect_leaks=0:allocator_may_return_null=1:max_allocation_size_mb=2048:"
	       "quarantine_size_mb=16:malloc_context_size=6:detect_odr_violation=0:detect_stack_use_after_return=0:"
	       "handle_abort=1:print_legend=0:print_full_thread_history=0:suppress_equal_pcs=0"; // suppress_equal_pcs=0: report an error at the same PC again (every case is judged on its own)
}
}
#else
#define VF_ASAN 0
#endif

namespace vf {

Options opt;

enum { MAXC = 192, MAXW = 64, CURLEN = 3800 };
struct Slot {
	volatile uint64_t cur_item, end_item;
	volatile int active;
	char sig[64];
	char cur[CURLEN];
	uint64_t c[MAXC];
};
struct Shm {
	volatile uint64_t next, n;
	volatile int stop;
	Slot slots[MAXW + 1];
};
static Shm* shm = 0;
static int my_slot = 0;
static bool is_worker = false;
static std::vector<std::string> cnames;
static std::map<std::string, uint64_t> notes;
static std::vector<std::string> samples;
static std::vector<std::pair<std::string, std::string> > infos;
static std::vector<std::string> caps;
static bool exhaustive = true;
struct Viol { std::string sig, desc, kase; };
static std::vector<Viol> viols;           // parent: collected; worker: written through
static uint64_t viol_local = 0;
static std::map<std::string, std::string> known_desc;   // sig -> first description seen
static std::set<std::string> known_sigs, fixed_sigs;
static std::string scratch;
static double t0;
static int C_VIOL, C_ABANDONED, C_CRASHES;
static volatile int asan_flag = 0;
static char asan_msg[200];
static int parallel_gen = 0;

double now_s() { timespec ts; clock_gettime(CLOCK_MONOTONIC, &ts); return ts.tv_sec + ts.tv_nsec * 1e-9; }
bool deadline_passed() { return opt.deadline_s > 0 && now_s() - t0 > opt.deadline_s; }

std::string fmt(const char* f, ...) {
	char buf[4096];
	va_list ap; va_start(ap, f);
	int n = vsnprintf(buf, sizeof buf, f, ap);
	va_end(ap);
	if (n < 0) return "";
	if ((size_t)n < sizeof buf) return std::string(buf, n);
	std::string s(n + 1, 0);
	va_start(ap, f); vsnprintf(&s[0], n + 1, f, ap); va_end(ap);
	s.resize(n);
	return s;
}
std::string hex(const void* p, size_t n) {
	static const char* d = "0123456789abcdef";
	std::string s; s.reserve(n * 2);
	for (size_t i = 0; i < n; i++) { unsigned char c = ((const unsigned char*)p)[i]; s += d[c >> 4]; s += d[c & 15]; }
	return s;
}
std::string hex(const std::string& s) { return hex(s.data(), s.size()); }
static int hv(char c) { return c <= '9' ? c - '0' : (c | 32) - 'a' + 10; }
std::string unhex(const std::string& s) {
	std::string r;
	for (size_t i = 0; i + 1 < s.size(); i += 2) r += (char)(hv(s[i]) * 16 + hv(s[i + 1]));
	return r;
}
std::string jstr(const std::string& s) {
	std::string r = "\"";
	for (size_t i = 0; i < s.size(); i++) {
		unsigned char c = s[i];
		if (c == '"') r += "\\\""; else if (c == '\\') r += "\\\\"; else if (c == '\n') r += "\\n"; else if (c == '\t') r += "\\t";
		else if (c < 0x20 || c >= 0x7f) r += fmt("\\u%04x", c);
		else r += (char)c;
	}
	return r + "\"";
}
H128 hash128(const std::string& s) {
	uint64_t a = 0xcbf29ce484222325ULL, b = 0x9ae16a3b2f90404fULL;
	for (size_t i = 0; i < s.size(); i++) {
		unsigned char c = s[i];
		a = (a ^ c) * 0x100000001b3ULL;
		b = (b + c + 0x9e3779b97f4a7c15ULL); b ^= b >> 29; b *= 0xbf58476d1ce4e5b9ULL; b ^= b >> 32;
	}
	a ^= s.size(); a ^= a >> 33; a *= 0xff51afd7ed558ccdULL; a ^= a >> 33;
	H128 h = { a, b };
	return h;
}
std::string hist_str(const Hist& h) {
	std::string s;
	for (size_t i = 0; i < h.size(); i++) s += fmt(i ? ".%d" : "%d", (int)h[i]);
	return s;
}
Hist hist_parse(const std::string& s) {
	Hist h;
	const char* p = s.c_str();
	while (*p) { if (*p >= '0' && *p <= '9') { h.push_back((uint16_t)strtol(p, (char**)&p, 10)); } else p++; }
	return h;
}

// ---------------------------------------------------------------- asan
#if VF_ASAN
static void asan_cb(const char* report) {
	asan_flag = 1;
	if (asan_msg[0]) return;
	const char* p = strstr(report, "AddressSanitizer: ");
	if (!p) p = report; else p += 18;
	size_t i = 0;
	while (p[i] && p[i] != '\n' && i < sizeof(asan_msg) - 1) { asan_msg[i] = p[i]; i++; }
	asan_msg[i] = 0;
	char* q = strstr(asan_msg, " on address"); if (q) *q = 0;
	q = strstr(asan_msg, ": 0x"); if (q) *q = 0;          // memcpy-param-overlap: memory ranges ...
	q = strstr(asan_msg, " (pc "); if (q) *q = 0;
}
bool have_asan() { return true; }
uint64_t heap_bytes() { return __sanitizer_get_current_allocated_bytes(); }
#else
bool have_asan() { return false; }
uint64_t heap_bytes() { return 0; }
#endif
bool asan_tripped() { return asan_flag != 0; }
std::string asan_what() { return asan_msg[0] ? asan_msg : "error"; }
void asan_clear() { asan_flag = 0; asan_msg[0] = 0; }

// ---------------------------------------------------------------- setup
static void rm_scratch() {
	if (is_worker || scratch.empty()) return;
	std::string cmd = "rm -rf '" + scratch + "'";
	if (system(cmd.c_str())) {}
}
static void load_known() {
	FILE* f = fopen("/verif/KNOWN_FINDINGS.txt", "r");
	if (!f) return;
	char line[4096];
	while (fgets(line, sizeof line, f)) {
		std::string l = line;
		bool k = l.compare(0, 6, "known:") == 0;
		if (!k) continue;
		size_t p = l.find("property=");
		if (p == std::string::npos) continue;
		std::string prop = l.substr(p + 9, l.find_first_of(" \t\n", p) - p - 9);
		if (prop != opt.property) continue;
		size_t s = l.find("sig=");
		if (s == std::string::npos) continue;
		std::string sig = l.substr(s + 4, l.find_first_of(" \t\n", s) - s - 4);
		known_sigs.insert(sig);
		size_t e = l.find_first_of(" \t", s);
		std::string d = e == std::string::npos ? "" : l.substr(e + 1);
		while (!d.empty() && (d[d.size() - 1] == '\n' || d[d.size() - 1] == '\r')) d.resize(d.size() - 1);
		known_desc[sig] = d;
	}
	fclose(f);
}
void init(int argc, char** argv, const char* property, const char* part) {
	t0 = now_s();
	opt.property = property; opt.part = part;
	const char* t = getenv("VERIF_TIER"); if (t && *t) opt.tier = t;
	const char* s = getenv("VERIF_SEED"); if (s && *s) opt.seed = atol(s);
	const char* j = getenv("VERIF_JOBS"); if (j && *j) opt.jobs = atoi(j);
	for (int i = 1; i < argc; i++) {
		std::string a = argv[i];
		if (a == "--tier" && i + 1 < argc) opt.tier = argv[++i];
		else if (a == "--out" && i + 1 < argc) opt.out = argv[++i];
		else if (a == "--case" && i + 1 < argc) { opt.kase = argv[++i]; opt.replay = true; }
		else if (a == "--jobs" && i + 1 < argc) opt.jobs = atoi(argv[++i]);
		else if (a == "--seed" && i + 1 < argc) opt.seed = atol(argv[++i]);
		else if (a == "--deadline" && i + 1 < argc) opt.deadline_s = atof(argv[++i]);
	}
	if (opt.jobs < 1) opt.jobs = 1;
	if (opt.jobs > MAXW) opt.jobs = MAXW;
	setenv("TZ", "UTC", 1); setenv("LC_ALL", "C", 1); tzset();
	shm = (Shm*)mmap(0, sizeof(Shm), PROT_READ | PROT_WRITE, MAP_SHARED | MAP_ANONYMOUS, -1, 0);
	if (shm == MAP_FAILED) { perror("mmap"); exit(2); }
	memset(shm, 0, sizeof(Shm));
	struct stat st;
	std::string base = (stat("/dev/shm", &st) == 0) ? "/dev/shm" : "/verif/build";
	scratch = base + fmt("/vf.%s.%s.%d", property, part, (int)getpid());
	mkdir(scratch.c_str(), 0700);
	atexit(rm_scratch);
	load_known();
	C_VIOL = counter("violations"); C_ABANDONED = counter("abandoned_items"); C_CRASHES = counter("worker_crashes");
#if VF_ASAN
	__asan_set_error_report_callback(asan_cb);
#endif
	signal(SIGPIPE, SIG_IGN);
}
std::string scratch_dir() { return scratch; }
std::vector<std::string> list_scratch(const std::string& prefix) {
	std::vector<std::string> r;
	DIR* d = opendir(scratch.c_str());
	if (!d) return r;
	while (dirent* e = readdir(d)) if (strncmp(e->d_name, prefix.c_str(), prefix.size()) == 0) r.push_back(scratch + "/" + e->d_name);
	closedir(d);
	std::sort(r.begin(), r.end());
	return r;
}
bool in_worker() { return is_worker; }
int worker_id() { return my_slot; }

int counter(const char* name) {
	for (size_t i = 0; i < cnames.size(); i++) if (cnames[i] == name) return (int)i;
	if (cnames.size() >= MAXC) { fprintf(stderr, "vf: too many counters\n"); exit(2); }
	cnames.push_back(name);
	return (int)cnames.size() - 1;
}
void add(int c, uint64_t n) { shm->slots[my_slot].c[c] += n; }
uint64_t get(int c) { uint64_t s = 0; for (int i = 0; i <= MAXW; i++) s += shm->slots[i].c[c]; return s; }
void note(const std::string& key, uint64_t n) { notes[key] += n; }
void sample(const std::string& s) { if (samples.size() < 8) samples.push_back(s.size() > 600 ? s.substr(0, 600) + "..." : s); }
void setinfo(const std::string& k, const std::string& v) { for (size_t i = 0; i < infos.size(); i++) if (infos[i].first == k) { infos[i].second = v; return; } infos.push_back(std::make_pair(k, v)); }
void cap_hit(const std::string& what) { caps.push_back(what); exhaustive = false; }
void set_exhaustive(bool e) { exhaustive = e; }
uint64_t nviolations() { return get(C_VIOL); }

void cur(const std::string& s) {
	Slot& sl = shm->slots[my_slot];
	size_t n = s.size() < CURLEN - 1 ? s.size() : CURLEN - 1;
	memcpy(sl.cur, s.data(), n); sl.cur[n] = 0;
	sl.sig[0] = 0;
}
void cur_sig(const char* sig) { strncpy(shm->slots[my_slot].sig, sig, 63); }

static std::string enc(const std::string& s) { return hex(s); }
static void write_viol_file(const Viol& v) {
	std::string fn = scratch + fmt("/viol.%d", my_slot);
	FILE* f = fopen(fn.c_str(), "a");
	if (!f) return;
	fprintf(f, "%s %s %s\n", enc(v.sig).c_str(), enc(v.desc).c_str(), enc(v.kase).c_str());
	fclose(f);
}
void violation(const std::string& sig, const std::string& desc, const std::string& kase) {
	add(C_VIOL);
	Viol v = { sig, desc, kase };
	viol_local++;
	if (is_worker) {
		if (viol_local <= 25) write_viol_file(v);
		if (viol_local > 400) { shm->stop = 1; }
	} else if (viols.size() < 200) viols.push_back(v);
}
bool known(const std::string& sig) { return known_sigs.count(sig) != 0; }
void known_hit(const std::string& sig, const std::string& desc) {
	note("known:" + sig);
	if (!notes.count("knownseen:" + sig)) {
		notes["knownseen:" + sig] = 1;
		if (is_worker) {
			FILE* f = fopen((scratch + fmt("/known.%d", my_slot)).c_str(), "a");
			if (f) { fprintf(f, "%s %s\n", enc(sig).c_str(), enc(desc).c_str()); fclose(f); }
		} else setinfo("knownex:" + sig, jstr(desc));
	}
}

// ---------------------------------------------------------------- workers
static void worker_flush() {
	FILE* f = fopen((scratch + fmt("/notes.%d.%d.%d", parallel_gen, my_slot, (int)getpid())).c_str(), "w");
	if (!f) return;
	for (std::map<std::string, uint64_t>::iterator it = notes.begin(); it != notes.end(); ++it)
		fprintf(f, "N %s %llu\n", enc(it->first).c_str(), (unsigned long long)it->second);
	for (size_t i = 0; i < samples.size(); i++) fprintf(f, "S %s\n", enc(samples[i]).c_str());
	for (size_t i = 0; i < caps.size(); i++) fprintf(f, "C %s\n", enc(caps[i]).c_str());
	fclose(f);
}
static std::string tail_of(const std::string& fn) {
	FILE* f = fopen(fn.c_str(), "r");
	if (!f) return "";
	fseek(f, 0, SEEK_END); long n = ftell(f); long st = n > 20000 ? n - 20000 : 0; fseek(f, st, SEEK_SET);
	std::string s(n - st, 0);
	if (fread(&s[0], 1, n - st, f)) {}
	fclose(f);
	size_t p = s.rfind("ERROR: AddressSanitizer");
	if (p == std::string::npos) p = s.rfind("terminate called");
	if (p == std::string::npos) return "";
	size_t e = s.find('\n', p);
	std::string l = s.substr(p, e == std::string::npos ? std::string::npos : e - p);
	size_t q = l.find(" (pc "); if (q != std::string::npos) l.resize(q);
	q = l.find(" on address"); if (q != std::string::npos) l.resize(q);
	return l.size() > 160 ? l.substr(0, 160) : l;
}
static pid_t spawn(int slot, const std::function<void(uint64_t)>& body, int chunk, bool resume) {
	fflush(stdout); fflush(stderr);
	pid_t pid = fork();
	if (pid != 0) return pid;
	is_worker = true; my_slot = slot;
	notes.clear(); samples.clear(); caps.clear(); viol_local = 0;
	int fd = open((scratch + fmt("/stderr.%d", slot)).c_str(), O_WRONLY | O_CREAT | O_TRUNC, 0600);
	if (fd >= 0) { dup2(fd, 2); close(fd); }
	Slot& sl = shm->slots[slot];
	uint64_t n = shm->n;
	if (resume) {
		uint64_t b = sl.cur_item + 1, e = sl.end_item;
		for (uint64_t i = b; i < e && !shm->stop; i++) { sl.cur_item = i; body(i); }
	}
	while (!shm->stop) {
		uint64_t b = __sync_fetch_and_add(&shm->next, (uint64_t)chunk);
		if (b >= n) break;
		uint64_t e = b + chunk < n ? b + chunk : n;
		sl.end_item = e;
		for (uint64_t i = b; i < e && !shm->stop; i++) { sl.cur_item = i; body(i); }
	}
	sl.cur[0] = 0;
	worker_flush();
	fflush(NULL);
	_exit(0);
}
void parallel(uint64_t n, const std::function<void(uint64_t)>& body, int chunk) {
	if (n == 0) return;
	parallel_gen++;
	shm->next = 0; shm->n = n;
	int W = opt.jobs;
	if ((uint64_t)W > (n + chunk - 1) / chunk) W = (int)((n + chunk - 1) / chunk);
	std::map<pid_t, int> pids;
	for (int w = 1; w <= W; w++) { shm->slots[w].cur[0] = 0; shm->slots[w].sig[0] = 0; shm->slots[w].cur_item = 0; shm->slots[w].end_item = 0; pids[spawn(w, body, chunk, false)] = w; }
	while (!pids.empty()) {
		int st = 0;
		pid_t p = wait(&st);
		if (p < 0) { if (errno == EINTR) continue; break; }
		if (!pids.count(p)) continue;
		int slot = pids[p]; pids.erase(p);
		bool bad = !(WIFEXITED(st) && WEXITSTATUS(st) == 0);
		if (!bad) continue;
		if (WIFEXITED(st) && WEXITSTATUS(st) == 7) { if (!shm->stop) pids[spawn(slot, body, chunk, true)] = slot; continue; } // voluntary restart (restart_worker)
		Slot& sl = shm->slots[slot];
		add(C_CRASHES);
		std::string why = WIFSIGNALED(st) ? fmt("killed by signal %d", WTERMSIG(st)) : fmt("exit status %d", WEXITSTATUS(st));
		std::string t = tail_of(scratch + fmt("/stderr.%d", slot));
		if (!t.empty()) why += " (" + t + ")";
		std::string sig = sl.sig[0] ? sl.sig : "crash";
		std::string kase = sl.cur;
		if (known(sig)) { known_hit(sig, "process died: " + why + "; case " + kase); }
		else {
			add(C_VIOL);
			Viol v = { sig, "process died: " + why, kase };
			if (viols.size() < 200) viols.push_back(v);
		}
		add(C_ABANDONED);
		if (get(C_CRASHES) > 300) { shm->stop = 1; cap_hit("more than 300 worker crashes: exploration stopped early"); }
		if (!shm->stop) pids[spawn(slot, body, chunk, true)] = slot;
	}
	if (shm->stop) { cap_hit("violation flood: exploration stopped early"); }
	// collect what the workers wrote
	std::vector<std::string> fs = list_scratch("viol.");
	for (size_t i = 0; i < fs.size(); i++) {
		FILE* f = fopen(fs[i].c_str(), "r");
		if (!f) continue;
		char* line = 0; size_t cap = 0;
		while (getline(&line, &cap, f) > 0) {
			char a[200], *b = (char*)malloc(cap + 1), *c = (char*)malloc(cap + 1);
			b[0] = c[0] = 0;
			if (sscanf(line, "%199s %s %s", a, b, c) >= 2 && viols.size() < 200) { Viol v = { unhex(a), unhex(b), unhex(c) }; viols.push_back(v); }
			free(b); free(c);
		}
		free(line); fclose(f); remove(fs[i].c_str());
	}
	fs = list_scratch("known.");
	for (size_t i = 0; i < fs.size(); i++) {
		FILE* f = fopen(fs[i].c_str(), "r");
		if (!f) continue;
		char* line = 0; size_t cap = 0;
		while (getline(&line, &cap, f) > 0) {
			char a[200], *b = (char*)malloc(cap + 1); b[0] = 0;
			if (sscanf(line, "%199s %s", a, b) >= 1) { bool had = false; for (size_t k = 0; k < infos.size(); k++) if (infos[k].first == "knownex:" + unhex(a)) had = true; if (!had) setinfo("knownex:" + unhex(a), jstr(unhex(b))); }
			free(b);
		}
		free(line); fclose(f); remove(fs[i].c_str());
	}
	fs = list_scratch(fmt("notes.%d.", parallel_gen));
	for (size_t i = 0; i < fs.size(); i++) {
		FILE* f = fopen(fs[i].c_str(), "r");
		if (!f) continue;
		char* line = 0; size_t cap = 0;
		while (getline(&line, &cap, f) > 0) {
			char k; char* a = (char*)malloc(cap + 1); unsigned long long v = 0; a[0] = 0;
			int m = sscanf(line, "%c %s %llu", &k, a, &v);
			if (m >= 2) {
				std::string s = unhex(a);
				if (k == 'N') { if (s.compare(0, 10, "knownseen:") != 0) notes[s] += v; }
				else if (k == 'S') sample(s);
				else if (k == 'C') cap_hit(s);
			}
			free(a);
		}
		free(line); fclose(f); remove(fs[i].c_str());
	}
	shm->stop = 0;
}

void restart_worker() { if (!is_worker) return; worker_flush(); fflush(NULL); _exit(7); }

// ---------------------------------------------------------------- output
int finish() {
	uint64_t nv = nviolations();
	std::string o = "{\n";
	o += " \"property\": " + jstr(opt.property) + ",\n \"part\": " + jstr(opt.part) + ",\n \"tier\": " + jstr(opt.tier) + ",\n";
	o += fmt(" \"seed\": %ld,\n \"wall_s\": %.3f,\n \"exhaustive\": %s,\n \"nviolations\": %llu,\n", opt.seed, now_s() - t0, exhaustive ? "true" : "false", (unsigned long long)nv);
	o += " \"counters\": {";
	for (size_t i = 0; i < cnames.size(); i++) o += (i ? ", " : "") + jstr(cnames[i]) + fmt(": %llu", (unsigned long long)get((int)i));
	o += "},\n \"notes\": {";
	bool first = true;
	for (std::map<std::string, uint64_t>::iterator it = notes.begin(); it != notes.end(); ++it) {
		if (it->first.compare(0, 10, "knownseen:") == 0) continue;
		o += (first ? "" : ", ") + jstr(it->first) + fmt(": %llu", (unsigned long long)it->second); first = false;
	}
	o += "},\n \"info\": {";
	for (size_t i = 0; i < infos.size(); i++) o += (i ? ", " : "") + jstr(infos[i].first) + ": " + infos[i].second;
	o += "},\n \"caps_hit\": [";
	for (size_t i = 0; i < caps.size(); i++) o += (i ? ", " : "") + jstr(caps[i]);
	o += "],\n \"samples\": [";
	for (size_t i = 0; i < samples.size(); i++) o += (i ? ", " : "") + jstr(samples[i]);
	o += "],\n \"known_desc\": {";
	first = true;
	for (std::map<std::string, std::string>::iterator it = known_desc.begin(); it != known_desc.end(); ++it) { o += (first ? "" : ", ") + jstr(it->first) + ": " + jstr(it->second); first = false; }
	o += "},\n \"violations\": [";
	for (size_t i = 0; i < viols.size(); i++)
		o += std::string(i ? "," : "") + "\n  {\"sig\": " + jstr(viols[i].sig) + ", \"desc\": " + jstr(viols[i].desc) + ", \"case\": " + jstr(viols[i].kase) + "}";
	o += "]\n}\n";
	if (opt.out.empty()) fputs(o.c_str(), stdout);
	else { FILE* f = fopen(opt.out.c_str(), "w"); if (f) { fputs(o.c_str(), f); fclose(f); } else { perror(opt.out.c_str()); return 2; } }
	for (size_t i = 0; i < viols.size() && i < 10; i++) fprintf(stderr, "[%s/%s] violation sig=%s: %s\n    case: %s\n", opt.property.c_str(), opt.part.c_str(), viols[i].sig.c_str(), viols[i].desc.c_str(), viols[i].kase.c_str());
	return nv ? 1 : 0;
}

} // namespace vf

// Default (no-op) schedule-point hooks for harnesses that do not link the vsched engine.
extern "C" __attribute__((weak)) void asl_verif_point(int, const void*) {}
extern "C" __attribute__((weak)) void asl_verif_spin(const volatile void*) {}
