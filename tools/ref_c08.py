#!/usr/bin/env python3
"""Independent reference for C08 (python3 codecs): written to stdout as a binary stream that the harness
c08_utf compares, record by record, with its own plain-C++ encoder / strict decoder.

section 1: for every Unicode scalar value 1..0x10FFFF (surrogates excluded) in ascending order, 14 bytes:
           <u32 cp> <u8 n8> <4 bytes UTF-8, zero padded> <u8 n16> <2 x u16 UTF-16 code units, zero padded>   (little endian)
section 2: 128 bytes upper(c) and 128 bytes lower(c) for c = 0..127 (ASCII-only mappings = C locale)
section 3: one byte (1 = well-formed UTF-8, 0 = ill-formed) for every byte string of length 1 and 2 (odometer order, first
           byte most significant) and then for every string of length 3 and 4 over the boundary alphabet given below.
section 4: <u32 count>, then per record <u8 n> <n bytes UTF-8 of c> <u8 m> <m bytes UTF-8 of f(c)>: every pair (c, f(c)) of a scalar value c and
           its image under str.lower / upper / title / casefold / swapcase that differs from c (sorted; multi-character images included).
           Not a reference but an input family: the harness compares asl's equalsNocase with asl's own toLowerCase on these pairs.
"""
import sys, struct, itertools

ALPHA = bytes([0x00, 0x7F, 0x80, 0xBF, 0xC0, 0xC2, 0xDF, 0xE0, 0xEF, 0xF0, 0xF4, 0xF7, 0xF8, 0xFF, 0x41, 0x61])

def main():
    out = sys.stdout.buffer
    buf = bytearray()
    pack = struct.Struct('<IB4sB2H').pack
    for cp in range(1, 0x110000):
        if 0xD800 <= cp <= 0xDFFF:
            continue
        ch = chr(cp)
        u8 = ch.encode('utf-8')
        u16 = ch.encode('utf-16-le')
        units = struct.unpack('<%dH' % (len(u16) // 2), u16)
        buf += pack(cp, len(u8), u8, len(units), units[0], units[1] if len(units) > 1 else 0)
        if len(buf) > (1 << 20):
            out.write(buf); buf = bytearray()
    out.write(buf)
    out.write(bytes(ord(chr(c).upper()) if c < 128 and len(chr(c).upper()) == 1 else c for c in range(128)))
    out.write(bytes(ord(chr(c).lower()) for c in range(128)))

    def ok(b):
        try:
            b.decode('utf-8', 'strict')
            return 1
        except UnicodeDecodeError:
            return 0
    v = bytearray()
    for n in (1, 2):
        for t in itertools.product(range(256), repeat=n):
            v.append(ok(bytes(t)))
    for n in (3, 4):
        for t in itertools.product(ALPHA, repeat=n):
            v.append(ok(bytes(t)))
    out.write(v)

    # section 4: Unicode case pairs
    pairs = set()
    for cp in range(1, 0x110000):
        if 0xD800 <= cp <= 0xDFFF:
            continue
        ch = chr(cp)
        for f in (str.lower, str.upper, str.title, str.casefold, str.swapcase):
            r = f(ch)
            if r != ch:
                pairs.add((ch, r))
    recs = bytearray()
    for a, b in sorted(pairs):
        a8, b8 = a.encode('utf-8'), b.encode('utf-8')
        recs += bytes([len(a8)]) + a8 + bytes([len(b8)]) + b8
    out.write(struct.pack('<I', len(pairs)))
    out.write(recs)
    out.flush()

if __name__ == '__main__':
    main()
