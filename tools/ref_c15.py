#!/usr/bin/env python3
"""Independent reference for C15 (python3 stdlib only).

usage: ref_c15.py <cases-file>

Each line of the cases file is   <kind> <input> <expected>
where input/expected are hex strings ("-" = empty) or, when the kind is prefixed with "F:",
paths of raw binary files, or, when the kind is prefixed with "Z:", input is a decimal number n and
stands for n zero bytes (messages too large to write out). `expected` was produced by the harness' C++ reference
implementation; this script recomputes it with the standard library and reports every
disagreement. Exit 0 = all agree, 1 = mismatch, 2 = usage / malformed file.

kinds:  b64e   base64.b64encode(input) == expected
        b64d   base64.b64decode(input) == expected      (non-alphabet characters such as whitespace are discarded)
        hexe   binascii.hexlify(input) == expected
        hexd   binascii.unhexlify(input) == expected
        urlq0  urllib.parse.quote(input, safe=<encodeURI set>) == expected
        urlq1  urllib.parse.quote(input, safe=<encodeURIComponent set>) == expected
        urlu   urllib.parse.unquote_to_bytes(input) == expected
        urlok  expected is the byte 01 when input is a percent-encoded text in the sense of RFC 3986 (only unreserved and reserved
               characters and %XX triplets; in particular no NUL byte), else the byte 00
        sha1   hashlib.sha1(input).digest() == expected
"""
import sys, base64, binascii, hashlib, urllib.parse, re

# RFC 3986: unreserved = ALPHA / DIGIT / "-" / "." / "_" / "~"; gen-delims = ":/?#[]@"; sub-delims = "!$&'()*+,;="; pct-encoded = "%" HEXDIG HEXDIG
PCT_TEXT = re.compile(rb"(?:[A-Za-z0-9\-._~:/?#\[\]@!$&'()*+,;=]|%[0-9A-Fa-f]{2})*", re.DOTALL)

# urllib.parse.quote never escapes letters, digits and "_.-~"; the rest of asl's two sets is passed as `safe`
SAFE0 = ";/?:@&=+$,#!*'()"
SAFE1 = "!*'()"


def unhex(s):
    return b'' if s == '-' else bytes.fromhex(s)


def compute(kind, data):
    if kind == 'b64e': return base64.b64encode(data)
    if kind == 'b64d': return base64.b64decode(data)
    if kind == 'hexe': return binascii.hexlify(data)
    if kind == 'hexd': return binascii.unhexlify(data)
    if kind == 'urlq0': return urllib.parse.quote(data, safe=SAFE0).encode('ascii')
    if kind == 'urlq1': return urllib.parse.quote(data, safe=SAFE1).encode('ascii')
    if kind == 'urlu': return urllib.parse.unquote_to_bytes(data)
    if kind == 'urlok': return b'\x01' if PCT_TEXT.fullmatch(data) else b'\x00'
    if kind == 'sha1': return hashlib.sha1(data).digest()
    raise ValueError('unknown kind ' + kind)


def compute_zeros(kind, n):
    if kind != 'sha1': raise ValueError('Z: is only defined for sha1')
    h = hashlib.sha1()
    chunk = bytes(1 << 22)
    while n > 0:
        k = min(n, len(chunk))
        h.update(chunk if k == len(chunk) else chunk[:k])
        n -= k
    return h.digest()


def main():
    if len(sys.argv) != 2:
        print(__doc__); return 2
    counts, bad = {}, 0
    with open(sys.argv[1]) as f:
        for ln, line in enumerate(f, 1):
            p = line.split()
            if not p: continue
            if len(p) != 3:
                print('MALFORMED line %d' % ln); return 2
            kind = p[0]
            zeros = None
            if kind.startswith('F:'):
                kind = kind[2:]
                data = open(p[1], 'rb').read(); exp = open(p[2], 'rb').read()
            elif kind.startswith('Z:'):
                kind = kind[2:]
                zeros = int(p[1]); data = b'<%d zero bytes>' % zeros; exp = unhex(p[2])
            else:
                data = unhex(p[1]); exp = unhex(p[2])
            try:
                got = compute_zeros(kind, zeros) if zeros is not None else compute(kind, data)
            except Exception as e:  # the reference side must only be given well-formed inputs
                got = None
                print('ERROR line %d kind %s: %s' % (ln, kind, e))
            counts[kind] = counts.get(kind, 0) + 1
            if got != exp:
                bad += 1
                if bad <= 10:
                    print('MISMATCH line %d kind %s input %s: python %s, harness reference %s' % (
                        ln, kind, data[:40].hex(), None if got is None else got[:60].hex(), exp[:60].hex()))
    for k in sorted(counts):
        print('ok %s %d' % (k, counts[k]))
    print('total %d mismatches %d' % (sum(counts.values()), bad))
    return 1 if bad else 0


if __name__ == '__main__':
    sys.exit(main())
