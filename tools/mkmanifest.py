#!/usr/bin/env python3
"""Regenerates /verif/MANIFEST.json and targets.mk from tools/registry.py."""
import json, sys, os, subprocess
sys.path.insert(0, os.path.dirname(os.path.abspath(__file__)))
from registry import CHECKS as ALL_CHECKS, HOOK_COMMITS, NOT_APPLICABLE, ENABLED
CHECKS = {k: v for k, v in ALL_CHECKS.items() if k in ENABLED}
props = [json.loads(l)['id'] for l in open('/verif/properties.jsonl')]
checks = []
for pid in props:
    if pid not in CHECKS: continue
    c = CHECKS[pid]
    checks.append({
        'property_id': pid,
        'quick_cmd': './check %s --tier quick' % pid,
        'thorough_cmd': './check %s --tier thorough' % pid,
        'evidence_file': '/verif/evidence/%s.json' % pid,
        'replay_cmd_template': './check %s --replay {path}' % pid,
        'engine': c.get('engine', 'seqx'),
        'level_claimed': {'category': c['level'], 'text': c['level_text'], 'design_ref': c.get('design_ref', 'DESIGN.md §5 ' + pid)},
        'level_note': c['level_note'],
        'technique': c['technique'],
    })
na = [{'property_id': p, 'reason': NOT_APPLICABLE.get(p, 'check not built yet in this tree (planned in DESIGN.md §5); not claimed')} for p in props if p not in CHECKS]
m = {
 'version': 1,
 'setup_cmd': 'make -C /verif -s -j16 setup',
 'hooks': {'guard': 'ASL_VERIF', 'enable': 'make -C /verif compiles /repo/src/*.cpp and the harnesses with -DASL_VERIF (see Makefile, flavours asan/asan_small/plain/tsan)',
           'baseline_off_cmd': 'cmake --build /repo/_build && ctest --test-dir /repo/_build -j8 --timeout 900',
           'source_commits': HOOK_COMMITS, 'add_only': True},
 'engines': [
  {'name': 'seqx', 'path': '/verif/common/vf.h', 'serves_properties': [p for p in props if p in CHECKS and CHECKS[p].get('engine', 'seqx') == 'seqx'],
   'kind_free_text': 'sequential bounded-exhaustive explorer on the real code: level-synchronous explicit-state BFS over operation histories replayed on fresh objects (canonical-state hashing), and complete odometer enumeration of finite input spaces; forked workers, ASan as memory oracle, reference models in plain C++'},
  {'name': 'vsched', 'path': '/verif/engine/vsched.cpp', 'serves_properties': [p for p in props if p in CHECKS and CHECKS[p].get('engine') == 'vsched'],
   'kind_free_text': 'controlled cooperative scheduler over real pthreads (interposed pthread/sem/socket calls + ASL_VERIF schedule points) with stateless DFS over schedules, iterative preemption bounding'},
 ],
 'checks': checks,
 'not_applicable': na,
 'notes': 'All checks rebuild asl from /repo working tree via make (dependency tracked). KNOWN_FINDINGS.txt lists known/fixed defects. See DESIGN.md.',
}
json.dump(m, open('/verif/MANIFEST.json', 'w'), indent=1)
bins = sorted({'$(B)/%s/bin/%s' % (p['flavour'], p['bin']) for c in CHECKS.values() for p in c['parts']})
open('/verif/targets.mk', 'w').write('ALL_BINS := ' + ' '.join(bins) + '\n')
print('manifest: %d checks, %d not claimed' % (len(checks), len(na)))
