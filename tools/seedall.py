#!/usr/bin/env python3
"""seedall.py [ids...] — final regression of the committed checks against every kept seeded change, with the literal procedure:
   git -C /repo apply seeded/<id>/patch.diff ; ./check <property> --tier quick ; git -C /repo checkout -- .
Writes the outcome into seeded/<id>/meta.json under "final_check" and prints one line per seed.
/repo must be clean on entry; it is verified clean after every seed (hard error otherwise)."""
import sys, os, json, subprocess, glob, time

def sh(cmd):
    return subprocess.run(cmd, shell=True, stdout=subprocess.PIPE, stderr=subprocess.STDOUT, text=True, errors='replace')

def clean():
    return sh('git -C /repo status --porcelain --untracked-files=no').stdout.strip() == ''

def main():
    ids = sys.argv[1:] or sorted(os.path.basename(os.path.dirname(p)) for p in glob.glob('/verif/seeded/*/patch.diff'))
    if not clean():
        print('ERROR: /repo has local modifications'); return 2
    head = sh('git -C /repo rev-parse --short HEAD').stdout.strip()
    bad = 0
    for sid in ids:
        d = '/verif/seeded/' + sid
        pid = sid.split('-')[0]
        t0 = time.time()
        res = {'repo_head': head, 'cmd': 'git -C /repo apply seeded/%s/patch.diff; ./check %s --tier quick; git -C /repo checkout -- .' % (sid, pid)}
        a = sh('git -C /repo apply --whitespace=nowarn %s/patch.diff' % d)
        if a.returncode:
            res['applied'] = False; res['detected'] = None; res['note'] = a.stdout[-300:]
        else:
            try:
                c = sh('cd /verif && VERIF_BUILD=/verif/build/seedrun ./check %s --tier quick' % pid)
                lines = [l for l in c.stdout.splitlines() if l.startswith('VIOLATION') or l.startswith('   sig=') or l.startswith(pid + ' ') or l.startswith('HARNESS')]
                res.update({'applied': True, 'exit': c.returncode, 'detected': c.returncode == 1, 'output': [l[:400] for l in lines[:6]]})
            finally:
                sh('git -C /repo checkout -- .')
        if not clean():
            print('ERROR: /repo not clean after', sid); return 2
        res['wall_s'] = round(time.time() - t0, 1)
        m = json.load(open(d + '/meta.json'))
        m['final_check'] = res
        json.dump(m, open(d + '/meta.json', 'w'), indent=1)
        ok = res.get('detected') is True
        if not ok: bad += 1
        print('%-7s %s %5.0fs %s' % (sid, 'DETECTED' if ok else ('NOT-APPLIED' if not res.get('applied') else 'MISSED exit=%s' % res.get('exit')), res['wall_s'], (res.get('output') or [''])[1][:160] if len(res.get('output') or []) > 1 else ''), flush=True)
    print('seeds: %d, not detected: %d' % (len(ids), bad))
    return 1 if bad else 0

sys.exit(main())
