#!/opt/veriftools/pyvenv/bin/python
import json, sys, glob, jsonschema
ev = json.load(open('/root/.vp/EVIDENCE.schema.json'))
for f in sorted(glob.glob('/verif/evidence/*.json')):
    jsonschema.validate(json.load(open(f)), ev)
    print('ok', f)
import os
if os.path.exists('/verif/MANIFEST.json'):
    jsonschema.validate(json.load(open('/verif/MANIFEST.json')), json.load(open('/root/.vp/MANIFEST.schema.json')))
    print('ok MANIFEST')
