#!/usr/bin/env python3
"""Independent reference for C17 (python3 stdlib only).
Input file, one record per line (hex fields are prefixed with '-' so that empty strings are representable):
  B <enc> -<rawhex> -<expectedhex>   BOM file bytes -> expected UTF-8 text; enc 0 = UTF-8, 1 = UTF-16LE, 2 = UTF-16BE
                                      (UTF-16: CR LF folded to LF, the documented mechanism of TextFile::text)
  S -<texthex> -<line0hex> -<line1hex> ...   reference split: at LF, one CR removed before each LF
Exit 0 when every record agrees with python's codecs / bytes.split, 1 otherwise."""
import sys, codecs

def main():
    bad = 0; n = 0
    for ln in open(sys.argv[1]):
        f = ln.split()
        if not f: continue
        n += 1
        if f[0] == 'B':
            enc = int(f[1]); raw = bytes.fromhex(f[2][1:]); exp = bytes.fromhex(f[3][1:])
            bom, codec = [(codecs.BOM_UTF8, 'utf-8'), (codecs.BOM_UTF16_LE, 'utf-16-le'), (codecs.BOM_UTF16_BE, 'utf-16-be')][enc]
            ok = raw.startswith(bom)
            if ok:
                s = raw[len(bom):].decode(codec)       # strict: raises on a malformed sequence
                if enc: s = s.replace('\r\n', '\n')
                ok = s.encode('utf-8') == exp
            if not ok:
                bad += 1; print('BAD', ln.strip()[:300])
        elif f[0] == 'S':
            text = bytes.fromhex(f[1][1:]); lines = [bytes.fromhex(x[1:]) for x in f[2:]]
            parts = text.split(b'\n')
            ref = [p[:-1] if p.endswith(b'\r') else p for p in parts[:-1]] + [parts[-1]]
            if ref != lines:
                bad += 1; print('BAD', ln.strip()[:300])
    print('%d records, %d disagreements' % (n, bad))
    sys.exit(1 if bad else 0)

main()
