#!/usr/bin/env python3
"""ed.py <file> <old-text-file> <new-text-file>: exact unique replacement that preserves the file's CRLF/LF style."""
import sys
f, o, n = sys.argv[1:4]
b = open(f, 'rb').read()
crlf = b'\r\n' in b
t = b.replace(b'\r\n', b'\n')
old = open(o, 'rb').read().replace(b'\r\n', b'\n')
new = open(n, 'rb').read().replace(b'\r\n', b'\n')
if old.endswith(b'\n') and not new.endswith(b'\n') and new: new += b'\n'
c = t.count(old)
if c != 1:
    sys.exit('ed.py: old text occurs %d times in %s' % (c, f))
t = t.replace(old, new)
if crlf: t = t.replace(b'\n', b'\r\n')
open(f, 'wb').write(t)
