#!/usr/bin/env python3
"""seedtest.py <ID> [--src /tmp/seed_out/<ID>] [--tier quick] [--no-check]
Confirms a seeded change independently and runs the property's check against it:
 1. scratch worktree of /repo + patch: builds, the 28 repository tests pass;
 2. the demonstration fails with the change and passes without it;
 3. applies the patch to /repo, runs ./check <ID>, and undoes it (git checkout -- .);
 4. stores patch.diff, the demonstration and meta.json (with what was run and observed) under /verif/seeded/<ID>[-n]/.
"""
import sys, os, json, subprocess, shutil, re

def sh(cmd, **kw):
    return subprocess.run(cmd, shell=True, stdout=subprocess.PIPE, stderr=subprocess.STDOUT, text=True, errors='replace', **kw)

def main():
    pid = sys.argv[1]
    src = '/tmp/seed_out/' + pid
    tier = 'quick'; do_check = True; name = pid; wt_check = False
    a = sys.argv[2:]
    while a:
        if a[0] == '--src': src = a[1]; a = a[2:]
        elif a[0] == '--tier': tier = a[1]; a = a[2:]
        elif a[0] == '--name': name = a[1]; a = a[2:]
        elif a[0] == '--no-check': do_check = False; a = a[1:]
        elif a[0] == '--worktree-check': wt_check = True; a = a[1:]
        else: a = a[1:]
    patch = os.path.join(src, 'patch.diff')
    meta = json.load(open(os.path.join(src, 'meta.json')))
    wt = '/tmp/sv_' + name
    sh('git -C /repo worktree remove --force %s; rm -rf %s' % (wt, wt))
    r = sh('git -C /repo worktree add %s HEAD' % wt)
    res = {'seed': name, 'property': pid}
    try:
        r = sh('git -C %s apply --whitespace=nowarn %s' % (wt, patch))
        if r.returncode: res['apply'] = 'FAILED: ' + r.stdout[-300:]; print(json.dumps(res, indent=1)); return 1
        r = sh('cmake -G Ninja -S %s -B %s/_build -DCMAKE_BUILD_TYPE=RelWithDebInfo -DASL_TESTS=ON >/dev/null && cmake --build %s/_build 2>&1 | tail -3 && ctest --test-dir %s/_build -j8 2>&1 | tail -4' % (wt, wt, wt, wt))
        res['tests_with_change'] = 'PASS' if '100% tests passed' in r.stdout and 'out of 28' in r.stdout else 'FAIL: ' + r.stdout[-400:]
        # demonstration: the author's build command with paths redirected to this worktree, else a default
        demo = [f for f in os.listdir(src) if f.startswith('demo') and f.endswith('.cpp')]
        demo_res = {}
        if demo:
            d = os.path.join(src, demo[0])
            def build_and_run(root, lib, tag):
                exe = '/tmp/sv_demo_%s_%s' % (name, tag)
                cmd = meta.get('demo_build', '')
                cmds = []
                m = re.findall(r'g\+\+[^\n;&|]*', cmd if isinstance(cmd, str) else ' ; '.join(cmd))
                if m:
                    c = re.sub(r'/tmp/seed\d*_%s' % pid, root, m[0])
                    c = re.sub(r'(\S*/)?demo\.cpp', d, c)
                    c = re.sub(r'-o\s+\S+', '', c) + ' -o ' + exe
                    cmds.append(c)
                cmds.append('g++ -std=c++11 -O2 -g -I%s/include -DASL_STATIC %s %s -lpthread -ldl -o %s' % (root, d, lib, exe))
                out = ''
                for c in cmds:
                    b = sh(c)
                    if b.returncode == 0:
                        rr = sh('timeout 300 ' + exe)
                        sh('rm -f ' + exe)
                        return rr.returncode, rr.stdout[-500:]
                    out = b.stdout[-300:]
                return None, 'build failed: ' + out
            rc1, o1 = build_and_run(wt, wt + '/_build/lib/libasls.a', 'with')
            rc0, o0 = build_and_run('/repo', '/repo/_build/lib/libasls.a', 'without')
            demo_res = {'with_change': {'exit': rc1, 'tail': o1}, 'without_change': {'exit': rc0, 'tail': o0}}
        res['demo'] = demo_res
        if do_check and wt_check:
            c = sh('cd /verif && VERIF_REPO=%s VERIF_BUILD=%s/_vb ./check %s --tier %s' % (wt, wt, pid, tier))
            lines = [l for l in c.stdout.splitlines() if l.startswith('VIOLATION') or l.startswith('   sig=') or l.startswith(pid + ' ')]
            res['check'] = {'cmd': 'VERIF_REPO=<scratch worktree with patch.diff applied> ./check %s --tier %s' % (pid, tier), 'exit': c.returncode, 'detected': c.returncode == 1, 'output': lines[:8]}
            do_check = False
    finally:
        sh('rm -rf %s/_build %s/_vb; git -C /repo worktree remove --force %s' % (wt, wt, wt))
    if do_check:
        st = sh('git -C /repo status --porcelain --untracked-files=no')
        if st.stdout.strip():
            res['check'] = 'SKIPPED: /repo has local modifications'
        else:
            r = sh('git -C /repo apply --whitespace=nowarn %s' % patch)
            try:
                c = sh('cd /verif && VERIF_BUILD=/verif/build/seedrun ./check %s --tier %s' % (pid, tier))
                lines = [l for l in c.stdout.splitlines() if l.startswith('VIOLATION') or l.startswith('   sig=') or l.startswith(pid + ' ')]
                res['check'] = {'cmd': 'git -C /repo apply patch.diff; ./check %s --tier %s; git -C /repo checkout -- .' % (pid, tier), 'exit': c.returncode, 'detected': c.returncode == 1, 'output': lines[:8]}
            finally:
                sh('git -C /repo checkout -- .')
    out = '/verif/seeded/' + name
    os.makedirs(out, exist_ok=True)
    shutil.copy(patch, out + '/patch.diff')
    for f in os.listdir(src):
        if f.startswith('demo'): shutil.copy(os.path.join(src, f), out)
    meta['verified'] = res
    json.dump(meta, open(out + '/meta.json', 'w'), indent=1)
    print(json.dumps(res, indent=1)[:3000])

main()
