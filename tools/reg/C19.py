CHECK = {
  'level': 'exploration',
  'technique': 'bounded exhaustive enumeration of the input space on the real code (all days, all offsets, all short strings / edit neighbourhoods) against a reference calendar; ASan oracle',
  'level_text': 'Complete enumeration of every day of years 1-9999 (x times of day), every second of 200 boundary days, every zone offset and spelling, and every string within 2 edits of 8 templates, executed on the real Date code; no sampling. Right level because the calendar arithmetic has a finite, enumerable domain.',
  'level_note': 'Trusts g++/ASan, glibc gmtime_r as the independent calendar, TZ=UTC. Sub-second instants are covered on a boundary grid only.',
  'rule': 'complete enumeration: every day 0001-01-01..9999-12-31 x times of day; every second of 200 days; every zone offset; 1-9 fraction digits; '
          'all strings <=5 over the date alphabet and all 1-/2-edit neighbours and truncations of 8 date templates; distinct_nontrivial = distinct days / instants / offsets (parse strings are counted in evaluations only)',
  'parts': [{'bin': 'c19_date', 'flavour': 'asan', 'deadline': {'quick': 600, 'thorough': 3000}}],
  'bounds': {'quick': 'all 3652059 days x 3 times of day; 200 days x 86400 s; offsets -23:59..+23:59 x 3 spellings; parse edits: pairs within distance 6',
             'thorough': 'all days x 10 times of day; 200 days x 86400 s with all formats; all edit pairs'},
  'assumptions': ['TZ=UTC, LC_ALL=C', 'reference calendar = days-from-civil arithmetic cross-checked against glibc gmtime_r on every day', 'g++ -O2 + AddressSanitizer (slack after each NUL poisoned)'],
 }
