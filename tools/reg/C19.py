CHECK = {
  'level': 'exploration',
  'technique': 'bounded exhaustive enumeration of the input space on the real code (all days, all offsets, all doubles within 3 steps of the millisecond-rounding ties, all short strings / edit neighbourhoods / structure vectors) against a reference calendar, in two time zones; ASan oracle; determinism under three heap fill bytes',
  'level_text': 'Complete enumeration of every day of years 1-9999 (x times of day), every second of 200 distinct boundary days, the doubles within 3 steps of the '
                'millisecond-rounding ties (x.0005/x.4995/x.9995 s) at second/day/year boundaries and before every year start, every zone offset in three spellings with and '
                'without seconds, 1-9 fraction digits with eight zone forms, all executed on the real Date code under TZ=UTC and again under the fixed-offset zone TZ=VRF-05 '
                '(UTC+05:00, no DST) where UTC and local time differ; every string within 2 edits of 8 templates, every structure vector (classes at the positions the ISO parser '
                'inspects) of body length 8..22 x tails up to total length 40; HTTP-shaped strings re-parsed under three heap fill bytes. No sampling. Right level because the '
                'calendar arithmetic has a finite, enumerable domain and the floating-point hazards sit at enumerable ties.',
  'level_note': 'Trusts g++/ASan, glibc gmtime_r as the independent calendar (cross-checked on every day), glibc POSIX TZ strings. Sub-second instants: a grid of fractions plus the doubles '
                'within 3 steps of each tie on the listed boundaries (thorough: before every day start and every second of the 200 days); other sub-second instants are not enumerated. '
                'ISO texts produced by the library (LONG, SHORT, FULL; UTC and local) are compared through the instant they denote, read by an independent ISO 8601 reader of the layout of the format '
                '(SHORT basic, LONG/FULL extended, FULL with at least the milliseconds): any valid spelling passes (other number of fraction digits, numeric offset instead of Z or of no designator, omitted zero seconds); '
                'only the HTTP text, which RFC 7231 fixes completely, is compared literally. "To the millisecond" is read as: the FULL text denotes an instant within 1 ms of t (truncation, nearest, rounding up), '
                'splitUTC and the texts without fraction show the second of a whole millisecond within 1 ms of t. A zone offset written in the other layout (basic date-time with +hh:mm, extended with +hhmm) is not ISO 8601: invalid or the shifted instant are both accepted. '
                'Local-time expectations (zone-less texts, Date(y,m,d,...)) are checked as documented behaviour under the two fixed zones only; half-hour zones are out of scope '
                '(Date::localOffset works in whole hours). Values of the format-driven parser Date(str, fmt) are not compared (the statement is silent on them): ASan oracle only.',
  'rule': 'complete enumeration: every day 0001-01-01..9999-12-31 x times of day; every second of 200 distinct days; doubles -3..+3 steps around the ms ties on 216 boundary instants and around '
          'the two ties at every year start; every zone offset -23:59..+23:59 as +hh:mm and +hhmm, whole hours as +hh, with and without seconds, offset 0 also as Z and zone-less; 1-9 fraction digits x 6 digit patterns x 8 zone forms; '
          'the value families again under TZ=VRF-05; all strings <=5 over the date alphabet, all 1-/2-edit neighbours and truncations of 8 date templates, structure vectors of body length 8..22 x tails; '
          'distinct_nontrivial = distinct days / instants / offsets of the UTC pass (parse strings and the zone pass are counted in evaluations only)',
  'parts': [{'bin': 'c19_date', 'flavour': 'asan', 'deadline': {'quick': 900, 'thorough': 4500}}],
  'bounds': {'quick': 'UTC pass: all 3652059 days x 3 times of day (local texts at 12:00 only); 200 days x 86400 s (texts every 61st s); 216 boundary instants x (13 fractions + 3 ties x 7 doubles); '
                      '9999 year starts x 2 ties x 7 doubles; offsets -23:59..+23:59 x 2 spellings + 47 whole hours x 5 days x 3 times of day x (with / without seconds) x (extended / basic); 9 x 6 fractions x 8 zone forms x 2 layouts x 2 instants. '
                      'Zone pass (TZ=VRF-05): all days at 20:00:00 (fields and constructors), every day of 18 boundary years x 3 times of day with all texts, 200 days x every 61st second, the 216 x 34 fraction instants, all offsets, all fractions. '
                      'Parsers: 14^0..14^5 strings x 5 parsers; template edits: pairs within distance 6; structure vectors: 4 classes on <=8 positions, body 8..22, 8 tails (2.0M strings, lengths 8..40); 8 templates x 16 tails; '
                      '163k HTTP-shaped strings x 3 heap fill bytes',
             'thorough': 'UTC pass: all days x 10 times of day with all texts; 200 days x 86400 s with all texts; as quick for fractions, plus the tie (7 doubles) before every one of the 3652059 day starts and the tie (3 doubles) before every second of the 200 days; '
                         'zone pass: all days at 20:00:00 with all texts, 200 days x 86400 s (texts every 61st s), year-start ties, rest as quick. '
                         'Parsers: all edit pairs; structure vectors: 6 classes, 16 tails (94M strings); HTTP-shaped strings of all edit pairs x 3 heap fill bytes'},
  'assumptions': ['pass 1 TZ=UTC, pass 2 TZ=VRF-05 (fixed UTC+05:00, no DST); LC_ALL=C', 'reference calendar = days-from-civil arithmetic cross-checked against glibc gmtime_r on every day',
                  'g++ -O2 + AddressSanitizer (slack after each NUL poisoned); ASan honours ASAN_OPTIONS=malloc_fill_byte (verified by a probe in every child)'],
 }
