CHECK = {
  'level': 'exploration',
  'technique': 'bounded exhaustive enumeration of typed item sequences x byte order per position on the real stream operators against a reference serializer; ASan oracle',
  'level_text': 'placeholder',
  'level_note': 'placeholder',
  'rule': 'placeholder',
  'parts': [{'bin': 'c16_streams', 'flavour': 'asan', 'deadline': {'quick': 600, 'thorough': 3000}}],
  'bounds': {'quick': 'placeholder', 'thorough': 'placeholder'},
  'assumptions': [],
 }
