CHECK = {
  'level': 'exploration',
  'technique': 'bounded exhaustive enumeration of complete input grids on the real templates (Matrix4_/Matrix3_/Matrix_/Quaternion_ instantiated over '
               'a symbolic-quotient scalar, prime fields and float/double) against an integer / long-double reference; ASan oracle for the heap-based solver',
  'level_text': 'Exact clauses are decided, not sampled: inverse() is run with the single quotient 1/d kept symbolic, so the adjugate and the determinant '
                'are observed as polynomials on ALL 3^16 matrices over {-1,0,1} (3x3: all 5^9 over {-2..2}); every entry has degree <= 2 per variable, hence '
                'agreement on a 3-point grid per variable is agreement as polynomials, and M*adj = det*I / Leibniz are checked for the reference on the same grid. '
                'solve() runs over GF(p) on every non-singular system of the small fields (every zero pattern = every pivot/row-exchange pattern) and on forced-pivot '
                'P*U / P*L*U systems up to 12x12 with three pivot preferences. Floating-point clauses and the rotation conversions are run on complete grids '
                '(integer matrices, 15-degree Euler grid x 24 conventions, integer quaternions, axis-angle incl. 0/180 degrees) and compared as the statement says '
                '(residual <= c*eps*kappa; rotations compared as rotations).',
  'level_note': 'Grid argument assumes the computed adjugate/determinant expressions have degree <= 2 in each entry (true for any single-site change of the '
                'cofactor expressions); the fixed generic points over GF(2^61-1) cover higher degrees as in the property quantifier. Floating-point and rotation '
                'clauses are bounded-exhaustive over the stated grids only (no small-angle axis-angle cases: conditioning 1/sin(angle/2) is part of the tolerance). '
                'Trusts g++ long double, libm sinl/cosl, ASan.',
  'rule': 'c20_matrix: all 3^16 4x4 matrices over {-1,0,1} (symbolic inverse, det, det(A*B_k), float+double inverse residual), all 3x3 over {-1,0,1} and {-2..2}, '
          'det(AB)=det(A)det(B) for all 3^18 pairs of 3x3 grid matrices, fixed points over GF(2^61-1); '
          'c20_solve: every nxn system over GF(p) for the listed (p,n), P*U/P*L*U up to 12x12, exact least squares for all integer mxn grids listed, float/double grids and families; '
          'c20_rot: Euler grid x 24 conventions x {float,double}, each matrix converted to all 24 conventions, quaternion, axis-angle and back, repeated on rotation().matrix(). '
          'distinct_nontrivial = non-singular matrices / full-rank systems / source rotations; evaluations = asl calls compared with the reference',
  'parts': [
    {'bin': 'c20_matrix', 'flavour': 'plain', 'deadline': {'quick': 600, 'thorough': 3000}},
    {'bin': 'c20_solve', 'flavour': 'asan', 'deadline': {'quick': 600, 'thorough': 3000}},
    {'bin': 'c20_rot', 'flavour': 'asan', 'deadline': {'quick': 600, 'thorough': 3000}},
  ],
  'bounds': {
    'quick': '4x4: all 43046721 matrices over {-1,0,1}, det(A*B) with 1 fixed B; 3x3: all 19683 + 1953125; 3^18 3x3 pairs; 4e5 GF(2^61-1) points; '
             'solve: all systems over GF(2) n<=4, GF(3) n<=3, GF(5) n<=3, GF(7) n=2; P*U/P*L*U all permutations n<=6, structured n<=12; lsq integer grids 2x1,3x1 over {-2..2}, 3x2 over {-1,0,1} and {-2..2}, 4x2, 5x2 over {-1,0,1}; '
             'float+double: 3x3 over {-2..2}, 4x4 over {0,1}, families n<=12 (all row permutations n<=6); rotations: 15 deg grid (24^3) x 24 conventions (moving-frame sources converted to everything, '
             'fixed-frame sources bit-identical to them), quaternions {-3..3}^4, 124 axes x 49 angles, each x {float,double}',
    'thorough': 'as quick plus det(A*B) with 3 fixed B, 4e6 GF points; all 5x5 systems over GF(2); permutations n<=8 (float n<=7); lsq 4x3 over {-1,0,1}, 4x2 over {-2..2}; '
                'double solve(A, I) for all 4x4 over {-1,0,1}; rotations: 7.5 deg grid (48^3) x 24 conventions, quaternions {-5..5}^4, 97 angles'},
  'assumptions': ['g++ -O2; exact side in 64-bit integers / GF(p) with 128-bit products; reference rotations in x87 long double',
                  'residual bound c = 8 (inverse, solve), kappa_inf from the exact adjugate resp. a long-double full-pivoting inverse; only systems with kappa*eps < 1/64 count as well-conditioned',
                  'rotation tolerance 16 eps (to matrix/quaternion), 64 eps x conditioning (back to angles / axis-angle); rotations compared by max-abs matrix distance, never by angle triples',
                  'asl Matrix3::operator* is affine-only by design and is not used; products are formed by the harness'],
 }
