CHECK = {
  'level': 'exploration',
  'technique': 'tbd',
  'level_text': 'tbd',
  'level_note': 'tbd',
  'rule': 'tbd',
  'parts': [{'bin': 'c20_matrix', 'flavour': 'plain', 'deadline': {'quick': 600, 'thorough': 3000}}],
  'bounds': {'quick': '', 'thorough': ''},
  'assumptions': [],
 }
