CHECK = {
  'level': 'exploration',
  'technique': 'bounded exhaustive enumeration of complete input grids on the real templates (Matrix4_/Matrix3_/Matrix_/Quaternion_ instantiated over '
               'a symbolic-quotient scalar, prime fields and float/double) against an integer / long-double reference; ASan oracle for the heap-based solver',
  'level_text': 'Exact clauses are decided, not sampled: inverse() is run with the single quotient 1/d kept symbolic, so the adjugate and the determinant '
                'are observed as polynomials on ALL 3^16 matrices over {-1,0,1} (3x3: all 5^9 over {-2..2}); every entry has degree <= 2 per variable, hence '
                'agreement on a 3-point grid per variable is agreement as polynomials, and M*adj = det*I / Leibniz are checked for the reference on the same grid. '
                'What is demanded is the value (q_ij/div = adj_ij/det, cross-multiplied, at every non-singular grid point); the literal shape adjugate * 1/det is only '
                'what lets the singular points count as observations, any other shape is reported as "not observed" (cap), never as a violation. '
                'solve() runs over GF(p) on every non-singular system of the small fields (every zero pattern = every pivot/row-exchange pattern) and on forced-pivot '
                'P*U / P*L*U systems up to 12x12 with three pivot preferences; after every call the caller\'s A and b are read back, and solve(A, A) must be I. Exact '
                'least squares goes through solve(), solve_() with the non-square system, pseudoinverse()*b, with 1 and 3 right-hand sides. Floating-point clauses and '
                'the rotation conversions are run on complete grids (integer matrices also scaled by 2^+-40 / 2^+-20, rigid transforms translate*rotateE, 15-degree Euler '
                'grid x 24 conventions, middle angles at (m/8)*2^-e from gimbal lock for every octave down to 2^-52, integer quaternions, axis-angle incl. 0/180 degrees '
                'and angles 15*2^-j degrees down to j = 40) and compared as the statement says (residual <= c*eps*kappa; rotations compared as rotations; bit-identity '
                'between API variants is used to skip work only).',
  'level_note': 'Grid argument assumes the computed adjugate/determinant expressions have degree <= 2 in each entry (true for any single-site change of the '
                'cofactor expressions); the fixed generic points over GF(2^61-1) cover higher degrees as in the property quantifier. Floating-point and rotation '
                'clauses are bounded-exhaustive over the stated grids only. The rotation tolerance grants the extraction formulas their conditioning (1/rho near gimbal '
                'lock, 1/sin(angle/2) for axis-angle); a converter that is exact to a few eps everywhere would pass as well. solveZero() is exercised only on linear '
                'residuals (where one Gauss-Newton step is the least-squares solution), not as a nonlinear solver. Trusts g++ long double, libm sinl/cosl, ASan.',
  'rule': 'c20_matrix: all 3^16 4x4 matrices over {-1,0,1} (symbolic inverse, det, det(A*B_k), float+double inverse residual, also scaled by powers of two), all 3x3 over {-1,0,1} and {-2..2}, '
          'rigid transforms translate({-2..2}^3)*rotateE(grid) and 2D similarity transforms at three scales, '
          'det(AB)=det(A)det(B) for all 3^18 pairs of 3x3 grid matrices, fixed points over GF(2^61-1); '
          'c20_solve: every nxn system over GF(p) for the listed (p,n) incl. operands read back and solve(A,A), P*U/P*L*U up to 12x12, exact least squares for all integer mxn grids listed '
          '(solve, solve_, pseudoinverse; 1 and 3 right-hand sides), float/double grids (also scaled), least-squares grids through solve/solve_/pseudoinverse/solveZero, families; '
          'c20_rot: Euler grid x 24 conventions x {float,double}, each matrix converted to all 24 conventions, quaternion, axis-angle and back, repeated on rotation().matrix(); '
          'near-degenerate middle angles converted back in every near-degenerate convention; small angles. '
          'distinct_nontrivial = non-singular matrices / full-rank systems / source rotations; evaluations = asl calls compared with the reference',
  'parts': [
    {'bin': 'c20_matrix', 'flavour': 'plain', 'deadline': {'quick': 600, 'thorough': 3000}},
    {'bin': 'c20_solve', 'flavour': 'asan', 'deadline': {'quick': 600, 'thorough': 3000}},
    {'bin': 'c20_rot', 'flavour': 'asan', 'deadline': {'quick': 600, 'thorough': 3000}},
  ],
  'bounds': {
    'quick': '4x4: all 43046721 matrices over {-1,0,1}, det(A*B) with 1 fixed B; float+double inverse also at scales 2^-40/2^+40 (float 2^-20/2^+20) for all 3^12 affine ones (last row 0 0 0 1) and all 3x3; '
             '3x3: all 19683 + 1953125; rigid 4x4: translate(all of {-2..2}^3) * rotateE(30 deg grid 12^3, orders XYZ, ZXZ, YZX*) x 3 scales; 2D: translate({-2..2}^2)*rotate(96 angles)*scale(1,3) x 3 scales; '
             '3^18 3x3 pairs; 4e5 GF(2^61-1) points; '
             'solve: all systems over GF(2) n<=4, GF(3) n<=3, GF(5) n<=3, GF(7) n=2 (operands read back after every call; solve(A,A) per matrix and pivot preference); P*U/P*L*U all permutations n<=6, structured n<=12; '
             'lsq integer grids 2x1,3x1 over {-2..2}, 3x2 over {-1,0,1} and {-2..2}, 4x2, 5x2 over {-1,0,1}: solve() under 3 pivot preferences with every listed b and with 3 right-hand sides at once, solve_() and pseudoinverse()*b under the first preference; '
             'float+double: 3x3 over {-2..2}, 4x4 over {0,1}, families n<=12 (all row permutations n<=6); scaled by 2^-40/2^+40 (float 2^-20/2^+20): 3x3 over {-1,0,1}, 4x4 over {0,1}, all families; '
             'float+double least squares through solve/solve_/pseudoinverse (2 right-hand sides) and solveZero (linear residual): 2x1, 3x1, 3x2 over {-2..2}, 3x2, 4x2 over {-1,0,1}, square 2x2 over {-2..2}, 3x3 over {-1,0,1}; '
             'rotations: 15 deg grid (24^3) x 24 conventions (moving-frame sources converted to everything, fixed-frame sources too unless bit-identical to one of them); '
             'near gimbal lock: 24 conventions x outer angles on the 45 deg grid (8^2) x {+90,-90 | 0,180} x {+,-} x offsets (m/8)*2^-e rad, m = 8..15, e = 5..27 (float 5..16), then 2^-e to 2^-52 (float 2^-24); '
             'quaternions {-3..3}^4, 124 axes x (49 angles + 15*2^-j deg, j = 1..40 (float 20), both signs), zero axis x 48 angles, each x {float,double}',
    'thorough': 'as quick plus det(A*B) with 3 fixed B, 4e6 GF points; scaled float+double inverses for all 3^16; rigid 4x4 on the 15 deg grid (24^3), 2D on 360 angles; all 5x5 systems over GF(2); permutations n<=8 (float n<=7); '
                'lsq 4x3 over {-1,0,1}, 4x2 over {-2..2}, solve_() and pseudoinverse() under all 3 pivot preferences; float lsq grids 5x2, 4x3 over {-1,0,1}, 4x2 over {-2..2}; scaled 3x3 over {-2..2}; '
                'double solve(A, I) for all 4x4 over {-1,0,1}; rotations: 7.5 deg grid (48^3) x 24 conventions, fixed-frame sources of the 15 deg sub-grid always converted to everything; '
                'near gimbal lock: outer angles on the 15 deg grid (24^2); quaternions {-5..5}^4, 97 angles'},
  'assumptions': ['g++ -O2; exact side in 64-bit integers / GF(p) with 128-bit products; reference rotations in x87 long double',
                  'residual bound c = 8 (inverse, solve), kappa_inf from the exact adjugate resp. a long-double full-pivoting inverse; only systems with kappa*eps < 1/64 count as well-conditioned',
                  'rotation tolerance 16 eps (to matrix/quaternion), 64 eps x conditioning (back to angles / axis-angle: max(1, 1/rho) with rho = |cos(middle)| resp. |sin(middle)| resp. |sin(angle/2)|); rotations compared by max-abs matrix distance, never by angle triples',
                  'power-of-two scaling of an integer matrix is exact in float/double (no overflow/underflow at 2^+-40 / 2^+-20 for n <= 4), so the scaled systems have the same exact solution up to the scale',
                  'a zero axis with a non-zero angle is taken to mean "no rotation" (only the rotation, not the norm of the quaternion, is compared)',
                  'asl Matrix3::operator* is affine-only by design and is not used; products are formed by the harness'],
 }
