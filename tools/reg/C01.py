CHECK = {
  'level': 'model_checking',
  'engine': 'seqx',
  'technique': 'explicit-state model checking of the implementation: level-synchronous BFS over all operation histories up to a depth, each replayed on fresh real Array/Stack/Queue objects, canonical-state hashing, std::vector reference model compared after every step; ASan + live-instance registry + allocation delta as oracles',
  'level_text': 'Every history of Array operations (38 per handle incl. aliasing forms, 3 handle slots, clones, macro resizes over the 2048-byte growth switch) up to the stated depth is executed on the real code from a fresh object graph and compared with a std::vector model after each step; states are deduplicated by a canonical form containing model contents and implementation shape (capacity, share count). This is the right level because the property quantifies over operation histories, which unit tests sample once.',
  'level_note': 'Bounded depth (not a fixed point); values from {0,1,2,3}; 3 handle slots. Trusts g++ -O2, ASan detection, the std::vector model. Growth through one handle while another handle shares the block is a known finding (pruned, counted).',
  'rule': 'BFS over operation histories; a state is distinct by canonical form (slot->object map, contents, capacity, share count); every transition is one complete replay on the real code',
  'parts': [{'bin': 'c01_array', 'flavour': 'asan', 'deadline': {'quick': 400, 'thorough': 2400}}],
  'bounds': {'quick': 'Array<Tracked>, Array<int> depth 6; Array<String> depth 5; Stack+Queue<Tracked> depth 9, <String> depth 8',
             'thorough': 'Array<Tracked>, Array<int> depth 7; Array<String> depth 6; Stack+Queue depth 11 / 10'},
  'assumptions': ['sequential use only (threads are C12)', 'elements compared by value; Tracked elements carry a serial number in a live-set so double construction/destruction is observable although asl relocates elements bitwise'],
}
