CHECK = {
  'level': 'model_checking',
  'engine': 'vsched',
  'technique': 'bounded exhaustive enumeration of environment behaviours on the real code: HttpServer::serve(Socket) runs over an in-memory connection whose every read/available/select answer is decided by the harness (interposed socket syscalls, virtual clock); every request target over two token alphabets, a grammar of request streams each cut at every byte (peer closes), split in two chunks at every byte, delivered byte-wise and with 1-byte reads; all short URL strings; ASan + termination (step budget) + delivered-request equality',
  'level_text': 'Each stream x delivery pattern is one complete execution of the real request reader, header parser, body reader (length and chunked), keep-alive loop and file/Range code on a scripted socket; a handler records what the application is handed. Complete well-formed streams must deliver exactly the requests sent (method, decoded path, query string and parameters, headers with case-insensitive lookup, body); every stream, including every early close, must terminate within a step budget without ASan report, descriptor misuse or leak, and no delivered path may contain "..".',
  'level_note': 'Stream grammar and alphabets are finite and stated; targets up to 6/8 tokens (not 12). TLS and real TCP timing are out of scope; blocking is modelled (a read with no data and no end-of-stream cannot occur because every stream ends).',
  'rule': 'one execution per (stream, delivery pattern) / target / URL string; transitions = environment calls answered',
  'parts': [{'bin': 's_c09_http', 'flavour': 'asan', 'deadline': {'quick': 500, 'thorough': 2400}}],
  'bounds': {'quick': 'targets <=6 tokens over {. / %2e %2f %25 a}, <=5 over {/ a ? # = & % +}; all streams x (whole, every cut, every 2-split, byte-wise, read(1)); URL strings <=6 over 11 chars', 'thorough': 'targets <=8 / <=6; URL strings <=7'},
  'assumptions': ['socket syscalls are replaced by the vnet model (FIFO byte stream, select level-triggered)'],
}
