CHECK = {
  'level': 'exploration',
  'engine': 'seqx',
  'technique': 'bounded exhaustive enumeration of Var trees (<=5 nodes), string/key alphabets, double/float bit-pattern grids and file alignments through the real encoder and decoder, with python json as the independent strict parser; ASan',
  'level_text': 'Every Var tree with at most 5 nodes over 8 leaf kinds and 5 keys (incl. quotes, backslash, slash, control and non-ASCII bytes, empty key), every string of length <=2 over a 15-symbol alphabet as value and as key, every double exponent x 4 mantissa patterns x sign, k/10^n, the float analogue and the int boundaries are encoded in all modes, decoded by asl and compared type-aware (doubles bit for bit, floats as floats in exact modes), and every exact-mode JSON text is parsed by python json (strict) and compared. Files: 1-3 byte documents and a token-rich tail at every alignment against the 16000-byte flush and 16382-byte read chunk.',
  'level_note': 'Complete within the stated alphabets/sizes; larger documents add no new control path (data-independent loops). SIMPLE/NICE modes are checked to 15 digits only (documented reduced precision). Xdl only with identifier keys.',
  'rule': 'odometer enumeration of trees / strings / bit patterns / pad lengths; each case distinct by construction',
  'parts': [{'bin': 'c05_jsonenc', 'flavour': 'asan', 'deadline': {'quick': 400, 'thorough': 2400}}],
  'bounds': {'quick': 'trees <=5 nodes depth<=3; strings <=3; all exponents; every file alignment', 'thorough': 'trees <=6 nodes depth<=4; strings <=4'},
  'assumptions': ['python3 json.loads (strict, non-finite constants rejected) is the independent parser', 'LC_ALL=C'],
}
