CHECK = {
  'level': 'model_checking',
  'engine': 'seqx',
  'technique': 'explicit-state model checking of the implementation: BFS over all operation histories up to a depth on real Map/Dic/HashMap/HashDic/Set objects (two containers, clones, tiny hash tables so every key pair collides and growth is crossed), std::map/std::set reference compared after every step; ASan + allocation delta',
  'level_text': 'All histories of set/[]/remove/clear/clone/add(merge) and set algebra over 5 colliding keys on two containers are executed on the real code and compared with std::map/std::set after every step, including enumeration (each entry exactly once, ascending for Map), equality between containers built by different histories, and allocation balance. States are deduplicated by canonical form including table size and chain order.',
  'level_note': 'Bounded depth; 5 keys per container; handle copies of one HashMap/Map across growth are excluded (same root cause as the C01 known finding; the statement speaks of clones), as are self-assignment and self-merge. Trusts g++ -O2, ASan, std::map.',
  'rule': 'BFS over operation histories; state distinct by canonical form (contents + capacity / table size + chain order)',
  'parts': [{'bin': 'c02_maps', 'flavour': 'asan', 'deadline': {'quick': 400, 'thorough': 2400}}],
  'bounds': {'quick': 'Map<int> depth 5, Dic depth 4, HashMap<int> depth 5, HashDic depth 4, Set depth 6', 'thorough': 'Map<int> 6, Dic 5, HashMap<int> 7, HashDic 6, Set 7'},
  'assumptions': ['keys: ints {1,2,3,257,513} (congruent mod 256; all collide in tables of 1-4 bins), strings "Ab"/"BA" (equal hash) and 20-char common prefixes', 'sequential use only'],
}
