CHECK = {
  'level': 'exploration',
  'engine': 'seqx',
  'technique': 'bounded exhaustive enumeration of byte strings (all strings over a 16-symbol markup alphabet, all byte-prefixes of all sequences of 23 markup tokens, truncation/edit neighbourhoods of documents) through the real Xml::decode under ASan with the input slack poisoned, and of element trees through the real Xml::encode -> Xml::decode compared against a std-only tree model',
  'level_text': 'placeholder',
  'level_note': 'placeholder',
  'rule': 'placeholder',
  'parts': [{'bin': 'c07_xml', 'flavour': 'asan', 'deadline': {'quick': 600, 'thorough': 3000}}],
  'bounds': {'quick': 'placeholder', 'thorough': 'placeholder'},
  'assumptions': ['LC_ALL=C'],
}
