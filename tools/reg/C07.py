CHECK = {
  'level': 'exploration',
  'engine': 'seqx',
  'technique': 'bounded exhaustive enumeration of inputs through the real Xml::decode (every string over a 16-symbol markup alphabet, every byte-prefix of every sequence of 23 markup tokens, every short string of arbitrary bytes, truncation/edit neighbourhoods of documents) under ASan with the slack after the input NUL poisoned, and of element trees through the real Xml::encode -> Xml::decode compared with a std-only tree model',
  'level_text': 'Xml::decode is one function with local state, so its states cannot be observed; the input space is enumerated instead. '
                'Decode: every string over {< > / ! ? - & ; # x a = " \' space e-acute} up to the length bound; every byte-prefix of every sequence of the tokens '
                '<a </a </ > /> " x=" " \' v &lt; &#38; &#x26; &bad; & <!-- --> "<?p " ?> <!D <![CDATA[ ]]> t space up to the token bound (= sequences also truncated at every byte); '
                'every sequence of up to 6/7 whole tags and text runs out of <a> <b> </a> </b> </> <a/> <b x="&#38;" y=\'v\'> t space &amp; <!--c--> (deeper stacks, end tags closing more than was opened, mixed content); "<?xml" followed by every alphabet string; every string of arbitrary non-NUL bytes up to length 2/3; three documents (prolog, DOCTYPE with internal subset, comments, PI, CDATA, '
                'entity/decimal/hex references, single- and double-quoted attributes, names with : - . _ and non-ASCII) with every truncation, every 1-edit and every pair of edits within a window, and every single byte '
                'substituted/inserted at every position. For each input: the call returns (per-item alarm), ASan is silent, and the result is null or a tree in which every child(i).parent() == the containing element, '
                'checked over the whole tree through the public API. '
                'Round trip: every tree with <= 2 nodes over the full label sets (2 tags x {no attribute, x, y, x+y} x 9 values each = 200 element labels, 9 texts: "", v, & < > " \' e-acute, " v "), thorough also every 3-node tree whose two non-root nodes range over the full label sets; '
                'every ordered tree shape with <= 5 nodes over 8 element labels (tag x attribute subset, values rotating through the 9 values) and all 9 texts, thorough also 6 nodes over 4 element labels; '
                'linear chains to depth 12 with attributes on every level (also with names using : - . _ digits and non-ASCII) and each text as leaf. Each tree is encoded compact, decoded and compared '
                '(tags, attribute sets, child order, text) modulo merging adjacent text nodes and dropping whitespace-only text (either order of the two operations is accepted); the indented output is checked in the same way '
                'exactly when every text node is the sole child of its element.',
  'level_note': 'Complete within the stated alphabets and bounds, no sampling. Not covered: inputs with an embedded NUL (decode takes a C string), trees larger than the bounds except chains, '
                'meaning of character references (outside the statement), the dangling parent() of the returned root itself (outside the statement). Termination is observed through a generous alarm per work item, not a wall-clock oracle on single cases. '
                'ASan in recover mode reports one error per code location per worker process, so after a memory error the list of failing inputs is not complete (the verdict is).',
  'rule': 'odometer enumeration: alphabet^<=n strings; (k complete tokens) + (one of the 52 distinct non-empty token prefixes); byte^<=n; template x position x edit; pre-order token strings of labelled trees; '
          'distinct_nontrivial = distinct inputs / trees by construction (token strings that already lie in the character space, edit neighbourhoods and chain truncations are counted in evaluations only)',
  'parts': [{'bin': 'c07_xml', 'flavour': 'asan', 'deadline': {'quick': 900, 'thorough': 3600}}],
  'bounds': {'quick': 'alphabet strings <= 5 symbols (1.1e6); token sequences <= 5 tokens with every byte cut (1.5e7); "<?xml" + <= 4 symbols; bytes^<=2; tag sequences <= 6 (1.9e6); 3 documents: truncations, 1-edits, 2-edits within 3 positions, all single bytes; '
                      'trees: <= 2 nodes full labels (4.2e4), <= 5 nodes x 8 element labels x 9 texts (3.6e6), chains to depth 12',
             'thorough': 'alphabet strings <= 6 symbols (1.8e7); token sequences <= 6 tokens with every byte cut (3.5e8); "<?xml" + <= 5 symbols; bytes^<=3 (1.7e7); tag sequences <= 7 (2.1e7); 2-edits within 12 positions; '
                         'trees: <= 2 nodes full labels, 3 nodes with 8 root labels x full labels for the other two (6.8e5), <= 5 nodes x 8 labels, 6 nodes x 4 labels (9.3e6), chains to depth 12'},
  'assumptions': ['LC_ALL=C', 'g++ -O2 + AddressSanitizer (recover mode), slack after each input NUL poisoned', 'null element = Xml for which operator! is true (what decode documents as failure)'],
}
