CHECK = {
  'level': 'exploration',
  'engine': 'seqx',
  'technique': 'bounded exhaustive enumeration of INI file texts x set() histories x ways of writing, and of CSV tables over a 15/19-cell alphabet x writer configurations x readers, '
               'executed on the real IniFile / TabularDataFile with scratch files and compared with a plain std:: line parser + std::map model and the written cell table; ASan',
  'level_text': 'INI line alphabet A10 = {[a],[ab],x=1,"y = a=b","  z=3","# c","; x=9",empty,"  # c",x=5} (section names where one is a prefix of the other, a value containing "=", blanks around "=", '
                'an indented entry, comments with and without "=" and indentation, the same key with another value); structural sub-alphabets A7 = A10 without {"; x=9","  # c",x=5} and A6 = A7 without "y = a=b". '
                'Every text is put on disk as LF and CRLF, with and without a final newline. Histories are sequences over the 15 operations {a/x,a/n,ab/y,c/k,x} x {v,"w w",""}, applied through the real IniFile in seven ways of writing: '
                'D destructor only; W write() after the last set + destructor; P write() after every proper prefix; O write(otherPath) after the last set (the other file and, after destruction, the original are both checked); '
                'R IniFile(path,false) + write(); B assignment through operator[] + destructor; b operator[] + write(). quick: A10 texts <=3 lines x histories <=1 x {D,W,R,B}; A10 texts <=2 lines x 1 set x {O,b} and x 2 sets x {D,W}; '
                'A10 texts <=1 line x 2 sets x {P,O,R,B,b}; A7 3-line texts (LF) x 2 sets x D; A7 4-line texts (LF) x histories <=1 x D; 20-call histories (30 rotations through the 15 operations) with write() after none/10/20 calls on A10 texts <=2 lines; '
                '10 fixed long texts (22, 20, 19, 17, 16, 15 lines; lines of 254 and 300 characters) x histories <=2 x {D,W,R} + the 20-call histories. thorough adds (ASan) A10 4-line texts x histories <=1 x D, A10 3-line texts (LF) x 2 sets x D, '
                'A10 texts <=1 line x 3 sets x {D,P}, A10 3-line texts x 1 set x {O,b}, the 20-call histories on A10 texts <=3 lines (and write() after 0/1/19 calls on texts <=2 lines), and (no sanitizer) A10 texts <=3 lines x histories <=2 x D, '
                'A10 4-line texts (LF) x histories <=2 x D, A6 5-line texts (LF) x histories <=2 x D, A7 3-line texts x 3 sets x D, A7 texts <=2 lines x 3 sets x {D,W}, A10 texts <=3 lines (LF) x 2 sets x {P,O,R,b}, A10 3-line texts x 2 sets x W. '
                'After every write the raw text is re-parsed by an independent line parser (comment lines, verbatim, and untouched entries must be the same sequence as before) and a fresh IniFile must return every set value (under the name used '
                'in set()) and every untouched pre-existing value (an entry the text defines twice with different values: either of them). '
                'CSV cells: {1,-2.5,1e-7,123456789012345,"",a,",",";","\\"","\'"," ","a,b","\\"q\\"",1e20,0.123456789012345} (15) + {0.1f as float, a 9-character string, a 40-character string with quotes/separators/blanks, tab} (19). '
                'Writer configurations: default; setSeparator(\';\') + setDecimal(\',\'); setSeparator(tab). Readers: an unconfigured fresh TabularDataFile (auto-detection; not demanded for one-column files of a non-default configuration, which '
                'contain no separator to detect) and one given the writer\'s settings. Every table 1x1, 1x2, 2x1 over the 19 cells and 3x1, 1x3, 2x2 over the 15 cells (2x2 quick: default/auto, \';\'/auto, tab/configured; thorough all five) and, thorough without sanitizer, '
                'every 3x2 and 2x3 table over 9 cells {1,-2.5,1e20,"",a,",",";","\\"","a,b"} in default/auto, \';\'/configured, tab/auto; 38 fill patterns of every shape up to 30x8 (quick: the non-default configurations with 3 of them). '
                'All written cell-wise and as row arrays, read back with data() or nextRow()/[i]/[name] and compared cell for cell, type-aware, numbers by the digits written (%.15g; %.7g for a float). Complete enumeration, no sampling.',
  'level_note': 'Right level: both classes are line-oriented; the control flow depends on the kind of each line / cell and on a handful of positions (first/last line, first header, blank runs, the 16 reserved lines, the 254-character read chunk), '
                'which the alphabets cover exhaustively at these lengths. Values/keys are the fixed ones of the alphabet (identifier keys, values without outer blanks), as the quantifier states; '
                'digit-only strings are excluded from CSV string cells because a CSV cell carries no type. The way of writing is varied exhaustively on short texts and histories only: write() is the same function with the same state whether the destructor '
                'or the user calls it, so the larger products use the destructor alone. The largest products run in part c18_deep without sanitizer (value and order oracles only); everything up to 3-line texts x 2 sets, 4-line texts x 1 set, '
                'the 20-call histories, the long texts and all tables but the 6-cell ones also run under ASan. set() histories of 4..19 calls are only covered by the 20-call macros. A name without "/" is taken to address the entries before the '
                'first header if the file has any, else the first section (the class\'s "current section"). Non-rectangular tables (rows flushed with "\\n", arrays of another length than the header) are outside "tables up to 30x8" and not written. '
                'The first 8 failing cases of each signature are listed and the rest counted (counter failing_cases_beyond_the_8_listed_per_signature), so that one defect does not hide another. '
                'The full products 5 lines x 3 sets and A10^5 are not run.',
  'rule': 'odometer enumeration: texts = lines^<=N x eol x final-newline; histories = ops^<=K x ways of writing; tables = cells^(rows*cols) x 2 write modes x (configuration, reader); '
          'evaluations = cases executed; distinct_nontrivial = cases with at least one entry in the file or one set() (INI) / all tables (CSV); each case distinct by construction within a part '
          '(c18_deep repeats, without sanitizer, the destructor-written cases of the ASan part for texts <=3 lines x histories <=2)',
  'parts': [{'bin': 'c18_inicsv', 'flavour': 'asan', 'deadline': {'quick': 900, 'thorough': 2400}},
            {'bin': 'c18_deep', 'flavour': 'plain', 'thorough_only': True, 'deadline': {'quick': 900, 'thorough': 3600}}],
  'bounds': {'quick': 'INI (ASan, 0.83 M cases): A10 texts <=3 lines (4431 text variants) x histories <=1 x {D,W,R,B}; A10 texts <=2 lines x 1 set x {O,b}, x 2 sets x {D,W}; A10 texts <=1 line x 2 sets x {P,O,R,B,b}; '
                      'A7 3-line LF texts x 2 sets x D; A7 4-line LF texts x <=1 set x D; 20-set macros x 3 write positions on A10 texts <=2 lines; 10 long texts x histories <=2 x {D,W,R} + macros. '
                      'CSV (0.39 M cases): all tables 1x1,1x2,2x1 (19 cells), 3x1,1x3 (15 cells) x 5 configuration/reader pairs, 2x2 (15 cells) x 3 pairs, x {cell-wise, arrays}; 38 fills of every shape <=30x8',
             'thorough': 'INI (ASan, 2.86 M cases): quick space + A10 4-line texts x <=1 set x D; A10 3-line LF texts x 2 sets x D; A10 texts <=1 line x 3 sets x {D,P}; A10 3-line texts x 1 set x {O,b}; 20-set macros on A10 texts <=3 lines. '
                         'INI (plain, 19.1 M cases): A10 texts <=3 lines x histories <=2 x D; A10 4-line LF texts x histories <=2 x D; A6 5-line LF texts x histories <=2 x D; A7 3-line texts x 3 sets x D; A7 texts <=2 lines x 3 sets x {D,W}; '
                         'A10 texts <=3 lines (LF) x 2 sets x {P,O,R,b}; A10 3-line texts x 2 sets x W. CSV (ASan 0.65 M, plain 6.4 M cases): quick space with all 5 pairs for 2x2 and for every fill + (plain) all 9^6 tables 3x2 and 2x3 x 3 pairs'},
  'assumptions': ['scratch files on /dev/shm (tmpfs) or /verif/build; LC_ALL=C', 'reference = plain C++ line parser (std:: only) of the text before and after, std::map model of the sets',
                  'numbers compared by the rendering the writer uses (%.15g, %.7g for a float)', 'a reader of a non-default CSV dialect is either unconfigured (files with at least two columns) or given the writer\'s separator and decimal symbol',
                  'g++ -O2 + AddressSanitizer (part c18_inicsv); part c18_deep has no memory-safety oracle'],
}
