CHECK = {
  'level': 'exploration',
  'engine': 'seqx',
  'technique': 'bounded exhaustive enumeration of INI file texts x set() histories x ways of writing, and of CSV tables over a 13-cell alphabet, '
               'executed on the real IniFile / TabularDataFile with scratch files and compared with a plain std:: line parser + std::map model and the written cell table; ASan',
  'level_text': 'Every INI text of up to 4 lines (thorough: 5) over {[a],[b],x=1,y=2,"  z=3","# c","; c",empty} x {LF,CRLF} x {final newline, none} is put on disk, '
                'every history of up to 2 set() calls (thorough: 3 on texts of up to 4 lines) over {a/x,a/n,b/y,c/k,x} x {v,"w w"} is applied through the real IniFile and written by the '
                'destructor or by write() + destructor (thorough, texts of up to 3 lines: write() after every prefix of the history); 20-call histories with a write() in the middle run on every '
                'text of up to 3 lines. After every write the raw text is re-parsed by an independent line parser (comment lines and untouched entries must be the same sequence as before) and a '
                'fresh IniFile must return every set value (under the name used in set()) and every untouched pre-existing value. Every CSV table of the shapes 1x1..2x2, 3x1, 1x3 (thorough also '
                '3x2, 2x3) over {1,-2.5,1e-7,123456789012345,"",a,",",";","\\"","\'"," ","a,b","\\"q\\""} and 26 fill patterns of every shape up to 30x8 are written cell-wise and as row arrays, read back by a '
                'fresh TabularDataFile (data(), nextRow()/[i]/[name]) and compared cell for cell, type-aware, numbers by their %.15g rendering. Complete enumeration, no sampling.',
  'level_note': 'Right level: both classes are line-oriented; the control flow depends on the kind of each line / cell and on a handful of positions (first/last line, first header, blank runs), '
                'which the alphabets cover exhaustively at these lengths. Values/keys are the fixed ones of the alphabet (identifier keys, values without outer blanks), as the quantifier states; '
                'digit-only or "-" strings are excluded from CSV string cells because the reader types them as numbers. The largest products (5-line texts x 2 sets, 4-line texts x 3 sets, 3x2/2x3 tables) '
                'run in part c18_deep without sanitizer (value and order oracles only); ASan covers texts <=4 lines x 2 sets, 5-line texts x 1 set, the 20-set macros and all other tables. '
                'set() histories of 4..19 calls are only covered by the 20-call macros. A name without "/" is taken to address the entries before the first header if the file has any, else the first section '
                '(the class\'s "current section"); the full product 5 lines x 3 sets of DESIGN.md (3.3e8 file round trips) is not run.',
  'rule': 'odometer enumeration: texts = lines^<=N x eol x final-newline; histories = ops^<=K x write position; tables = cells^(rows*cols) x 2 write modes; '
          'evaluations = cases executed; distinct_nontrivial = cases with at least one entry in the file or one set() (INI) / all tables (CSV); each case distinct by construction within a part '
          '(c18_deep repeats the smaller INI spaces of c18_inicsv without sanitizer)',
  'parts': [{'bin': 'c18_inicsv', 'flavour': 'asan', 'deadline': {'quick': 900, 'thorough': 2400}},
            {'bin': 'c18_deep', 'flavour': 'plain', 'thorough_only': True, 'deadline': {'quick': 900, 'thorough': 3600}}],
  'bounds': {'quick': 'INI: texts <=4 lines (4681 x eol x final newline) x histories <=2 sets (111) x {destructor, write()+destructor}; 20-set macros x 3 write positions on texts <=3 lines; '
                      'CSV: all tables 1x1,1x2,2x1,2x2,3x1,1x3 x {cell-wise, arrays}; 26 fills of every shape <=30x8',
             'thorough': 'INI (ASan): quick space + 5-line texts x histories <=1 set; 20-set macros x 6 write positions. INI (plain): texts <=5 lines x histories <=2 sets; texts <=4 lines x histories <=3 sets; '
                         'texts <=3 lines x histories <=3 sets x write() after every prefix. CSV: quick space + (plain) all 13^6 tables 3x2 and 2x3'},
  'assumptions': ['scratch files on /dev/shm (tmpfs) or /verif/build; LC_ALL=C', 'reference = plain C++ line parser (std:: only) of the text before and after, std::map model of the sets',
                  'numbers compared by their %.15g rendering (the writer prints %.15g)', 'g++ -O2 + AddressSanitizer (part c18_inicsv); part c18_deep has no memory-safety oracle'],
}
