CHECK = {
  'level': 'model_checking',
  'engine': 'vsched',
  'technique': 'stateless model checking of the implementation under a controlled scheduler: real asl::Thread / ThreadGroup / parallel_for / parallel_invoke / Semaphore / Condition code, schedule points at thread create/exit/join, the finished-flag store, the ready-flag spin, mutex/cond/sem operations; DFS over all schedules (small scenarios) or all schedules within a preemption bound; deadlock = lost post/signal',
  'level_text': 'Each scenario (subclass and lambda threads with 4 body shapes, pairs of threads, ThreadGroup, parallel_invoke 2/3/4, Semaphore k posts vs k waits incl. timed waits, Condition under the documented protocol) is executed under every interleaving of its schedule points; run counts, visibility after join(), finished() after join(), and absence of deadlock/livelock are asserted in each. parallel_for is run for all small ranges with a yield inside f within a preemption bound, and for every range and thread count of the quantifier under every non-preemptive schedule.',
  'level_note': 'The pthread mutex/cond/sem primitives are the scheduler\'s model (sequentially consistent, timeouts fire only at quiescence); the asl wrappers and the Thread hand-over code are the real code. Plain loads/stores between schedule points are atomic to the scheduler.',
  'rule': 'every schedule of every scenario is one trace; transitions = schedule points executed',
  'parts': [{'bin': 's_c13_threads', 'flavour': 'asan', 'deadline': {'quick': 400, 'thorough': 2400}}],
  'bounds': {'quick': 'thread scenarios: all schedules (groups/invoke3-4: <=1-2 preemptions); parallel_for -3..6 x n<=4 with yield: <=1-2 preemptions; every range -3..40 x n<=12: all non-preemptive schedules', 'thorough': 'parallel_for small: <=2-3 preemptions; ranges -3..12 x n<=6 additionally <=1 preemption; groups <=3'},
  'assumptions': ['sequential consistency', 'virtual time: timed waits expire only when no thread can run'],
}
