CHECK = {
  'level': 'model_checking',
  'engine': 'vsched',
  'technique': 'bounded exhaustive enumeration of frame streams and environment behaviours on the real WebSocket::receive()/send() over scripted in-memory connections against an independent RFC 6455 framer/deframer, and stateless exploration of all interleavings (preemption-bounded) of the real client and server handshake + echo over a tiny bounded pipe; ASan, termination, message equality',
  'level_text': 'receive(): every payload length of the tier (all 1..70000 in thorough) masked and unmasked in three delivery patterns, all 256 mask keys over {00,01,80,ff}^4, every fragmentation of short messages into <=4 frames with a ping at every position, and every first header byte x length-encoding byte x extended length value (incl. bit 31 / bit 63 set) cut at every header byte: messages must arrive once, byte-identical, in order; hostile input may end the connection but may not trip ASan, hang or yield a negative length. send(): every length in both roles is parsed by the reference deframer (canonical length form, mask bit by role). Handshake: the accept key on the wire equals base64(SHA-1(key+GUID)) from an independent implementation; connect/accept/echo is run under every schedule within the bound with partial sends forced by a small pipe.',
  'level_note': 'Payload lengths above 70000 and 4 MiB messages are not run (no further header format). The scheduler models blocking socket calls; TLS (wss) is out of scope.',
  'rule': 'one execution per enumerated stream / delivery / schedule',
  'parts': [{'bin': 's_c11_ws', 'flavour': 'asan', 'deadline': {'quick': 500, 'thorough': 3000}}],
  'bounds': {'quick': 'lengths 1..3000, 65000..66100, 16000, 16001, 32768, 70000; fragment messages <=5 bytes; hostile: all 65536 two-byte headers x extended lengths x cuts; handshake <=1 preemption', 'thorough': 'all lengths 1..70000; fragments <=6 bytes; hostile additionally byte-wise; handshake <=2 preemptions'},
  'assumptions': ['vnet stream model (FIFO, level-triggered select)', 'mask source seeded explicitly'],
}
