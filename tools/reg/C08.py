CHECK = {
  'level': 'exploration',
  'technique': 'bounded exhaustive enumeration of the input space on the real code (all Unicode scalar values, boundary sequences, all short byte strings, '
               'structured longer strings) against a plain-C++ encoder / strict decoder that is itself cross-checked with python3 codecs on every scalar; '
               'inputs flush against the end of their allocation, outputs in exact-size heap buffers, AddressSanitizer as memory oracle',
  'level_text': 'Complete enumeration, on the real String code, of all 1,112,063 non-NUL Unicode scalar values (alone, and next to 1/2/3/4-byte neighbours in both orders), '
                'all pairs/triples over 22 boundary code points, all 16.8 M byte strings of length <= 3 and all strings of length <= 5 (thorough 6) over the 16-byte '
                'boundary alphabet, every alphabet tail of length <= 3 behind paddings that move the String through inline/heap(20)/heap(n+1)/1 KB layouts, and all pairs of '
                'code points 1..2099 plus all pairs of short strings over a 28-letter case alphabet for the case-insensitive clause; above the case tables every scalar c against '
                'c+d for the offsets d at which Unicode keeps case pairs, and every Unicode case pair python knows (multi-character images included). Every limit argument n of the four '
                'raw conversions is made binding (1 <= n < length, output buffers of exactly the contract size for that n) and once larger than the text; the text of a String is '
                'compared after the const dataw(); code-point iteration runs through the Enumerator and through range-for; a multibyte character between two ASCII runs of 1..16; '
                'the locale bridge (utf8ToLocal, localToUtf8, String::fromLocal, String::toLocal) is called in the "C" and "C.UTF-8" locales for its safety clause. No sampling. Right level because the '
                'conversion functions are pure functions of short inputs whose behaviour is decided by the bytes around a lead byte and the terminator.',
  'level_note': 'Trusts g++/ASan, python3 codecs (reference encoder and strict validity are compared with python for every scalar and 135 k short strings on every run), '
                'C-locale toupper/tolower. U+0000 cannot be carried by the NUL-terminated API and is excluded. The "random longer strings" of the quantifier are replaced by a '
                'deterministic family (e). Output-buffer contracts are the ones asl itself relies on: 4n+1 bytes (utf32toUtf8, utf16toUtf8), n+1 ints (utf8toUtf32), '
                'strlen+1 units for n=strlen and min(strlen,2n)+1 for smaller n (utf8toUtf16); n=0 (asl: "no limit") is not exercised on non-empty input. '
                'Locale bridge: in scope for the safety clause only ("every conversion ... terminates and stays within its input and output buffers", public conversion functions of the anchor '
                'files built on the UTF-8 <-> UTF-16 functions); demanded are termination, ASan-cleanliness and a result String terminated inside its own buffer; the values belong to the '
                'platform codec (glibc: C locale rejects bytes >= 80, C.UTF-8 delivers UCS-4 in wchar_t) and are only counted. The offsets of family (j) and the python case pairs are inputs, '
                'the oracle there is asl\'s own toLowerCase as the statement says. '
                'Termination: iteration has a step budget; the other calls run under a 300 s CPU watchdog per work item.',
  'rule': 'complete enumeration: (a) every scalar value 1..10FFFF; (b) BND^2, BND^3 (thorough ^4) and every scalar x {7F,80,800,10000} (thorough: x all 22 boundary code points) in both orders; '
          '(c) every byte string of length 0..3; (d) alphabet^4..5 (thorough ..6); (e) alphabet^<=3 tails behind paddings; (f) code-point pairs 1..2099 and case-alphabet string pairs; '
          '(g) UTF-16 unit / int arrays over boundary alphabets, utf16toUtf8 also with every limit 1 <= n < length; (h) one or two boundary code points around paddings; (i) x^p + c + x^q, c in BND, p, q in 1..16; '
          '(j) every scalar c against c+d, d in the case-pair offsets, and python\'s Unicode case pairs; (k) locale bridge in "C" and "C.UTF-8": byte strings, every scalar alone and padded to 19, padded tails, shapes of (i). '
          'In the raw conversions every n in 1..L-1 (L <= 8) for utf8toUtf32 / utf8toUtf16 / utf16toUtf8 / utf32toUtf8 and n = L+7. distinct_nontrivial = distinct inputs (byte strings, pairs, unit arrays); the same bytes replayed at another '
          'offset (left-padded to 19/15/16) count as evaluations only',
  'parts': [{'bin': 'c08_utf', 'flavour': 'asan', 'deadline': {'quick': 900, 'thorough': 3000}}],
  'bounds': {'quick': 'all scalars; BND^2..3; scalars x 4 neighbours x 2 orders; all bytes^<=3 at offset 0 and padded to 19; alphabet^4..5; tails^<=3 x pads 4..24 (+25..44, 1017..1024 for tails^<=2); '
                      'nocase: 2099^2 code-point pairs, 812^2 string pairs, every scalar x offsets {1,32,40,48,80,10000h}, 3141 python case pairs (unicodedata 14.0); UTF-16 units^<=4 (limits 1..n-1), ints^<=3; '
                      'x^p c x^q for 22 c, p,q 1..16; limits n: 1..L-1 for all four conversions on every raw case with L <= 8, n = L+7 except on family (c) length 3; '
                      'range-for on the offset-0 instance of every byte string; locale bridge x {C, C.UTF-8}: bytes^<=2, alphabet^3, all scalars padded to 19, tails^<=2 x pads 4..44, 1017..1024, 5632 shapes of (i)',
             'thorough': 'all scalars; BND^2..4; scalars x 22 neighbours x 2 orders; all bytes^<=3 at offset 0 and padded to 19, 15, 16; alphabet^4..6; tails^<=3 x pads 4..44, 1017..1024; '
                         'nocase: 2099^2 code-point pairs, 812 x 22764 string pairs, every scalar x 14 offsets {1,8,16,26,32,34,40,48,64,80,BC0h,1C60h,97D0h,10000h}, 3141 python case pairs (unicodedata 14.0); UTF-16 units^<=5 (limits 1..n-1), ints^<=4; '
                         'x^p c x^q for 22 c, p,q 1..16; limits n: 1..L-1 and L+7 for all four conversions on every raw case with L <= 8; '
                         'locale bridge x {C, C.UTF-8}: all bytes^<=3, all scalars alone and padded to 19, tails^<=2 x pads 4..44, 1017..1024, 5632 shapes of (i)'},
  'assumptions': ['the process runs in the "C" locale (no setlocale) except inside family (k), which switches LC_CTYPE between "C" and "C.UTF-8" (glibc >= 2.35 has it built in; where it is missing that half of (k) is skipped, locale_C_UTF8_available=false, and the vacuity guard reports its witnesses as zero); wchar_t is 32 bits and carries UTF-16 code units (as asl documents)', 'reference = plain C++ UTF-8/16 encoder and strict decoder, compared with python3 codecs for every scalar value on every run',
                  'g++ -O2 + AddressSanitizer; String slack after the NUL poisoned (vfx::Flush), raw inputs/outputs in malloc blocks of exactly the contract size',
                  'U+0000 excluded (NUL-terminated API)', 'the coincidence clause equalsNocase <=> equal lower-cased forms is demanded on well-formed text only'],
 }
