CHECK = {
  'level': 'model_checking',
  'engine': 'vsched',
  'technique': 'stateless model checking of the implementation: the real SocketServer accept loop, self-deleting handler threads, stop(true) polling and destructor run over in-memory sockets (vnet) under the controlled scheduler with virtual time; DFS over all interleavings within a preemption bound of start / 0-2 clients (full exchange, early closes) / stop(true) / late client / destruction; ASan on the freed server and thread objects, deadlock detection',
  'level_text': 'For TCP and Unix-path binding, concurrent and sequential mode, every schedule within the bound is executed on the real code: each accepted connection is served exactly once on a valid descriptor that is closed afterwards, stop(true) returns only when the loop has ended and no serve() is in flight, running() is then false, no serve() begins later, a late client is not served, and after destruction no thread touches the server or its thread objects (ASan). pthread_cancel is modelled as deferred cancellation at blocking calls.',
  'level_note': 'N <= 2 clients, preemption bound 0-3 depending on scenario size; virtual time: a timed wait expires at quiescence for free, or earlier at the cost of one deviation. OS-level jitter and 200-connection bursts are outside the technique (sampling).',
  'rule': 'every schedule of every scenario is one trace; transitions = schedule points executed',
  'parts': [{'bin': 's_c14_server', 'flavour': 'asan', 'deadline': {'quick': 500, 'thorough': 3000}}],
  'bounds': {'quick': '0 clients: <=3 deviations (preemptions or early timer expiries); 1 client: <=2; 2 clients: <=1', 'thorough': '0 clients: <=4; 1 client that closes early: <=3, 1 client served + late client: <=2; 2 clients, both closing early (TCP): <=2, other pairs: <=1'},
  'assumptions': ['sequential consistency', 'vnet stream/select model', 'deferred-cancellation model of pthread_cancel'],
}
