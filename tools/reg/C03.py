CHECK = {
  'level': 'model_checking',
  'engine': 'seqx',
  'technique': 'explicit-state BFS over in-place mutation histories of one real String (self-aliasing append/assign, resize, trim, 1 KiB growth switch) against std::string, plus complete enumeration of small-alphabet inputs for the pure functions, integer sweeps and every printf argument length; ASan oracle',
  'level_text': 'Histories of 36 mutation ops (incl. s += s, s = *s + k, s.append(*s + 1, n - 2)) up to the stated depth on a real String, compared with std::string after every step with strlen==length and cap>length invariants; states deduplicated by (contents, heap size). Pure functions (substring, search, compare, split/join, replace, trim) are run on ALL strings over small alphabets up to the stated length, in inline and heap placement; int/unsigned round trips over all |x|<=10^6 (thorough: all 2^32); 64-bit values on every digit-count / power-of-two boundary; printf constructors for every argument length 0..300.',
  'level_note': 'Bounded depth / length. 64-bit integers are covered on boundary classes, not exhaustively. Empty separators/patterns and embedded NUL are outside the statement. UB-adjacent code (negating LLONG_MIN, signed overflow in myatol) is judged by its result at the project optimisation level (-O2), UBSan is not an oracle.',
  'rule': 'BFS over mutation histories (state = contents + heap size of both strings); odometer enumeration of alphabet^<=n for pure functions',
  'parts': [{'bin': 'c03_string', 'flavour': 'asan', 'deadline': {'quick': 400, 'thorough': 2400}}],
  'bounds': {'quick': 'histories depth 5; search len<=5 over {a,b}; split len<=7 over {a,b,","}; replace len<=7; trim len<=6 over 5 chars; ints |x|<=1e6 + boundaries; printf lengths 0..300',
             'thorough': 'histories depth 6; search<=7, split<=8, replace<=9, trim<=7; all 2^32 int and unsigned'},
  'assumptions': ['NUL-free byte strings', 'LC_ALL=C'],
}
