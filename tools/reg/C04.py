CHECK = {
  'level': 'model_checking',
  'engine': 'seqx',
  'technique': 'explicit-state BFS over operation histories on three real Var slots (construction, same-type and type-changing assignment, assignment of own descendants, auto-vivifying indexing, append/remove/extend/clone, typed assignment over shared containers) against a shared-node JSON tree model; ASan + allocation delta',
  'level_text': 'Every history up to the stated depth over 3 Var slots and 14 generators is executed on the real Var code from fresh objects; after each step every slot is compared recursively through the accessors (type, length, values, property enumeration) with a reference tree in which containers are shared by reference between copies exactly as Var does, and all pairs are compared with == / != against structural equality. States are deduplicated by canonical form including container identity, capacity and share count.',
  'level_note': 'Bounded depth; cycle-creating assignments, unset (NONE) values in comparisons, extend() with a non-object and string-indexing of arrays are outside the statement. Growth of a container shared by several Vars is the C01 representation defect (known finding, pruned and counted).',
  'rule': 'BFS over operation histories; state distinct by canonical form (value trees with container identities + capacities + share counts)',
  'parts': [{'bin': 'c04_var', 'flavour': 'asan', 'deadline': {'quick': 400, 'thorough': 2400}}],
  'bounds': {'quick': 'depth 4', 'thorough': 'depth 5'},
  'assumptions': ['sequential use only'],
}
