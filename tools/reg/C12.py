CHECK = {
  'level': 'model_checking',
  'engine': 'vsched',
  'technique': 'stateless model checking of the implementation: real asl::Thread workers serialised by a controlled scheduler at every atomic ref-count step, mutex operation and thread create/exit/join; depth-first enumeration of all schedules with at most 2 preemptions (iterative context bounding; counter programs unbounded) of every tuple of straight-line handle / counter programs; ASan + payload life-cycle counters',
  'level_text': 'For every pair of handle programs (copy, assign both ways, drop, replace) over Array, Map, HashMap, Shared<T> and a SmartObject-derived handle, with main dropping its own handle concurrently, every interleaving at the library\'s atomic steps with at most 2 preemptions is executed on the real code; the payload must stay alive while any handle exists, be destroyed exactly once after the last drop, with no ASan report and a zero allocation delta. AtomicCount and Atomic<T> (payload type yields between its read and write, so a missing lock shows as a lost update) must end at initial + sum of operations in every schedule.',
  'level_note': 'Scheduler assumes sequential consistency and sees only hooked points: plain (non-atomic) accesses between points are atomic to it, so a non-atomic ref-count increment is outside its reach (TSan side pass not registered). 2-3 threads, programs of <= 2 (quick) / 3 (thorough) operations.',
  'rule': 'every schedule of every program tuple is one trace; transitions = schedule points executed',
  'parts': [{'bin': 's_c12_handles', 'flavour': 'asan', 'deadline': {'quick': 400, 'thorough': 2400}}],
  'bounds': {'quick': 'pairs of programs <=2 ops, <=2 preemptions; triples of <=1 op, <=1 preemption; AtomicCount programs <=3 ops all schedules; Atomic<Counter> <=2 ops <=3 preemptions', 'thorough': 'pairs <=3 ops <=2 preemptions; triples <=2 ops <=2 preemptions; AtomicCount <=4 ops all schedules; Atomic<Counter> all schedules'},
  'assumptions': ['sequential consistency', 'schedule points = ASL_VERIF hooks (atomicInc/atomicDec, thread end) + interposed pthread_create/join/mutex/cond/sem'],
}
