#!/usr/bin/env python3
"""C05: every JSON text produced by asl's encoder (strings and written files) must be accepted by python's strict json parser
and denote the expected value.
usage: ref_c05.py --list <file with one input file name per line> | ref_c05.py <input file>...
Input lines: <hex text> TAB <pattern> TAB <E|S> TAB <case label>
  pattern = n|t|f|#<int>|D<float64 bits>|F<float32 bits>|s<hex utf8>|[p,...]|{<hexkey>:p,...}
  E: numbers exactly (doubles numerically equal, floats equal after rounding to float32)
  S: reduced precision modes: doubles to 15, floats to 7 significant decimal digits (half a unit of the last kept digit)
Prints 'BAD <case label> TAB <reason> text=<hex, truncated>' per failing text (at most 200) and 'checked <n> bad <m>'.
Exit 0 iff m == 0. Any internal error ends the run without a 'checked' line (the harness treats that as a harness error)."""
import sys, os, json, binascii, struct, math
from decimal import Decimal
from fractions import Fraction

def fail(_): raise ValueError('non-finite constant')

class P:
    def __init__(self, s): self.s, self.i = s, 0
    def parse(self):
        c = self.s[self.i]
        if c in 'ntf': self.i += 1; return {'n': None, 't': True, 'f': False}[c]
        if c == '#':
            j = self.i + 1
            while j < len(self.s) and self.s[j] not in ',]}': j += 1
            v = int(self.s[self.i + 1:j]); self.i = j; return ('int', v)
        if c == 'D':
            bits = int(self.s[self.i + 1:self.i + 17], 16); self.i += 17; return ('dbl', struct.unpack('<d', struct.pack('<Q', bits))[0])
        if c == 'F':
            bits = int(self.s[self.i + 1:self.i + 9], 16); self.i += 9; return ('flt', struct.unpack('<f', struct.pack('<I', bits))[0])
        if c == 's':
            j = self.i + 1
            while j < len(self.s) and self.s[j] in '0123456789abcdef': j += 1
            v = binascii.unhexlify(self.s[self.i + 1:j]).decode('utf-8'); self.i = j; return v
        if c == '[':
            self.i += 1; out = []
            while self.s[self.i] != ']':
                out.append(self.parse())
                if self.s[self.i] == ',': self.i += 1
            self.i += 1; return out
        if c == '{':
            self.i += 1; out = {}
            while self.s[self.i] != '}':
                j = self.s.index(':', self.i)
                k = binascii.unhexlify(self.s[self.i:j]).decode('utf-8'); self.i = j + 1
                out[k] = self.parse()
                if self.s[self.i] == ',': self.i += 1
            self.i += 1; return out
        raise ValueError('pattern ' + self.s[self.i:])

def within(v, orig, digits):
    """v agrees with orig to `digits` significant decimal digits (exact rational arithmetic, one ulp for the conversion)"""
    if orig == 0: return v == 0
    if v == orig: return True
    a = abs(Fraction(orig))
    E = Decimal(abs(orig)).adjusted()
    bound = Fraction(10) ** (E - (digits - 1)) / 2 + a / 2 ** 52
    if isinstance(v, float) and math.isnan(v): return False
    # the k-digit rounding of the largest doubles lies above DBL_MAX: a correct conversion of that text is +-infinity
    if isinstance(v, float) and math.isinf(v): return (v < 0) == (orig < 0) and a + bound > Fraction(sys.float_info.max)
    return abs(Fraction(v) - Fraction(orig)) <= bound

def same(v, e, simple):
    if isinstance(e, tuple):
        if isinstance(v, bool) or not isinstance(v, (int, float)): return False
        if e[0] == 'int': return v == e[1]
        if e[0] == 'dbl':
            if simple: return within(v, e[1], 15)
            try: return float(v) == e[1]
            except OverflowError: return False
        if simple: return within(v, e[1], 7)
        try: return struct.unpack('<f', struct.pack('<f', float(v)))[0] == e[1]
        except OverflowError: return False
    if e is None or e is True or e is False: return v is e
    if isinstance(e, str): return isinstance(v, str) and v == e
    if isinstance(e, list): return isinstance(v, list) and len(v) == len(e) and all(same(a, b, simple) for a, b in zip(v, e))
    if isinstance(e, dict): return isinstance(v, dict) and set(v) == set(e) and all(same(v[k], e[k], simple) for k in e)
    return False

def short(h): return h if len(h) <= 600 else h[:300] + '...' + h[-280:]

def one_file(fn):
    n = bad = 0; lines = []
    with open(fn, 'rb') as f:
        for line in f:
            parts = line.rstrip(b'\n').split(b'\t')
            h, pat, flag, label = parts[0], parts[1], parts[2].decode(), parts[3].decode('latin-1')
            if flag not in ('E', 'S'): raise ValueError('flag ' + flag)
            n += 1
            try:
                text = binascii.unhexlify(h).decode('utf-8')
                v = json.loads(text, parse_constant=fail)
            except Exception as ex:
                bad += 1
                if len(lines) < 200: lines.append('BAD %s\trejected: %s text=%s' % (label, str(ex)[:80], short(h.decode())))
                continue
            if not same(v, P(pat.decode()).parse(), flag == 'S'):
                bad += 1
                if len(lines) < 200: lines.append('BAD %s\tvalue differs from %s text=%s' % (label, pat.decode()[:200], short(h.decode())))
    return n, bad, lines

def main():
    args = sys.argv[1:]
    if args[:1] == ['--list']: files = [l.rstrip('\n') for l in open(args[1]) if l.strip()]
    else: files = args
    if len(files) > 1:
        import multiprocessing
        with multiprocessing.Pool(min(len(files), os.cpu_count() or 1, 16)) as pool: res = pool.map(one_file, files, 1)
    else: res = [one_file(f) for f in files]
    n = sum(r[0] for r in res); bad = sum(r[1] for r in res)
    for l in [l for r in res for l in r[2]][:200]: print(l)
    print('checked %d bad %d' % (n, bad))
    sys.exit(0 if bad == 0 else 1)

if __name__ == '__main__':
    main()
