#!/usr/bin/env python3
"""C05: every JSON text produced by asl's encoder must be accepted by python's strict json parser and denote the expected value.
Input lines: <hex text> TAB <pattern>; pattern = n|t|f|#<number>|F<float32 bits>|s<hex utf8>|[p,...]|{<hexkey>:p,...}
Prints 'BAD <hex text> <reason>' per failing case and 'checked <n> bad <m>'. Exit 0 iff m == 0."""
import sys, json, binascii, struct

def fail(_): raise ValueError('non-finite constant')

class P:
    def __init__(self, s): self.s, self.i = s, 0
    def parse(self):
        c = self.s[self.i]
        if c in 'ntf': self.i += 1; return {'n': None, 't': True, 'f': False}[c]
        if c == '#':
            j = self.i + 1
            while j < len(self.s) and self.s[j] not in ',]}': j += 1
            v = float(self.s[self.i + 1:j]); self.i = j; return ('num', v)
        if c == 'F':
            bits = int(self.s[self.i + 1:self.i + 9], 16); self.i += 9; return ('flt', struct.unpack('<f', struct.pack('<I', bits))[0])
        if c == 's':
            j = self.i + 1
            while j < len(self.s) and self.s[j] in '0123456789abcdef': j += 1
            v = binascii.unhexlify(self.s[self.i + 1:j]).decode('utf-8'); self.i = j; return v
        if c == '[':
            self.i += 1; out = []
            while self.s[self.i] != ']':
                out.append(self.parse())
                if self.s[self.i] == ',': self.i += 1
            self.i += 1; return out
        if c == '{':
            self.i += 1; out = {}
            while self.s[self.i] != '}':
                j = self.s.index(':', self.i)
                k = binascii.unhexlify(self.s[self.i:j]).decode('utf-8'); self.i = j + 1
                out[k] = self.parse()
                if self.s[self.i] == ',': self.i += 1
            self.i += 1; return out
        raise ValueError('pattern ' + self.s[self.i:])

def same(v, e):
    if isinstance(e, tuple):
        if isinstance(v, bool) or not isinstance(v, (int, float)): return False
        if e[0] == 'num': return float(v) == e[1]
        try: return struct.unpack('<f', struct.pack('<f', float(v)))[0] == e[1]
        except OverflowError: return False
    if e is None or e is True or e is False: return v is e
    if isinstance(e, str): return isinstance(v, str) and v == e
    if isinstance(e, list): return isinstance(v, list) and len(v) == len(e) and all(same(a, b) for a, b in zip(v, e))
    if isinstance(e, dict): return isinstance(v, dict) and set(v) == set(e) and all(same(v[k], e[k]) for k in e)
    return False

n = bad = 0
for fn in sys.argv[1:]:
    for line in open(fn, 'rb'):
        h, _, pat = line.rstrip(b'\n').partition(b'\t')
        n += 1
        try:
            text = binascii.unhexlify(h).decode('utf-8')
            v = json.loads(text, parse_constant=fail)
        except Exception as ex:
            bad += 1
            if bad <= 200: print('BAD %s rejected: %s' % (h.decode(), str(ex)[:80]))
            continue
        if not same(v, P(pat.decode()).parse()):
            bad += 1
            if bad <= 200: print('BAD %s value differs from %s' % (h.decode(), pat.decode()[:200]))
print('checked %d bad %d' % (n, bad))
sys.exit(0 if bad == 0 else 1)
