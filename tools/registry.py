# Per-property check composition: tools/reg/<ID>.py defines CHECK = {...} (parts = harness binaries + build flavour).
import os, glob, importlib.util
HOOK_COMMITS = ['cfb6e60', 'e12b5e8', 'ba9c43d', '038f149', '704a771', '4f16ce7', '792acf6']
NOT_APPLICABLE = {}
# only these are claimed in MANIFEST.json (a harness under construction can be run with ./check but is not registered)
ENABLED = ['C01', 'C02', 'C03', 'C04', 'C05', 'C06', 'C07', 'C08', 'C09', 'C10', 'C11', 'C12', 'C13', 'C14', 'C15', 'C16', 'C17', 'C18', 'C19', 'C20']
CHECKS = {}
for _f in sorted(glob.glob(os.path.join(os.path.dirname(os.path.abspath(__file__)), 'reg', 'C*.py'))):
    _spec = importlib.util.spec_from_file_location(os.path.basename(_f)[:-3], _f)
    _m = importlib.util.module_from_spec(_spec); _spec.loader.exec_module(_m)
    CHECKS[os.path.basename(_f)[:-3]] = _m.CHECK
