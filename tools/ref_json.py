#!/usr/bin/env python3
"""Cross-check of the C++ reference JSON recogniser (common/refjson.h) against python's json module.
Input files: one case per line  <hex of text> TAB <verdict>   verdict = I (invalid) | X (outside the statement) | V<canonical dump>
Prints: 'checked <n> skipped <k> mismatches <m>' and up to 20 'MISMATCH ...' lines. Exit 0 iff m == 0."""
import sys, os, json, binascii

def fail(_):
    raise ValueError('constant')

def numstr(x):
    d = float(x)
    if d == 0: return '0'
    return '%.17g' % d

def dump(v):
    if v is None: return 'n'
    if v is True: return 't'
    if v is False: return 'f'
    if isinstance(v, (int, float)): return '#' + numstr(v)
    if isinstance(v, str): return 's' + binascii.hexlify(v.encode('utf-8')).decode()
    if isinstance(v, list): return '[' + ','.join(dump(x) for x in v) + ']'
    if isinstance(v, dict):
        items = sorted((k.encode('utf-8'), dump(x)) for k, x in v.items())
        return '{' + ','.join(binascii.hexlify(k).decode() + ':' + d for k, d in items) + '}'
    raise TypeError(v)

def verdict(raw):
    try:
        text = raw.decode('utf-8')
    except UnicodeDecodeError:
        return None
    try:
        v = json.loads(text, parse_constant=fail)
    except (ValueError, RecursionError):
        return 'I'
    try:
        return 'V' + dump(v)
    except (UnicodeEncodeError, OverflowError):
        return None

def one_file(fn):
    n = skipped = bad = 0
    msgs = []
    with open(fn, 'rb') as f:
        for line in f:
            h, _, ref = line.rstrip(b'\n').partition(b'\t')
            ref = ref.decode()
            if ref == 'X':
                skipped += 1; continue
            py = verdict(binascii.unhexlify(h))
            if py is None:
                skipped += 1; continue
            n += 1
            if py != ref:
                bad += 1
                if len(msgs) < 20:
                    msgs.append('MISMATCH text=%r python=%s reference=%s' % (binascii.unhexlify(h), py, ref))
    return n, skipped, bad, msgs

def main():
    files = sorted(sys.argv[1:])
    jobs = max(1, min(8, len(files), os.cpu_count() or 1))
    if jobs > 1:
        # every line is judged on its own: the files are only spread over processes, the result is the same as serially
        import multiprocessing
        with multiprocessing.Pool(jobs) as pool:
            results = pool.map(one_file, files, chunksize=1)
    else:
        results = [one_file(fn) for fn in files]
    n = skipped = bad = 0
    shown = 0
    for a, b, c, msgs in results:
        n += a; skipped += b; bad += c
        for m in msgs:
            if shown < 20:
                print(m); shown += 1
    print('checked %d skipped %d mismatches %d' % (n, skipped, bad))
    sys.exit(0 if bad == 0 else 1)

if __name__ == '__main__':
    main()
