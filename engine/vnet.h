// vnet — in-memory stream sockets under the vsched scheduler (fds 900..999). See DESIGN.md §4.3.
#pragma once
#include <stdint.h>
#include <string>
namespace vnet {
void reset(int pipe_capacity = 65536);      // call at the start of every execution
int  open_fds();                             // vnet descriptors currently open (leak check)
uint64_t state_hash();
}
