// vnet — in-memory stream sockets (fds 900..999) reached by link-time interposition of the socket syscalls that asl
// uses (socket, bind, listen, accept, connect, read, recv, send, write, ioctl(FIONREAD), select, close, shutdown,
// get/setsockopt, getpeername, getsockname). Blocking is modelled through vsched (see DESIGN.md §3.4, §4.3).
#pragma once
#include <stdint.h>
#include <string>
#include <vector>
namespace vnet {
void enable(bool on);                        // when on, every new SOCK_STREAM socket is virtual
void reset(int pipe_capacity = 1 << 20);     // forget all virtual sockets (call at the start of every execution)
void set_limits(int read_max, int send_max); // environment deviations: at most this many bytes per read()/send() call (0 = unlimited)
// A connected virtual socket without a peer thread: its input is `chunks` (chunk k+1 "arrives" when the reader has
// drained chunk k and polls again) followed by end-of-stream; everything written to it is captured.
int  scripted(const std::vector<std::string>& chunks);
const std::string& written(int fd);          // bytes written so far to a scripted socket (valid also after it was closed)
int  open_fds();                             // virtual descriptors still open
int  misuse();                               // operations on closed / never opened virtual descriptors so far
uint64_t state_hash();
void set_spin_limit(int polls, void (*handler)(const char* what)); // non-consuming polls at end-of-stream tolerated before `handler` is called
}
