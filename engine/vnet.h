// vnet — in-memory stream sockets (fds 900..999) reached by link-time interposition of the socket syscalls that asl
// uses (socket, bind, listen, accept, connect, read, recv, send, write, ioctl(FIONREAD), select, close, shutdown,
// get/setsockopt, getpeername, getsockname). Blocking is modelled through vsched (see DESIGN.md §3.4, §4.3).
#pragma once
#include <stdint.h>
#include <string>
#include <vector>
namespace vnet {
void enable(bool on);                        // when on, every new SOCK_STREAM socket is virtual
void reset(int pipe_capacity = 1 << 20);     // forget all virtual sockets (call at the start of every execution)
void set_limits(int read_max, int send_max); // environment deviations: at most this many bytes per read()/send() call (0 = unlimited)
// A connected virtual socket without a peer thread: its input is `chunks` (chunk k+1 "arrives" when the reader has
// drained chunk k and polls again) followed by end-of-stream; everything written to it is captured.
int  scripted(const std::vector<std::string>& chunks);
const std::string& written(int fd);          // bytes written so far to a scripted socket (valid also after it was closed)
int  open_fds();                             // virtual descriptors still open
int  misuse();                               // operations on closed / never opened virtual descriptors so far
uint64_t state_hash();
void set_spin_limit(int polls, void (*handler)(const char* what)); // non-consuming polls at end-of-stream tolerated before `handler` is called
// event counters since the last reset() (observation only: they are not part of state_hash() and add no schedule points)
enum Stat { ST_ACCEPTS,            // accept() calls that returned a connection
            ST_ACCEPT_FAILURES,    // accept() calls made to fail by fail_accept()
            ST_ACCEPTED_OPEN,      // descriptors returned by accept() that are open now (computed)
            ST_SELECT_TIMEOUTS,    // select() calls that returned 0
            ST_SELECT_MULTI,       // select() calls that returned >= 2 ready descriptors
            ST_SENDS_TO_CLOSED_PEER, // send()/write() calls that failed with EPIPE
            ST_SIGPIPE_SENDS,      // ... of which without MSG_NOSIGNAL (write(), or send() with flags lacking it): a real kernel raises SIGPIPE
            ST_NSTATS };
long stat(int which);
// environment deviation: the k-th accept() call since reset() on a listening socket with a pending connection fails once with
// ECONNABORTED; the pending connection is dropped (its client sees end-of-stream / EPIPE). 0 = never (default, restored by reset()).
void fail_accept(int kth);
}
