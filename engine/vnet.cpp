#include "vnet.h"
#include "vsched_internal.h"
namespace vnet {
void reset(int) {}
int open_fds() { return 0; }
uint64_t state_hash() { return 0; }
}
