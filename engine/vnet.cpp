// vnet — see vnet.h. Compiled without sanitizers.
#include "vnet.h"
#include "vsched_internal.h"
#include <dlfcn.h>
#include <errno.h>
#include <stdarg.h>
#include <stdio.h>
#include <string.h>
#include <unistd.h>
#include <sys/ioctl.h>
#include <sys/select.h>
#include <sys/socket.h>
#include <sys/un.h>
#include <netinet/in.h>
#include <arpa/inet.h>

namespace vnet {

enum { BASE = 900, N = 100 };
enum { FREE, FRESH, BOUND, LISTENING, CONNECTED };
struct VS {
	int state, family, port; char path[108];
	int peer;                 // index of the connected peer, -1 none
	std::string in;           // bytes that can be read now
	bool eof;                 // no more bytes will arrive after `in`
	bool peer_gone;           // the peer endpoint was closed (writes fail)
	std::vector<int> backlog; // listening: accepted-side endpoints waiting for accept()
	bool scripted; std::vector<std::string> script; size_t next; int out_slot;
	int idle;                 // consecutive non-consuming operations at end of stream
	bool accepted;            // this descriptor was returned by accept()
};
static VS S[N];
static bool on = false;
static int cap = 1 << 20, rmax = 0, smax = 0, bad_ops = 0;
static std::string outs[N]; static int nouts = 0;
static int spin_limit = 0; static void (*spin_handler)(const char*) = 0;
static long stats[ST_NSTATS]; static int accept_calls = 0, accept_fail_at = 0;

static bool isv(int fd) { return fd >= BASE && fd < BASE + N; }
static VS* get(int fd) { if (!isv(fd)) return 0; VS* s = &S[fd - BASE]; if (s->state == FREE) { bad_ops++; return 0; } return s; }
static void clear(VS& s) { s.state = FREE; s.family = 0; s.port = 0; s.path[0] = 0; s.peer = -1; s.in.clear(); s.eof = false; s.peer_gone = false; s.backlog.clear(); s.scripted = false; s.script.clear(); s.next = 0; s.out_slot = -1; s.idle = 0; s.accepted = false; }
static int alloc() { for (int i = 0; i < N; i++) if (S[i].state == FREE) { clear(S[i]); S[i].state = FRESH; return i; } return -1; }

void enable(bool b) { on = b; }
void reset(int c) { for (int i = 0; i < N; i++) clear(S[i]); cap = c; bad_ops = 0; nouts = 0; for (int i = 0; i < N; i++) outs[i].clear(); memset(stats, 0, sizeof stats); accept_calls = 0; accept_fail_at = 0; }
void set_limits(int r, int s) { rmax = r; smax = s; }
int open_fds() { int n = 0; for (int i = 0; i < N; i++) if (S[i].state != FREE) n++; return n; }
int misuse() { return bad_ops; }
long stat(int w) { if (w == ST_ACCEPTED_OPEN) { long n = 0; for (int i = 0; i < N; i++) if (S[i].state != FREE && S[i].accepted) n++; return n; } return w >= 0 && w < ST_NSTATS ? stats[w] : 0; }
void fail_accept(int kth) { accept_fail_at = kth; }
void set_spin_limit(int polls, void (*h)(const char*)) { spin_limit = polls; spin_handler = h; }
int scripted(const std::vector<std::string>& chunks) {
	int i = alloc(); if (i < 0) return -1;
	VS& s = S[i]; s.state = CONNECTED; s.family = AF_INET; s.scripted = true; s.script = chunks; s.next = 0; s.out_slot = nouts++; s.port = 40000 + i;
	if (chunks.empty()) s.eof = true;
	return BASE + i;
}
const std::string& written(int fd) { static std::string empty; if (!isv(fd)) return empty; for (int i = 0; i < N; i++) { } int slot = S[fd - BASE].out_slot; return slot >= 0 ? outs[slot] : empty; }
static uint64_t mixh(uint64_t h, uint64_t v) { h ^= v + 0x9e3779b97f4a7c15ULL + (h << 6) + (h >> 2); return h; }
uint64_t state_hash() { uint64_t h = 7; for (int i = 0; i < N; i++) if (S[i].state != FREE) { h = mixh(h, i * 16 + S[i].state); h = mixh(h, S[i].in.size() * 4 + S[i].eof * 2 + S[i].peer_gone); for (size_t k = 0; k < S[i].in.size(); k++) h = mixh(h, (unsigned char)S[i].in[k]); h = mixh(h, S[i].backlog.size()); } return h; }

// scripted arrival: the next chunk shows up when the reader has drained everything and looks again
static void fill(VS& s) {
	if (!s.scripted || !s.in.empty() || s.eof) return;
	if (s.next < s.script.size()) s.in += s.script[s.next++];
	if (s.next >= s.script.size()) s.eof = true;
}
static void progress(VS& s) { s.idle = 0; }
static void idle_op(VS& s, const char* what) { if (s.eof && s.in.empty() && spin_limit && ++s.idle > spin_limit && spin_handler) { s.idle = 0; spin_handler(what); } }

static bool readable(VS& s) { fill(s); return !s.in.empty() || s.eof || (s.state == LISTENING && !s.backlog.empty()); }
static bool pred_readable(void* p) { return readable(*(VS*)p); }
static bool pred_backlog(void* p) { return !((VS*)p)->backlog.empty(); }
static bool pred_space(void* p) { VS& s = *(VS*)p; return s.peer < 0 || s.peer_gone || (int)S[s.peer].in.size() < cap; }
struct SelArg { int n; VS* v[N]; };
static bool pred_any(void* p) { SelArg* a = (SelArg*)p; for (int i = 0; i < a->n; i++) if (readable(*a->v[i])) return true; return false; }

static void point() { if (vsched::is_managed()) vsched::block_until(0, 0, -1, 20, false); }

} // namespace vnet
using namespace vnet;

#define REAL(ret, name, ...) static ret (*real)(__VA_ARGS__) = 0; if (!real) *(void**)&real = dlsym(RTLD_NEXT, #name)

extern "C" int socket(int domain, int type, int proto) {
	REAL(int, socket, int, int, int);
	if (!on || (type & 0xf) != SOCK_STREAM || (domain != AF_INET && domain != AF_UNIX && domain != AF_INET6)) return real(domain, type, proto);
	int i = alloc(); if (i < 0) { errno = EMFILE; return -1; }
	S[i].family = domain;
	return BASE + i;
}
extern "C" int close(int fd) {
	REAL(int, close, int);
	if (!isv(fd)) return real(fd);
	VS* s = get(fd); if (!s) { errno = EBADF; return -1; }
	point();
	if (s->peer >= 0 && S[s->peer].state != FREE && S[s->peer].peer == fd - BASE) { S[s->peer].eof = true; S[s->peer].peer_gone = true; S[s->peer].peer = -1; }
	for (size_t k = 0; k < s->backlog.size(); k++) { VS& b = S[s->backlog[k]]; if (b.peer >= 0) { S[b.peer].eof = true; S[b.peer].peer_gone = true; S[b.peer].peer = -1; } clear(b); }
	int slot = s->out_slot;
	clear(*s);
	s->out_slot = slot; // written() stays readable until the slot is reused by reset()
	return 0;
}
extern "C" int shutdown(int fd, int how) {
	REAL(int, shutdown, int, int);
	if (!isv(fd)) return real(fd, how);
	VS* s = get(fd); if (!s) { errno = EBADF; return -1; }
	if (how != SHUT_RD && s->peer >= 0) S[s->peer].eof = true;
	return 0;
}
static int addr_key(const struct sockaddr* a, char* path) {
	path[0] = 0;
	if (a->sa_family == AF_UNIX) { strncpy(path, ((const sockaddr_un*)a)->sun_path, 107); path[107] = 0; return 0; }
	if (a->sa_family == AF_INET6) return ntohs(((const sockaddr_in6*)a)->sin6_port);
	return ntohs(((const sockaddr_in*)a)->sin_port);
}
extern "C" int bind(int fd, const struct sockaddr* a, socklen_t len) {
	REAL(int, bind, int, const struct sockaddr*, socklen_t);
	if (!isv(fd)) return real(fd, a, len);
	VS* s = get(fd); if (!s) { errno = EBADF; return -1; }
	char path[108]; int port = addr_key(a, path);
	for (int i = 0; i < N; i++) if (&S[i] != s && (S[i].state == BOUND || S[i].state == LISTENING) && S[i].port == port && !strcmp(S[i].path, path)) { errno = EADDRINUSE; return -1; }
	s->port = port; strcpy(s->path, path); s->state = BOUND;
	return 0;
}
extern "C" int listen(int fd, int n) {
	REAL(int, listen, int, int);
	if (!isv(fd)) return real(fd, n);
	VS* s = get(fd); if (!s) { errno = EBADF; return -1; }
	s->state = LISTENING;
	return 0;
}
extern "C" int connect(int fd, const struct sockaddr* a, socklen_t len) {
	REAL(int, connect, int, const struct sockaddr*, socklen_t);
	if (!isv(fd)) return real(fd, a, len);
	VS* s = get(fd); if (!s) { errno = EBADF; return -1; }
	point();
	char path[108]; int port = addr_key(a, path);
	for (int i = 0; i < N; i++) if (S[i].state == LISTENING && S[i].port == port && !strcmp(S[i].path, path)) {
		int j = alloc(); if (j < 0) { errno = EMFILE; return -1; }
		S[j].state = CONNECTED; S[j].family = s->family; S[j].port = port; S[j].peer = fd - BASE;
		s->state = CONNECTED; s->peer = j; if (!s->port) s->port = 50000 + (fd - BASE);
		S[i].backlog.push_back(j);
		return 0;
	}
	errno = ECONNREFUSED; return -1;
}
extern "C" int accept(int fd, struct sockaddr* a, socklen_t* len) {
	REAL(int, accept, int, struct sockaddr*, socklen_t*);
	if (!isv(fd)) return real(fd, a, len);
	VS* s = get(fd); if (!s || s->state != LISTENING) { errno = EBADF; return -1; }
	if (vsched::is_managed()) vsched::block_until(pred_backlog, s, -1, 21, true);
	if (s->state != LISTENING || s->backlog.empty()) { errno = EAGAIN; return -1; }
	int j = s->backlog.front(); s->backlog.erase(s->backlog.begin());
	if (accept_fail_at && ++accept_calls == accept_fail_at) { // deviation: the connection was aborted before it could be handed over
		VS& b = S[j]; if (b.peer >= 0 && S[b.peer].state != FREE) { S[b.peer].eof = true; S[b.peer].peer_gone = true; S[b.peer].peer = -1; } clear(b);
		stats[ST_ACCEPT_FAILURES]++; errno = ECONNABORTED; return -1;
	}
	S[j].accepted = true; stats[ST_ACCEPTS]++;
	return BASE + j;
}
static ssize_t vread(int fd, void* buf, size_t n) {
	VS* s = get(fd); if (!s) { errno = EBADF; return -1; }
	if (vsched::is_managed()) vsched::block_until(pred_readable, s, -1, 22, true);
	s = get(fd); if (!s) { errno = EBADF; return -1; }
	fill(*s);
	if (s->in.empty()) { if (s->eof) { idle_op(*s, "read at end of stream"); return 0; } errno = EAGAIN; return -1; }
	size_t k = s->in.size() < n ? s->in.size() : n;
	if (rmax && k > (size_t)rmax) k = rmax;
	memcpy(buf, s->in.data(), k); s->in.erase(0, k);
	progress(*s);
	return (ssize_t)k;
}
static ssize_t vsend(int fd, const void* buf, size_t n, int flags) {
	VS* s = get(fd); if (!s) { errno = EBADF; return -1; }
	if (s->scripted) { point(); size_t k = smax && n > (size_t)smax ? smax : n; outs[s->out_slot].append((const char*)buf, k); return (ssize_t)k; }
	if (vsched::is_managed()) vsched::block_until(pred_space, s, -1, 23, true);
	s = get(fd); if (!s) { errno = EBADF; return -1; }
	if (s->peer < 0 || s->peer_gone) { stats[ST_SENDS_TO_CLOSED_PEER]++; if (!(flags & MSG_NOSIGNAL)) stats[ST_SIGPIPE_SENDS]++; errno = EPIPE; return -1; }
	VS& p = S[s->peer];
	size_t room = cap > (int)p.in.size() ? cap - p.in.size() : 0;
	size_t k = n < room ? n : room;
	if (smax && k > (size_t)smax) k = smax;
	if (k == 0 && n > 0) { errno = EAGAIN; return -1; }
	p.in.append((const char*)buf, k);
	return (ssize_t)k;
}
extern "C" ssize_t read(int fd, void* buf, size_t n) { REAL(ssize_t, read, int, void*, size_t); return isv(fd) ? vread(fd, buf, n) : real(fd, buf, n); }
extern "C" ssize_t recv(int fd, void* buf, size_t n, int fl) { REAL(ssize_t, recv, int, void*, size_t, int); return isv(fd) ? vread(fd, buf, n) : real(fd, buf, n, fl); }
extern "C" ssize_t write(int fd, const void* buf, size_t n) { REAL(ssize_t, write, int, const void*, size_t); return isv(fd) ? vsend(fd, buf, n, 0) : real(fd, buf, n); }
extern "C" ssize_t send(int fd, const void* buf, size_t n, int fl) { REAL(ssize_t, send, int, const void*, size_t, int); return isv(fd) ? vsend(fd, buf, n, fl) : real(fd, buf, n, fl); }
extern "C" int ioctl(int fd, unsigned long req, ...) {
	va_list ap; va_start(ap, req); void* arg = va_arg(ap, void*); va_end(ap);
	REAL(int, ioctl, int, unsigned long, ...);
	if (!isv(fd)) return real(fd, req, arg);
	VS* s = get(fd); if (!s) { errno = EBADF; return -1; }
	if (req == FIONREAD) { point(); s = get(fd); if (!s) { errno = EBADF; return -1; } fill(*s); if (s->in.empty()) idle_op(*s, "available() polled at end of stream"); *(int*)arg = (int)s->in.size(); if (sizeof(long) > sizeof(int)) ((int*)arg)[1] = 0; return 0; }
	return 0;
}
extern "C" int select(int nfds, fd_set* r, fd_set* w, fd_set* e, struct timeval* tv) {
	REAL(int, select, int, fd_set*, fd_set*, fd_set*, struct timeval*);
	bool anyv = false;
	if (r) for (int fd = BASE; fd < nfds && fd < BASE + N; fd++) if (FD_ISSET(fd, r)) anyv = true;
	if (!anyv) return real(nfds, r, w, e, tv);
	SelArg a; a.n = 0;
	for (int fd = BASE; fd < nfds && fd < BASE + N; fd++) if (FD_ISSET(fd, r)) { VS* s = get(fd); if (!s) { errno = EBADF; return -1; } a.v[a.n++] = s; }
	double to = tv ? tv->tv_sec + tv->tv_usec * 1e-6 : -1;
	if (vsched::is_managed()) vsched::block_until(pred_any, &a, to, 24, true);
	int cnt = 0;
	fd_set out; FD_ZERO(&out);
	for (int fd = BASE; fd < nfds && fd < BASE + N; fd++) if (FD_ISSET(fd, r)) { VS* s = &S[fd - BASE]; if (s->state != FREE && readable(*s)) { FD_SET(fd, &out); cnt++; if (s->eof && s->in.empty()) idle_op(*s, "select() polled at end of stream"); } }
	for (int fd = 0; fd < nfds && fd < FD_SETSIZE; fd++) FD_CLR(fd, r); // like the kernel: descriptors at or above nfds are neither examined nor cleared
	for (int fd = BASE; fd < nfds && fd < BASE + N; fd++) if (FD_ISSET(fd, &out)) FD_SET(fd, r);
	if (w) FD_ZERO(w); if (e) FD_ZERO(e);
	if (cnt == 0) stats[ST_SELECT_TIMEOUTS]++; else if (cnt >= 2) stats[ST_SELECT_MULTI]++;
	return cnt;
}
extern "C" int setsockopt(int fd, int l, int o, const void* v, socklen_t n) { REAL(int, setsockopt, int, int, int, const void*, socklen_t); if (!isv(fd)) return real(fd, l, o, v, n); return get(fd) ? 0 : (errno = EBADF, -1); }
extern "C" int getsockopt(int fd, int l, int o, void* v, socklen_t* n) { REAL(int, getsockopt, int, int, int, void*, socklen_t*); if (!isv(fd)) return real(fd, l, o, v, n); if (!get(fd)) { errno = EBADF; return -1; } if (v && n && *n >= sizeof(int)) *(int*)v = 0; return 0; }
static int fill_addr(VS* s, struct sockaddr* a, socklen_t* len, int port) {
	if (!s) { errno = EBADF; return -1; }
	if (s->family == AF_UNIX) { sockaddr_un un; memset(&un, 0, sizeof un); un.sun_family = AF_UNIX; strncpy(un.sun_path, s->path, sizeof un.sun_path - 1); socklen_t k = *len < sizeof un ? *len : (socklen_t)sizeof un; memcpy(a, &un, k); *len = sizeof un; return 0; }
	sockaddr_in in; memset(&in, 0, sizeof in); in.sin_family = AF_INET; in.sin_port = htons((uint16_t)port); in.sin_addr.s_addr = htonl(0x7f000001);
	socklen_t k = *len < sizeof in ? *len : (socklen_t)sizeof in; memcpy(a, &in, k); *len = sizeof in;
	return 0;
}
extern "C" int getpeername(int fd, struct sockaddr* a, socklen_t* len) { REAL(int, getpeername, int, struct sockaddr*, socklen_t*); if (!isv(fd)) return real(fd, a, len); VS* s = get(fd); return fill_addr(s, a, len, s && s->peer >= 0 ? S[s->peer].port : 40001); }
extern "C" int getsockname(int fd, struct sockaddr* a, socklen_t* len) { REAL(int, getsockname, int, struct sockaddr*, socklen_t*); if (!isv(fd)) return real(fd, a, len); VS* s = get(fd); return fill_addr(s, a, len, s ? s->port : 0); }
