// vsched — deterministic cooperative scheduler over real pthreads + stateless schedule explorer (DESIGN.md §4).
// The translation unit is compiled WITHOUT sanitizers; hand-offs use raw futexes.
#pragma once
#include <stdint.h>
#include <string>
#include <vector>
#include <functional>

extern "C" {
void asl_verif_point(int kind, const void* obj);   // schedule point: the running thread may be preempted here
void asl_verif_spin(const volatile void* flag);    // one iteration of a busy-wait: not eligible again until another thread stepped
}

namespace vsched {

enum { MAXT = 16 };

struct PointInfo { uint8_t nenabled; uint8_t running_enabled; uint8_t chosen; uint8_t kind; uint8_t ntimer; }; // the last ntimer alternatives wake a timed waiter before anything else forced it (a deviation, cost 1)

struct Result {
	std::vector<uint8_t> choices;      // index into the canonical enabled list at every point
	std::vector<PointInfo> points;
	std::string fatal;                 // "", DEADLOCK, LIVELOCK, STEP_LIMIT, DIVERGED
	int preemptions;
	int threads;                       // threads ever registered (incl. main)
	double vtime;                      // virtual seconds elapsed
	std::string trace() const;         // compact schedule text "0.0.1.0..."
};

// Runs body() once on the calling thread under the scheduler: replays prefix, then always takes choice 0.
// On a fatal outcome the calling process cannot continue (threads are stuck): on_fatal is invoked and must not return.
Result run_once(const std::vector<uint8_t>& prefix, const std::function<void()>& body, int step_limit = 20000);
void set_fatal_handler(void (*h)(const char* what, const std::string& schedule));

// explicit schedule point / yield for harness payloads
void point();
void yield_spin(const volatile void* flag);
int self();          // id of the calling thread under the scheduler, -1 if unmanaged
double vnow();       // virtual clock (seconds since scenario start)
uint64_t steps();    // schedule points taken in the current execution
// observable-state hook: harness may supply extra bytes hashed into the state signature at each choice point
void set_state_probe(uint64_t (*probe)());
// early expiry of timed waits as a costed deviation (default on); off = timeouts fire only when no thread can run
void set_early_timeouts(bool on);
// pthread_detach is recorded per thread. With strict joins on (default off: the calls are passed on as before), pthread_join on a
// detached thread or on the null handle does not wait: it takes one schedule point, returns EINVAL / ESRCH and is counted;
// pthread_detach on the null handle or on a thread that was already joined or detached is refused and counted likewise.
void set_strict_joins(bool on);
int invalid_joins(); // refused join/detach calls in the current (or, after run_once returned, the last) execution

struct ExploreStats { uint64_t executions, points, max_points, pruned_by_bound, with_preemption, pruned_by_state; int bound_completed; bool complete; uint64_t distinct_states; bool states_saturated; };
// distinct scheduler-visible states (thread positions, lock/semaphore/pipe contents, clock, harness probe) seen at schedule
// points since the last states_reset(); counted in a preallocated table (no allocation while a body runs)
void states_reset();
uint64_t states_count();
bool states_saturated();
// Depth-first exploration of all schedules with at most `bound` preemptions (bound < 0: unbounded).
// after(result) is called after every complete execution. Returns when the space is exhausted or max_exec is reached.
ExploreStats explore(const std::function<void()>& body, const std::function<void(const Result&)>& after, int bound, uint64_t max_exec = 0, int step_limit = 20000, bool state_cache = false);

std::vector<uint8_t> parse_schedule(const std::string& s);

} // namespace vsched
