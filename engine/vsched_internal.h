// internal interface between vsched.cpp and vnet.cpp
#pragma once
namespace vsched {
bool is_managed();
// blocks the calling managed thread until pred(arg) holds or `timeout` virtual seconds passed (timeout < 0: none);
// returns false on timeout. A cancellable wait ends the thread if pthread_cancel was called on it.
bool block_until(bool (*pred)(void*), void* arg, double timeout, int kind, bool cancellable);
void advance_clock(double dt);
}
