// vsched — see vsched.h. Compiled without sanitizers.
#include "vsched.h"
#include "vsched_internal.h"
#include <pthread.h>
#include <semaphore.h>
#include <dlfcn.h>
#include <errno.h>
#include <stdio.h>
#include <stdlib.h>
#include <string.h>
#include <time.h>
#include <unistd.h>
#include <sys/syscall.h>
#include <sys/time.h>
#include <linux/futex.h>
#include <map>

namespace vsched {

// ------------------------------------------------------------------ state
enum { ST_UNUSED, ST_LIVE, ST_EXITED };
struct Th {
	pthread_t pth; int go; int state;
	bool (*pred)(void*); void* parg; bool timed; double deadline; bool timedout; // pending blocking condition (pred == 0: none)
	bool yielding; bool cancel; bool cancellable; bool joined;
	void* (*fn)(void*); void* arg;
	uint64_t npoints;
	bool detached; // pthread_detach was called on it (recorded always; acted upon only with set_strict_joins(true))
};
static Th T[MAXT];
static int nT = 0;
static volatile bool active = false;
static __thread int me = -1;
static double vclock = 0;
static uint64_t nsteps = 0;
static int step_limit_ = 20000;
static std::vector<uint8_t> prefix_;
static Result* res_ = 0;
static Result scratch_; // recording buffers reused across executions (no allocation while a body runs)
static void (*fatal_handler)(const char*, const std::string&) = 0;
static uint64_t (*state_probe)() = 0;
static bool early_timeouts = true;
static bool strict_joins = false; // opt-in: pthread_join on a detached thread or on the null handle is counted and refused instead of passed on
static int invalid_joins_ = 0;    // such joins in the current (or last) execution
static const double VBASE = 1700000000.0;

// exploration-wide state cache (set by explore())
static bool cache_on = false;
static std::map<uint64_t, int> seen_states; // state hash -> largest remaining budget it was expanded with
static int budget_total = -1;
static bool cut_here = false; // current execution reached an already expanded state: its suffix is not new

// object tables (reset per execution)
struct Mx { const void* a; int owner; };
struct Sm { const void* a; int count; };
struct CondWait { const void* c; bool signaled; };
static CondWait* condw[MAXT];
static Mx mx[256]; static int nmx;
static Sm sm[64]; static int nsm;

static int (*real_create)(pthread_t*, const pthread_attr_t*, void* (*)(void*), void*);
static int (*real_join)(pthread_t, void**);
static int (*real_mlock)(pthread_mutex_t*); static int (*real_mtrylock)(pthread_mutex_t*); static int (*real_munlock)(pthread_mutex_t*);
static int (*real_sem_init)(sem_t*, int, unsigned); static int (*real_sem_post)(sem_t*); static int (*real_sem_wait)(sem_t*); static int (*real_sem_trywait)(sem_t*);
static int (*real_usleep)(useconds_t); static int (*real_nanosleep)(const timespec*, timespec*);
static int (*real_gettimeofday)(timeval*, void*); static int (*real_clock_gettime)(clockid_t, timespec*);

static void resolve() {
	if (real_create) return;
	*(void**)&real_create = dlsym(RTLD_NEXT, "pthread_create");
	*(void**)&real_join = dlsym(RTLD_NEXT, "pthread_join");
	*(void**)&real_mlock = dlsym(RTLD_NEXT, "pthread_mutex_lock");
	*(void**)&real_mtrylock = dlsym(RTLD_NEXT, "pthread_mutex_trylock");
	*(void**)&real_munlock = dlsym(RTLD_NEXT, "pthread_mutex_unlock");
	*(void**)&real_sem_init = dlsym(RTLD_NEXT, "sem_init");
	*(void**)&real_sem_post = dlsym(RTLD_NEXT, "sem_post");
	*(void**)&real_sem_wait = dlsym(RTLD_NEXT, "sem_wait");
	*(void**)&real_sem_trywait = dlsym(RTLD_NEXT, "sem_trywait");
	*(void**)&real_usleep = dlsym(RTLD_NEXT, "usleep");
	*(void**)&real_nanosleep = dlsym(RTLD_NEXT, "nanosleep");
	*(void**)&real_gettimeofday = dlsym(RTLD_NEXT, "gettimeofday");
	*(void**)&real_clock_gettime = dlsym(RTLD_NEXT, "clock_gettime");
}

static inline bool managed() { return active && me >= 0; }
bool is_managed() { return managed(); }

static void futex_wait(int* a) { while (__atomic_load_n(a, __ATOMIC_SEQ_CST) == 0) syscall(SYS_futex, a, FUTEX_WAIT_PRIVATE, 0, 0, 0, 0); __atomic_store_n(a, 0, __ATOMIC_SEQ_CST); }
static void futex_wake(int* a) { __atomic_store_n(a, 1, __ATOMIC_SEQ_CST); syscall(SYS_futex, a, FUTEX_WAKE_PRIVATE, 1, 0, 0, 0); }

std::string Result::trace() const { std::string s; char b[8]; for (size_t i = 0; i < choices.size(); i++) { snprintf(b, sizeof b, i ? ".%d" : "%d", (int)choices[i]); s += b; } return s; }
std::vector<uint8_t> parse_schedule(const std::string& s) { std::vector<uint8_t> v; const char* p = s.c_str(); while (*p) { if (*p >= '0' && *p <= '9') v.push_back((uint8_t)strtol(p, (char**)&p, 10)); else p++; } return v; }

static void fatal(const char* what) {
	if (res_) res_->fatal = what;
	std::string sch = res_ ? res_->trace() : "";
	active = false;
	if (fatal_handler) fatal_handler(what, sch);
	fprintf(stderr, "vsched: fatal %s schedule %s\n", what, sch.c_str());
	_exit(3);
}
void set_fatal_handler(void (*h)(const char*, const std::string&)) { fatal_handler = h; }
void set_state_probe(uint64_t (*p)()) { state_probe = p; }
void set_early_timeouts(bool on) { early_timeouts = on; }
void set_strict_joins(bool on) { strict_joins = on; }
int invalid_joins() { return invalid_joins_; }

static bool enabled(int t) {
	Th& th = T[t];
	if (th.state != ST_LIVE) return false;
	if (th.yielding) return false;
	if (!th.pred) return true;
	if (th.cancel && th.cancellable) return true;
	if (th.pred(th.parg)) return true;
	if (th.timed && vclock >= th.deadline) return true;
	return false;
}

// ---- distinct-state counting: open addressing in a preallocated table, cleared by walking the used list
enum { STAB_BITS = 21, STAB_N = 1 << STAB_BITS, SUSED_N = 1 << 20 };
static uint64_t* stab = 0; static uint32_t* sused = 0; static uint32_t nsused = 0; static bool ssat = false;
void states_reset() {
	if (!stab) { stab = (uint64_t*)calloc(STAB_N, sizeof(uint64_t)); sused = (uint32_t*)malloc(SUSED_N * sizeof(uint32_t)); }
	for (uint32_t i = 0; i < nsused; i++) stab[sused[i]] = 0;
	nsused = 0; ssat = false;
}
uint64_t states_count() { return nsused; }
bool states_saturated() { return ssat; }
static inline void state_seen(uint64_t h) {
	if (!stab || ssat) return;
	if (h == 0) h = 1;
	uint32_t i = (uint32_t)(h >> 17) & (STAB_N - 1);
	for (int probe = 0; probe < 64; probe++, i = (i + 1) & (STAB_N - 1)) {
		if (stab[i] == h) return;
		if (stab[i] == 0) { if (nsused >= SUSED_N) { ssat = true; return; } stab[i] = h; sused[nsused++] = i; return; }
	}
	ssat = true;
}

static uint64_t mix(uint64_t h, uint64_t v) { h ^= v + 0x9e3779b97f4a7c15ULL + (h << 6) + (h >> 2); return h * 0xff51afd7ed558ccdULL; }
static uint64_t state_hash(int cur) {
	uint64_t h = 1469598103934665603ULL;
	h = mix(h, (uint64_t)cur);
	for (int t = 0; t < nT; t++) { h = mix(h, T[t].state * 1000003ULL + T[t].npoints); h = mix(h, (uint64_t)T[t].yielding * 2 + T[t].cancel); }
	for (int i = 0; i < nmx; i++) h = mix(h, (uint64_t)(mx[i].owner + 2) * 31 + i);
	for (int i = 0; i < nsm; i++) h = mix(h, (uint64_t)sm[i].count * 131 + i);
	h = mix(h, (uint64_t)(vclock * 1000));
	if (state_probe) h = mix(h, state_probe());
	return h;
}

// The running thread `cur` has set its pending condition (or has exited). Decide who runs next.
static int decide(int cur, bool curAlive, int kind) {
	for (;;) {
		int list[MAXT], n = 0;
		bool runEn = curAlive && enabled(cur);
		if (runEn) list[n++] = cur;
		for (int t = 0; t < nT; t++) if (t != cur && enabled(t)) list[n++] = t;
		if (n == 0) {
			// quiescent: fire the earliest timer
			double dl = -1;
			for (int t = 0; t < nT; t++) if (T[t].state == ST_LIVE && T[t].pred && T[t].timed && !T[t].yielding) if (dl < 0 || T[t].deadline < dl) dl = T[t].deadline;
			if (dl >= 0 && dl > vclock) { vclock = dl; continue; }
			bool spinner = false, alive = false;
			for (int t = 0; t < nT; t++) if (T[t].state == ST_LIVE) { alive = true; if (T[t].yielding) spinner = true; }
			if (!alive) return -1;
			if (spinner) { // a busy-waiter whose flag nobody can set any more
				bool anyEnabledIfNotYielding = false; (void)anyEnabledIfNotYielding;
				fatal("LIVELOCK");
			}
			fatal("DEADLOCK");
		}
		// a timed waiter may also time out while other threads are merely slow: offered as extra alternatives that cost one deviation
		int ntimer = 0;
		if (early_timeouts) for (int t = 0; t < nT && n < MAXT; t++) if (T[t].state == ST_LIVE && T[t].pred && T[t].timed && !T[t].yielding && !enabled(t)) { list[n++] = t; ntimer++; }
		if (++nsteps > (uint64_t)step_limit_) fatal("STEP_LIMIT");
		state_seen(state_hash(cur));
		size_t pos = res_->choices.size();
		int c = 0;
		if (pos < prefix_.size()) { c = prefix_[pos]; if (c >= n) fatal("DIVERGED"); }
		else if (cache_on && n > 1 && !cut_here) {
			// state caching: a (state, remaining budget) pair that was already expanded with at least this budget has no new futures
			int remaining = budget_total < 0 ? 1 << 20 : budget_total - res_->preemptions;
			uint64_t h = state_hash(cur);
			std::map<uint64_t, int>::iterator it = seen_states.find(h);
			if (it != seen_states.end() && it->second >= remaining) cut_here = true;
			else seen_states[h] = remaining;
		}
		PointInfo pi; pi.nenabled = (uint8_t)n; pi.running_enabled = runEn; pi.chosen = (uint8_t)c; pi.kind = (uint8_t)kind; pi.ntimer = (uint8_t)ntimer;
		if (cut_here && pos >= prefix_.size()) { pi.nenabled = 1; pi.ntimer = 0; } // do not branch below an already expanded state
		res_->points.push_back(pi); res_->choices.push_back((uint8_t)c);
		int tid = list[c];
		bool timerWake = c >= n - ntimer;
		if ((runEn && tid != cur) || (timerWake && !runEn)) res_->preemptions++;
		if (timerWake && T[tid].deadline > vclock) vclock = T[tid].deadline;
		for (int t = 0; t < nT; t++) if (t != tid) T[t].yielding = false;
		return tid;
	}
}

static void switch_point(int kind) {
	int cur = me;
	T[cur].npoints++;
	int tid = decide(cur, true, kind);
	if (tid != cur) { futex_wake(&T[tid].go); futex_wait(&T[cur].go); }
	Th& th = T[cur];
	th.timedout = th.pred && !th.pred(th.parg) && !(th.cancel && th.cancellable);
	th.pred = 0; th.timed = false;
}

static void do_cancel();
bool block_until(bool (*pred)(void*), void* arg, double timeout, int kind, bool cancellable) {
	Th& th = T[me];
	th.pred = pred; th.parg = arg; th.timed = timeout >= 0; th.deadline = vclock + (timeout >= 0 ? timeout : 0); th.cancellable = cancellable;
	switch_point(kind);
	if (th.cancel && cancellable) do_cancel();
	return !th.timedout;
}
void point() { if (managed()) { T[me].pred = 0; switch_point(0); } }
void yield_spin(const volatile void* flag) {
	if (!managed()) return;
	if (flag && *(const volatile char*)flag) return;
	T[me].yielding = true; T[me].pred = 0;
	switch_point(9);
}
int self() { return managed() ? me : -1; }
double vnow() { return vclock; }
uint64_t steps() { return nsteps; }
void advance_clock(double dt) { vclock += dt; }

static void thread_exit() {
	int cur = me;
	T[cur].state = ST_EXITED; T[cur].pred = 0;
	me = -1;
	int tid = decide(cur, false, 8);
	if (tid >= 0) futex_wake(&T[tid].go);
}
struct ExitGuard { bool done; ExitGuard() : done(false) {} ~ExitGuard() { if (!done && me >= 0) thread_exit(); } };
static void* tramp(void* p) {
	int id = (int)(intptr_t)p;
	me = id;
	futex_wait(&T[id].go);
	ExitGuard g;
	void* r = T[id].fn(T[id].arg);
	g.done = true;
	thread_exit();
	return r;
}
static void do_cancel() { pthread_exit(PTHREAD_CANCELED); }

static bool pred_all_exited(void*) { for (int t = 1; t < nT; t++) if (T[t].state == ST_LIVE) return false; return true; }

Result run_once(const std::vector<uint8_t>& prefix, const std::function<void()>& body, int step_limit) {
	resolve();
	Result& r = scratch_; r.preemptions = 0; r.threads = 0; r.vtime = 0; r.fatal.clear();
	r.choices.clear(); r.points.clear();
	if (r.choices.capacity() < (size_t)step_limit + 8) { r.choices.reserve(step_limit + 8); r.points.reserve(step_limit + 8); } // no allocation by the scheduler while the body runs (harnesses measure heap deltas)
	res_ = &r; prefix_ = prefix; step_limit_ = step_limit; nsteps = 0; vclock = 0; nmx = nsm = 0; cut_here = false; invalid_joins_ = 0;
	memset(T, 0, sizeof T); memset(condw, 0, sizeof condw);
	nT = 1; T[0].state = ST_LIVE; T[0].pth = pthread_self();
	me = 0; active = true;
	body();
	block_until(pred_all_exited, 0, -1, 7, false);
	active = false; me = -1;
	r.threads = nT; r.vtime = vclock;
	res_ = 0;
	Result out; out.choices.assign(r.choices.begin(), r.choices.end()); out.points.assign(r.points.begin(), r.points.end()); out.preemptions = r.preemptions; out.threads = r.threads; out.vtime = r.vtime;
	return out;
}

ExploreStats explore(const std::function<void()>& body, const std::function<void(const Result&)>& after, int bound, uint64_t max_exec, int step_limit, bool state_cache) {
	ExploreStats st; memset(&st, 0, sizeof st); st.complete = true; st.bound_completed = bound;
	cache_on = state_cache; seen_states.clear(); budget_total = bound;
	states_reset();
	std::vector<std::vector<uint8_t> > stack;
	stack.push_back(std::vector<uint8_t>());
	while (!stack.empty()) {
		if (max_exec && st.executions >= max_exec) { st.complete = false; break; }
		std::vector<uint8_t> prefix = stack.back(); stack.pop_back();
		Result x = run_once(prefix, body, step_limit);
		st.executions++; st.points += x.points.size(); if (x.points.size() > st.max_points) st.max_points = x.points.size();
		if (x.preemptions > 0) st.with_preemption++;
		if (cut_here) st.pruned_by_state++;
		after(x);
		// alternatives at every point after the replayed prefix
		int pre = 0;
		std::vector<int> preBefore(x.points.size());
		for (size_t i = 0; i < x.points.size(); i++) { preBefore[i] = pre; const PointInfo& q = x.points[i]; if ((q.running_enabled && q.chosen != 0) || (!q.running_enabled && q.chosen >= q.nenabled - q.ntimer && q.ntimer)) pre++; }
		for (size_t i = x.points.size(); i-- > prefix.size();) {
			const PointInfo& p = x.points[i];
			for (int alt = p.nenabled - 1; alt >= 1; alt--) {
				int cost = preBefore[i] + ((p.running_enabled || alt >= p.nenabled - p.ntimer) ? 1 : 0);
				if (bound >= 0 && cost > bound) { st.pruned_by_bound++; continue; }
				std::vector<uint8_t> np(x.choices.begin(), x.choices.begin() + i);
				np.push_back((uint8_t)alt);
				stack.push_back(np);
			}
		}
	}
	cache_on = false;
	st.distinct_states = states_count(); st.states_saturated = states_saturated();
	return st;
}

// ------------------------------------------------------------------ object tables
static Mx* mxget(const void* a) { for (int i = 0; i < nmx; i++) if (mx[i].a == a) return &mx[i]; if (nmx >= 256) fatal("STEP_LIMIT"); mx[nmx].a = a; mx[nmx].owner = -1; return &mx[nmx++]; }
static Sm* smget(const void* a) { for (int i = 0; i < nsm; i++) if (sm[i].a == a) return &sm[i]; if (nsm >= 64) fatal("STEP_LIMIT"); sm[nsm].a = a; int v = 0; sem_getvalue((sem_t*)a, &v); sm[nsm].count = v; return &sm[nsm++]; }
static bool pred_mutex_free(void* p) { return ((Mx*)p)->owner < 0; }
static bool pred_sem_pos(void* p) { return ((Sm*)p)->count > 0; }
static bool pred_thread_exited(void* p) { return ((Th*)p)->state == ST_EXITED; }
static bool pred_never(void*) { return false; }
static bool pred_cond(void* p) { return ((CondWait*)p)->signaled; }

} // namespace vsched

using namespace vsched;

// ------------------------------------------------------------------ hooks called from asl (ASL_VERIF)
extern "C" void asl_verif_point(int kind, const void*) { if (managed()) { T[me].pred = 0; switch_point(kind); } }
extern "C" void asl_verif_spin(const volatile void* flag) { yield_spin(flag); }

// ------------------------------------------------------------------ interposed libc / libpthread
extern "C" int pthread_create(pthread_t* th, const pthread_attr_t* attr, void* (*fn)(void*), void* arg) {
	resolve();
	if (!managed()) return real_create(th, attr, fn, arg);
	if (nT >= MAXT) fatal("TOO_MANY_THREADS");
	int id = nT;
	memset(&T[id], 0, sizeof(Th));
	T[id].fn = fn; T[id].arg = arg; T[id].state = ST_LIVE;
	int rc = real_create(&T[id].pth, attr, tramp, (void*)(intptr_t)id);
	if (rc) return rc;
	nT++;
	*th = T[id].pth;
	T[me].pred = 0; switch_point(1);
	return 0;
}
extern "C" int pthread_join(pthread_t th, void** ret) {
	resolve();
	int found = -1;
	if (managed() && strict_joins && th == (pthread_t)0) { T[me].pred = 0; switch_point(2); invalid_joins_++; return ESRCH; } // join on an empty handle (the real call would crash)
	if (managed()) for (int t = nT - 1; t >= 0; t--) if (t != me && T[t].state != ST_UNUSED && !T[t].joined && pthread_equal(T[t].pth, th)) { found = t; break; } // newest first: the system reuses pthread_t values
	if (found >= 0 && strict_joins && T[found].detached) { T[me].pred = 0; switch_point(2); invalid_joins_++; return EINVAL; } // join after detach: returns at once, the thread may still be running
	if (found >= 0) { block_until(pred_thread_exited, &T[found], -1, 2, false); T[found].joined = true; }
	return real_join(th, ret);
}
extern "C" int pthread_detach(pthread_t th) {
	static int (*real)(pthread_t) = 0; if (!real) *(void**)&real = dlsym(RTLD_NEXT, "pthread_detach");
	if (managed()) {
		if (strict_joins && th == (pthread_t)0) { invalid_joins_++; return ESRCH; }
		for (int t = nT - 1; t >= 0; t--) if (T[t].state != ST_UNUSED && pthread_equal(T[t].pth, th)) { // newest first, as in pthread_join
			if (!T[t].joined && !T[t].detached) { T[t].detached = true; break; }
			if (strict_joins) { invalid_joins_++; return EINVAL; } // the handle was already joined or detached (two owners of one handle): the real call would be undefined
			break;
		}
	}
	return real(th);
}
extern "C" int pthread_cancel(pthread_t th) {
	if (managed()) {
		for (int t = nT - 1; t >= 0; t--) if (T[t].state != ST_UNUSED && !T[t].joined && pthread_equal(T[t].pth, th)) { T[me].pred = 0; switch_point(3); if (T[t].state == ST_LIVE) T[t].cancel = true; return 0; }
	}
	static int (*real)(pthread_t) = 0; if (!real) *(void**)&real = dlsym(RTLD_NEXT, "pthread_cancel");
	return real(th);
}
extern "C" int pthread_mutex_lock(pthread_mutex_t* m) {
	resolve();
	if (!managed()) return real_mlock(m);
	Mx* x = mxget(m);
	block_until(pred_mutex_free, x, -1, 4, false);
	x->owner = me;
	return real_mlock(m);
}
extern "C" int pthread_mutex_trylock(pthread_mutex_t* m) {
	resolve();
	if (!managed()) return real_mtrylock(m);
	Mx* x = mxget(m);
	T[me].pred = 0; switch_point(4);
	if (x->owner >= 0) return EBUSY;
	x->owner = me;
	return real_mtrylock(m);
}
extern "C" int pthread_mutex_unlock(pthread_mutex_t* m) {
	resolve();
	if (!managed()) return real_munlock(m);
	Mx* x = mxget(m);
	T[me].pred = 0; switch_point(5);
	if (x->owner == me) x->owner = -1;
	return real_munlock(m);
}
extern "C" int pthread_cond_wait(pthread_cond_t* c, pthread_mutex_t* m) {
	resolve();
	if (!managed()) { static int (*real)(pthread_cond_t*, pthread_mutex_t*) = 0; if (!real) *(void**)&real = dlvsym(RTLD_NEXT, "pthread_cond_wait", "GLIBC_2.3.2"); if (!real) *(void**)&real = dlsym(RTLD_NEXT, "pthread_cond_wait"); return real(c, m); }
	Mx* x = mxget(m);
	CondWait w = { c, false };
	x->owner = -1; real_munlock(m);
	condw[me] = &w;
	block_until(pred_cond, &w, -1, 6, true);
	condw[me] = 0;
	block_until(pred_mutex_free, x, -1, 4, false);
	x->owner = me; real_mlock(m);
	return 0;
}
extern "C" int pthread_cond_timedwait(pthread_cond_t* c, pthread_mutex_t* m, const struct timespec* abst) {
	resolve();
	if (!managed()) { static int (*real)(pthread_cond_t*, pthread_mutex_t*, const struct timespec*) = 0; if (!real) *(void**)&real = dlvsym(RTLD_NEXT, "pthread_cond_timedwait", "GLIBC_2.3.2"); if (!real) *(void**)&real = dlsym(RTLD_NEXT, "pthread_cond_timedwait"); return real(c, m, abst); }
	Mx* x = mxget(m);
	CondWait w = { c, false };
	double dl = (double)abst->tv_sec + abst->tv_nsec * 1e-9 - VBASE - vclock;
	x->owner = -1; real_munlock(m);
	condw[me] = &w;
	bool ok = block_until(pred_cond, &w, dl > 0 ? dl : 0, 6, true);
	condw[me] = 0;
	block_until(pred_mutex_free, x, -1, 4, false);
	x->owner = me; real_mlock(m);
	return ok ? 0 : ETIMEDOUT;
}
static int cond_wake(pthread_cond_t* c, bool all) {
	T[me].pred = 0; switch_point(6);
	for (int t = 0; t < nT; t++) if (condw[t] && condw[t]->c == c && !condw[t]->signaled) { condw[t]->signaled = true; if (!all) break; }
	return 0;
}
extern "C" int pthread_cond_broadcast(pthread_cond_t* c) {
	if (!managed()) { static int (*real)(pthread_cond_t*) = 0; if (!real) *(void**)&real = dlvsym(RTLD_NEXT, "pthread_cond_broadcast", "GLIBC_2.3.2"); if (!real) *(void**)&real = dlsym(RTLD_NEXT, "pthread_cond_broadcast"); return real(c); }
	return cond_wake(c, true);
}
extern "C" int pthread_cond_signal(pthread_cond_t* c) {
	if (!managed()) { static int (*real)(pthread_cond_t*) = 0; if (!real) *(void**)&real = dlvsym(RTLD_NEXT, "pthread_cond_signal", "GLIBC_2.3.2"); if (!real) *(void**)&real = dlsym(RTLD_NEXT, "pthread_cond_signal"); return real(c); }
	return cond_wake(c, false);
}
extern "C" int sem_init(sem_t* s, int sh, unsigned v) {
	resolve();
	int rc = real_sem_init(s, sh, v);
	if (managed()) { Sm* x = smget(s); x->count = (int)v; }
	return rc;
}
extern "C" int sem_post(sem_t* s) {
	resolve();
	if (!managed()) return real_sem_post(s);
	Sm* x = smget(s);
	T[me].pred = 0; switch_point(10);
	x->count++;
	return real_sem_post(s);
}
extern "C" int sem_wait(sem_t* s) {
	resolve();
	if (!managed()) return real_sem_wait(s);
	Sm* x = smget(s);
	block_until(pred_sem_pos, x, -1, 11, true);
	x->count--;
	return real_sem_wait(s);
}
extern "C" int sem_trywait(sem_t* s) {
	resolve();
	if (!managed()) return real_sem_trywait(s);
	Sm* x = smget(s);
	T[me].pred = 0; switch_point(11);
	if (x->count <= 0) { errno = EAGAIN; return -1; }
	x->count--;
	return real_sem_trywait(s);
}
extern "C" int sem_timedwait(sem_t* s, const struct timespec* abst) {
	resolve();
	if (!managed()) { static int (*real)(sem_t*, const struct timespec*) = 0; if (!real) *(void**)&real = dlsym(RTLD_NEXT, "sem_timedwait"); return real(s, abst); }
	Sm* x = smget(s);
	double dl = (double)abst->tv_sec + abst->tv_nsec * 1e-9 - VBASE - vclock;
	if (!block_until(pred_sem_pos, x, dl > 0 ? dl : 0, 11, true)) { errno = ETIMEDOUT; return -1; }
	x->count--;
	return real_sem_wait(s);
}
extern "C" int usleep(useconds_t us) {
	resolve();
	if (!managed()) return real_usleep(us);
	block_until(pred_never, 0, us * 1e-6, 12, true);
	return 0;
}
extern "C" int nanosleep(const struct timespec* req, struct timespec* rem) {
	resolve();
	if (!managed()) return real_nanosleep(req, rem);
	block_until(pred_never, 0, req->tv_sec + req->tv_nsec * 1e-9, 12, true);
	if (rem) { rem->tv_sec = 0; rem->tv_nsec = 0; }
	return 0;
}
extern "C" unsigned sleep(unsigned s) {
	if (!managed()) { static unsigned (*real)(unsigned) = 0; if (!real) *(void**)&real = dlsym(RTLD_NEXT, "sleep"); return real(s); }
	block_until(pred_never, 0, (double)s, 12, true);
	return 0;
}
extern "C" int gettimeofday(struct timeval* tv, void* tz) {
	resolve();
	if (!managed()) return real_gettimeofday(tv, tz);
	double t = VBASE + vclock;
	tv->tv_sec = (time_t)t; tv->tv_usec = (suseconds_t)((t - (double)(time_t)t) * 1e6);
	return 0;
}
extern "C" int clock_gettime(clockid_t id, struct timespec* ts) {
	resolve();
	if (!managed() || (id != CLOCK_REALTIME && id != CLOCK_MONOTONIC)) return real_clock_gettime(id, ts);
	double t = VBASE + vclock;
	ts->tv_sec = (time_t)t; ts->tv_nsec = (long)((t - (double)(time_t)t) * 1e9);
	return 0;
}
