// C14 — SocketServer serves each accepted connection exactly once and stops cleanly: the real accept loop, handler
// threads, stop(true) and destruction run over vnet under the controlled scheduler; all interleavings of start (in its own
// thread or blocking in a caller's thread), N client connects (bursts, a trickle after an idle select timeout, early
// closes, one accept() that fails), stop(true), a late client and destruction within a preemption bound.
#include <asl/SocketServer.h>
#include <asl/Socket.h>
#include <asl/Thread.h>
#include <time.h>
#include "vf.h"
#include "vsched.h"
#include "vnet.h"
using namespace asl;
using vf::fmt;

static int C_EXEC, C_POINTS, C_JOBS, C_STATES, C_SUBJOBS, C_PRUNED;
static int W_PREEMPT, W_SERVED, W_SERVED_MODE[4], W_EARLYCLOSE, W_EARLY_MODE[2], W_LATE_NOT_SERVED, W_LATE_OTHER_ENDPOINT, C_LATE_CONNECTED, C_LATE_REFUSED;
static int W_BLOCKING, W_BLOCKING_LOOP_THREAD_ALIVE, W_NOSTART, W_ACCEPTS_EQ, W_KEPT_CLOSED, W_TWO_INFLIGHT, W_SELECT_MULTI, W_AFTER_IDLE;
static int W_STOP_INFLIGHT, W_STOP_POLLS, W_ACC_ALIVE, W_HANDLER_ALIVE, W_ACCEPT_FAIL, C_FAILED_SERVE, W_EPIPE;
static std::string g_case;
static void onFatal(const char* what, const std::string& schedule) {
	std::string w = what;
	if (w == "DIVERGED") { fprintf(stderr, "HARNESS ERROR: diverged %s\n", g_case.c_str()); _exit(2); }
	vf::violation(w == "DEADLOCK" ? "deadlock" : w == "LIVELOCK" ? "livelock" : "no_termination", std::string(what) + " in " + g_case + " under schedule " + schedule, g_case + "|" + schedule);
	vf::restart_worker();
}

// everything the scenario observes; plain variables, accessed only while holding the scheduler baton
struct Obs { int starts, ends, inServe, maxInServe, lateStarts, badFd, failedServes, stopReturned, serverFreed, afterFree, afterIdle, nkept, loopReturned; int perConn[8]; };
static Obs g;
static bool g_acceptMayFail; static int g_modeOf[8];
// copies of the sockets handed to serve(), as a server that keeps its connections (a WebSocket- or HTTP-style one) holds them: the
// descriptor is then closed only if the server closes it, not as a side effect of the last reference going away
static Socket* g_kept[8];
struct EchoSrv : public SocketServer {
	void serve(Socket client) {
		if (g.serverFreed) g.afterFree++;
		g.starts++; g.inServe++; if (g.inServe > g.maxInServe) g.maxInServe = g.inServe;
		if (g.stopReturned) g.lateStarts++;
		bool failed = g_acceptMayFail && client.handle() < 0; // accept() itself failed (injected): not a connection; the statement says nothing about it
		if (failed) g.failedServes++;
		else if (client.handle() < 900) g.badFd++;
		if (!failed && g.nkept < 8) g_kept[g.nkept++] = new Socket(client);
		// read a one-byte token (or see the peer close), echo it twice
		if (client.waitInput(2.0)) {
			char t = 0; int n = client.read(&t, 1);
			if (n == 1) { if (t >= '0' && t < '8') { g.perConn[t - '0']++; if (g_modeOf[t - '0'] == 3 && vnet::stat(vnet::ST_SELECT_TIMEOUTS) > 0) g.afterIdle++; } vsched::point(); client.write(&t, 1); client.write(&t, 1); }
		}
		if (!failed && client.handle() < 900) g.badFd++;
		g.inServe--; g.ends++;
	}
};
// client modes: 0 connect, send the token, wait for the echo; 1 connect and close; 2 connect, send, close; 3 sleep until the accept loop's
// select has expired idle (2.5 s with the 2 s timeout of the present loop; whatever the timeout is, at most 15 s), then as 0
struct Client : public Thread {
	int id, mode, port; const char* path; int connected, echoed;
	Client() : id(0), mode(0), port(0), path(0), connected(0), echoed(0) {}
	void run() {
		// the length of the loop's select timeout is the library's business: wait in steps of 2.5 s until one idle timeout has been seen
		if (mode == 3) for (int k = 0; k < 6; k++) { asl::sleep(2.5); if (vnet::stat(vnet::ST_SELECT_TIMEOUTS) > 0) break; }
		Socket s;
		bool ok = path ? s.connect(String(path)) : s.connect("127.0.0.1", port);
		if (!ok) { s.close(); return; }
		connected = 1;
		if (mode == 1) { s.close(); return; } // early close without sending
		char t = (char)('0' + id); s.write(&t, 1);
		if (mode == 2) { s.close(); return; } // close without waiting for the echo
		char r[2] = { 0, 0 };
		if (s.waitInput(3.0) && s.read(r, 2) == 2 && r[0] == t && r[1] == t) echoed = 1;
		s.close();
	}
};
struct Starter : public Thread { // the documented default: start() blocks the calling thread in the accept loop
	EchoSrv* srv;
	void run() { srv->start(false); g.loopReturned = 1; }
};

enum { NONBLOCKING = 0, BLOCKING = 1, NOSTART = 2 };
// unixPath: 0 TCP port, 1 Unix path, 2 both bound (client 0 and a late client of a two-client scenario use the port, client 1 and the late client of a one-client scenario the path)
// kind: NONBLOCKING start(true); BLOCKING start() in a caller's thread; NOSTART bound, never started, stop(true), destroyed
// acceptFail: k > 0 = the k-th accept() fails once (ECONNABORTED)
struct Scn { int nclients; int modes[2]; bool sequential; int unixPath; bool lateClient; int bound; bool joinFirst; int kind; int acceptFail; };
static const char* PATH = "/tmp/vnet-c14.sock";
static std::string scnName(const Scn& s) {
	return fmt("srv.n%d.m%d%d.seq%d.ux%d.late%d.b%d%s%s%s", s.nclients, s.modes[0], s.modes[1], (int)s.sequential, (int)s.unixPath, (int)s.lateClient, s.bound, s.joinFirst ? ".join" : "",
		s.kind == BLOCKING ? ".blk" : s.kind == NOSTART ? ".nostart" : "", s.acceptFail ? fmt(".af%d", s.acceptFail).c_str() : "");
}
static bool parseScn(const std::string& name, Scn& s) {
	memset(&s, 0, sizeof s);
	int n, m0, m1, seq, ux, late, b, used = 0;
	if (sscanf(name.c_str(), "srv.n%d.m%1d%1d.seq%d.ux%d.late%d.b%d%n", &n, &m0, &m1, &seq, &ux, &late, &b, &used) != 7) return false;
	s.nclients = n; s.modes[0] = m0; s.modes[1] = m1; s.sequential = seq != 0; s.unixPath = ux; s.lateClient = late != 0; s.bound = b;
	std::string rest = name.substr(used);
	while (!rest.empty()) {
		size_t e = rest.find('.', 1); std::string tok = rest.substr(0, e); rest = e == std::string::npos ? "" : rest.substr(e);
		if (tok == ".join") s.joinFirst = true; else if (tok == ".blk") s.kind = BLOCKING; else if (tok == ".nostart") s.kind = NOSTART;
		else if (tok.compare(0, 3, ".af") == 0) s.acceptFail = atoi(tok.c_str() + 3); else return false;
	}
	return n >= 0 && n <= 2 && m0 >= 0 && m0 <= 3 && m1 >= 0 && m1 <= 3 && ux >= 0 && ux <= 2;
}

struct Run { // one scenario under exploration: body() is one execution, after() judges it
	Scn sc; std::string kase, verdict;
	uint64_t stepsAtDelete; int harnessAliveAtDelete, handlersAtDelete; bool deleted;
	const char* clientPath(int i) const { return (sc.unixPath == 1 || (sc.unixPath == 2 && i == 1)) ? PATH : 0; }
	void body() {
		vf::asan_clear(); memset((void*)&g, 0, sizeof g);
		vnet::reset(4); vnet::enable(true); vnet::set_limits(0, 0); vnet::fail_accept(sc.acceptFail); g_acceptMayFail = sc.acceptFail != 0; memset(g_modeOf, 0, sizeof g_modeOf); for (int i = 0; i < sc.nclients; i++) g_modeOf[i] = sc.modes[i];
		vsched::set_early_timeouts(!sc.joinFirst); // joinFirst: a client's 3 s wait for its echo may only expire when nothing else can run
		verdict.clear(); deleted = false; stepsAtDelete = 0; harnessAliveAtDelete = handlersAtDelete = 0;
		{
			EchoSrv* srv = new EchoSrv();
			bool bound = sc.unixPath == 1 ? srv->bindPath(PATH) : srv->bind("127.0.0.1", 9100);
			if (sc.unixPath == 2) bound = srv->bindPath(PATH) && bound;
			if (!bound) verdict += "bind failed; ";
			srv->setSequential(sc.sequential);
			if (sc.kind == NOSTART) {
				// a server that was bound but never started: stop(true) has nothing to wait for, and it can be destroyed (no accept thread exists)
				if (srv->running()) verdict += "running() is true for a server that was never started; ";
				srv->stop(true);
				if (srv->running()) verdict += "running() is true after stop(true) on a server that was never started; ";
				delete srv; g.serverFreed = 1;
				vf::add(W_NOSTART);
				finish(); return;
			}
			Starter st; st.srv = srv;
			if (sc.kind == BLOCKING) {
				st.start();
				// let the starting thread get into start(): a caller can only stop a server it knows to be running
				for (int k = 0; k < 32 && !srv->running() && !st.finished(); k++) vsched::yield_spin(0); // however many steps start() takes before it says so
				if (!srv->running()) verdict += "start() is executing the accept loop in another thread but running() is false; ";
			}
			else srv->start(true);
			Client c[2];
			for (int i = 0; i < sc.nclients; i++) { c[i].id = i; c[i].mode = sc.modes[i]; c[i].port = 9100; c[i].path = clientPath(i); c[i].start(); }
			if (sc.joinFirst) {
				// the server is running and nobody has asked it to stop: every client that connects, sends its token and waits must be served
				for (int i = 0; i < sc.nclients; i++) c[i].join();
				int unserved = 0;
				for (int i = 0; i < sc.nclients; i++) if ((sc.modes[i] == 0 || sc.modes[i] == 3) && c[i].connected && !c[i].echoed) {
					if (++unserved <= (int)vnet::stat(vnet::ST_ACCEPT_FAILURES)) continue; // its connection was the one aborted in accept()
					verdict += fmt("client %d connected to the running server (%s)%s, sent its token and waited 3 s without being served; ", i, c[i].path ? "Unix path" : "TCP port", sc.modes[i] == 3 ? " after the accept loop had been idle for 2.5 s" : "");
				}
			}
			int inflightAtStop = g.inServe; double t0 = vsched::vnow();
			srv->stop(true);
			// stop(true) has returned: the loop must have ended and no serve() may be in flight
			g.stopReturned = 1;
			if (inflightAtStop) vf::add(W_STOP_INFLIGHT);
			if (vsched::vnow() - t0 > 0.15) vf::add(W_STOP_POLLS);
			if (g.inServe != 0) verdict += fmt("stop(true) returned while %d serve() call(s) were still running; ", g.inServe);
			if (srv->running()) verdict += "running() is true after stop(true); ";
			if (g.starts != g.ends) verdict += "serve() started but not finished when stop(true) returned; ";
			if (sc.kind == BLOCKING) {
				if (!g.loopReturned) verdict += "stop(true) returned while the blocking start() had not returned: the accept loop was still running; ";
				else { vf::add(W_BLOCKING); if (!st.finished()) vf::add(W_BLOCKING_LOOP_THREAD_ALIVE); }
			}
			// every connection the server accepted has been through serve() by now (none is served later, see lateStarts)
			long acc = vnet::stat(vnet::ST_ACCEPTS);
			if (acc != g.starts - g.failedServes) verdict += fmt("%ld connection(s) accepted but serve() entered %d time(s) with a connection when stop(true) returned; ", acc, g.starts - g.failedServes);
			else if (acc) vf::add(W_ACCEPTS_EQ);
			Client late;
			if (sc.lateClient) {
				bool other = sc.unixPath == 2 && sc.nclients == 1; // the endpoint that nobody has used yet
				late.id = 7; late.mode = 0; late.port = 9100; late.path = (sc.unixPath == 1 || other) ? PATH : 0; late.start(); late.join();
				if (late.echoed) verdict += "a client that connected after stop(true) returned was served; ";
				else { // whether a stopped server still listens (the client waits in the backlog) or refuses the connection is its own business
					vf::add(W_LATE_NOT_SERVED); if (other) vf::add(W_LATE_OTHER_ENDPOINT);
					vf::add(late.connected ? C_LATE_CONNECTED : C_LATE_REFUSED);
				}
			}
			// which threads are still on their way out when the server is destroyed (the window the memory oracle is for); a thread whose
			// finished flag is set has nothing left but its exit, without a schedule point in between
			stepsAtDelete = vsched::steps(); deleted = true;
			for (int i = 0; i < sc.nclients; i++) if (!c[i].finished()) harnessAliveAtDelete++;
			if (sc.kind == BLOCKING && !st.finished()) harnessAliveAtDelete++;
			handlersAtDelete = sc.sequential ? 0 : g.starts; // a concurrent server's handler threads: each has entered serve() by now (or stop(true) has been reported above)
			delete srv; g.serverFreed = 1;
			if (sc.kind == BLOCKING) st.join();
			for (int i = 0; i < sc.nclients; i++) c[i].join();
			// every accepted connection was served exactly once
			int served = 0;
			for (int i = 0; i < 8; i++) { if (g.perConn[i] > 1) verdict += fmt("connection of client %d was served %d times; ", i, g.perConn[i]); served += g.perConn[i]; }
			for (int i = 0; i < sc.nclients; i++) if (c[i].echoed && g.perConn[i] != 1) verdict += fmt("client %d got an echo but its connection was served %d times; ", i, g.perConn[i]);
			if (served) vf::add(W_SERVED, served);
			for (int i = 0; i < sc.nclients; i++) if (g.perConn[i]) vf::add(W_SERVED_MODE[(sc.sequential ? 2 : 0) + (c[i].path ? 1 : 0)]);
			for (int i = 0; i < sc.nclients; i++) if ((sc.modes[i] == 1 || sc.modes[i] == 2) && c[i].connected) { vf::add(W_EARLYCLOSE); vf::add(W_EARLY_MODE[sc.sequential ? 1 : 0]); }
		}
		finish();
	}
	void finish() {
		if (g.lateStarts) verdict += fmt("%d serve() call(s) began after stop(true) had returned; ", g.lateStarts);
		if (g.afterFree) verdict += "serve() ran after the server was destroyed; ";
		if (g.badFd) verdict += "serve() was handed an invalid socket; ";
		if (g.starts != g.ends) verdict += fmt("serve() begun %d times, finished %d times; ", g.starts, g.ends);
		if (vnet::misuse()) verdict += fmt("%d socket operation(s) on a closed descriptor; ", vnet::misuse());
		if (vnet::stat(vnet::ST_SIGPIPE_SENDS)) verdict += fmt("%ld send() call(s) to a closed peer without MSG_NOSIGNAL: SIGPIPE would end the process; ", vnet::stat(vnet::ST_SIGPIPE_SENDS));
		if (g.maxInServe >= 2) vf::add(W_TWO_INFLIGHT);
		if (g.afterIdle) vf::add(W_AFTER_IDLE, g.afterIdle);
		if (g.failedServes) vf::add(C_FAILED_SERVE, g.failedServes);
		if (vnet::stat(vnet::ST_ACCEPT_FAILURES)) vf::add(W_ACCEPT_FAIL);
		if (vnet::stat(vnet::ST_SELECT_MULTI)) vf::add(W_SELECT_MULTI);
		if (vnet::stat(vnet::ST_SENDS_TO_CLOSED_PEER)) vf::add(W_EPIPE);
		// threads the server started must be gone before the scenario ends (vsched waits for them); descriptors must be closed
		vsched::point();
		vnet::enable(false);
		if (vf::asan_tripped()) verdict += "ASan " + vf::asan_what() + "; ";
	}
	void after(const vsched::Result& x) {
		vf::add(C_EXEC); vf::add(C_POINTS, x.points.size()); if (x.preemptions) vf::add(W_PREEMPT);
		if (vf::asan_tripped()) { verdict += "ASan " + vf::asan_what() + " (after the scenario body); "; vf::asan_clear(); }
		// every thread has ended: a connection that went through serve() must have been closed by the server, although a copy of the socket is still held
		int notClosed = 0;
		for (int k = 0; k < g.nkept; k++) { if (g_kept[k]->handle() >= 0) notClosed++; else vf::add(W_KEPT_CLOSED); }
		if (notClosed) verdict += fmt("%d connection(s) still open after serve() returned and every server thread ended (a copy of the socket is still held: only the server's own close() closes it); ", notClosed);
		if (vnet::stat(vnet::ST_ACCEPTED_OPEN) > notClosed) verdict += fmt("%ld accepted connection(s) that never reached serve() still open after every thread ended; ", vnet::stat(vnet::ST_ACCEPTED_OPEN) - notClosed);
		for (int k = 0; k < g.nkept; k++) { delete g_kept[k]; g_kept[k] = 0; }
		g.nkept = 0;
		int leaked = vnet::open_fds();
		if (leaked) verdict += fmt("%d descriptor(s) still open after every thread ended; ", leaked);
		if (deleted && stepsAtDelete <= x.points.size()) {
			int exited = 0; for (uint64_t i = 0; i < stepsAtDelete; i++) if (x.points[i].kind == 8) exited++;
			// threads of the server's own that had not ended yet. Which of them is the accept thread is not looked up in the server's private
			// fields: it is certainly among them when more are alive than handler threads were ever made, and a handler is certainly among
			// them when more are alive than the one accept thread of start(true)
			int serverAlive = (x.threads - 1) - exited - harnessAliveAtDelete;
			int acceptThreads = sc.kind == NONBLOCKING ? 1 : 0;
			if (acceptThreads && serverAlive > handlersAtDelete) vf::add(W_ACC_ALIVE);
			if (serverAlive > acceptThreads) vf::add(W_HANDLER_ALIVE);
		}
		if (!verdict.empty()) vf::violation("server_contract", kase + ": " + verdict + "schedule " + x.trace(), kase + "|" + x.trace());
	}
};

// Depth-first enumeration of all schedules below `root` with at most `bound` deviations, as vsched::explore does it (an alternative at a
// point of an execution is a new prefix; alternatives are taken only at points after the prefix, so the prefixes partition the space).
// splitOnly: run the root execution and hand its alternatives back instead of following them (they become separate work items).
typedef std::vector<uint8_t> Prefix;
static void alternatives(const vsched::Result& x, size_t from, int bound, std::vector<Prefix>& out) {
	std::vector<int> preBefore(x.points.size()); int pre = 0;
	for (size_t i = 0; i < x.points.size(); i++) { preBefore[i] = pre; const vsched::PointInfo& q = x.points[i]; if ((q.running_enabled && q.chosen != 0) || (!q.running_enabled && q.ntimer && q.chosen >= q.nenabled - q.ntimer)) pre++; }
	for (size_t i = x.points.size(); i-- > from;) {
		const vsched::PointInfo& p = x.points[i];
		for (int alt = p.nenabled - 1; alt >= 1; alt--) {
			int cost = preBefore[i] + ((p.running_enabled || alt >= p.nenabled - p.ntimer) ? 1 : 0);
			if (bound >= 0 && cost > bound) { vf::add(C_PRUNED); continue; }
			Prefix np(x.choices.begin(), x.choices.begin() + i); np.push_back((uint8_t)alt);
			out.push_back(np);
		}
	}
}
static double cpu_s() { struct timespec ts; clock_gettime(CLOCK_PROCESS_CPUTIME_ID, &ts); return ts.tv_sec + ts.tv_nsec * 1e-9; }
static void exploreBelow(const Scn& sc, const Prefix& root, bool splitOnly, std::vector<Prefix>* handBack) {
	Run r; r.sc = sc; r.kase = scnName(sc); g_case = r.kase; vf::cur(r.kase);
	double c0 = cpu_s(); uint64_t nexec = 0;
	vsched::states_reset();
	std::vector<Prefix> stack; stack.push_back(root);
	std::function<void()> body = [&]() { r.body(); };
	while (!stack.empty()) {
		if ((nexec & 255) == 255 && vf::deadline_passed()) { vf::cap_hit("deadline in " + r.kase); break; }
		Prefix p = stack.back(); stack.pop_back();
		vsched::Result x = vsched::run_once(p, body, 50000);
		nexec++;
		r.after(x);
		if (splitOnly) { alternatives(x, p.size(), sc.bound, *handBack); break; }
		alternatives(x, p.size(), sc.bound, stack);
	}
	vf::add(C_STATES, vsched::states_count());
	if (getenv("C14_TIMES")) { FILE* f = fopen(getenv("C14_TIMES"), "a"); if (f) { fprintf(f, "%s %d %llu %.2f\n", r.kase.c_str(), (int)root.size(), (unsigned long long)nexec, cpu_s() - c0); fclose(f); } }
}

static void addScn(std::vector<Scn>& v, int n, int m0, int m1, int seq, int ux, bool late, int bound, bool join = false, int kind = NONBLOCKING, int af = 0) {
	if (bound <= 0) return; // not in this tier
	Scn s = { n, { m0, m1 }, seq != 0, ux, late, bound, join, kind, af };
	for (size_t i = 0; i < v.size(); i++) if (scnName(v[i]) == scnName(s)) return;
	v.push_back(s);
}

int main(int argc, char** argv) {
	vf::init(argc, argv, "C14", "s_c14_server");
	C_EXEC = vf::counter("traces"); C_POINTS = vf::counter("transitions"); C_JOBS = vf::counter("scenarios"); C_STATES = vf::counter("states"); C_SUBJOBS = vf::counter("work_items"); C_PRUNED = vf::counter("alternatives_beyond_bound");
	W_PREEMPT = vf::counter("w.executions_with_preemption"); W_SERVED = vf::counter("w.connections_served");
	W_SERVED_MODE[0] = vf::counter("w.served_concurrent_tcp"); W_SERVED_MODE[1] = vf::counter("w.served_concurrent_unix"); W_SERVED_MODE[2] = vf::counter("w.served_sequential_tcp"); W_SERVED_MODE[3] = vf::counter("w.served_sequential_unix");
	W_EARLYCLOSE = vf::counter("w.clients_closing_early"); W_EARLY_MODE[0] = vf::counter("w.early_close_concurrent"); W_EARLY_MODE[1] = vf::counter("w.early_close_sequential");
	W_LATE_NOT_SERVED = vf::counter("w.late_clients_not_served"); W_LATE_OTHER_ENDPOINT = vf::counter("w.late_client_on_second_endpoint");
	C_LATE_CONNECTED = vf::counter("late_clients_left_in_backlog"); C_LATE_REFUSED = vf::counter("late_clients_refused");
	W_BLOCKING = vf::counter("w.blocking_start_stopped"); W_BLOCKING_LOOP_THREAD_ALIVE = vf::counter("w.blocking_start_thread_still_returning_at_stop_return");
	W_NOSTART = vf::counter("w.never_started_server_destroyed");
	W_ACCEPTS_EQ = vf::counter("w.accepts_equal_serve_entries"); W_KEPT_CLOSED = vf::counter("w.kept_socket_closed_by_server"); W_TWO_INFLIGHT = vf::counter("w.two_handlers_in_flight");
	W_SELECT_MULTI = vf::counter("w.select_round_with_two_active_listeners"); W_AFTER_IDLE = vf::counter("w.served_after_idle_select_timeout");
	W_STOP_INFLIGHT = vf::counter("w.stop_called_with_serve_in_flight"); W_STOP_POLLS = vf::counter("w.stop_polled_more_than_once");
	W_ACC_ALIVE = vf::counter("w.accept_thread_alive_at_delete"); W_HANDLER_ALIVE = vf::counter("w.handler_thread_alive_at_delete");
	W_ACCEPT_FAIL = vf::counter("w.accept_failures_injected"); W_EPIPE = vf::counter("w.sends_to_closed_peer");
	C_FAILED_SERVE = vf::counter("serve_calls_on_failed_accept"); // not a witness: a server may as well skip an accept() that failed
	vsched::set_fatal_handler(onFatal);
	vsched::set_state_probe(vnet::state_hash);
	bool T = vf::opt.thorough();
	std::vector<Scn> sc;
	// B(q, t): deviation bound in the quick / thorough tier (0 = not in that tier). The bounds are the deepest that fit the time budget, measured per scenario (C14_TIMES=<file>).
	#define B(q, t) (T ? (t) : (q))
	for (int seq = 0; seq < 2; seq++) for (int ux = 0; ux < 2; ux++) {
		addScn(sc, 0, 0, 0, seq, ux, true, B(3, 4));
		for (int m = 0; m < 3; m++) addScn(sc, 1, m, 0, seq, ux, m == 0, B(2, m ? 3 : 2));
		for (int m0 = 0; m0 < 3; m0++) for (int m1 = m0; m1 < 3; m1++) addScn(sc, 2, m0, m1, seq, ux, false, B((ux && (m0 || m1)) ? 0 : 1, (!ux && (m0 >= 1 || seq)) ? 2 : 1));
	}
	// clients finish before stop(true): each must be served; with both endpoints bound at once, one client per endpoint
	for (int seq = 0; seq < 2; seq++) for (int ux = 0; ux < 3; ux++) {
		if (ux < 2) addScn(sc, 1, 0, 0, seq, ux, false, B(1, 2), true);
		addScn(sc, 2, 0, 0, seq, ux, false, B((!seq && ux < 2) ? 0 : 1, 1), true);
	}
	// blocking start(): the accept loop runs in the thread that called start(); stop(true) comes from another thread, the server is destroyed while that thread is still returning
	for (int seq = 0; seq < 2; seq++) for (int ux = 0; ux < 2; ux++) {
		addScn(sc, 0, 0, 0, seq, ux, true, B(2, 3), false, BLOCKING);
		for (int m = 0; m < 3; m++) addScn(sc, 1, m, 0, seq, ux, m == 0, B(1, 2), false, BLOCKING);
		addScn(sc, 2, 0, 0, seq, ux, false, 1, false, BLOCKING);
	}
	for (int seq = 0; seq < 2; seq++) addScn(sc, 2, 0, 0, seq, 2, false, 1, true, BLOCKING);
	// bound, never started, stop(true), destroyed
	for (int ux = 0; ux < 3; ux++) addScn(sc, 0, 0, 0, 0, ux, false, 2, false, NOSTART);
	// a trickle: the client connects after the accept loop's select has expired idle; it must still be served
	for (int seq = 0; seq < 2; seq++) {
		for (int ux = 0; ux < 2; ux++) addScn(sc, 1, 3, 0, seq, ux, false, B(2, 3), true);
		addScn(sc, 2, 0, 3, seq, 2, false, 1, true); // one at once on the port, one later on the path
	}
	addScn(sc, 1, 3, 0, 0, 0, false, B(1, 2), true, BLOCKING);
	// both endpoints bound with stop(true) racing the clients, and a late client on the endpoint not used before
	for (int seq = 0; seq < 2; seq++) {
		for (int m0 = 0; m0 < 3; m0++) for (int m1 = 0; m1 < 3; m1++) addScn(sc, 2, m0, m1, seq, 2, false, B((m0 && m1) || (!seq && (m0 || m1)) ? 0 : 1, 1));
		addScn(sc, 1, 0, 0, seq, 2, true, B(1, 2));
	}
	// one accept() fails (ECONNABORTED): the loop must go on, the handler count must not leak, the other connection is served
	for (int seq = 0; seq < 2; seq++) {
		for (int ux = 0; ux < 2; ux++) addScn(sc, 1, 0, 0, seq, ux, false, B(1, 2), false, NONBLOCKING, 1);
		for (int af = 1; af <= 2; af++) addScn(sc, 2, 0, 0, seq, 0, false, 1, false, NONBLOCKING, af);
		addScn(sc, 2, 0, 0, seq, 2, false, B(seq ? 1 : 0, 1), true, NONBLOCKING, 1);
	}
	#undef B
	if (getenv("C14_ONLY")) { std::vector<Scn> q; for (size_t i = 0; i < sc.size(); i++) if (scnName(sc[i]).find(getenv("C14_ONLY")) != std::string::npos) q.push_back(sc[i]); sc.swap(q); }
	if (vf::opt.replay) {
		std::string k = vf::opt.kase, sched; size_t bar = k.find('|'); if (bar != std::string::npos) { sched = k.substr(bar + 1); k = k.substr(0, bar); }
		Scn s;
		if (!parseScn(k, s)) { fprintf(stderr, "cannot parse case %s\n", k.c_str()); return 2; }
		vf::parallel(1, [&](uint64_t) { Run r; r.sc = s; r.kase = scnName(s); g_case = r.kase; vf::cur(r.kase); vsched::Result x = vsched::run_once(vsched::parse_schedule(sched), [&]() { r.body(); }, 50000); r.after(x); });
		return vf::finish();
	}
	// phase 1: the first execution of every scenario; its alternatives (one per schedule point and enabled thread, within the bound) become the work items of phase 2
	std::string dir = vf::scratch_dir();
	vf::parallel(sc.size(), [&](uint64_t i) {
		std::vector<Prefix> alts; exploreBelow(sc[i], Prefix(), true, &alts);
		FILE* f = fopen((dir + fmt("/c14root.%d", (int)i)).c_str(), "wb");
		if (f) { for (size_t k = 0; k < alts.size(); k++) { uint32_t n = (uint32_t)alts[k].size(); fwrite(&n, 4, 1, f); fwrite(alts[k].data(), 1, n, f); } fclose(f); }
		vf::add(C_JOBS);
	});
	struct Item { int scn; Prefix prefix; };
	std::vector<Item> items;
	for (size_t i = 0; i < sc.size(); i++) {
		FILE* f = fopen((dir + fmt("/c14root.%d", (int)i)).c_str(), "rb"); if (!f) continue; // its first execution ended the worker: reported there
		uint32_t n; while (fread(&n, 4, 1, f) == 1 && n < 60000) { Item it; it.scn = (int)i; it.prefix.resize(n); if (n && fread(it.prefix.data(), 1, n, f) != n) break; items.push_back(it); }
		fclose(f); remove((dir + fmt("/c14root.%d", (int)i)).c_str());
	}
	// alternatives that branch off early have the largest subtrees: start them first
	std::stable_sort(items.begin(), items.end(), [](const Item& a, const Item& b) { return a.prefix.size() < b.prefix.size(); });
	vf::parallel(items.size(), [&](uint64_t k) { if (vf::deadline_passed()) { vf::cap_hit("deadline"); return; } exploreBelow(sc[items[k].scn], items[k].prefix, false, 0); vf::add(C_SUBJOBS); });
	vf::setinfo("scenarios", fmt("%d", (int)sc.size()));
	vf::sample("srv.n1.m00.seq0.ux0.late1.b2: start(true); client connects, sends '0', reads echo; stop(true); late client; delete server - all schedules with <= 2 deviations");
	vf::sample("srv.n2.m12.seq1.ux1.late0.b1: sequential server on a Unix path, one client closes before sending, one after sending");
	vf::sample("srv.n1.m30.seq0.ux0.late0.b1.join.blk: start() blocking in a caller's thread; the client connects 2.5 s later, after an idle select timeout; stop(true) from the main thread; server destroyed before that thread is joined");
	return vf::finish();
}
