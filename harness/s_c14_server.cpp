// C14 — SocketServer serves each accepted connection exactly once and stops cleanly: the real accept loop, handler
// threads, stop(true) and destruction run over vnet under the controlled scheduler; all interleavings of start, N client
// connects (with early closes), stop(true) and destruction within a preemption bound.
#include <asl/SocketServer.h>
#include <asl/Socket.h>
#include <asl/Thread.h>
#include "vf.h"
#include "vsched.h"
#include "vnet.h"
using namespace asl;
using vf::fmt;

static int C_EXEC, C_POINTS, C_JOBS, W_PREEMPT, W_SERVED, W_EARLYCLOSE, W_STOP_WITH_INFLIGHT, W_LATE_REFUSED, W_CANCEL;
static std::string g_case;
static void onFatal(const char* what, const std::string& schedule) {
	std::string w = what;
	if (w == "DIVERGED") { fprintf(stderr, "HARNESS ERROR: diverged %s\n", g_case.c_str()); _exit(2); }
	vf::violation(w == "DEADLOCK" ? "deadlock" : w == "LIVELOCK" ? "livelock" : "no_termination", std::string(what) + " in " + g_case + " under schedule " + schedule, g_case + "|" + schedule);
	vf::restart_worker();
}

// everything the scenario observes; plain variables, accessed only while holding the scheduler baton
struct Obs { int starts, ends, inServe, lateStarts, badFd, stopReturned, serverFreed, afterFree; int perConn[8]; };
static Obs g;
struct EchoSrv : public SocketServer {
	void serve(Socket client) {
		if (g.serverFreed) g.afterFree++;
		g.starts++; g.inServe++;
		if (g.stopReturned) g.lateStarts++;
		if (client.handle() < 900) g.badFd++;
		// read a one-byte token (or see the peer close), echo it twice
		if (client.waitInput(2.0)) {
			char t = 0; int n = client.read(&t, 1);
			if (n == 1) { if (t >= '0' && t < '8') g.perConn[t - '0']++; vsched::point(); client.write(&t, 1); client.write(&t, 1); }
		}
		if (client.handle() < 900) g.badFd++;
		g.inServe--; g.ends++;
	}
};
struct Client : public Thread {
	int id, mode, port; const char* path; int connected, echoed;
	Client() : id(0), mode(0), port(0), path(0), connected(0), echoed(0) {}
	void run() {
		Socket s;
		bool ok = path ? s.connect(String(path)) : s.connect("127.0.0.1", port);
		if (!ok) { s.close(); return; }
		connected = 1;
		if (mode == 1) { s.close(); return; } // early close without sending
		char t = (char)('0' + id); s.write(&t, 1);
		if (mode == 2) { s.close(); return; } // close without waiting for the echo
		char r[2] = { 0, 0 };
		if (s.waitInput(3.0) && s.read(r, 2) == 2 && r[0] == t && r[1] == t) echoed = 1;
		s.close();
	}
};

struct Scn { int nclients; int modes[2]; bool sequential; int unixPath; bool lateClient; int bound; bool joinFirst; }; // unixPath: 0 TCP port, 1 Unix path, 2 both bound (client 0 uses the port, client 1 the path)
static std::string scnName(const Scn& s) { return fmt("srv.n%d.m%d%d.seq%d.ux%d.late%d.b%d%s", s.nclients, s.modes[0], s.modes[1], (int)s.sequential, (int)s.unixPath, (int)s.lateClient, s.bound, s.joinFirst ? ".join" : ""); }

static void runScn(const Scn& sc, const std::string* replay) {
	std::string kase = scnName(sc); g_case = kase; vf::cur(kase);
	std::string verdict;
	auto body = [&]() {
		vf::asan_clear(); memset((void*)&g, 0, sizeof g);
		vnet::reset(4); vnet::enable(true); vnet::set_limits(0, 0);
		vsched::set_early_timeouts(!sc.joinFirst); // joinFirst: a client's 3 s wait for its echo may only expire when nothing else can run
		verdict.clear();
		{
			EchoSrv* srv = new EchoSrv();
			bool bound = sc.unixPath == 1 ? srv->bindPath("/tmp/vnet-c14.sock") : srv->bind("127.0.0.1", 9100);
			if (sc.unixPath == 2) bound = srv->bindPath("/tmp/vnet-c14.sock") && bound;
			if (!bound) verdict += "bind failed; ";
			srv->setSequential(sc.sequential);
			srv->start(true);
			Client c[2];
			for (int i = 0; i < sc.nclients; i++) { c[i].id = i; c[i].mode = sc.modes[i]; c[i].port = 9100; c[i].path = (sc.unixPath == 1 || (sc.unixPath == 2 && i == 1)) ? "/tmp/vnet-c14.sock" : 0; c[i].start(); }
			if (sc.joinFirst) {
				// the server is running and nobody has asked it to stop: every client that connects, sends its token and waits must be served
				for (int i = 0; i < sc.nclients; i++) c[i].join();
				for (int i = 0; i < sc.nclients; i++) if (sc.modes[i] == 0 && c[i].connected && !c[i].echoed) verdict += fmt("client %d connected to the running server (%s), sent its token and waited 3 s without being served; ", i, c[i].path ? "Unix path" : "TCP port");
			}
			srv->stop(true);
			// stop(true) has returned: the loop must have ended and no serve() may be in flight
			g.stopReturned = 1;
			if (g.inServe != 0) verdict += fmt("stop(true) returned while %d serve() call(s) were still running; ", g.inServe);
			if (srv->running()) verdict += "running() is true after stop(true); ";
			if (g.starts != g.ends) verdict += "serve() started but not finished when stop(true) returned; ";
			if (g.starts > 0 && g.ends > 0 && g.inServe == 0 && sc.nclients > 0) {}
			Client late; int lateConnected = 0;
			if (sc.lateClient) { late.id = 7; late.mode = 0; late.port = 9100; late.path = sc.unixPath == 1 ? "/tmp/vnet-c14.sock" : 0; late.start(); late.join(); lateConnected = late.connected; if (late.echoed) verdict += "a client that connected after stop(true) returned was served; "; else vf::add(W_LATE_REFUSED); }
			delete srv; g.serverFreed = 1;
			for (int i = 0; i < sc.nclients; i++) c[i].join();
			(void)lateConnected;
			// every accepted connection was served exactly once
			int served = 0;
			for (int i = 0; i < 8; i++) { if (g.perConn[i] > 1) verdict += fmt("connection of client %d was served %d times; ", i, g.perConn[i]); served += g.perConn[i]; }
			for (int i = 0; i < sc.nclients; i++) if (c[i].echoed && g.perConn[i] != 1) verdict += fmt("client %d got an echo but its connection was served %d times; ", i, g.perConn[i]);
			if (served) vf::add(W_SERVED, served);
			for (int i = 0; i < sc.nclients; i++) if (sc.modes[i] != 0 && c[i].connected) vf::add(W_EARLYCLOSE);
		}
		if (g.lateStarts) verdict += fmt("%d serve() call(s) began after stop(true) had returned; ", g.lateStarts);
		if (g.afterFree) verdict += "serve() ran after the server was destroyed; ";
		if (g.badFd) verdict += "serve() was handed an invalid socket; ";
		if (g.starts != g.ends) verdict += fmt("serve() begun %d times, finished %d times; ", g.starts, g.ends);
		if (vnet::misuse()) verdict += fmt("%d socket operation(s) on a closed descriptor; ", vnet::misuse());
		// threads the server started must be gone before the scenario ends (vsched waits for them); descriptors must be closed
		vsched::point();
		vnet::enable(false);
		if (vf::asan_tripped()) verdict += "ASan " + vf::asan_what() + "; ";
	};
	int leaked = 0;
	auto after = [&](const vsched::Result& x) {
		vf::add(C_EXEC); vf::add(C_POINTS, x.points.size()); if (x.preemptions) vf::add(W_PREEMPT);
		if (vf::asan_tripped()) { verdict += "ASan " + vf::asan_what() + " (after the scenario body); "; vf::asan_clear(); }
		leaked = vnet::open_fds();
		if (leaked) verdict += fmt("%d descriptor(s) still open after every thread ended; ", leaked);
		if (!verdict.empty()) vf::violation("server_contract", kase + ": " + verdict + "schedule " + x.trace(), kase + "|" + x.trace());
	};
	if (replay) { vsched::Result x = vsched::run_once(vsched::parse_schedule(*replay), body, 50000); after(x); return; }
	vsched::ExploreStats st = vsched::explore(body, after, sc.bound, 0, 50000);
	vf::add(C_JOBS); { static int cst = vf::counter("states"); vf::add(cst, st.distinct_states); }
	if (getenv("VF_DEBUG")) fprintf(stderr, "%s: %llu executions, max %llu points\n", kase.c_str(), (unsigned long long)st.executions, (unsigned long long)st.max_points);
}

int main(int argc, char** argv) {
	vf::init(argc, argv, "C14", "s_c14_server");
	C_EXEC = vf::counter("traces"); C_POINTS = vf::counter("transitions"); C_JOBS = vf::counter("scenarios"); vf::counter("states");
	W_PREEMPT = vf::counter("w.executions_with_preemption"); W_SERVED = vf::counter("w.connections_served"); W_EARLYCLOSE = vf::counter("w.clients_closing_early"); W_LATE_REFUSED = vf::counter("w.late_clients_not_served");
	vsched::set_fatal_handler(onFatal);
	vsched::set_state_probe(vnet::state_hash);
	bool T = vf::opt.thorough();
	std::vector<Scn> sc;
	for (int seq = 0; seq < 2; seq++) for (int ux = 0; ux < 2; ux++) {
		{ Scn s = { 0, { 0, 0 }, seq != 0, ux != 0, true, T ? 4 : 3 }; sc.push_back(s); }
		// thorough bounds are the deepest that finish (measured: n1.m00 at 3 and n2.m00/m01/m02 at 2 need > 25 min of CPU each)
		for (int m = 0; m < 3; m++) { Scn s = { 1, { m, 0 }, seq != 0, ux != 0, m == 0, (T && m != 0) ? 3 : 2 }; sc.push_back(s); }
		for (int m0 = 0; m0 < 3; m0++) for (int m1 = m0; m1 < 3; m1++) { if (!T && ux && (m0 || m1)) continue; Scn s = { 2, { m0, m1 }, seq != 0, ux != 0, false, (T && !ux && m0 >= 1) ? 2 : 1 }; sc.push_back(s); }
	}
	// both endpoints bound at once, clients finish before stop(true): one client per endpoint must be served
	for (int seq = 0; seq < 2; seq++) for (int ux = 0; ux < 3; ux++) { Scn s = { 2, { 0, 0 }, seq != 0, ux, false, 1, true }; sc.push_back(s); }
	if (getenv("C14_ONLY")) { std::vector<Scn> q; for (size_t i = 0; i < sc.size(); i++) if (scnName(sc[i]).find(getenv("C14_ONLY")) == 0) q.push_back(sc[i]); sc.swap(q); }
	if (vf::opt.replay) {
		std::string k = vf::opt.kase, sched; size_t bar = k.find('|'); if (bar != std::string::npos) { sched = k.substr(bar + 1); k = k.substr(0, bar); }
		for (size_t i = 0; i < sc.size(); i++) if (scnName(sc[i]) == k) { vf::parallel(1, [&](uint64_t) { runScn(sc[i], &sched); }); break; }
		return vf::finish();
	}
	vf::parallel(sc.size(), [&](uint64_t i) { if (vf::deadline_passed()) { vf::cap_hit("deadline"); return; } runScn(sc[i], 0); });
	vf::setinfo("scenarios", fmt("%d", (int)sc.size()));
	vf::sample("srv.n1.m00.seq0.ux0.late1: start(true); client connects, sends '0', reads echo; stop(true); late client; delete server - all schedules with <= 1 preemption");
	vf::sample("srv.n2.m12.seq1.ux1: sequential server on a Unix path, one client closes before sending, one after sending");
	return vf::finish();
}
