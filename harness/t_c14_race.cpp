// C14 side pass — keeps the scheduler's assumption honest for the handler count. The vsched exploration (s_c14_server) can preempt
// the server's threads only at hooked points: the atomic increment/decrement of SocketServer::_numClients, thread ends, locks and the
// interposed socket calls. If the count were a plain int, "++" in the accept loop and "--" in the handler threads would be indivisible to
// the scheduler and every schedule would pass, while under a real OS updates get lost and stop(true) hangs or returns early. This part runs
// the two-client scenario FREE-RUNNING over real loopback / Unix-path sockets under ThreadSanitizer and reports a write to the handler
// count that is not an atomic operation and races with another access. It is not an exploration and decides nothing else: the plain bool
// flags _running and _requestStop race by design (stop() sets, the loop polls) and reports on them are only counted; a plain READ of the
// count racing with an atomic update is how AtomicCount is meant to be polled and is counted as well, not reported.
#include <asl/SocketServer.h>
#include <asl/Socket.h>
#include <asl/Thread.h>
#include "vf.h"
using namespace asl;
using vf::fmt;

extern "C" {
int __tsan_get_report_data(void* report, const char** description, int* count, int* stack_count, int* mop_count, int* loc_count, int* mutex_count, int* thread_count, int* unique_tid_count, void** sleep_trace, unsigned long trace_size);
int __tsan_get_report_mop(void* report, unsigned long idx, int* tid, void** addr, int* size, int* write, int* atomic, void** trace, unsigned long trace_size);
}
static char* g_count_addr; static int g_count_size;     // the live server's handler count
static char* g_self_addr;                                      // the self-test variable
static int g_count_race, g_count_polled, g_flag_reports, g_other_reports, g_self_reports;
static char g_what[200];
static inline void bump(int* p) { __atomic_fetch_add(p, 1, __ATOMIC_RELAXED); }
extern "C" void __tsan_on_report(void* report) {
	const char* d = 0; int count = 0, sc = 0, mc = 0, lc = 0, mtc = 0, tc = 0, ut = 0; void* sl[1];
	__tsan_get_report_data(report, &d, &count, &sc, &mc, &lc, &mtc, &tc, &ut, sl, 1);
	bool onCount = false, plainWrite = false, onSelf = false, nearCount = false;
	std::string acc;
	for (int i = 0; i < mc; i++) {
		int tid = 0, size = 0, write = 0, atomic = 0; void* addr = 0; void* tr[1];
		__tsan_get_report_mop(report, i, &tid, &addr, &size, &write, &atomic, tr, 1);
		char* a = (char*)addr; char* c = __atomic_load_n(&g_count_addr, __ATOMIC_RELAXED);
		if (c && a < c + g_count_size && a + size > c) { onCount = true; if (write && !atomic) plainWrite = true; acc += fmt("%s%s %s of %d bytes by thread %d", acc.empty() ? "" : " / ", atomic ? "atomic" : "plain", write ? "write" : "read", size, tid); }
		else if (c && a >= c - 64 && a < c + 64) nearCount = true; // the server's flags live next to the count
		if (a == __atomic_load_n(&g_self_addr, __ATOMIC_RELAXED)) onSelf = true;
	}
	if (onSelf) bump(&g_self_reports);
	else if (onCount && plainWrite) { if (!__atomic_fetch_add(&g_count_race, 1, __ATOMIC_RELAXED)) snprintf(g_what, sizeof g_what, "%s: %s", d ? d : "race", acc.c_str()); }
	else if (onCount) bump(&g_count_polled);
	else if (nearCount) bump(&g_flag_reports);
	else bump(&g_other_reports);
}
extern "C" const char* __tsan_default_options() { return "halt_on_error=0:exitcode=0:report_signal_unsafe=0:history_size=4:die_after_fork=0:print_summary=0:suppress_equal_stacks=0:suppress_equal_addresses=0"; }

static int g_starts, g_ends, g_echoed;
struct EchoSrv : public SocketServer {
	void serve(Socket client) {
		bump(&g_starts);
		// real time on a shared machine: the waits are generous; they are never used up while the peer is alive
		if (client.waitInput(30.0)) { char t = 0; if (client.read(&t, 1) == 1) { client.write(&t, 1); client.write(&t, 1); } }
		bump(&g_ends);
	}
};
struct Client : public Thread {
	int id, port; String path;
	void run() {
		Socket s;
		bool ok = path.length() > 0 ? s.connect(path) : s.connect("127.0.0.1", port);
		if (!ok) { s.close(); return; }
		char t = (char)('0' + id), r[2] = { 0, 0 }; s.write(&t, 1);
		if (s.waitInput(30.0) && s.read(r, 2) == 2 && r[0] == t && r[1] == t) bump(&g_echoed);
		s.close();
	}
};
struct Racer : public Thread { int* v; void run() { *v += 1; } };

static int C_RUNS, C_POLLED, C_FLAGS, C_OTHER, W_TWO, W_SELF;
struct Job { int seq, ux; };
static std::string jobName(const Job& j) { return fmt("race.seq%d.ux%d", j.seq, j.ux); }
static void runJob(const Job& j, int reps) {
	std::string kase = jobName(j); vf::cur(kase);
	// self-test: an unsynchronised pair of writes of our own must be reported, or this pass would be vacuous
	{
		int* v = new int(0); __atomic_store_n(&g_self_addr, (char*)v, __ATOMIC_RELAXED); g_self_reports = 0;
		Racer a, b; a.v = b.v = v; a.start(); b.start(); a.join(); b.join();
		if (g_self_reports) vf::add(W_SELF);
		__atomic_store_n(&g_self_addr, (char*)0, __ATOMIC_RELAXED); delete v;
	}
	for (int r = 0; r < reps; r++) {
		__atomic_store_n(&g_starts, 0, __ATOMIC_RELAXED); __atomic_store_n(&g_ends, 0, __ATOMIC_RELAXED); __atomic_store_n(&g_echoed, 0, __ATOMIC_RELAXED); g_count_race = g_count_polled = g_flag_reports = g_other_reports = 0; g_what[0] = 0;
		String path = fmt("/tmp/vc14r.%d.%d.sock", (int)getpid(), r).c_str();
		int port = 0;
		std::string problem;
		{
			EchoSrv* srv = new EchoSrv();
			bool bound = false;
			if (j.ux) bound = srv->bindPath(path);
			else for (int k = 0; k < 200 && !bound; k++) { port = 21000 + ((int)getpid() * 7 + k * 131 + r) % 30000; bound = srv->bind("127.0.0.1", port); }
			if (!bound) { fprintf(stderr, "t_c14_race: cannot bind a test endpoint\n"); _exit(2); }
			srv->setSequential(j.seq != 0);
			g_count_size = (int)sizeof(srv->_numClients); __atomic_store_n(&g_count_addr, (char*)&srv->_numClients, __ATOMIC_RELAXED);
			srv->start(true);
			Client c[2];
			for (int i = 0; i < 2; i++) { c[i].id = i; c[i].port = port; if (j.ux) c[i].path = path; c[i].start(); }
			for (int i = 0; i < 2; i++) c[i].join();
			srv->stop(true);
			if (srv->running()) problem += "running() is true after stop(true); ";
			__atomic_store_n(&g_count_addr, (char*)0, __ATOMIC_RELAXED);
			delete srv;
			unlink(*path);
		}
		vf::add(C_RUNS); vf::add(C_POLLED, g_count_polled); vf::add(C_FLAGS, g_flag_reports); vf::add(C_OTHER, g_other_reports);
		int starts = __atomic_load_n(&g_starts, __ATOMIC_RELAXED), ends = __atomic_load_n(&g_ends, __ATOMIC_RELAXED), echoed = __atomic_load_n(&g_echoed, __ATOMIC_RELAXED);
		if (starts == 2 && ends == 2 && echoed == 2) vf::add(W_TWO);
		else problem += fmt("free run over real sockets: serve() begun %d, finished %d times, %d of 2 clients got their echo; ", starts, ends, echoed);
		if (g_count_race) { vf::violation("data_race", fmt("%s server, %s, two clients, free-running under ThreadSanitizer: %d report(s) of a non-atomic write to the handler count SocketServer::_numClients racing with another access; first: %s", j.seq ? "sequential" : "concurrent", j.ux ? "Unix path" : "TCP port", g_count_race, g_what), kase); return; }
		if (!problem.empty()) { vf::violation("free_run", kase + ": " + problem, kase); return; }
	}
}

int main(int argc, char** argv) {
	vf::init(argc, argv, "C14", "t_c14_race");
	C_RUNS = vf::counter("tsan_executions"); C_POLLED = vf::counter("tsan_reports_plain_read_of_count_vs_atomic_update"); C_FLAGS = vf::counter("tsan_reports_on_plain_flags_by_design"); C_OTHER = vf::counter("tsan_reports_elsewhere_ignored");
	W_TWO = vf::counter("w.tsan_runs_with_two_connections_served"); W_SELF = vf::counter("w.tsan_selftest_race_reported");
	bool T = vf::opt.thorough();
	std::vector<Job> jobs;
	for (int rep = 0; rep < (T ? 4 : 2); rep++) for (int seq = 0; seq < 2; seq++) for (int ux = 0; ux < 2; ux++) { Job j = { seq, ux }; jobs.push_back(j); }
	if (vf::opt.replay) {
		std::string k = vf::opt.kase;
		for (size_t i = 0; i < jobs.size(); i++) if (jobName(jobs[i]) == k) { vf::parallel(1, [&](uint64_t) { runJob(jobs[i], 5); }); break; }
		return vf::finish();
	}
	vf::parallel(jobs.size(), [&](uint64_t i) { runJob(jobs[i], T ? 3 : 2); });
	vf::setinfo("role", "\"assumption check for the scheduler-based part: the two-client scenario free-running over real sockets under ThreadSanitizer, reports filtered to non-atomic writes of the handler count; not an exploration\"");
	return vf::finish();
}
