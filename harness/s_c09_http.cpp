// C09 — HTTP request parsing: the real HttpServer::serve(Socket) is run over an in-memory scripted connection (vnet) under
// the scheduler's virtual clock; every request target over small alphabets, a grammar of request streams each cut at every
// byte and delivered in every 2-chunk split / byte-wise / with a stalling peer, and all short URL strings are enumerated.
// Second part (--small, flavour asan_small): the streams that carry a body or a file response, with a 5-byte receive block.
#include <asl/HttpServer.h>
#include <asl/Http.h>
#include <asl/Socket.h>
#include <asl/File.h>
#include <map>
#include <pthread.h>
#include <sys/stat.h>
#include <sys/socket.h>
#include <netinet/in.h>
#include "vf.h"
#include "aslx.h"
#include "vsched.h"
#include "vnet.h"
using namespace asl;
using vf::fmt;

static int C_EVAL, C_DIST, C_EXEC, C_POINTS, W_DELIVERED, W_DROPPED, W_DOTDOT, W_CHUNKED, W_LENGTH_BODY, W_KEEPALIVE, W_RANGE, W_TRUNC, W_SPLIT, W_EXPECT, W_FOLDED, W_QUERY;
// result-based witnesses of the extensions (each must be non-zero in a run that enumerates its family)
static int W_NUL_PATH, W_NUL_DOTDOT, W_BADLINE_DROPPED, W_BADLINE_LENIENT, W_HEXCHUNK, W_LONG_DELIVERED, W_LONG_DROPPED, W_EMPTYVAL, W_EXACTHDR, W_TABFOLD, W_R100, W_R417, W_F200, W_F206, W_F416, W_F404,
	W_BLOCKX, W_STALL, W_STALL_TIMEOUT, W_STALL_DELIVERED, W_STALL_PARTIAL, W_STALL_GAVEUP, W_OUTSIDE_TRIED, W_FOLD3;
// header-name spelling family (each counted on a stream that was delivered and compared equal)
static int W_HN_STREAMS, W_HN_NONCANON_PLAIN, W_HN_NONCANON_FOLD, W_HN_NONCANON_EMPTY, W_HN_FOLD_AFTER_EMPTY, W_HN_BLANK_FOLD, W_HN_REPEATED, W_HN_REPEATED_2SPELL, W_HN_BEFORE_HOST, W_HN_FRAMING, W_HN_FRAMING_FOLD, W_LOOKUPS, W_LOOKUPS_ABSENT;

struct Rec {
	std::string method, path, query, proto, body, lookupFail;
	std::map<std::string, std::string> headers, params; // header names in lower case (the statement asks for case-insensitive lookup, not for a spelling)
	std::map<std::string, std::vector<std::string> > alt; // expected side only: further acceptable values (a folded header joined with or without a space; a repeated header: last, first or the list)
	std::map<std::string, std::pair<bool, std::string> > look; // delivered side: spelling looked up -> (hasHeader, header) for every probe spelling of the case
};
// the spellings under which the handler looks headers up (set per case: every expected name in all its letter-case patterns, and names never sent)
static std::vector<std::string> g_probes;
static std::string lower(std::string s) { for (size_t i = 0; i < s.size(); i++) s[i] = (char)tolower((unsigned char)s[i]); return s; }
struct Srv : public HttpServer {
	std::vector<Rec> got;
	Srv() : HttpServer(-1) {}
	void serve(HttpRequest& q, HttpResponse& r) {
		Rec x; x.method = vfx::S(q.method()); x.path = vfx::S(q.path()); x.query = vfx::S(q.querystring()); x.proto = vfx::S(q.protocol());
		const ByteArray& b = q.body(); x.body.assign((const char*)b.data(), b.length());
		int nh = 0;
		foreach2 (String & k, const String& v, q.headers()) { x.headers[lower(vfx::S(k))] = vfx::S(v); nh++; }
		if (nh != (int)x.headers.size()) x.lookupFail = "<two stored names differ only in case>";
		const Dic<>& qp = q.query();
		foreach2 (String & k2, const String& v2, qp) x.params[vfx::S(k2)] = vfx::S(v2);
		// case-insensitive lookup must agree with the stored value
		foreach2 (String & k3, const String& v3, q.headers()) { if (q.header(k3.toLowerCase()) != v3 || q.header(k3.toUpperCase()) != v3 || !q.hasHeader(k3.toLowerCase()))
			x.lookupFail = vfx::S(k3) + ": headers() lists it with the value '" + vfx::S(v3) + "', header('" + vfx::S(k3.toLowerCase()) + "') = '" + vfx::S(q.header(k3.toLowerCase())) + "', header('" + vfx::S(k3.toUpperCase()) + "') = '" + vfx::S(q.header(k3.toUpperCase())) + "', hasHeader('" + vfx::S(k3.toLowerCase()) + (q.hasHeader(k3.toLowerCase()) ? "') true" : "') false"); }
		for (size_t i = 0; i < g_probes.size(); i++) { String n = vfx::A(g_probes[i]); x.look[g_probes[i]] = std::make_pair(q.hasHeader(n), vfx::S(q.header(n))); }
		got.push_back(x);
		if (_webroot.ok()) HttpServer::serve(q, r); else r.put("ok");
	}
};

static std::string g_case;
static void onFatal(const char* what, const std::string& schedule) {
	std::string w = what;
	if (w == "DIVERGED") { fprintf(stderr, "HARNESS ERROR: diverged %s\n", g_case.c_str()); _exit(2); }
	vf::violation("no_termination", std::string(what) + ": request handling did not finish (" + (w == "STEP_LIMIT" ? "keeps polling a connection that has nothing more to deliver" : "blocked forever") + ")", g_case);
	vf::restart_worker();
}

struct Outcome { std::vector<Rec> got; std::string written; std::string asan; int misuse; int leakedFds; double vtime; };
static std::string g_root;
static const char* SECRET = "SECRET9";
static void account(const vsched::Result& x) { vf::add(C_EXEC); vf::add(C_POINTS, x.points.size()); static int cst = vf::counter("states"); vf::add(cst, vsched::states_count()); }
static Outcome runStream(const std::vector<std::string>& chunks, int readMax, bool fileRoot, int stepLimit = 20000, bool probe = true) {
	Outcome o; o.misuse = 0; o.leakedFds = 0; o.vtime = 0;
	auto body = [&]() {
		vf::asan_clear();
		vnet::reset(); vnet::enable(true); vnet::set_limits(readMax, 0);
		int fd = vnet::scripted(chunks);
		{
			Srv srv;
			if (fileRoot) srv.setRoot(g_root.c_str());
			{ Socket client(fd); ((SocketServer&)srv).serve(client); }
			o.got = srv.got;
		}
		o.written = vnet::written(fd);
		o.misuse = vnet::misuse(); o.leakedFds = vnet::open_fds();
		vnet::enable(false);
		if (vf::asan_tripped()) o.asan = vf::asan_what();
	};
	vsched::states_reset();
	vsched::set_state_probe(probe ? vnet::state_hash : 0); // the probe hashes the pending input at every point: quadratic for the 16000-byte lines
	vsched::Result x = vsched::run_once(std::vector<uint8_t>(), body, stepLimit);
	o.vtime = x.vtime;
	account(x);
	return o;
}

// A connection whose peer is a second thread under the scheduler: it sends the first part, stalls for `stall` virtual seconds
// (nothing arrives and the stream has not ended, so the server's select() calls time out), sends the rest, ends the stream,
// and collects what the server wrote until the server closes.
struct PeerArg { int fd; std::string c1, c2, got; unsigned stall_us; };
static void* peerMain(void* p) {
	PeerArg* a = (PeerArg*)p;
	if (!a->c1.empty()) send(a->fd, a->c1.data(), a->c1.size(), 0);
	usleep(a->stall_us);
	if (!a->c2.empty()) send(a->fd, a->c2.data(), a->c2.size(), 0);
	shutdown(a->fd, SHUT_WR);
	char buf[4096];
	for (;;) { ssize_t n = recv(a->fd, buf, sizeof buf, 0); if (n <= 0) break; a->got.append(buf, (size_t)n); }
	close(a->fd);
	return 0;
}
static Outcome runStalled(const std::string& c1, const std::string& c2, int stallSeconds, bool fileRoot) {
	Outcome o; o.misuse = 0; o.leakedFds = 0; o.vtime = 0;
	PeerArg pa; pa.c1 = c1; pa.c2 = c2; pa.stall_us = (unsigned)stallSeconds * 1000000u; pa.fd = -1;
	bool setupOk = true;
	auto body = [&]() {
		vf::asan_clear();
		vnet::reset(); vnet::enable(true); vnet::set_limits(0, 0);
		sockaddr_in sa; memset(&sa, 0, sizeof sa); sa.sin_family = AF_INET; sa.sin_port = htons(4009); sa.sin_addr.s_addr = htonl(0x7f000001);
		int ls = socket(AF_INET, SOCK_STREAM, 0), c = socket(AF_INET, SOCK_STREAM, 0);
		if (ls < 0 || c < 0 || bind(ls, (sockaddr*)&sa, sizeof sa) || listen(ls, 1) || connect(c, (sockaddr*)&sa, sizeof sa)) { setupOk = false; vnet::enable(false); return; }
		int fd = accept(ls, 0, 0);
		close(ls);
		if (fd < 0) { setupOk = false; vnet::enable(false); return; }
		pa.fd = c;
		pthread_t th;
		if (pthread_create(&th, 0, peerMain, &pa)) { setupOk = false; vnet::enable(false); return; }
		{
			Srv srv;
			if (fileRoot) srv.setRoot(g_root.c_str());
			{ Socket client(fd); ((SocketServer&)srv).serve(client); }
			o.got = srv.got;
		}
		pthread_join(th, 0);
		o.written = pa.got;
		o.misuse = vnet::misuse(); o.leakedFds = vnet::open_fds();
		vnet::enable(false);
		if (vf::asan_tripped()) o.asan = vf::asan_what();
	};
	vsched::states_reset();
	vsched::set_state_probe(vnet::state_hash);
	vsched::Result x = vsched::run_once(std::vector<uint8_t>(), body, 20000);
	if (!setupOk) { fprintf(stderr, "HARNESS ERROR: virtual listen/connect/accept failed %s\n", g_case.c_str()); _exit(2); }
	o.vtime = x.vtime;
	account(x);
	return o;
}

static std::string pctDecode(const std::string& s, bool* valid) {
	std::string r; *valid = true;
	for (size_t i = 0; i < s.size(); i++) {
		if (s[i] == '%') { if (i + 2 < s.size() + 0 && isxdigit((unsigned char)s[i + 1]) && isxdigit((unsigned char)s[i + 2])) { r += (char)strtoul(s.substr(i + 1, 2).c_str(), 0, 16); i += 2; } else { *valid = false; return r; } }
		else r += s[i];
	}
	return r;
}
static std::string brief(const std::string& s) { return s.size() <= 48 ? vf::hex(s) : vf::hex(s.substr(0, 16)) + fmt("..(%d bytes)..", (int)s.size()) + vf::hex(s.substr(s.size() - 16)); }
static std::string text(const std::string& s) { for (size_t i = 0; i < s.size(); i++) if ((unsigned char)s[i] < 32 || (unsigned char)s[i] > 126) return "hex " + brief(s); return s.size() <= 48 ? s : brief(s); }
static std::string showRec(const Rec& r) { std::string s = r.method + " path=" + brief(r.path) + " query=" + r.query + " body=" + brief(r.body) + " headers{"; for (std::map<std::string, std::string>::const_iterator it = r.headers.begin(); it != r.headers.end(); ++it) s += it->first + ":" + text(it->second) + ";"; return s + "}"; }

static void commonChecks(const Outcome& o, const std::string& kase, const std::string& what) {
	if (!o.asan.empty()) vf::violation("asan", "ASan " + o.asan + " while serving " + what, kase);
	for (size_t i = 0; i < o.got.size(); i++) if (o.got[i].path.find("..") != std::string::npos) vf::violation("dotdot_in_path", "decoded request path contains '..': " + brief(o.got[i].path) + " for " + what, kase);
	for (size_t i = 0; i < o.got.size(); i++) if (o.got[i].path.find('\0') != std::string::npos) vf::add(W_NUL_PATH);
	if (o.written.find(SECRET) != std::string::npos) vf::violation("served_outside_root", "the response contains a file that lies outside the web root, for " + what, kase);
	if (o.misuse) vf::violation("fd_misuse", fmt("%d operation(s) on a closed descriptor while serving ", o.misuse) + what, kase);
	if (o.leakedFds) vf::violation("fd_leak", fmt("%d connection descriptor(s) still open after serve() returned and the socket was dropped for ", o.leakedFds) + what, kase);
}

// ---- part A: request targets
static void targetCase(const std::string& target, const std::string& kase) {
	g_case = kase; vf::cur(kase); vf::add(C_EVAL); vf::add(C_DIST); g_probes.clear();
	std::vector<std::string> ch(1, "GET " + target + " HTTP/1.1\r\nHost: x\r\n\r\n");
	Outcome o = runStream(ch, 0, false);
	// reference: fragment from the first '#', query from the first '?' before it
	size_t h = target.find('#'); std::string t = target.substr(0, h);
	size_t q = t.find('?'); std::string rawPath = t.substr(0, q), rawQuery = q == std::string::npos ? "" : t.substr(q + 1);
	bool valid; std::string path = pctDecode(rawPath, &valid);
	size_t nul = path.find('\0');
	if (nul != std::string::npos && path.find("..", nul) != std::string::npos) vf::add(W_NUL_DOTDOT); // a '..' that C-string functions cannot see
	commonChecks(o, kase, "target '" + target + "'");
	if (o.got.size() > 1) vf::violation("spurious_request", "more than one request delivered for target '" + target + "'", kase);
	if (o.got.empty()) { vf::add(W_DROPPED); return; }
	if (nul != std::string::npos) valid = false;
	if (path.find("..") != std::string::npos) { vf::add(W_DOTDOT); return; } // the sanitised form is implementation-defined; only absence of '..' is required (checked above)
	if (!valid) return;
	vf::add(W_DELIVERED);
	if (o.got[0].path != path) vf::violation("path_mismatch", "target '" + target + "' delivered path " + vf::hex(o.got[0].path) + ", reference " + vf::hex(path), kase);
	if (o.got[0].query != rawQuery) vf::violation("query_mismatch", "target '" + target + "' delivered query string '" + o.got[0].query + "', reference '" + rawQuery + "'", kase);
}
static std::string tokString(const char* const* toks, int nt, int len, uint64_t idx) { std::string s; for (int i = 0; i < len; i++) { s += toks[idx % nt]; idx /= nt; } return s; }
static bool hasDigit(int nt, int len, uint64_t idx, int d) { for (int i = 0; i < len; i++) { if ((int)(idx % nt) == d) return true; idx /= nt; } return false; }

// ---- part B: request streams
enum Kind { K_EXACT, K_SAFETY, K_OPTIONAL };
// K_EXACT:    complete and well formed: every request is delivered exactly once, in order, as sent
// K_SAFETY:   malformed beyond any reading: termination and memory safety only
// K_OPTIONAL: one request that a server may refuse (request line with a missing / extra separator, line at the length cap):
//             either nothing is delivered, or one request that equals one of the listed readings
struct Stream {
	std::string name, bytes; std::vector<Rec> expect; Kind kind; bool fileRoot;
	bool thoroughOnly;      // part of the full product: not run in the quick tier
	bool core;              // small set used for the stalled-peer modes in the quick tier and for the small-block part
	bool longline;          // a line at the 16000-byte cap: cut / split only at `positions`, larger step budget
	bool badline;           // malformed request line
	bool outside;           // asks the file server for a file outside the root
	bool names;             // header-name spelling family: whole, byte-wise, read(1), every 2-split (every cut in the thorough tier); no stall, no small block
	int hnForm, hnFraming;  // names family: header form (-1: none) / framing-header form (-1: none), for the witnesses
	bool hnNoncanon, hnTwoSpellings, hnBeforeHost;
	std::vector<int> positions;
	Stream() : kind(K_SAFETY), fileRoot(false), thoroughOnly(false), core(false), longline(false), badline(false), outside(false), names(false), hnForm(-1), hnFraming(-1), hnNoncanon(false), hnTwoSpellings(false), hnBeforeHost(false) {}
};
static Rec mk(const std::string& m, const std::string& p, const std::string& q, const std::string& body) { Rec r; r.method = m; r.path = p; r.query = q; r.body = body; return r; }
struct Line { const char* text; const char* method; const char* path; const char* query; };
struct Hdr { const char* text; const char* name; const char* value; const char* alt; bool ok; bool first; };
struct Body { const char* hdr; const char* bytes; const char* body; bool ok; const char* hname; const char* hvalue; };
static const Line LINES[] = {
	{ "GET /p/q?x=1&y=a%20b HTTP/1.1", "GET", "/p/q", "x=1&y=a%20b" }, { "POST /u HTTP/1.1", "POST", "/u", "" }, { "PUT /f%2eg/ HTTP/1.0", "PUT", "/f.g/", "" } };
static const Hdr HDRS[] = {
	{ "", 0, 0, 0, true, false }, { "X-A: v\r\n", "x-a", "v", 0, true, false }, { "X-A:v\r\n", "x-a", "v", 0, true, false }, { "x-a:  v \r\n", "x-a", "v", 0, true, false },
	{ "X-A: v\r\n  w\r\n", "x-a", "vw", "v w", true, false }, // a folded value: joined with or without a space (RFC 7230 3.2.4 replaces the fold by spaces)
	{ "X-A: v\r\nX-B: w:z\r\n", "x-b", "w:z", 0, true, false }, { "nocolon\r\n", 0, 0, 0, false, false }, { ": v\r\n", 0, 0, 0, false, false }, { "Expect: 100-continue\r\n", "expect", "100-continue", 0, true, false },
	// 9..13 (extension): empty value, fold by a tab, space before the colon (must be refused by RFC 7230: safety only), fold with nothing to continue
	{ "X-A:\r\n", "x-a", "", 0, true, false }, { "X-A: v\r\n\tw\r\n", "x-a", "vw", "v w", true, false }, { "X-A : v\r\n", 0, 0, 0, false, false }, { " w\r\n", 0, 0, 0, false, true },
	{ "X-A: v\r\n w\r\n\tx\r\n", "x-a", "vwx", "v w x", true, false } }; // 13: a value folded over three lines
static const Body BODIES[] = {
	{ "", "", "", true, 0, 0 }, { "Content-Length: 0\r\n", "", "", true, "content-length", "0" }, { "Content-Length: 3\r\n", "abc", "abc", true, "content-length", "3" }, { "Content-Length: 6\r\n", "a\r\n\r\nb", "a\r\n\r\nb", true, "content-length", "6" },
	{ "Content-Length: -1\r\n", "abc", 0, false, 0, 0 }, { "Content-Length: abc\r\n", "abc", 0, false, 0, 0 }, { "Content-Length: 99999999999\r\n", "abc", 0, false, 0, 0 }, { "Content-Length: 10\r\n", "abc", 0, false, 0, 0 },
	{ "Transfer-Encoding: chunked\r\n", "3\r\nabc\r\n2\r\nde\r\n0\r\n\r\n", "abcde", true, "transfer-encoding", "chunked" }, { "Transfer-Encoding: chunked\r\n", "1\r\na\r\n0\r\n\r\n", "a", true, "transfer-encoding", "chunked" },
	{ "Transfer-Encoding: chunked\r\n", "zz\r\nabc\r\n0\r\n\r\n", 0, false, 0, 0 }, { "Transfer-Encoding: chunked\r\n", "3\r\nabcde\r\n0\r\n\r\n", 0, false, 0, 0 }, { "Transfer-Encoding: chunked\r\n", "7fffffff\r\nabc", 0, false, 0, 0 }, { "Transfer-Encoding: chunked\r\n", "ffffffff\r\nabc\r\n0\r\n\r\n", 0, false, 0, 0 },
	// 14..17 (extension): chunk sizes that are not decimal digits below 4: hex letter in both cases, two digits, chunk extension
	{ "Transfer-Encoding: chunked\r\n", "a\r\n0123456789\r\n0\r\n\r\n", "0123456789", true, "transfer-encoding", "chunked" }, { "Transfer-Encoding: chunked\r\n", "A\r\n0123456789\r\n0\r\n\r\n", "0123456789", true, "transfer-encoding", "chunked" },
	{ "Transfer-Encoding: chunked\r\n", "10\r\n0123456789abcdef\r\n0\r\n\r\n", "0123456789abcdef", true, "transfer-encoding", "chunked" }, { "Transfer-Encoding: chunked\r\n", "3;x=1\r\nabc\r\n0\r\n\r\n", "abc", true, "transfer-encoding", "chunked" } };
enum { NL = sizeof LINES / sizeof *LINES, NH = sizeof HDRS / sizeof *HDRS, NB = sizeof BODIES / sizeof *BODIES, NH_OLD = 9, NB_OLD = 14 };
static const char* RANGES[] = { "", "Range: bytes=0-1\r\n", "Range: bytes=5\r\n", "Range: bytes=-\r\n", "Range: bytes=a-b\r\n", "Range: bytes=1-0\r\n", "Range: bytes=2-2\r\n", "Range: bytes=0-99\r\n", "Range: bytes=1-2,4-5\r\n", "Range: lines=1-2\r\n", "If-Modified-Since: Tue, 30 Nov 2021 00:31:10 GMT\r\n", "If-Modified-Since: junk\r\n", "Range: bytes=7-9\r\n" /* 12 (extension): beyond the end of the file */ };

static Stream product(int l, int h, int b) {
	Stream s;
	s.name = fmt("L%d.H%d.B%d", l, h, b);
	s.bytes = std::string(LINES[l].text) + "\r\n" + (HDRS[h].first ? HDRS[h].text : "") + "Host: h\r\n" + (HDRS[h].first ? "" : HDRS[h].text) + BODIES[b].hdr + "\r\n" + BODIES[b].bytes;
	s.kind = HDRS[h].ok && BODIES[b].ok ? K_EXACT : K_SAFETY;
	if (s.kind == K_EXACT) {
		Rec r = mk(LINES[l].method, LINES[l].path, LINES[l].query, BODIES[b].body); r.headers["host"] = "h";
		if (HDRS[h].name) { r.headers[HDRS[h].name] = HDRS[h].value; if (HDRS[h].alt) r.alt[HDRS[h].name].push_back(HDRS[h].alt); }
		if (h == 5) r.headers["x-a"] = "v";
		if (BODIES[b].hname) r.headers[BODIES[b].hname] = BODIES[b].hvalue;
		s.expect.push_back(r);
	}
	if (s.kind == K_EXACT && l == 2 && BODIES[b].hname && !strcmp(BODIES[b].hname, "transfer-encoding")) s.kind = K_OPTIONAL; // Transfer-Encoding is not defined for HTTP/1.0: refusing is legitimate
	s.core = l == 0 && h == 0;
	return s;
}

// ---- header-name spelling family: the statement says headers are looked up case-insensitively, so every header form is crossed
// with every spelling of the name on the wire, and every delivered request is looked up under every spelling as well.
// A spelling of a short name is a bit mask over its letters (bit k set: letter k in upper case): all 2^letters patterns, which
// contain the canonical Capitalized-Dash form, all lower, all upper and every mixed form (Content-MD5 / ETag / x-Requested-with like).
static const char* HN_NAMES[] = { "x-ab", "ab", "a-b-c" };
enum { HN_NNAMES = 3 };
static int nLetters(const std::string& n) { int k = 0; for (size_t i = 0; i < n.size(); i++) if (isalpha((unsigned char)n[i])) k++; return k; }
static std::string spell(const std::string& name, unsigned mask) { std::string r; int k = 0; for (size_t i = 0; i < name.size(); i++) { unsigned char c = (unsigned char)name[i]; if (isalpha(c)) { r += (char)((mask >> k & 1) ? toupper(c) : tolower(c)); k++; } else r += (char)c; } return r; }
static unsigned canonMask(const std::string& name) { unsigned m = 0; int k = 0; for (size_t i = 0; i < name.size(); i++) if (isalpha((unsigned char)name[i])) { if (i == 0 || name[i - 1] == '-') m |= 1u << k; k++; } return m; }
// spelling classes of a long name: 0 canonical, 1 all lower, 2 all upper, 3 canonical inverted (cONTENT-lENGTH), 4 only the first letter upper (Content-length)
enum { N_CLASSES = 5 };
static std::string spellClass(const std::string& name, int cls) {
	int n = nLetters(name); unsigned all = n >= 32 ? ~0u : (1u << n) - 1, c = canonMask(name);
	return spell(name, cls == 0 ? c : cls == 1 ? 0 : cls == 2 ? all : cls == 3 ? (~c & all) : 1u);
}
// every spelling a name (given in lower case) is looked up under: all letter-case patterns up to 4 letters, the 5 classes beyond
static void addProbes(std::vector<std::string>& v, const std::string& lname) {
	int n = nLetters(lname);
	if (n <= 4) for (unsigned m = 0; m < (1u << n); m++) v.push_back(spell(lname, m));
	else for (int c = 0; c < N_CLASSES; c++) v.push_back(spellClass(lname, c));
}
// header forms of the family (N = first spelling, N2 = second spelling, used by the repeated forms only)
enum { HF_PLAIN, HF_NOSPACE, HF_PADDED, HF_FOLD2, HF_TABFOLD, HF_FOLD3, HF_EMPTY, HF_FOLD_AFTER_EMPTY, HF_EMPTY_BLANKFOLD, HF_VALUE_BLANKFOLD, HF_FOLD_THEN_NEXT, HF_REPEATED, HF_REPEATED_FOLD, HN_NFORMS };
static bool hfTwo(int f) { return f == HF_REPEATED || f == HF_REPEATED_FOLD; }
static bool hfFold(int f) { return f == HF_FOLD2 || f == HF_TABFOLD || f == HF_FOLD3 || f == HF_FOLD_AFTER_EMPTY || f == HF_EMPTY_BLANKFOLD || f == HF_VALUE_BLANKFOLD || f == HF_FOLD_THEN_NEXT || f == HF_REPEATED_FOLD; }
static bool bodyOk(int b) { return BODIES[b].ok; }
static Stream hnStream(int ni, unsigned m1, unsigned m2, int f, int pos, int l, int b) {
	Stream s; s.names = true; s.hnForm = f;
	const std::string ln = HN_NAMES[ni], N = spell(ln, m1), N2 = spell(ln, m2);
	s.name = fmt("hn.N%d.S%u.%u.F%d.P%d.L%d.B%d", ni, m1, m2, f, pos, l, b);
	s.hnNoncanon = m1 != canonMask(ln) || (hfTwo(f) && m2 != canonMask(ln)); s.hnTwoSpellings = hfTwo(f) && m1 != m2; s.hnBeforeHost = pos == 1;
	Rec r = mk(LINES[l].method, LINES[l].path, LINES[l].query, BODIES[b].body); r.headers["host"] = "h";
	std::string t; std::vector<std::string>& alt = r.alt[ln];
	switch (f) {
	case HF_PLAIN: t = N + ": v\r\n"; r.headers[ln] = "v"; break;
	case HF_NOSPACE: t = N + ":v\r\n"; r.headers[ln] = "v"; break;
	case HF_PADDED: t = N + ":  v \r\n"; r.headers[ln] = "v"; break;
	case HF_FOLD2: t = N + ": v\r\n  w\r\n"; r.headers[ln] = "vw"; alt.push_back("v w"); break;
	case HF_TABFOLD: t = N + ": v\r\n\tw\r\n"; r.headers[ln] = "vw"; alt.push_back("v w"); break;
	case HF_FOLD3: t = N + ": v\r\n w\r\n\tx\r\n"; r.headers[ln] = "vwx"; alt.push_back("v w x"); break;
	case HF_EMPTY: t = N + ":\r\n"; r.headers[ln] = ""; break;
	case HF_FOLD_AFTER_EMPTY: t = N + ":\r\n w\r\n"; r.headers[ln] = "w"; break;              // the whole value stands on the continuation line
	case HF_EMPTY_BLANKFOLD: t = N + ":\r\n \r\n"; r.headers[ln] = ""; break;                  // an empty value followed by a fold of white space only: still a header with an empty value
	case HF_VALUE_BLANKFOLD: t = N + ": v\r\n \t\r\n"; r.headers[ln] = "v"; break;             // a fold that adds nothing
	case HF_FOLD_THEN_NEXT: t = N + ": v\r\n w\r\nX-B: z\r\n"; r.headers[ln] = "vw"; alt.push_back("v w"); r.headers["x-b"] = "z"; break; // the fold ends at the next header
	// the same header twice (second time possibly spelled differently): one header, whose value is the last, the first or the comma-joined list
	case HF_REPEATED: t = N + ": v\r\n" + N2 + ": w\r\n"; r.headers[ln] = "w"; alt.push_back("v"); alt.push_back("v, w"); alt.push_back("v,w"); break;
	case HF_REPEATED_FOLD: t = N + ": v\r\n" + N2 + ": w\r\n x\r\n"; r.headers[ln] = "wx"; alt.push_back("w x"); alt.push_back("v"); alt.push_back("v, wx"); alt.push_back("v,wx"); alt.push_back("v, w x"); alt.push_back("v,w x"); break;
	}
	s.bytes = std::string(LINES[l].text) + "\r\n" + (pos == 1 ? t : "") + "Host: h\r\n" + (pos == 1 ? "" : t) + BODIES[b].hdr + "\r\n" + BODIES[b].bytes;
	if (BODIES[b].hname) r.headers[BODIES[b].hname] = BODIES[b].hvalue;
	s.kind = K_EXACT;
	if (l == 2 && BODIES[b].hname && !strcmp(BODIES[b].hname, "transfer-encoding")) s.kind = K_OPTIONAL;
	s.expect.push_back(r);
	return s;
}
// the headers the server itself interprets to frame the body (Content-Length, Transfer-Encoding, and Expect in front of a body),
// spelled in class cls, written "N: value" (vform 0) or with the value on a continuation line "N:" CRLF SP "value" (vform 1)
static Stream frStream(int cls, int vform, bool expect, int l, int b) {
	Stream s; s.names = true; s.hnFraming = vform; s.hnNoncanon = cls != 0;
	s.name = fmt("fr.C%d.V%d.E%d.L%d.B%d", cls, vform, (int)expect, l, b);
	std::string line = BODIES[b].hdr; size_t c = line.find(':');
	std::string hn = line.substr(0, c), hv = line.substr(c + 2, line.size() - c - 4);
	auto wr = [&](const std::string& n, const std::string& v) { return spellClass(lower(n), cls) + (vform == 0 ? ": " + v : ":\r\n " + v) + "\r\n"; };
	Rec r = mk(LINES[l].method, LINES[l].path, LINES[l].query, BODIES[b].body); r.headers["host"] = "h"; r.headers[lower(hn)] = hv;
	s.bytes = std::string(LINES[l].text) + "\r\nHost: h\r\n" + (expect ? wr("Expect", "100-continue") : "") + wr(hn, hv) + "\r\n" + BODIES[b].bytes;
	if (expect) r.headers["expect"] = "100-continue";
	s.kind = K_EXACT;
	if (l == 2 && lower(hn) == "transfer-encoding") s.kind = K_OPTIONAL;
	s.expect.push_back(r);
	return s;
}
static void nameStreams(std::vector<Stream>& v) {
	// quick tier: name "x-ab" in all 8 spellings x the 11 single-name forms x header after / before Host, no body; the 2 repeated
	// forms x all 64 spelling pairs; the folds again in front of a Content-Length and a chunked body; names "ab" and "a-b-c" in all
	// spellings x (plain, fold, three-line fold, empty, fold after empty). Thorough tier: everything x all three names x both
	// positions x every well-formed body, and the other two request lines without a body.
	static const int okBodies[] = { 0, 1, 2, 3, 8, 9, 14, 15, 16, 17 };
	for (int ni = 0; ni < HN_NNAMES; ni++) {
		unsigned nm = 1u << nLetters(HN_NAMES[ni]);
		for (int f = 0; f < HN_NFORMS; f++) for (unsigned m1 = 0; m1 < nm; m1++) for (unsigned m2 = 0; m2 < nm; m2++) {
			if (!hfTwo(f) && m2 != m1) continue;
			for (int pos = 0; pos < 2; pos++) for (int l = 0; l < NL; l++) for (size_t bi = 0; bi < sizeof okBodies / sizeof *okBodies; bi++) {
				int b = okBodies[bi];
				if (l > 0 && b != 0) continue;
				bool quick;
				if (ni == 0) quick = l == 0 && ((b == 0 && (pos == 0 || !hfTwo(f))) || ((b == 2 || b == 8) && pos == 0 && (f == HF_FOLD2 || f == HF_FOLD3 || f == HF_FOLD_AFTER_EMPTY)));
				else quick = l == 0 && b == 0 && pos == 0 && (f == HF_PLAIN || f == HF_FOLD2 || f == HF_FOLD3 || f == HF_EMPTY || f == HF_FOLD_AFTER_EMPTY);
				Stream s = hnStream(ni, m1, m2, f, pos, l, b); s.thoroughOnly = !quick; v.push_back(s);
			}
		}
	}
	// framing headers: every class x both value forms (class 0 with "N: value" is the original grammar) x every well-formed body with a framing header
	for (int cls = 0; cls < N_CLASSES; cls++) for (int vform = 0; vform < 2; vform++) for (int e = 0; e < 2; e++) for (int l = 0; l < NL; l++) for (size_t bi = 1; bi < sizeof okBodies / sizeof *okBodies; bi++) {
		int b = okBodies[bi];
		if (cls == 0 && vform == 0) continue;
		if (e == 1 && b != 2 && b != 8) continue; // Expect in front of one body of each framing
		bool quick = l == 0 && (e == 1 || b == 1 || b == 2 || b == 8 || b == 14 || b == 17);
		Stream s = frStream(cls, vform, e == 1, l, b); s.thoroughOnly = !quick; v.push_back(s);
	}
}
static Stream optional1(const std::string& name, const std::string& bytes) { Stream s; s.name = name; s.bytes = bytes; s.kind = K_OPTIONAL; return s; }
static std::vector<Stream> streams() {
	std::vector<Stream> v;
	// the original grammar first (stream numbers of earlier case strings stay valid)
	for (int l = 0; l < NL; l++) for (int h = 0; h < NH_OLD; h++) for (int b = 0; b < NB_OLD; b++) {
		if (l > 0 && h > 4 && b > 3) continue; // keep the product moderate: full header x body product only for the first request line
		v.push_back(product(l, h, b));
	}
	// keep-alive: two pipelined requests on one connection; HTTP/1.0 without keep-alive: the second is not served
	{ Stream s; s.name = "keepalive2"; s.bytes = "POST /one HTTP/1.1\r\nConnection: keep-alive\r\nContent-Length: 2\r\n\r\nhiGET /two?k=v HTTP/1.1\r\nConnection: close\r\n\r\n"; s.kind = K_EXACT; s.core = true;
	  Rec a = mk("POST", "/one", "", "hi"); a.headers["connection"] = "keep-alive"; a.headers["content-length"] = "2"; Rec b = mk("GET", "/two", "k=v", ""); b.headers["connection"] = "close"; s.expect.push_back(a); s.expect.push_back(b); v.push_back(s); }
	{ Stream s; s.name = "chunked_then_second"; s.bytes = "POST /c HTTP/1.1\r\nTransfer-Encoding: chunked\r\n\r\n2\r\nxy\r\n0\r\n\r\nGET /d HTTP/1.1\r\nConnection: close\r\n\r\n"; s.kind = K_EXACT; s.core = true;
	  Rec a = mk("POST", "/c", "", "xy"); a.headers["transfer-encoding"] = "chunked"; Rec b = mk("GET", "/d", "", ""); b.headers["connection"] = "close"; s.expect.push_back(a); s.expect.push_back(b); v.push_back(s); }
	// file serving with Range headers (web root with a 6-byte file): safety and termination only
	for (size_t r = 0; r < sizeof RANGES / sizeof *RANGES; r++) for (int f = 0; f < 3; f++) {
		Stream s; s.fileRoot = true; s.kind = K_SAFETY; s.name = fmt("file%d.R%d", f, (int)r); s.core = f == 0;
		s.bytes = std::string(f == 0 ? "GET /f.txt HTTP/1.1" : f == 1 ? "GET /nofile HTTP/1.1" : "GET /sub/../f.txt HTTP/1.0") + "\r\nHost: h\r\n" + RANGES[r] + "\r\n";
		v.push_back(s);
	}
	// ---- extensions
	// new header forms and chunk sizes: a reduced product in the quick tier, the full one (same skip rule as above) in the thorough tier
	for (int l = 0; l < NL; l++) for (int h = 0; h < NH; h++) for (int b = 0; b < NB; b++) {
		if (h < NH_OLD && b < NB_OLD) continue;
		if (l > 0 && h > 4 && b > 3) continue;
		Stream s = product(l, h, b);
		bool quick = (h >= NH_OLD && l == 0 && (b == 0 || b == 2 || b == 8)) || (b >= NB_OLD && (l == 0 ? (h == 0 || h == 1 || h == 4 || h == 8) : h == 0));
		s.thoroughOnly = !quick;
		v.push_back(s);
	}
	// request lines without the two separating spaces, or with extra ones: refused, or read the lenient way
	{
		struct Bad { const char* first; const char* method; const char* path; const char* path2; } bad[] = {
			{ "GET", "GET", "", 0 }, { "GET /a", "GET", "/a", 0 }, { " GET /a HTTP/1.1", "GET", "/a", 0 }, { "GET  HTTP/1.1", "GET", "", "HTTP/1.1" }, { "GET /a  HTTP/1.1 x", "GET", "/a", 0 }, { "\r\nGET /a HTTP/1.1", "GET", "/a", 0 } };
		for (size_t i = 0; i < sizeof bad / sizeof *bad; i++) {
			Stream s = optional1(fmt("badline%d", (int)i), std::string(bad[i].first) + "\r\nHost: h\r\n\r\n"); s.badline = true; s.core = true;
			Rec r = mk(bad[i].method, bad[i].path, "", ""); r.headers["host"] = "h"; s.expect.push_back(r);
			if (bad[i].path2) { r.path = bad[i].path2; s.expect.push_back(r); }
			v.push_back(s);
		}
	}
	// lines of n bytes before the line feed (CR included), n around the 16000-byte cap of the socket line reader: a request line
	// and a header line. The two "s" streams carry, from byte 16001 of the over-long line on, text that would read as a request
	// line / header line of its own if the reader silently restarted the line there.
	for (int kind = 0; kind < 2; kind++) for (int n = 15999; n <= 16005; n++) {
		bool smuggle = n == 16005;
		Stream s; s.kind = K_OPTIONAL; s.longline = true; s.name = fmt(kind == 0 ? "capT.%d" : "capH.%d", n) + (smuggle ? "s" : "");
		Rec r; int lineStart;
		if (kind == 0) {
			std::string target = smuggle ? "/" + std::string(15996, 'a') + "GET" : "/" + std::string(n - 15, 'a');
			s.bytes = "GET " + target + (smuggle ? " /s HTTP/1.1" : " HTTP/1.1") + "\r\nHost: h\r\n\r\n"; lineStart = 0;
			r = mk("GET", target, "", ""); r.headers["host"] = "h";
		} else {
			std::string value = smuggle ? std::string(15996, 'v') + "X-S:w" : std::string(n - 6, 'v');
			s.bytes = "GET /p HTTP/1.1\r\nHost: h\r\n"; lineStart = (int)s.bytes.size(); s.bytes += "X-A: " + value + "\r\n\r\n";
			r = mk("GET", "/p", "", ""); r.headers["host"] = "h"; r.headers["x-a"] = value;
		}
		s.expect.push_back(r);
		for (int d = -2; d <= 3; d++) s.positions.push_back(lineStart + 16001 + d);
		v.push_back(s);
	}
	// requests that try to leave the web root: whatever is answered must not be the file next to the root
	{
		static const char* out[] = { "/../secret.txt", "/%2e%2e/secret.txt", "/sub/..%2f..%2fsecret.txt", "/sub/%2e%2e/%2e%2e/secret.txt", "/.%2e/.%2e/secret.txt", "/..../secret.txt", "/sub/.../.../secret.txt" };
		for (size_t i = 0; i < sizeof out / sizeof *out; i++) { Stream s; s.fileRoot = true; s.kind = K_SAFETY; s.outside = true; s.name = fmt("outside%d", (int)i); s.bytes = std::string("GET ") + out[i] + " HTTP/1.1\r\nHost: h\r\n\r\n"; v.push_back(s); }
	}
	// header-name spellings x header forms (appended last: stream numbers of earlier case strings stay valid)
	nameStreams(v);
	return v;
}
// bodyPrefix: a stalling peer was given up on: the body may stop early (what a server does with a slow peer is not part of the property)
static bool accepted(const Rec& e, const std::string& lname, const std::string& value) {
	std::map<std::string, std::string>::const_iterator x = e.headers.find(lname); if (x == e.headers.end()) return false;
	if (value == x->second) return true;
	std::map<std::string, std::vector<std::string> >::const_iterator a = e.alt.find(lname);
	if (a != e.alt.end()) for (size_t i = 0; i < a->second.size(); i++) if (a->second[i] == value) return true;
	return false;
}
static bool sameRec(const Rec& g, const Rec& e, std::string& why, bool bodyPrefix = false) {
	if (g.method != e.method) { why = "method '" + g.method + "' instead of '" + e.method + "'"; return false; }
	if (g.path != e.path) { why = "path " + brief(g.path) + " instead of " + brief(e.path); return false; }
	if (g.query != e.query) { why = "query string '" + g.query + "' instead of '" + e.query + "'"; return false; }
	if (bodyPrefix ? e.body.compare(0, g.body.size(), g.body) != 0 : g.body != e.body) { why = "body " + brief(g.body) + " instead of " + brief(e.body); return false; }
	// the header dictionary is exactly the one sent: nothing missing, nothing added
	for (std::map<std::string, std::string>::const_iterator it = e.headers.begin(); it != e.headers.end(); ++it) {
		std::map<std::string, std::string>::const_iterator f = g.headers.find(it->first);
		if (f == g.headers.end() || !accepted(e, it->first, f->second)) { why = "header " + it->first + " = " + (f == g.headers.end() ? std::string("<missing>") : "'" + text(f->second) + "'") + " instead of '" + text(it->second) + "'"; return false; }
	}
	for (std::map<std::string, std::string>::const_iterator it = g.headers.begin(); it != g.headers.end(); ++it) if (!e.headers.count(it->first)) { why = "header " + it->first + " = '" + text(it->second) + "' delivered but never sent"; return false; }
	if (!g.lookupFail.empty()) { why = "case-insensitive header lookup failed for " + g.lookupFail; return false; }
	// looked up under every probe spelling: a header that was sent is found, with the delivered value; a name never sent is not found
	for (std::map<std::string, std::pair<bool, std::string> >::const_iterator it = g.look.begin(); it != g.look.end(); ++it) {
		std::string ln = lower(it->first); std::map<std::string, std::string>::const_iterator x = e.headers.find(ln), d = g.headers.find(ln);
		if (x == e.headers.end()) { if (it->second.first || !it->second.second.empty()) { why = "lookup of '" + it->first + "', a header never sent, finds '" + text(it->second.second) + "'"; return false; } }
		else if (!it->second.first) { why = "hasHeader('" + it->first + "') is false for the header " + ln + " that was sent"; return false; }
		else if (!accepted(e, ln, it->second.second) || (d != g.headers.end() && d->second != it->second.second)) { why = "header('" + it->first + "') = '" + text(it->second.second) + "' instead of '" + text(d != g.headers.end() && accepted(e, ln, d->second) ? d->second : x->second) + "'"; return false; }
	}
	if (e.query == "x=1&y=a%20b" && !(g.params.size() == 2 && g.params.count("x") && g.params.find("x")->second == "1" && g.params.count("y") && g.params.find("y")->second == "a b")) { why = "query parameters"; return false; }
	return true;
}
static size_t countOf(const std::string& hay, const char* needle) { size_t n = 0, p = 0; while ((p = hay.find(needle, p)) != std::string::npos) { n++; p++; } return n; }
static bool smallBlock() {
#ifdef ASL_VERIF_RECV_BLOCK
	return true;
#else
	return false;
#endif
}
// modes: 0 whole, 1 cut at pos (peer closes), 2 two chunks split at pos, 3 byte-wise, 4 read() returns 1 byte at a time,
//        5 / 6 two parts split at pos with a peer that stalls 7 / 12 seconds in between (server timeouts are 5 and 10 seconds)
static void streamCase(const Stream& s, int mode, int pos, const std::string& kase) {
	g_case = kase; vf::cur(kase); vf::add(C_EVAL); vf::add(C_DIST);
	std::vector<std::string> ch; int readMax = 0; bool full = true;
	if (pos < 0 || pos > (int)s.bytes.size()) return;
	g_probes.clear();
	{ std::map<std::string, int> seen; for (size_t i = 0; i < s.expect.size(); i++) for (std::map<std::string, std::string>::const_iterator it = s.expect[i].headers.begin(); it != s.expect[i].headers.end(); ++it) if (!seen[it->first]++) addProbes(g_probes, it->first);
	  if (!s.expect.empty()) { if (!seen.count("x-zz")) addProbes(g_probes, "x-zz"); if (!seen.count("x-ab")) addProbes(g_probes, "x-ab"); if (!seen.count("content-length")) addProbes(g_probes, "content-length"); } }
	Outcome o;
	bool stalled = mode == 5 || mode == 6; int stall = mode == 5 ? 7 : 12;
	if (stalled) { o = runStalled(s.bytes.substr(0, pos), s.bytes.substr(pos), stall, s.fileRoot); vf::add(W_STALL); if (o.vtime >= 5) vf::add(W_STALL_TIMEOUT); }
	else {
		if (mode == 0) ch.push_back(s.bytes);
		else if (mode == 1) { ch.push_back(s.bytes.substr(0, pos)); full = false; vf::add(W_TRUNC); if (pos == 0) ch.clear(); }
		else if (mode == 2) { ch.push_back(s.bytes.substr(0, pos)); ch.push_back(s.bytes.substr(pos)); vf::add(W_SPLIT); }
		else if (mode == 3) { for (size_t i = 0; i < s.bytes.size(); i++) ch.push_back(s.bytes.substr(i, 1)); }
		else { ch.push_back(s.bytes); readMax = 1; }
		o = runStream(ch, readMax, s.fileRoot, s.longline ? 100000 : 20000, !s.longline);
	}
	std::string what = "stream " + s.name + fmt(" (delivery mode %d, position %d)", mode, pos) + (smallBlock() ? " [5-byte receive block]" : "");
	commonChecks(o, kase, what);
	if (s.bytes.find("chunked") != std::string::npos) vf::add(W_CHUNKED);
	if (s.bytes.find("Content-Length: 3") != std::string::npos) vf::add(W_LENGTH_BODY);
	if (s.bytes.find("Range:") != std::string::npos) vf::add(W_RANGE);
	if (s.bytes.find("Expect:") != std::string::npos) vf::add(W_EXPECT);
	if (s.bytes.find("\r\n  w") != std::string::npos) vf::add(W_FOLDED);
	if (s.expect.size() == 2) vf::add(W_KEEPALIVE);
	// what was written back (observed, not demanded: interim responses and Range replies are the subject of C10)
	vf::add(W_R100, countOf(o.written, "HTTP/1.1 100 ")); vf::add(W_R417, countOf(o.written, "HTTP/1.1 417 "));
	if (s.fileRoot) {
		if (o.written.find(" 200 ") != std::string::npos && o.written.find("012345") != std::string::npos) vf::add(W_F200);
		vf::add(W_F206, countOf(o.written, " 206 ")); vf::add(W_F416, countOf(o.written, " 416 ")); vf::add(W_F404, countOf(o.written, " 404 "));
		if (s.outside && !o.got.empty()) vf::add(W_OUTSIDE_TRIED);
	}
	if (s.kind == K_OPTIONAL && (full || stalled)) {
		if (o.got.size() > 1) { vf::violation("spurious_request", fmt("%d requests delivered for the single request of ", (int)o.got.size()) + what + "; second: " + showRec(o.got[1]), kase); return; }
		if (o.got.empty()) { vf::add(s.longline ? W_LONG_DROPPED : s.badline ? W_BADLINE_DROPPED : W_DROPPED); return; }
		std::string why; bool any = false;
		for (size_t i = 0; i < s.expect.size() && !any; i++) any = sameRec(o.got[0], s.expect[i], why, stalled);
		if (!any) vf::violation("request_fields", "request of " + what + " was neither refused nor delivered as sent: " + why + "; delivered: " + showRec(o.got[0]), kase);
		else vf::add(s.longline ? W_LONG_DELIVERED : s.badline ? W_BADLINE_LENIENT : W_DELIVERED);
		return;
	}
	if (s.kind != K_EXACT || !full) { if (o.got.empty()) vf::add(W_DROPPED); return; }
	if (stalled) {
		// the peer was slow: the server may have given up on it (fewer requests, a body that stops early), but what it hands over is what was sent
		if (o.got.size() > s.expect.size()) { vf::violation("request_count", fmt("%d request(s) delivered instead of %d for ", (int)o.got.size(), (int)s.expect.size()) + what, kase); return; }
		bool partial = false;
		for (size_t i = 0; i < o.got.size(); i++) { std::string why; if (!sameRec(o.got[i], s.expect[i], why, true)) vf::violation("request_fields", fmt("request %d of ", (int)i + 1) + what + ": " + why, kase); else if (o.got[i].body != s.expect[i].body) partial = true; }
		if (partial) vf::add(W_STALL_PARTIAL); else if (o.got.size() == s.expect.size()) vf::add(W_STALL_DELIVERED); else vf::add(W_STALL_GAVEUP);
		return;
	}
	// complete, well-formed stream: every request is delivered exactly once, in order, as sent
	if (o.got.size() != s.expect.size()) { vf::violation("request_count", fmt("%d request(s) delivered instead of %d for ", (int)o.got.size(), (int)s.expect.size()) + what + (o.got.empty() ? "" : "; first: " + showRec(o.got[0])), kase); return; }
	bool allok = true;
	for (size_t i = 0; i < s.expect.size(); i++) { std::string why; if (!sameRec(o.got[i], s.expect[i], why)) { allok = false; vf::violation("request_fields", fmt("request %d of ", (int)i + 1) + what + ": " + why, kase); } }
	if (!allok) return;
	vf::add(W_DELIVERED); vf::add(W_EXACTHDR, s.expect.size());
	const Rec& e0 = s.expect[0];
	if (e0.headers.count("x-a") && e0.headers.find("x-a")->second.empty()) vf::add(W_EMPTYVAL);
	if (s.bytes.find("\r\n\tw") != std::string::npos) vf::add(W_TABFOLD);
	if (s.bytes.find("\r\n\tx") != std::string::npos) vf::add(W_FOLD3);
	if (e0.headers.count("transfer-encoding") && e0.body.size() >= 10) vf::add(W_HEXCHUNK);
	if (s.bytes.find("3;x=1") != std::string::npos) vf::add(W_HEXCHUNK);
	if (smallBlock() && e0.body.size() > 5) vf::add(W_BLOCKX);
	for (size_t i = 0; i < o.got.size(); i++) for (std::map<std::string, std::pair<bool, std::string> >::const_iterator it = o.got[i].look.begin(); it != o.got[i].look.end(); ++it) vf::add(it->second.first ? W_LOOKUPS : W_LOOKUPS_ABSENT);
	if (s.names) {
		vf::add(W_HN_STREAMS);
		int f = s.hnForm;
		if (f >= 0 && s.hnNoncanon) vf::add(hfFold(f) ? W_HN_NONCANON_FOLD : f == HF_EMPTY ? W_HN_NONCANON_EMPTY : W_HN_NONCANON_PLAIN);
		if (f == HF_FOLD_AFTER_EMPTY) vf::add(W_HN_FOLD_AFTER_EMPTY);
		if (f == HF_EMPTY_BLANKFOLD || f == HF_VALUE_BLANKFOLD) vf::add(W_HN_BLANK_FOLD);
		if (f >= 0 && hfTwo(f)) vf::add(s.hnTwoSpellings ? W_HN_REPEATED_2SPELL : W_HN_REPEATED);
		if (s.hnBeforeHost) vf::add(W_HN_BEFORE_HOST);
		if (s.hnFraming >= 0 && s.hnNoncanon) vf::add(W_HN_FRAMING);
		if (s.hnFraming == 1) vf::add(W_HN_FRAMING_FOLD);
	}
}

// ---- part D: query parameters: "k=v(&k=v)" built from tokens; the handler must see the decoded pairs (form decoding: '+' is a space, %XX a byte)
static const char* QT[] = { "a", "b", "+", "%2B", "%20", "%26", "%3D", "%25", "%C3%A9" };
static const char* QD[] = { "a", "b", " ", "+", " ", "&", "=", "%", "\xc3\xa9" };
static void queryCase(int k1, int v1, int k2, int v2, const std::string& kase) {
	g_case = kase; vf::cur(kase); vf::add(C_EVAL); vf::add(C_DIST); g_probes.clear();
	// k: 1-2 tokens (index = t0 + 9*t1, t1 = 9 means none), v: 0-2 tokens (index 0 = empty)
	auto mk = [](int idx, bool key, std::string& raw, std::string& dec) { raw.clear(); dec.clear(); if (!key) { if (idx == 0) return; idx--; } int t0 = idx % 9, t1 = idx / 9; raw += QT[t0]; dec += QD[t0]; if (t1 > 0) { raw += QT[t1 - 1]; dec += QD[t1 - 1]; } };
	std::string rk1, dk1, rv1, dv1, rk2, dk2, rv2, dv2;
	mk(k1, true, rk1, dk1); mk(v1, false, rv1, dv1);
	std::string q = rk1 + "=" + rv1; std::map<std::string, std::string> exp; exp[dk1] = dv1;
	if (k2 >= 0) { mk(k2, true, rk2, dk2); mk(v2, false, rv2, dv2); if (dk2 == dk1) return; q += "&" + rk2 + "=" + rv2; exp[dk2] = dv2; }
	std::vector<std::string> ch(1, "GET /q?" + q + " HTTP/1.1\r\nHost: x\r\n\r\n");
	Outcome o = runStream(ch, 0, false);
	commonChecks(o, kase, "query '" + q + "'");
	if (o.got.size() != 1) { vf::violation("request_count", fmt("%d requests delivered for query '", (int)o.got.size()) + q + "'", kase); return; }
	vf::add(W_QUERY);
	if (o.got[0].query != q) vf::violation("query_mismatch", "query string '" + o.got[0].query + "' instead of '" + q + "'", kase);
	if (o.got[0].params != exp) { std::string g; for (std::map<std::string, std::string>::const_iterator it = o.got[0].params.begin(); it != o.got[0].params.end(); ++it) g += "[" + vf::hex(it->first) + "=" + vf::hex(it->second) + "]"; std::string w; for (std::map<std::string, std::string>::const_iterator it = exp.begin(); it != exp.end(); ++it) w += "[" + vf::hex(it->first) + "=" + vf::hex(it->second) + "]"; vf::violation("query_params", "query '" + q + "' delivered parameters " + g + ", sent " + w, kase); }
}

// ---- part C: Url strings
static void urlCase(const std::string& u, const std::string& kase) {
	vf::cur(kase); vf::add(C_EVAL); vf::add(C_DIST);
	vf::asan_clear();
	String s = vfx::A(u);
	{ vfx::Flush f(s); Url url(s); String d = Url::decode(s); String q = url.query(); Dic<> p = Url::parseQuery(s); (void)d; (void)q; (void)p;
	  if (url.port < 0 && url.port != 0) {} }
	if (vf::asan_tripped()) { vf::violation("url_asan", "ASan " + vf::asan_what() + " in Url / Url::decode / parseQuery of '" + u + "'", kase); vf::asan_clear(); }
}

static std::vector<Stream> g_streams;
static const char* TA[] = { ".", "/", "%2e", "%2f", "%25", "a" };
static const char* TB[] = { "/", "a", "?", "#", "=", "&", "%", "+" };
static const char* TA0[] = { ".", "/", "%2e", "%2f", "%25", "a", "%00" }; // TA plus the escape of a NUL byte (case strings "t0:")
static const char UA[] = "a:/[]%2e?#@";
static void run_case(const std::string& k) {
	int a, b, c; unsigned long long u;
	if (sscanf(k.c_str(), "tA:%d:%llu", &a, &u) == 2) targetCase("/" + tokString(TA, 6, a, u), k);
	else if (sscanf(k.c_str(), "tB:%d:%llu", &a, &u) == 2) targetCase("/" + tokString(TB, 8, a, u), k);
	else if (sscanf(k.c_str(), "t0:%d:%llu", &a, &u) == 2) targetCase("/" + tokString(TA0, 7, a, u), k);
	else if (sscanf(k.c_str(), "st:%d:%d:%d", &a, &b, &c) == 3 || sscanf(k.c_str(), "sb:%d:%d:%d", &a, &b, &c) == 3) {
		if (g_streams.empty()) g_streams = streams();
		if (a >= 0 && a < (int)g_streams.size()) streamCase(g_streams[a], b, c, k);
	}
	else if (k.compare(0, 4, "url:") == 0) urlCase(vf::unhex(k.substr(4)), k);
	else { int k1, v1, k2, v2; if (sscanf(k.c_str(), "qp:%d:%d:%d:%d", &k1, &v1, &k2, &v2) == 4) queryCase(k1, v1, k2, v2, k); }
}

struct J { int s, mode, pos; };
static void streamJobs(std::vector<J>& jobs, bool T, bool small) {
	for (size_t si = 0; si < g_streams.size(); si++) {
		const Stream& s = g_streams[si];
		if (s.thoroughOnly && !T) continue;
		int n = (int)s.bytes.size();
		if (small) {
			// only what the receive block matters for: requests with a body, and file responses (the file reader uses the same block)
			bool hasBody = n > 0 && s.bytes.compare(n - 4, 4, "\r\n\r\n") != 0;
			bool chunkedBody = s.bytes.find("chunked") != std::string::npos;
			if (!((s.core || T) && (hasBody || chunkedBody || s.fileRoot)) || s.longline || s.badline) continue;
		}
		if (small && s.names) continue;
		J j = { (int)si, 0, 0 }; jobs.push_back(j); j.mode = 3; jobs.push_back(j); j.mode = 4; jobs.push_back(j);
		if (s.names) {
			for (int p = 1; p < n; p++) { J t = { (int)si, 2, p }; jobs.push_back(t); }
			if (T) for (int p = 0; p < n; p++) { J t = { (int)si, 1, p }; jobs.push_back(t); }
			continue;
		}
		if (s.longline) {
			for (size_t p = 0; p < s.positions.size(); p++) { J t = { (int)si, 1, s.positions[p] }; jobs.push_back(t); t.mode = 2; jobs.push_back(t); }
			continue;
		}
		for (int p = 0; p < n; p++) { J t = { (int)si, 1, p }; jobs.push_back(t); }
		for (int p = 1; p < n; p++) { J t = { (int)si, 2, p }; jobs.push_back(t); }
		if (!small && (T || s.core)) for (int m = 5; m <= 6; m++) for (int p = 0; p < n; p++) { J t = { (int)si, m, p }; jobs.push_back(t); }
	}
}

// a clean run in which an enumerated family never reached its branch is not a pass: it is marked non-exhaustive
struct Need { int counter; const char* name; };
#define NEED(c) { c, #c }
static void needWitness(const Need* w, size_t n) {
	if (vf::nviolations()) return; // a flood stops the exploration early
	for (size_t i = 0; i < n; i++) if (vf::get(w[i].counter) == 0) vf::cap_hit(std::string("vacuous: witness ") + w[i].name + " is 0");
}
int main(int argc, char** argv) {
	bool small = false; for (int i = 1; i < argc; i++) if (!strcmp(argv[i], "--small")) small = true;
	vf::init(argc, argv, "C09", small ? "s_c09_http_small" : "s_c09_http");
	C_EVAL = vf::counter("evaluations"); C_DIST = vf::counter("distinct_nontrivial"); C_EXEC = vf::counter("traces"); C_POINTS = vf::counter("transitions"); vf::counter("states");
	W_DELIVERED = vf::counter("w.requests_delivered_and_compared"); W_DROPPED = vf::counter("w.connections_dropped_without_request"); W_DOTDOT = vf::counter("w.targets_decoding_to_dotdot"); W_CHUNKED = vf::counter("w.chunked_bodies"); W_LENGTH_BODY = vf::counter("w.content_length_bodies");
	W_KEEPALIVE = vf::counter("w.pipelined_keepalive"); W_RANGE = vf::counter("w.range_requests"); W_TRUNC = vf::counter("w.streams_cut_early"); W_SPLIT = vf::counter("w.streams_delivered_in_two_chunks"); W_EXPECT = vf::counter("w.expect_100"); W_FOLDED = vf::counter("w.folded_headers"); W_QUERY = vf::counter("w.query_parameter_sets_compared");
	W_NUL_PATH = vf::counter("w.delivered_paths_containing_nul"); W_NUL_DOTDOT = vf::counter("w.targets_with_dotdot_behind_a_nul");
	W_BADLINE_DROPPED = vf::counter("w.malformed_request_lines_refused"); W_BADLINE_LENIENT = vf::counter("w.malformed_request_lines_read_leniently");
	W_HEXCHUNK = vf::counter("w.hex_or_extended_chunk_sizes_compared"); W_LONG_DELIVERED = vf::counter("w.lines_at_cap_delivered"); W_LONG_DROPPED = vf::counter("w.lines_over_cap_refused");
	W_EMPTYVAL = vf::counter("w.empty_header_values_compared"); W_EXACTHDR = vf::counter("w.exact_header_maps_compared"); W_TABFOLD = vf::counter("w.tab_folds_compared"); W_FOLD3 = vf::counter("w.three_line_folds_compared");
	W_R100 = vf::counter("w.responses_100_continue"); W_R417 = vf::counter("w.responses_417"); W_F200 = vf::counter("w.file_served_200_with_content"); W_F206 = vf::counter("w.file_responses_206"); W_F416 = vf::counter("w.file_responses_416"); W_F404 = vf::counter("w.file_responses_404");
	W_BLOCKX = vf::counter("w.bodies_longer_than_receive_block_compared");
	W_STALL = vf::counter("w.stalled_peer_executions"); W_STALL_TIMEOUT = vf::counter("w.stalled_with_select_timeout"); W_STALL_DELIVERED = vf::counter("w.stalled_all_delivered"); W_STALL_PARTIAL = vf::counter("w.stalled_body_cut_by_timeout"); W_STALL_GAVEUP = vf::counter("w.stalled_connection_given_up");
	W_OUTSIDE_TRIED = vf::counter("w.outside_root_requests_handled");
	W_HN_STREAMS = vf::counter("w.name_spelling_streams_compared"); W_HN_NONCANON_PLAIN = vf::counter("w.noncanonical_name_unfolded_compared"); W_HN_NONCANON_FOLD = vf::counter("w.noncanonical_name_folded_compared"); W_HN_NONCANON_EMPTY = vf::counter("w.noncanonical_name_empty_value_compared");
	W_HN_FOLD_AFTER_EMPTY = vf::counter("w.value_on_continuation_line_compared"); W_HN_BLANK_FOLD = vf::counter("w.blank_continuation_lines_compared"); W_HN_REPEATED = vf::counter("w.repeated_header_same_spelling_compared"); W_HN_REPEATED_2SPELL = vf::counter("w.repeated_header_two_spellings_compared");
	W_HN_BEFORE_HOST = vf::counter("w.name_spelling_header_first_in_block_compared"); W_HN_FRAMING = vf::counter("w.respelled_framing_header_bodies_compared"); W_HN_FRAMING_FOLD = vf::counter("w.framing_value_on_continuation_line_compared");
	W_LOOKUPS = vf::counter("w.header_lookups_by_spelling_compared"); W_LOOKUPS_ABSENT = vf::counter("w.lookups_of_names_never_sent_compared");
	vsched::set_fatal_handler(onFatal);
	vsched::set_state_probe(vnet::state_hash);
	// web root with one file and one directory; a file next to the root that must never be served
	g_root = vf::scratch_dir() + "/root";
	{
		int rc = system(("mkdir -p '" + g_root + "/sub' && printf 012345 > '" + g_root + "/f.txt' && printf " + SECRET + " > '" + vf::scratch_dir() + "/secret.txt'").c_str());
		struct stat st;
		if (rc != 0 || stat((g_root + "/f.txt").c_str(), &st) != 0 || st.st_size != 6 || stat((vf::scratch_dir() + "/secret.txt").c_str(), &st) != 0) { fprintf(stderr, "HARNESS ERROR: cannot create the web root %s\n", g_root.c_str()); return 2; }
	}
	g_streams = streams();
	if (vf::opt.replay && vf::opt.kase.compare(0, 3, "sb:") == 0 && !smallBlock()) fprintf(stderr, "note: case %s was found with the 5-byte receive block; replay it with <build>/asan_small/bin/s_c09_http --small --case %s\n", vf::opt.kase.c_str(), vf::opt.kase.c_str());
	if (vf::opt.replay) { vf::parallel(1, [&](uint64_t) { run_case(vf::opt.kase); }); return vf::finish(); }
	bool T = vf::opt.thorough();
	if (small) {
		if (!smallBlock()) { fprintf(stderr, "HARNESS ERROR: --small needs the asan_small flavour (ASL_VERIF_RECV_BLOCK)\n"); return 2; }
		std::vector<J> jobs; streamJobs(jobs, T, true);
		vf::parallel(jobs.size(), [&](uint64_t i) { run_case(fmt("sb:%d:%d:%d", jobs[i].s, jobs[i].mode, jobs[i].pos)); }, 16);
		vf::setinfo("streams", fmt("{\"stream_executions\": %d, \"receive_block\": 5}", (int)jobs.size()));
		{ const Need need[] = { NEED(W_BLOCKX), NEED(W_HEXCHUNK), NEED(W_F200), NEED(W_F206), NEED(W_DELIVERED) }; needWitness(need, sizeof need / sizeof *need); }
		vf::sample("POST ... Transfer-Encoding: chunked | 10 CRLF 0123456789abcdef CRLF 0 CRLF CRLF read through a 5-byte receive block: whole, cut and split at every byte, byte-wise, read(1)");
		return vf::finish();
	}
	// A: every target over the two token alphabets
	for (int len = 0; len <= (T ? 8 : 6); len++) { uint64_t n = 1; for (int i = 0; i < len; i++) n *= 6; vf::parallel(n, [&](uint64_t i) { run_case(fmt("tA:%d:%llu", len, (unsigned long long)i)); }, 64); if (vf::deadline_passed()) { vf::cap_hit("deadline in targets A"); break; } }
	for (int len = 0; len <= (T ? 6 : 5); len++) { uint64_t n = 1; for (int i = 0; i < len; i++) n *= 8; vf::parallel(n, [&](uint64_t i) { run_case(fmt("tB:%d:%llu", len, (unsigned long long)i)); }, 64); }
	// B: streams x delivery modes
	std::vector<J> jobs; streamJobs(jobs, T, false);
	vf::parallel(jobs.size(), [&](uint64_t i) { run_case(fmt("st:%d:%d:%d", jobs[i].s, jobs[i].mode, jobs[i].pos)); }, 16);
	{ int ns = 0; for (size_t i = 0; i < g_streams.size(); i++) if (T || !g_streams[i].thoroughOnly) ns++; vf::setinfo("streams", fmt("{\"streams\": %d, \"stream_executions\": %d}", ns, (int)jobs.size())); }
	// D: query parameters
	vf::parallel(90, [&](uint64_t k1) { for (int v1 = 0; v1 < 91; v1++) run_case(fmt("qp:%d:%d:-1:0", (int)k1, v1)); });
	vf::parallel(9 * 10, [&](uint64_t i) { int k1 = (int)(i % 9), v1 = (int)(i / 9); for (int k2 = 0; k2 < 9; k2++) for (int v2 = 0; v2 < 10; v2++) run_case(fmt("qp:%d:%d:%d:%d", k1, v1, k2, v2)); });
	// C: URL strings
	int NU = (int)strlen(UA);
	for (int len = 0; len <= (T ? 7 : 6); len++) { uint64_t n = 1; for (int i = 0; i < len; i++) n *= NU; vf::parallel((n + 255) / 256, [&](uint64_t blk) { for (uint64_t i = blk * 256; i < (blk + 1) * 256 && i < n; i++) { std::string s; uint64_t x = i; for (int k = 0; k < len; k++) { s += UA[x % NU]; x /= NU; } urlCase(s, "url:" + vf::hex(s)); } }); }
	// A0 (last: on a tree where '..' survives behind a NUL this family floods): every target over TA + "%00" with at least one "%00"
	for (int len = 1; len <= (T ? 7 : 5); len++) { uint64_t n = 1; for (int i = 0; i < len; i++) n *= 7; vf::parallel(n, [&](uint64_t i) { if (hasDigit(7, len, i, 6)) run_case(fmt("t0:%d:%llu", len, (unsigned long long)i)); }, 64); if (vf::deadline_passed()) { vf::cap_hit("deadline in targets A0"); break; } }
	{ const Need need[] = { NEED(W_NUL_DOTDOT), NEED(W_NUL_PATH), NEED(W_BADLINE_DROPPED), NEED(W_BADLINE_LENIENT), NEED(W_HEXCHUNK), NEED(W_LONG_DELIVERED), NEED(W_LONG_DROPPED), NEED(W_EXACTHDR), NEED(W_TABFOLD), NEED(W_STALL_TIMEOUT), NEED(W_STALL_DELIVERED), NEED(W_STALL_PARTIAL), NEED(W_STALL_GAVEUP), NEED(W_F200), NEED(W_F206), NEED(W_F416), NEED(W_F404), NEED(W_R100), NEED(W_R417), NEED(W_OUTSIDE_TRIED), NEED(W_DELIVERED), NEED(W_QUERY), NEED(W_DOTDOT),
						NEED(W_HN_STREAMS), NEED(W_HN_NONCANON_PLAIN), NEED(W_HN_NONCANON_FOLD), NEED(W_HN_NONCANON_EMPTY), NEED(W_HN_FOLD_AFTER_EMPTY), NEED(W_HN_BLANK_FOLD), NEED(W_HN_REPEATED), NEED(W_HN_REPEATED_2SPELL), NEED(W_HN_BEFORE_HOST), NEED(W_HN_FRAMING), NEED(W_HN_FRAMING_FOLD), NEED(W_LOOKUPS), NEED(W_LOOKUPS_ABSENT) };
	  needWitness(need, sizeof need / sizeof *need); }
	vf::sample("GET /%2e%2e/%2e./a HTTP/1.1 ; GET /a#b?c HTTP/1.1 ; GET /a%00/../x HTTP/1.1 (every target over {. / %2e %2f %25 a}, {/ a ? # = & % +}, {. / %2e %2f %25 a %00})");
	vf::sample("POST /u HTTP/1.1 | Host: h | X-A:v | Content-Length: 10 | abc<EOF>  cut at every byte, split in two at every byte, byte-wise, read(1), peer stalling 7 s / 12 s at every byte");
	vf::sample("Url(\"[a/]:9\"), Url::decode(\"%\"), Url::parseQuery(\"a=%2\")");
	vf::sample("x-AB: v CRLF SP w CRLF HT x (name in all 8 letter-case patterns x 13 header forms), looked up as x-ab, X-Ab, X-AB, x-aB ...; cONTENT-lENGTH: CRLF SP 3 in front of a body");
	vf::sample("GET /aaa...(15986 a) HTTP/1.1: request line of 16001 bytes (delivered) / 16002 bytes (refused); 'GET' / 'GET /a' / 'GET  HTTP/1.1' as request lines");
	return vf::finish();
}
