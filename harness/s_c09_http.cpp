// C09 — HTTP request parsing: the real HttpServer::serve(Socket) is run over an in-memory scripted connection (vnet) under
// the scheduler's virtual clock; every request target over small alphabets, a grammar of request streams each cut at every
// byte and delivered in every 2-chunk split / byte-wise, and all short URL strings are enumerated.
#include <asl/HttpServer.h>
#include <asl/Http.h>
#include <asl/Socket.h>
#include <asl/File.h>
#include <map>
#include "vf.h"
#include "aslx.h"
#include "vsched.h"
#include "vnet.h"
using namespace asl;
using vf::fmt;

static int C_EVAL, C_DIST, C_EXEC, C_POINTS, W_DELIVERED, W_DROPPED, W_DOTDOT, W_CHUNKED, W_LENGTH_BODY, W_KEEPALIVE, W_RANGE, W_TRUNC, W_SPLIT, W_EXPECT, W_FOLDED, W_QUERY;

struct Rec { std::string method, path, query, proto, body; std::map<std::string, std::string> headers, params; };
struct Srv : public HttpServer {
	std::vector<Rec> got;
	Srv() : HttpServer(-1) {}
	void serve(HttpRequest& q, HttpResponse& r) {
		Rec x; x.method = vfx::S(q.method()); x.path = vfx::S(q.path()); x.query = vfx::S(q.querystring()); x.proto = vfx::S(q.protocol());
		const ByteArray& b = q.body(); x.body.assign((const char*)b.data(), b.length());
		foreach2 (String & k, const String& v, q.headers()) x.headers[vfx::S(k)] = vfx::S(v);
		const Dic<>& qp = q.query();
		foreach2 (String & k2, const String& v2, qp) x.params[vfx::S(k2)] = vfx::S(v2);
		// case-insensitive lookup must agree with the stored value
		foreach2 (String & k3, const String& v3, q.headers()) { if (q.header(k3.toLowerCase()) != v3 || q.header(k3.toUpperCase()) != v3 || !q.hasHeader(k3.toLowerCase())) x.headers["!case-insensitive-lookup-failed"] = vfx::S(k3); }
		got.push_back(x);
		if (_webroot.ok()) HttpServer::serve(q, r); else r.put("ok");
	}
};

static std::string g_case;
static void onFatal(const char* what, const std::string& schedule) {
	std::string w = what;
	if (w == "DIVERGED") { fprintf(stderr, "HARNESS ERROR: diverged %s\n", g_case.c_str()); _exit(2); }
	vf::violation("no_termination", std::string(what) + ": request handling did not finish (" + (w == "STEP_LIMIT" ? "keeps polling a connection that has nothing more to deliver" : "blocked forever") + ")", g_case);
	vf::restart_worker();
}

struct Outcome { std::vector<Rec> got; std::string written; std::string asan; int misuse; int leakedFds; };
static std::string g_root;
static Outcome runStream(const std::vector<std::string>& chunks, int readMax, bool fileRoot) {
	Outcome o; o.misuse = 0; o.leakedFds = 0;
	auto body = [&]() {
		vf::asan_clear();
		vnet::reset(); vnet::enable(true); vnet::set_limits(readMax, 0);
		int fd = vnet::scripted(chunks);
		{
			Srv srv;
			if (fileRoot) srv.setRoot(g_root.c_str());
			{ Socket client(fd); ((SocketServer&)srv).serve(client); }
			o.got = srv.got;
		}
		o.written = vnet::written(fd);
		o.misuse = vnet::misuse(); o.leakedFds = vnet::open_fds();
		vnet::enable(false);
		if (vf::asan_tripped()) o.asan = vf::asan_what();
	};
	vsched::states_reset();
	vsched::Result x = vsched::run_once(std::vector<uint8_t>(), body, 20000);
	vf::add(C_EXEC); vf::add(C_POINTS, x.points.size()); { static int cst = vf::counter("states"); vf::add(cst, vsched::states_count()); }
	return o;
}

static std::string pctDecode(const std::string& s, bool* valid) {
	std::string r; *valid = true;
	for (size_t i = 0; i < s.size(); i++) {
		if (s[i] == '%') { if (i + 2 < s.size() + 0 && isxdigit((unsigned char)s[i + 1]) && isxdigit((unsigned char)s[i + 2])) { r += (char)strtoul(s.substr(i + 1, 2).c_str(), 0, 16); i += 2; } else { *valid = false; return r; } }
		else r += s[i];
	}
	return r;
}
static std::string showRec(const Rec& r) { std::string s = r.method + " path=" + vf::hex(r.path) + " query=" + r.query + " body=" + vf::hex(r.body) + " headers{"; for (std::map<std::string, std::string>::const_iterator it = r.headers.begin(); it != r.headers.end(); ++it) s += it->first + ":" + it->second + ";"; return s + "}"; }

static void commonChecks(const Outcome& o, const std::string& kase, const std::string& what) {
	if (!o.asan.empty()) vf::violation("asan", "ASan " + o.asan + " while serving " + what, kase);
	for (size_t i = 0; i < o.got.size(); i++) if (o.got[i].path.find("..") != std::string::npos) vf::violation("dotdot_in_path", "decoded request path contains '..': " + vf::hex(o.got[i].path) + " for " + what, kase);
	if (o.misuse) vf::violation("fd_misuse", fmt("%d operation(s) on a closed descriptor while serving ", o.misuse) + what, kase);
	if (o.leakedFds) vf::violation("fd_leak", fmt("%d connection descriptor(s) still open after serve() returned and the socket was dropped for ", o.leakedFds) + what, kase);
}

// ---- part A: request targets
static void targetCase(const std::string& target, const std::string& kase) {
	g_case = kase; vf::cur(kase); vf::add(C_EVAL); vf::add(C_DIST);
	std::vector<std::string> ch(1, "GET " + target + " HTTP/1.1\r\nHost: x\r\n\r\n");
	Outcome o = runStream(ch, 0, false);
	commonChecks(o, kase, "target '" + target + "'");
	if (o.got.size() > 1) vf::violation("spurious_request", "more than one request delivered for target '" + target + "'", kase);
	if (o.got.empty()) { vf::add(W_DROPPED); return; }
	vf::add(W_DELIVERED);
	// reference: fragment from the first '#', query from the first '?' before it
	size_t h = target.find('#'); std::string t = target.substr(0, h);
	size_t q = t.find('?'); std::string rawPath = t.substr(0, q), rawQuery = q == std::string::npos ? "" : t.substr(q + 1);
	bool valid; std::string path = pctDecode(rawPath, &valid);
	if (path.find('\0') != std::string::npos) valid = false;
	if (path.find("..") != std::string::npos) { vf::add(W_DOTDOT); return; } // the sanitised form is implementation-defined; only absence of '..' is required (checked above)
	if (valid && h != 0 && q != 0 && o.got[0].path != path) vf::violation("path_mismatch", "target '" + target + "' delivered path " + vf::hex(o.got[0].path) + ", reference " + vf::hex(path), kase);
	if (valid && h != 0 && q != 0 && o.got[0].query != rawQuery) vf::violation("query_mismatch", "target '" + target + "' delivered query string '" + o.got[0].query + "', reference '" + rawQuery + "'", kase);
}
static std::string tokString(const char* const* toks, int nt, int len, uint64_t idx) { std::string s; for (int i = 0; i < len; i++) { s += toks[idx % nt]; idx /= nt; } return s; }

// ---- part B: request streams
struct Stream { std::string name, bytes; std::vector<Rec> expect; bool wellformed; bool fileRoot; };
static Rec mk(const std::string& m, const std::string& p, const std::string& q, const std::string& body) { Rec r; r.method = m; r.path = p; r.query = q; r.body = body; return r; }
static std::vector<Stream> streams() {
	std::vector<Stream> v;
	struct Line { const char* text; const char* method; const char* path; const char* query; } lines[] = {
		{ "GET /p/q?x=1&y=a%20b HTTP/1.1", "GET", "/p/q", "x=1&y=a%20b" }, { "POST /u HTTP/1.1", "POST", "/u", "" }, { "PUT /f%2eg/ HTTP/1.0", "PUT", "/f.g/", "" } };
	struct Hdr { const char* text; const char* name; const char* value; bool ok; } hdrs[] = {
		{ "", 0, 0, true }, { "X-A: v\r\n", "X-A", "v", true }, { "X-A:v\r\n", "X-A", "v", true }, { "x-a:  v \r\n", "X-A", "v", true }, { "X-A: v\r\n  w\r\n", "X-A", "vw", true },
		{ "X-A: v\r\nX-B: w:z\r\n", "X-B", "w:z", true }, { "nocolon\r\n", 0, 0, false }, { ": v\r\n", 0, 0, false }, { "Expect: 100-continue\r\n", "Expect", "100-continue", true } };
	struct Body { const char* hdr; const char* bytes; const char* body; bool ok; } bodies[] = {
		{ "", "", "", true }, { "Content-Length: 0\r\n", "", "", true }, { "Content-Length: 3\r\n", "abc", "abc", true }, { "Content-Length: 6\r\n", "a\r\n\r\nb", "a\r\n\r\nb", true },
		{ "Content-Length: -1\r\n", "abc", 0, false }, { "Content-Length: abc\r\n", "abc", 0, false }, { "Content-Length: 99999999999\r\n", "abc", 0, false }, { "Content-Length: 10\r\n", "abc", 0, false },
		{ "Transfer-Encoding: chunked\r\n", "3\r\nabc\r\n2\r\nde\r\n0\r\n\r\n", "abcde", true }, { "Transfer-Encoding: chunked\r\n", "1\r\na\r\n0\r\n\r\n", "a", true },
		{ "Transfer-Encoding: chunked\r\n", "zz\r\nabc\r\n0\r\n\r\n", 0, false }, { "Transfer-Encoding: chunked\r\n", "3\r\nabcde\r\n0\r\n\r\n", 0, false }, { "Transfer-Encoding: chunked\r\n", "7fffffff\r\nabc", 0, false }, { "Transfer-Encoding: chunked\r\n", "ffffffff\r\nabc\r\n0\r\n\r\n", 0, false } };
	for (size_t l = 0; l < sizeof lines / sizeof *lines; l++) for (size_t h = 0; h < sizeof hdrs / sizeof *hdrs; h++) for (size_t b = 0; b < sizeof bodies / sizeof *bodies; b++) {
		if (l > 0 && h > 4 && b > 3) continue; // keep the product moderate: full header x body product only for the first request line
		Stream s; s.fileRoot = false;
		s.name = fmt("L%d.H%d.B%d", (int)l, (int)h, (int)b);
		s.bytes = std::string(lines[l].text) + "\r\nHost: h\r\n" + hdrs[h].text + bodies[b].hdr + "\r\n" + bodies[b].bytes;
		s.wellformed = hdrs[h].ok && bodies[b].ok;
		if (s.wellformed) { Rec r = mk(lines[l].method, lines[l].path, lines[l].query, bodies[b].body); r.headers["Host"] = "h"; if (hdrs[h].name) r.headers[hdrs[h].name] = hdrs[h].value; if (h == 5) r.headers["X-A"] = "v"; s.expect.push_back(r); }
		v.push_back(s);
	}
	// keep-alive: two pipelined requests on one connection; HTTP/1.0 without keep-alive: the second is not served
	{ Stream s; s.fileRoot = false; s.name = "keepalive2"; s.bytes = "POST /one HTTP/1.1\r\nConnection: keep-alive\r\nContent-Length: 2\r\n\r\nhiGET /two?k=v HTTP/1.1\r\nConnection: close\r\n\r\n"; s.wellformed = true;
	  Rec a = mk("POST", "/one", "", "hi"); a.headers["Connection"] = "keep-alive"; a.headers["Content-Length"] = "2"; Rec b = mk("GET", "/two", "k=v", ""); b.headers["Connection"] = "close"; s.expect.push_back(a); s.expect.push_back(b); v.push_back(s); }
	{ Stream s; s.fileRoot = false; s.name = "chunked_then_second"; s.bytes = "POST /c HTTP/1.1\r\nTransfer-Encoding: chunked\r\n\r\n2\r\nxy\r\n0\r\n\r\nGET /d HTTP/1.1\r\nConnection: close\r\n\r\n"; s.wellformed = true;
	  Rec a = mk("POST", "/c", "", "xy"); a.headers["Transfer-Encoding"] = "chunked"; Rec b = mk("GET", "/d", "", ""); b.headers["Connection"] = "close"; s.expect.push_back(a); s.expect.push_back(b); v.push_back(s); }
	// file serving with Range headers (web root with a 6-byte file): safety and termination only
	static const char* ranges[] = { "", "Range: bytes=0-1\r\n", "Range: bytes=5\r\n", "Range: bytes=-\r\n", "Range: bytes=a-b\r\n", "Range: bytes=1-0\r\n", "Range: bytes=2-2\r\n", "Range: bytes=0-99\r\n", "Range: bytes=1-2,4-5\r\n", "Range: lines=1-2\r\n", "If-Modified-Since: Tue, 30 Nov 2021 00:31:10 GMT\r\n", "If-Modified-Since: junk\r\n" };
	for (size_t r = 0; r < sizeof ranges / sizeof *ranges; r++) for (int f = 0; f < 3; f++) {
		Stream s; s.fileRoot = true; s.wellformed = false; s.name = fmt("file%d.R%d", f, (int)r);
		s.bytes = std::string(f == 0 ? "GET /f.txt HTTP/1.1" : f == 1 ? "GET /nofile HTTP/1.1" : "GET /sub/../f.txt HTTP/1.0") + "\r\nHost: h\r\n" + ranges[r] + "\r\n";
		v.push_back(s);
	}
	return v;
}
static bool sameRec(const Rec& g, const Rec& e, std::string& why) {
	if (g.method != e.method) { why = "method '" + g.method + "' instead of '" + e.method + "'"; return false; }
	if (g.path != e.path) { why = "path " + vf::hex(g.path) + " instead of " + vf::hex(e.path); return false; }
	if (g.query != e.query) { why = "query string '" + g.query + "' instead of '" + e.query + "'"; return false; }
	if (g.body != e.body) { why = "body " + vf::hex(g.body) + " instead of " + vf::hex(e.body); return false; }
	for (std::map<std::string, std::string>::const_iterator it = e.headers.begin(); it != e.headers.end(); ++it) {
		std::map<std::string, std::string>::const_iterator f = g.headers.find(it->first);
		if (f == g.headers.end() || f->second != it->second) { why = "header " + it->first + " = '" + (f == g.headers.end() ? std::string("<missing>") : f->second) + "' instead of '" + it->second + "'"; return false; }
	}
	if (g.headers.count("!case-insensitive-lookup-failed")) { why = "case-insensitive header lookup failed for " + g.headers.find("!case-insensitive-lookup-failed")->second; return false; }
	if (e.query == "x=1&y=a%20b" && !(g.params.size() == 2 && g.params.count("x") && g.params.find("x")->second == "1" && g.params.count("y") && g.params.find("y")->second == "a b")) { why = "query parameters"; return false; }
	return true;
}
static void streamCase(const Stream& s, int mode, int pos, const std::string& kase) {
	g_case = kase; vf::cur(kase); vf::add(C_EVAL); vf::add(C_DIST);
	std::vector<std::string> ch; int readMax = 0; bool full = true;
	if (mode == 0) ch.push_back(s.bytes);
	else if (mode == 1) { ch.push_back(s.bytes.substr(0, pos)); full = false; vf::add(W_TRUNC); if (pos == 0) ch.clear(); }
	else if (mode == 2) { ch.push_back(s.bytes.substr(0, pos)); ch.push_back(s.bytes.substr(pos)); vf::add(W_SPLIT); }
	else if (mode == 3) { for (size_t i = 0; i < s.bytes.size(); i++) ch.push_back(s.bytes.substr(i, 1)); }
	else { ch.push_back(s.bytes); readMax = 1; }
	Outcome o = runStream(ch, readMax, s.fileRoot);
	std::string what = "stream " + s.name + fmt(" (delivery mode %d, position %d)", mode, pos);
	commonChecks(o, kase, what);
	if (s.bytes.find("chunked") != std::string::npos) vf::add(W_CHUNKED);
	if (s.bytes.find("Content-Length: 3") != std::string::npos) vf::add(W_LENGTH_BODY);
	if (s.bytes.find("Range:") != std::string::npos) vf::add(W_RANGE);
	if (s.bytes.find("Expect:") != std::string::npos) vf::add(W_EXPECT);
	if (s.bytes.find("\r\n  w") != std::string::npos) vf::add(W_FOLDED);
	if (s.expect.size() == 2) vf::add(W_KEEPALIVE);
	if (!s.wellformed || !full) { if (o.got.empty()) vf::add(W_DROPPED); return; }
	// complete, well-formed stream: every request is delivered exactly once, in order, as sent
	if (o.got.size() != s.expect.size()) { vf::violation("request_count", fmt("%d request(s) delivered instead of %d for ", (int)o.got.size(), (int)s.expect.size()) + what + (o.got.empty() ? "" : "; first: " + showRec(o.got[0])), kase); return; }
	vf::add(W_DELIVERED);
	for (size_t i = 0; i < s.expect.size(); i++) { std::string why; if (!sameRec(o.got[i], s.expect[i], why)) vf::violation("request_fields", fmt("request %d of ", (int)i + 1) + what + ": " + why, kase); }
}

// ---- part D: query parameters: "k=v(&k=v)" built from tokens; the handler must see the decoded pairs (form decoding: '+' is a space, %XX a byte)
static const char* QT[] = { "a", "b", "+", "%2B", "%20", "%26", "%3D", "%25", "%C3%A9" };
static const char* QD[] = { "a", "b", " ", "+", " ", "&", "=", "%", "\xc3\xa9" };
static void queryCase(int k1, int v1, int k2, int v2, const std::string& kase) {
	g_case = kase; vf::cur(kase); vf::add(C_EVAL); vf::add(C_DIST);
	// k: 1-2 tokens (index = t0 + 9*t1, t1 = 9 means none), v: 0-2 tokens (index 0 = empty)
	auto mk = [](int idx, bool key, std::string& raw, std::string& dec) { raw.clear(); dec.clear(); if (!key) { if (idx == 0) return; idx--; } int t0 = idx % 9, t1 = idx / 9; raw += QT[t0]; dec += QD[t0]; if (t1 > 0) { raw += QT[t1 - 1]; dec += QD[t1 - 1]; } };
	std::string rk1, dk1, rv1, dv1, rk2, dk2, rv2, dv2;
	mk(k1, true, rk1, dk1); mk(v1, false, rv1, dv1);
	std::string q = rk1 + "=" + rv1; std::map<std::string, std::string> exp; exp[dk1] = dv1;
	if (k2 >= 0) { mk(k2, true, rk2, dk2); mk(v2, false, rv2, dv2); if (dk2 == dk1) return; q += "&" + rk2 + "=" + rv2; exp[dk2] = dv2; }
	std::vector<std::string> ch(1, "GET /q?" + q + " HTTP/1.1\r\nHost: x\r\n\r\n");
	Outcome o = runStream(ch, 0, false);
	commonChecks(o, kase, "query '" + q + "'");
	if (o.got.size() != 1) { vf::violation("request_count", fmt("%d requests delivered for query '", (int)o.got.size()) + q + "'", kase); return; }
	vf::add(W_QUERY);
	if (o.got[0].query != q) vf::violation("query_mismatch", "query string '" + o.got[0].query + "' instead of '" + q + "'", kase);
	if (o.got[0].params != exp) { std::string g; for (std::map<std::string, std::string>::const_iterator it = o.got[0].params.begin(); it != o.got[0].params.end(); ++it) g += "[" + vf::hex(it->first) + "=" + vf::hex(it->second) + "]"; std::string w; for (std::map<std::string, std::string>::const_iterator it = exp.begin(); it != exp.end(); ++it) w += "[" + vf::hex(it->first) + "=" + vf::hex(it->second) + "]"; vf::violation("query_params", "query '" + q + "' delivered parameters " + g + ", sent " + w, kase); }
}

// ---- part C: Url strings
static void urlCase(const std::string& u, const std::string& kase) {
	vf::cur(kase); vf::add(C_EVAL); vf::add(C_DIST);
	vf::asan_clear();
	String s = vfx::A(u);
	{ vfx::Flush f(s); Url url(s); String d = Url::decode(s); String q = url.query(); Dic<> p = Url::parseQuery(s); (void)d; (void)q; (void)p;
	  if (url.port < 0 && url.port != 0) {} }
	if (vf::asan_tripped()) { vf::violation("url_asan", "ASan " + vf::asan_what() + " in Url / Url::decode / parseQuery of '" + u + "'", kase); vf::asan_clear(); }
}

static std::vector<Stream> g_streams;
static const char* TA[] = { ".", "/", "%2e", "%2f", "%25", "a" };
static const char* TB[] = { "/", "a", "?", "#", "=", "&", "%", "+" };
static const char UA[] = "a:/[]%2e?#@";
static void run_case(const std::string& k) {
	int a, b, c; unsigned long long u;
	if (sscanf(k.c_str(), "tA:%d:%llu", &a, &u) == 2) targetCase("/" + tokString(TA, 6, a, u), k);
	else if (sscanf(k.c_str(), "tB:%d:%llu", &a, &u) == 2) targetCase("/" + tokString(TB, 8, a, u), k);
	else if (sscanf(k.c_str(), "st:%d:%d:%d", &a, &b, &c) == 3) { if (g_streams.empty()) g_streams = streams(); if (a < (int)g_streams.size()) streamCase(g_streams[a], b, c, k); }
	else if (k.compare(0, 4, "url:") == 0) urlCase(vf::unhex(k.substr(4)), k);
	else { int k1, v1, k2, v2; if (sscanf(k.c_str(), "qp:%d:%d:%d:%d", &k1, &v1, &k2, &v2) == 4) queryCase(k1, v1, k2, v2, k); }
}

int main(int argc, char** argv) {
	vf::init(argc, argv, "C09", "s_c09_http");
	C_EVAL = vf::counter("evaluations"); C_DIST = vf::counter("distinct_nontrivial"); C_EXEC = vf::counter("traces"); C_POINTS = vf::counter("transitions"); vf::counter("states");
	W_DELIVERED = vf::counter("w.requests_delivered_and_compared"); W_DROPPED = vf::counter("w.connections_dropped_without_request"); W_DOTDOT = vf::counter("w.targets_decoding_to_dotdot"); W_CHUNKED = vf::counter("w.chunked_bodies"); W_LENGTH_BODY = vf::counter("w.content_length_bodies");
	W_KEEPALIVE = vf::counter("w.pipelined_keepalive"); W_RANGE = vf::counter("w.range_requests"); W_TRUNC = vf::counter("w.streams_cut_early"); W_SPLIT = vf::counter("w.streams_delivered_in_two_chunks"); W_EXPECT = vf::counter("w.expect_100"); W_FOLDED = vf::counter("w.folded_headers"); W_QUERY = vf::counter("w.query_parameter_sets_compared");
	vsched::set_fatal_handler(onFatal);
	vsched::set_state_probe(vnet::state_hash);
	g_root = vf::scratch_dir() + "/root"; if (system(("mkdir -p '" + g_root + "/sub' && printf 012345 > '" + g_root + "/f.txt'").c_str())) {}
	g_streams = streams();
	if (vf::opt.replay) { vf::parallel(1, [&](uint64_t) { run_case(vf::opt.kase); }); return vf::finish(); }
	bool T = vf::opt.thorough();
	// A: every target over the two token alphabets
	for (int len = 0; len <= (T ? 8 : 6); len++) { uint64_t n = 1; for (int i = 0; i < len; i++) n *= 6; vf::parallel(n, [&](uint64_t i) { run_case(fmt("tA:%d:%llu", len, (unsigned long long)i)); }, 64); if (vf::deadline_passed()) { vf::cap_hit("deadline in targets A"); break; } }
	for (int len = 0; len <= (T ? 6 : 5); len++) { uint64_t n = 1; for (int i = 0; i < len; i++) n *= 8; vf::parallel(n, [&](uint64_t i) { run_case(fmt("tB:%d:%llu", len, (unsigned long long)i)); }, 64); }
	// B: streams x delivery modes
	struct J { int s, mode, pos; }; std::vector<J> jobs;
	for (size_t s = 0; s < g_streams.size(); s++) {
		int n = (int)g_streams[s].bytes.size();
		J j = { (int)s, 0, 0 }; jobs.push_back(j); j.mode = 3; jobs.push_back(j); j.mode = 4; jobs.push_back(j);
		for (int p = 0; p < n; p++) { J t = { (int)s, 1, p }; jobs.push_back(t); }
		for (int p = 1; p < n; p++) { J t = { (int)s, 2, p }; jobs.push_back(t); }
	}
	vf::parallel(jobs.size(), [&](uint64_t i) { run_case(fmt("st:%d:%d:%d", jobs[i].s, jobs[i].mode, jobs[i].pos)); }, 16);
	vf::setinfo("streams", fmt("{\"streams\": %d, \"stream_executions\": %d}", (int)g_streams.size(), (int)jobs.size()));
	// D: query parameters
	vf::parallel(90, [&](uint64_t k1) { for (int v1 = 0; v1 < 91; v1++) run_case(fmt("qp:%d:%d:-1:0", (int)k1, v1)); });
	vf::parallel(9 * 10, [&](uint64_t i) { int k1 = (int)(i % 9), v1 = (int)(i / 9); for (int k2 = 0; k2 < 9; k2++) for (int v2 = 0; v2 < 10; v2++) run_case(fmt("qp:%d:%d:%d:%d", k1, v1, k2, v2)); });
	// C: URL strings
	int NU = (int)strlen(UA);
	for (int len = 0; len <= (T ? 7 : 6); len++) { uint64_t n = 1; for (int i = 0; i < len; i++) n *= NU; vf::parallel((n + 255) / 256, [&](uint64_t blk) { for (uint64_t i = blk * 256; i < (blk + 1) * 256 && i < n; i++) { std::string s; uint64_t x = i; for (int k = 0; k < len; k++) { s += UA[x % NU]; x /= NU; } urlCase(s, "url:" + vf::hex(s)); } }); }
	vf::sample("GET /%2e%2e/%2e./a HTTP/1.1 ; GET /a#b?c HTTP/1.1 (every target over {. / %2e %2f %25 a} and {/ a ? # = & % +})");
	vf::sample("POST /u HTTP/1.1 | Host: h | X-A:v | Content-Length: 10 | abc<EOF>  cut at every byte, split in two at every byte, byte-wise, read(1)");
	vf::sample("Url(\"[a/]:9\"), Url::decode(\"%\"), Url::parseQuery(\"a=%2\")");
	return vf::finish();
}
