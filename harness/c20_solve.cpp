// C20 part 2 — Matrix_<T> solve() / inverse(): Gaussian elimination with partial pivoting through a row-permutation
// vector, and the normal equations for over-determined systems.
//   exact:  Matrix_<GF(p)> — ALL systems over small fields (every zero pattern, hence every pivot / row-exchange pattern),
//           P*U and P*L*U systems up to 12x12 over GF(2^61-1) for all / structured permutations P, with three different
//           pivot preferences (fabs() of the field is a bijection chosen by the harness: "whichever rows are chosen");
//           least squares = normal equations A^T A x = A^T b for all full-rank integer 3x2 / 4x2 (/4x3) systems.
//   float / double: all integer 3x3 over {-2..2} and 4x4 over {0,1} ({-1,0,1} thorough), structured families up to 12x12:
//           ||A x - b||_inf <= c * eps * kappa_inf(A) * ||b||_inf with kappa from a long-double Gauss-Jordan inverse.
// Extension after the coverage review: the caller's A and b are read back after every solve() (handles share storage, solve_() works
// in place); right-hand sides taken from the matrix itself; exact least squares also through solve_() with the non-square system,
// through pseudoinverse()*b and with three right-hand sides at once; floating-point least squares on complete integer grids through
// solve(), solve_(), pseudoinverse() and solveZero() (linear residual: one Gauss-Newton step); systems scaled by 2^+-40 (float 2^+-20).
#include <asl/Matrix.h>
#include "c20_common.h"
using namespace asl;
using namespace c20;
using vf::fmt;

uint64_t Fp::P = 2305843009213693951ULL, Fp::K = 1, Fp::divzero = 0;
int64_t Sym::div = 0; int Sym::ndiv = 0, Sym::unsupported = 0;
static const uint64_t BIGP = 2305843009213693951ULL;

static int C_EVAL, C_DISTINCT, C_GF_NONSING, C_GF_SING, C_EXCH, C_NOEXCH, C_MULTICOL, C_INVERSE, C_LS_EXACT, C_LS_RANKDEF, C_PLU, C_PLU_BIG, C_FLT, C_FLT_EXCH, C_FLT_LS, C_ILL, C_MODE[3];
// extension (coverage review): the caller's A and b are read back after every solve(); solve(A, A) and solve(A, A.col(0)); the other entry
// points of the same elimination (solve_() on a non-square system, pseudoinverse(), solveZero() on a linear residual); several right-hand
// sides in exact least squares; floating-point systems scaled by 2^+-40 (float 2^+-20) so that an absolute threshold shows
static int W_PRESERVED, W_ALIAS, W_LS_UNDERSCORE, W_LS_PINV, W_LS_MULTI, C_MULTICOL_F, W_SCALED, W_FLS_GRID, W_FLS_ENTRY[4], W_SOLVEZERO;
static Reporter rep;
static MaxTrack mx;
static const double C_RESID = 8.0;
static const uint64_t MODES[3] = { 1, 0 /* = P-1, set at use */, 0x9E3779B97F4A7ULL };
static void set_field(uint64_t p, int mode) { Fp::P = p; Fp::K = mode == 0 ? 1 : mode == 1 ? p - 1 : (MODES[2] % p ? MODES[2] % p : 1); }

typedef std::vector<uint64_t> VU;
static uint64_t mulm(uint64_t a, uint64_t b, uint64_t p) { return (uint64_t)((unsigned __int128)a * b % p); }
static uint64_t powm(uint64_t a, uint64_t e, uint64_t p) { uint64_t r = 1 % p; a %= p; while (e) { if (e & 1) r = mulm(r, a, p); a = mulm(a, a, p); e >>= 1; } return r; }
// reference rank over GF(p) (own elimination on plain integers); also reports whether any row exchange is NEEDED when
// eliminating in natural order (zero on the diagonal at some step) — a property of the input, not of asl's choice
static int ref_rank(VU a, int rows, int cols, uint64_t p, bool* needs_exchange = 0) {
	int r = 0; bool ex = false;
	for (int c = 0; c < cols && r < rows; c++) {
		int piv = -1;
		for (int i = r; i < rows; i++) if (a[i * cols + c] % p) { piv = i; break; }
		if (piv < 0) continue;
		if (piv != r) { ex = true; for (int j = 0; j < cols; j++) std::swap(a[piv * cols + j], a[r * cols + j]); }
		uint64_t inv = powm(a[r * cols + c], p - 2, p);
		for (int i = r + 1; i < rows; i++) {
			uint64_t f = mulm(a[i * cols + c], inv, p);
			if (!f) continue;
			for (int j = c; j < cols; j++) a[i * cols + j] = (a[i * cols + j] + p - mulm(f, a[r * cols + j], p)) % p;
		}
		r++;
	}
	if (needs_exchange) *needs_exchange = ex;
	return r;
}
static VU ref_matmul(const VU& a, int n, int m, const VU& b, int k, uint64_t p) { // (n x m) * (m x k)
	VU c(n * k, 0);
	for (int i = 0; i < n; i++) for (int j = 0; j < k; j++) { uint64_t s = 0; for (int t = 0; t < m; t++) s = (s + mulm(a[i * m + t], b[t * k + j], p)) % p; c[i * k + j] = s; }
	return c;
}
static VU ref_transpose(const VU& a, int n, int m) { VU t(n * m); for (int i = 0; i < n; i++) for (int j = 0; j < m; j++) t[j * n + i] = a[i * m + j]; return t; }
static std::string vstr(const VU& a, int rows, int cols, uint64_t p) {
	std::string s = "[";
	for (int i = 0; i < rows; i++) { for (int j = 0; j < cols; j++) { uint64_t v = a[i * cols + j]; s += (p > 1000 && v > p / 2) ? fmt("-%llu", (unsigned long long)(p - v)) : fmt("%llu", (unsigned long long)v); if (j + 1 < cols) s += " "; } s += (i + 1 < rows) ? "; " : "]"; }
	return s.size() > 500 ? s.substr(0, 500) + "...]" : s;
}
static Matrix_<Fp> toM(const VU& a, int rows, int cols) { Matrix_<Fp> m(rows, cols); for (int i = 0; i < rows; i++) for (int j = 0; j < cols; j++) m(i, j) = Fp::raw(a[i * cols + j]); return m; }

// the caller's operands after a call: same shape, same elements (solve() takes them by const reference; Matrix_ handles share storage)
static bool same_as(const Matrix_<Fp>& M, const VU& a, int rows, int cols) {
	if (M.rows() != rows || M.cols() != cols) return false;
	for (int i = 0; i < rows; i++) for (int j = 0; j < cols; j++) if (M(i, j).v != a[i * cols + j]) return false;
	return true;
}
static void asan_check(const std::string& what, const std::string& kase) {
	if (vf::asan_tripped()) { rep.bad("solve_asan", "ASan " + vf::asan_what() + " in " + what, kase); vf::asan_clear(); }
}

// one exact system: A (n x n, non-singular) x = B (n x k). Returns after checking A*x == B over GF(p).
static void exact_square(const VU& a, int n, const VU& b, int k, uint64_t p, int mode, const std::string& kase, bool also_inverse) {
	set_field(p, mode);
	vf::add(C_MODE[mode]);
	Fp::divzero = 0;
	Matrix_<Fp> A = toM(a, n, n), B = toM(b, n, k);
	Matrix_<Fp> X = solve(A, B);
	asan_check("solve", kase);
	if (k > 1) vf::add(C_MULTICOL);
	if (X.rows() != n || X.cols() != k) { rep.bad("solve_shape", fmt("solve of a %dx%d system with %d right-hand sides returned a %dx%d matrix", n, n, k, X.rows(), X.cols()), kase); return; }
	VU x(n * k); for (int i = 0; i < n; i++) for (int j = 0; j < k; j++) x[i * k + j] = X(i, j).v;
	VU ax = ref_matmul(a, n, n, x, k, p);
	if (ax != b || Fp::divzero)
		rep.bad(k > 1 ? "solve_exact_multi" : "solve_exact", fmt("solve(A,b) over GF(%llu), pivot preference #%d: A*x != b%s for A = %s, b = %s, x = %s", (unsigned long long)p, mode, Fp::divzero ? " (divided by zero)" : "", vstr(a, n, n, p).c_str(), vstr(b, n, k, p).c_str(), vstr(x, n, k, p).c_str()), kase);
	vf::add(W_PRESERVED);
	if (!same_as(A, a, n, n) || !same_as(B, b, n, k))
		rep.bad("solve_modifies_input", fmt("solve(A,b) over GF(%llu) with %d right-hand side(s) changed the caller's %s: A = %s, b = %s", (unsigned long long)p, k, same_as(A, a, n, n) ? "b" : "A", vstr(a, n, n, p).c_str(), vstr(b, n, k, p).c_str()), kase);
	if (also_inverse) {
		Fp::divzero = 0;
		Matrix_<Fp> I = A.inverse();
		asan_check("Matrix::inverse", kase);
		vf::add(C_INVERSE);
		bool ok = I.rows() == n && I.cols() == n && !Fp::divzero;
		if (ok) { VU iv(n * n); for (int i = 0; i < n; i++) for (int j = 0; j < n; j++) iv[i * n + j] = I(i, j).v; VU pr = ref_matmul(a, n, n, iv, n, p); for (int i = 0; i < n * n; i++) if (pr[i] != (uint64_t)(i % (n + 1) == 0)) ok = false; }
		if (!ok) rep.bad("matrix_inverse_exact", fmt("Matrix_::inverse() over GF(%llu), pivot preference #%d: A*inverse(A) != I for A = %s", (unsigned long long)p, mode, vstr(a, n, n, p).c_str()), kase);
	}
}

// right-hand sides taken from the matrix itself: solve(A, A) = I (both operands are the same object) and solve(A, A.col(0)) = e_0
static void exact_alias(const VU& a, int n, uint64_t p, int mode, const std::string& kase, bool with_col) {
	set_field(p, mode);
	Fp::divzero = 0;
	Matrix_<Fp> A = toM(a, n, n);
	Matrix_<Fp> X = solve(A, A);
	asan_check("solve(A, A)", kase);
	vf::add(W_ALIAS);
	bool ok = X.rows() == n && X.cols() == n && !Fp::divzero;
	for (int i = 0; i < n && ok; i++) for (int j = 0; j < n; j++) if (X(i, j).v != (uint64_t)(i == j)) ok = false;
	if (!ok) rep.bad("solve_alias", fmt("solve(A, A) over GF(%llu), pivot preference #%d, is not the identity for A = %s", (unsigned long long)p, mode, vstr(a, n, n, p).c_str()), kase);
	if (!same_as(A, a, n, n)) rep.bad("solve_modifies_input", fmt("solve(A, A) over GF(%llu) changed A = %s", (unsigned long long)p, vstr(a, n, n, p).c_str()), kase);
	if (!with_col) return;
	Fp::divzero = 0;
	vf::add(W_ALIAS);
	Matrix_<Fp> c0 = A.col(0);
	Matrix_<Fp> Y = solve(A, c0);
	asan_check("solve(A, A.col(0))", kase);
	ok = Y.rows() == n && Y.cols() == 1 && !Fp::divzero;
	for (int i = 0; i < n && ok; i++) if (Y(i, 0).v != (uint64_t)(i == 0)) ok = false;
	if (!ok) rep.bad("solve_alias", fmt("solve(A, A.col(0)) over GF(%llu), pivot preference #%d, is not the first unit vector for A = %s", (unsigned long long)p, mode, vstr(a, n, n, p).c_str()), kase);
	VU col(n); for (int i = 0; i < n; i++) col[i] = a[i * n];
	if (!same_as(A, a, n, n) || !same_as(c0, col, n, 1)) rep.bad("solve_modifies_input", fmt("solve(A, A.col(0)) over GF(%llu) changed its operands, A = %s", (unsigned long long)p, vstr(a, n, n, p).c_str()), kase);
}

static uint64_t ipow(uint64_t b, int e) { uint64_t r = 1; while (e--) r *= b; return r; }
static VU digits(uint64_t idx, uint64_t base, int n) { VU v(n); for (int i = n - 1; i >= 0; i--) { v[i] = idx % base; idx /= base; } return v; }

// "gf:<p>:<n>:<idxA>" — one matrix over GF(p); all right-hand sides (or I and a fixed column when p^n is large), all modes
static void check_gf(uint64_t p, int n, uint64_t ia) {
	std::string kase = fmt("gf:%llu:%d:%llu", (unsigned long long)p, n, (unsigned long long)ia);
	vf::cur(kase);
	VU a = digits(ia, p, n * n);
	bool ex;
	vf::add(C_EVAL);
	if (ref_rank(a, n, n, p, &ex) < n) { vf::add(C_GF_SING); return; } // the statement is about non-singular systems
	vf::add(C_GF_NONSING); vf::add(C_DISTINCT);
	if (ex) vf::add(C_EXCH); else vf::add(C_NOEXCH);
	uint64_t nb = ipow(p, n);
	bool allb = nb <= 27;
	int nmodes = p == 2 ? 1 : 2; // GF(2): a single non-zero element, nothing to prefer
	for (int mode = 0; mode < nmodes; mode++) {
		if (allb) for (uint64_t ib = 0; ib < nb; ib++) exact_square(a, n, digits(ib, p, n), 1, p, mode, kase, false);
		else { VU b(n); for (int i = 0; i < n; i++) b[i] = (uint64_t)(i + 1) % p; b[n - 1] = p - 1; exact_square(a, n, b, 1, p, mode, kase, false); }
		VU I(n * n, 0); for (int i = 0; i < n; i++) I[i * n + i] = 1;
		exact_square(a, n, I, n, p, mode, kase, true);
		exact_alias(a, n, p, mode, kase, n <= 2 || p == 2);
	}
}

// "plu:<n>:<variant>:<perm>" over GF(2^61-1): variant 0: A = P*U (the pivot of every column is FORCED to row perm[k]),
// variant 1: A = P*L*U dense. Entries are fixed "generic" constants.
static void check_plu(int n, int variant, const std::vector<int>& perm) {
	std::string ps; for (int i = 0; i < n; i++) ps += fmt(i ? ".%d" : "%d", perm[i]);
	std::string kase = fmt("plu:%d:%d:%s", n, variant, ps.c_str());
	vf::cur(kase);
	uint64_t p = BIGP, s = 0xC20A0000ULL + (uint64_t)n * 131 + variant;
	VU U(n * n, 0), L(n * n, 0);
	for (int i = 0; i < n; i++) for (int j = 0; j < n; j++) {
		uint64_t r = splitmix(s) % (p - 1) + 1, r2 = splitmix(s) % (p - 1) + 1;
		if (j >= i) U[i * n + j] = r;
		if (j < i) L[i * n + j] = variant ? r2 : 0;
		if (j == i) L[i * n + j] = 1;
	}
	VU LU = ref_matmul(L, n, n, U, n, p), a(n * n);
	for (int k = 0; k < n; k++) for (int j = 0; j < n; j++) a[perm[k] * n + j] = LU[k * n + j]; // row perm[k] of A is the k-th pivot row
	bool ex = false; for (int i = 0; i < n; i++) if (perm[i] != i) ex = true;
	vf::add(C_EVAL); vf::add(C_DISTINCT); vf::add(C_PLU);
	if (n > 8) vf::add(C_PLU_BIG);
	if (ex) vf::add(C_EXCH); else vf::add(C_NOEXCH);
	if (ref_rank(a, n, n, p) != n) { fprintf(stderr, "c20: P*L*U construction is singular (%s)\n", kase.c_str()); _exit(2); }
	VU b(n), b2(n * 2);
	for (int i = 0; i < n; i++) { b[i] = splitmix(s) % p; b2[2 * i] = splitmix(s) % p; b2[2 * i + 1] = (uint64_t)(i + 1); }
	for (int mode = 0; mode < 3; mode++) {
		exact_square(a, n, b, 1, p, mode, kase, false);
		exact_square(a, n, b2, 2, p, mode, kase, mode == 0 && n <= 8);
		exact_alias(a, n, p, mode, kase, true);
	}
}

// least squares, exact: integer data embedded in GF(2^61-1) (so "full rank" and the normal equations mean what they mean
// over the rationals) — "lsq:<m>:<n>:<r>:<idxA>": all b over {-1,0,1}^m for m <= 3, else b = e_i and two fixed vectors
static void check_lsq(int m, int n, int rad, uint64_t ia, bool all = true) {
	std::string kase = fmt("lsq:%d:%d:%d:%llu", m, n, rad, (unsigned long long)ia);
	vf::cur(kase);
	uint64_t p = BIGP;
	VU da = digits(ia, 2 * rad + 1, m * n), a(m * n);
	for (int i = 0; i < m * n; i++) { int v = (int)da[i] - rad; a[i] = v < 0 ? p - (uint64_t)(-v) : (uint64_t)v; }
	VU at = ref_transpose(a, m, n), N = ref_matmul(at, n, m, a, n, p);
	vf::add(C_EVAL);
	if (ref_rank(N, n, n, p) < n) { vf::add(C_LS_RANKDEF); return; } // Gram determinant is a small integer: zero mod p iff rank deficient
	vf::add(C_DISTINCT);
	std::vector<VU> bs;
	if (m <= 3) for (uint64_t ib = 0; ib < ipow(3, m); ib++) { VU d = digits(ib, 3, m), b(m); for (int i = 0; i < m; i++) b[i] = d[i] == 0 ? p - 1 : d[i] - 1; bs.push_back(b); }
	else {
		for (int i = 0; i < m; i++) { VU b(m, 0); b[i] = 1; bs.push_back(b); }
		VU b(m), c(m); for (int i = 0; i < m; i++) { b[i] = (uint64_t)(i + 1); c[i] = (i & 1) ? p - 1 : (uint64_t)(2 + i); } bs.push_back(b); bs.push_back(c);
	}
	// several right-hand sides at once: the first, the last and the middle one of the list as the columns of one matrix
	int kb = 3; VU Bm(m * kb);
	{ size_t pick[3] = { 0, bs.size() / 2, bs.size() - 1 }; for (int i = 0; i < m; i++) for (int j = 0; j < kb; j++) Bm[i * kb + j] = bs[pick[j]][i]; }
	VU atB = ref_matmul(at, n, m, Bm, kb, p);
	for (int mode = 0; mode < 3; mode++) {
		for (size_t bi = 0; bi < bs.size(); bi++) {
			VU atb = ref_matmul(at, n, m, bs[bi], 1, p);
			// entry points: solve(); solve_() called directly with the non-square system (the way solveZero() reaches it);
			// pseudoinverse()*b. The two extra ones for the first pivot preference only, unless all is set (thorough tier, replays)
			for (int ep = 0; ep < ((mode == 0 || all) ? 3 : 1); ep++) {
				set_field(p, mode);
				Fp::divzero = 0;
				Matrix_<Fp> A = toM(a, m, n), B = toM(bs[bi], m, 1), X;
				if (ep == 0) X = solve(A, B);
				else if (ep == 1) { Matrix_<Fp> A2 = A.clone(), B2 = B.clone(); X = solve_(A2, B2); vf::add(W_LS_UNDERSCORE); }
				else { X = A.pseudoinverse() * B; vf::add(W_LS_PINV); }
				static const char* EPN[3] = { "solve(A,b)", "solve_(A,b)", "A.pseudoinverse()*b" };
				asan_check(std::string(EPN[ep]) + " (least squares)", kase);
				vf::add(C_LS_EXACT);
				if (X.rows() != n || X.cols() != 1) { rep.bad("lsq_shape", fmt("least-squares %s of a %dx%d system returned a %dx%d matrix", EPN[ep], m, n, X.rows(), X.cols()), kase); return; }
				VU x(n); for (int i = 0; i < n; i++) x[i] = X(i, 0).v;
				if (ref_matmul(N, n, n, x, 1, p) != atb || Fp::divzero)
					rep.bad(ep == 0 ? "lsq_exact" : ep == 1 ? "lsq_exact_solve_" : "lsq_exact_pseudoinverse", fmt("%s for the full-rank %dx%d system A = %s, b = %s does not satisfy the normal equations A^T A x = A^T b (exact arithmetic, pivot preference #%d)", EPN[ep], m, n, vstr(a, m, n, p).c_str(), vstr(bs[bi], m, 1, p).c_str(), mode), kase);
				if (ep != 1) { vf::add(W_PRESERVED); if (!same_as(A, a, m, n) || !same_as(B, bs[bi], m, 1)) rep.bad("solve_modifies_input", fmt("%s changed the caller's operands of the %dx%d system A = %s, b = %s", EPN[ep], m, n, vstr(a, m, n, p).c_str(), vstr(bs[bi], m, 1, p).c_str()), kase); }
			}
		}
		{
			set_field(p, mode);
			Fp::divzero = 0;
			Matrix_<Fp> A = toM(a, m, n), B = toM(Bm, m, kb);
			Matrix_<Fp> X = solve(A, B);
			asan_check("solve (least squares, 3 right-hand sides)", kase);
			vf::add(C_LS_EXACT); vf::add(W_LS_MULTI); vf::add(C_MULTICOL);
			if (X.rows() != n || X.cols() != kb) { rep.bad("lsq_shape", fmt("least-squares solve of a %dx%d system with %d right-hand sides returned a %dx%d matrix", m, n, kb, X.rows(), X.cols()), kase); return; }
			VU x(n * kb); for (int i = 0; i < n; i++) for (int j = 0; j < kb; j++) x[i * kb + j] = X(i, j).v;
			if (ref_matmul(N, n, n, x, kb, p) != atB || Fp::divzero)
				rep.bad("lsq_exact_multi", fmt("solve(A,B) for the full-rank %dx%d system A = %s with the %d right-hand sides B = %s does not satisfy the normal equations A^T A X = A^T B (exact arithmetic, pivot preference #%d)", m, n, vstr(a, m, n, p).c_str(), kb, vstr(Bm, m, kb, p).c_str(), mode), kase);
			vf::add(W_PRESERVED); if (!same_as(A, a, m, n) || !same_as(B, Bm, m, kb)) rep.bad("solve_modifies_input", fmt("solve(A,B) changed the caller's operands of the %dx%d system A = %s", m, n, vstr(a, m, n, p).c_str()), kase);
		}
	}
}

// ---------------------------------------------------------------- floating point
typedef std::vector<long double> VL;
static bool ld_inverse(VL a, int n, VL& inv) { // Gauss-Jordan with full pivoting
	inv.assign(n * n, 0); for (int i = 0; i < n; i++) inv[i * n + i] = 1;
	std::vector<int> colperm(n); for (int i = 0; i < n; i++) colperm[i] = i;
	for (int k = 0; k < n; k++) {
		int pi = k, pj = k; long double best = 0;
		for (int i = k; i < n; i++) for (int j = k; j < n; j++) if (fabsl(a[i * n + j]) > best) { best = fabsl(a[i * n + j]); pi = i; pj = j; }
		if (best == 0) return false;
		for (int j = 0; j < n; j++) { std::swap(a[pi * n + j], a[k * n + j]); std::swap(inv[pi * n + j], inv[k * n + j]); }
		for (int i = 0; i < n; i++) std::swap(a[i * n + pj], a[i * n + k]);
		std::swap(colperm[pj], colperm[k]);
		long double d = a[k * n + k];
		for (int j = 0; j < n; j++) { a[k * n + j] /= d; inv[k * n + j] /= d; }
		for (int i = 0; i < n; i++) if (i != k) { long double f = a[i * n + k]; if (f != 0) for (int j = 0; j < n; j++) { a[i * n + j] -= f * a[k * n + j]; inv[i * n + j] -= f * inv[k * n + j]; } }
	}
	// a is now the identity in permuted unknowns: row k of inv belongs to unknown colperm[k]
	VL r(n * n); for (int k = 0; k < n; k++) for (int j = 0; j < n; j++) r[colperm[k] * n + j] = inv[k * n + j];
	inv.swap(r);
	return true;
}
static long double norm_inf(const VL& a, int rows, int cols) { long double m = 0; for (int i = 0; i < rows; i++) { long double s = 0; for (int j = 0; j < cols; j++) s += fabsl(a[i * cols + j]); if (s > m) m = s; } return m; }
static std::string lstr(const VL& a, int rows, int cols) {
	std::string s = "[";
	for (int i = 0; i < rows; i++) { for (int j = 0; j < cols; j++) { s += fmt("%.9Lg", a[i * cols + j]); if (j + 1 < cols) s += " "; } s += (i + 1 < rows) ? "; " : "]"; }
	return s.size() > 400 ? s.substr(0, 400) + "...]" : s;
}
template <class T> static const char* tname() { return sizeof(T) == 4 ? "float" : "double"; }

// linear residual f(x) = A x - b as a functor for solveZero(): with step 1 and start 0 the difference quotients are A exactly
// (integer data), and the first Gauss-Newton step is the least-squares solution
template <class T> struct LinearResidual {
	const Matrix_<T>* A; const Matrix_<T>* b;
	Matrix_<T> operator()(const Matrix_<T>& x) const {
		Matrix_<T> f(A->rows(), 1);
		for (int i = 0; i < A->rows(); i++) { T s = -(*b)(i, 0); for (int j = 0; j < A->cols(); j++) s += (*A)(i, j) * x[j]; f(i, 0) = s; }
		return f;
	}
};

// A (m x n, values are rounded to T first so that asl and the reference see the same numbers), b (m x k).
// ep: entry point — 0 solve(A,b); 1 solve_(A,b) on copies; 2 A.pseudoinverse()*b; 3 solveZero(A x - b, 0) (k = 1, integer data).
// sc: A is multiplied by 2^sc (exact), so x by 2^-sc: conditioning and the reference are the same, absolute thresholds are not.
// Returns false when the system was not run (singular or ill-conditioned).
template <class T>
static bool float_system(VL a, int m, int n, VL b, int k, const std::string& kase, const char* fam, int ep = 0, int sc = 0) {
	const long double eps = std::numeric_limits<T>::epsilon();
	const long double sf = sc ? ldexpl(1.0L, sc) : 1.0L; // multiplication by a power of two is exact
	for (size_t i = 0; i < a.size(); i++) a[i] = (long double)(T)a[i] * sf;
	for (size_t i = 0; i < b.size(); i++) b[i] = (long double)(T)b[i];
	// the square system actually solved: A itself, or the normal equations
	VL N, rhs, scale;
	if (m == n) { N = a; rhs = b; scale.assign(k, 0); for (int j = 0; j < k; j++) for (int i = 0; i < n; i++) scale[j] = std::max(scale[j], fabsl(b[i * k + j])); }
	else {
		N.assign(n * n, 0); rhs.assign(n * k, 0); scale.assign(k, 0);
		for (int i = 0; i < n; i++) for (int j = 0; j < n; j++) for (int t = 0; t < m; t++) N[i * n + j] += a[t * n + i] * a[t * n + j];
		for (int j = 0; j < k; j++) for (int i = 0; i < n; i++) { long double s = 0, sa = 0; for (int t = 0; t < m; t++) { s += a[t * n + i] * b[t * k + j]; sa += fabsl(a[t * n + i] * b[t * k + j]); } rhs[i * k + j] = s; scale[j] = std::max(scale[j], sa); }
	}
	VL inv;
	if (!ld_inverse(N, n, inv)) return false;
	long double kappa = norm_inf(N, n, n) * norm_inf(inv, n, n);
	vf::add(C_EVAL);
	if (!(kappa * eps < 1.0L / 64)) { vf::add(C_ILL); return false; } // not "well-conditioned" for this type
	Matrix_<T> A(m, n), B(m, k);
	for (int i = 0; i < m; i++) { for (int j = 0; j < n; j++) A(i, j) = (T)a[i * n + j]; for (int j = 0; j < k; j++) B(i, j) = (T)b[i * k + j]; }
	static const char* EPN[4] = { "solve", "solve_", "pseudoinverse()*b", "solveZero (linear residual, step 1, start 0)" };
	Matrix_<T> X;
	if (ep == 0) X = solve(A, B);
	else if (ep == 1) { Matrix_<T> A2 = A.clone(), B2 = B.clone(); X = solve_(A2, B2); }
	else if (ep == 2) X = A.pseudoinverse() * B;
	else { LinearResidual<T> f = { &A, &B }; X = solveZero(f, Matrix_<T>(n, 1, T(0)), SolveParams(15, 1e-6, 1.0)); vf::add(W_SOLVEZERO); }
	asan_check(std::string(EPN[ep]) + " (floating point)", kase);
	vf::add(C_FLT); if (m != n) vf::add(C_FLT_LS);
	if (k > 1) vf::add(C_MULTICOL_F);
	if (sc) vf::add(W_SCALED);
	if (X.rows() != n || X.cols() != k) { rep.bad("solve_shape", fmt("%s %s of a %dx%d system returned a %dx%d matrix", tname<T>(), EPN[ep], m, n, X.rows(), X.cols()), kase); return true; }
	long double worst = 0;
	for (int j = 0; j < k; j++) {
		long double r = 0;
		for (int i = 0; i < n; i++) { long double s = -rhs[i * k + j]; for (int t = 0; t < n; t++) s += N[i * n + t] * (long double)X(t, j); if (!(fabsl(s) <= r)) r = (s != s) ? INFINITY : fabsl(s); }
		long double ratio = scale[j] > 0 ? r / (eps * kappa * scale[j]) : (r == 0 ? 0 : INFINITY);
		if (ratio > worst) worst = ratio;
	}
	if (!(worst <= C_RESID))
		rep.bad(std::string(m == n ? "solve_residual_" : "lsq_residual_") + tname<T>() + (ep == 0 ? "" : ep == 1 ? "_solve_" : ep == 2 ? "_pseudoinverse" : "_solvezero"), fmt("%s %s of the %dx%d system (%s%s): residual = %.2Lf * eps * kappa * |b| (kappa_inf = %.4Lg); A = %s, b = %s", tname<T>(), m == n ? EPN[ep] : (std::string("least-squares ") + EPN[ep] + " (normal equations)").c_str(), m, n, fam, sc ? fmt(", A scaled by 2^%d", sc).c_str() : "", worst, kappa, lstr(a, m, n).c_str(), lstr(b, m, k).c_str()), kase);
	if (ep == 0 || ep == 2) { // the caller's operands are read back
		bool same = A.rows() == m && A.cols() == n && B.rows() == m && B.cols() == k;
		for (int i = 0; i < m && same; i++) { for (int j = 0; j < n; j++) if (!(A(i, j) == (T)a[i * n + j])) same = false; for (int j = 0; j < k; j++) if (!(B(i, j) == (T)b[i * k + j])) same = false; }
		vf::add(W_PRESERVED);
		if (!same) rep.bad("solve_modifies_input", fmt("%s %s of the %dx%d system with %d right-hand side(s) changed the caller's A or b; A = %s, b = %s", tname<T>(), EPN[ep], m, n, k, lstr(a, m, n).c_str(), lstr(b, m, k).c_str()), kase);
	}
	std::string nm = fmt("resid_over_eps_kappa.%s%s.%s", fam, ep == 0 ? "" : ep == 1 ? ".solve_" : ep == 2 ? ".pinv" : ".solvezero", tname<T>());
	mx.see_lazy(nm.c_str(), worst, [&] { return kase; });
	return true;
}

// does plain elimination in natural order meet a pivot that is not the largest of its column? (row exchange by partial pivoting)
static bool ld_needs_exchange(VL a, int n) {
	for (int k = 0; k < n - 1; k++) {
		for (int i = k + 1; i < n; i++) if (fabsl(a[i * n + k]) > fabsl(a[k * n + k])) return true;
		if (a[k * n + k] == 0) return false;
		for (int i = k + 1; i < n; i++) { long double f = a[i * n + k] / a[k * n + k]; for (int j = k; j < n; j++) a[i * n + j] -= f * a[k * n + j]; }
	}
	return false;
}

// "fgrid:<n>:<base>:<off>:<idx>[:<s>]" all integer matrices of a grid; b = (1,2,..)^T and b = I; s = 1: A scaled by 2^+-40 (float 2^+-20)
// instead of unscaled
static void check_fgrid(int n, int base, int off, uint64_t idx, int what = 15, int scaled = 0) {
	std::string kase = fmt(scaled ? "fgrid:%d:%d:%d:%llu:1" : "fgrid:%d:%d:%d:%llu", n, base, off, (unsigned long long)idx);
	vf::cur(kase);
	VU d = digits(idx, base, n * n);
	VL a(n * n); for (int i = 0; i < n * n; i++) a[i] = (long double)((int)d[i] - off);
	// integer determinant: exact singularity test
	int64_t mi[16], adj[16]; for (int i = 0; i < n * n; i++) mi[i] = (int)d[i] - off;
	int64_t det = n == 3 ? ref_adj3<int64_t>(mi, adj) : ref_adj4<int64_t>(mi, adj);
	if (det == 0) { vf::add(C_EVAL); return; }
	if (!scaled) vf::add(C_DISTINCT);
	if (ld_needs_exchange(a, n)) vf::add(C_FLT_EXCH);
	VL b(n), I(n * n, 0); for (int i = 0; i < n; i++) { b[i] = i + 1; I[i * n + i] = 1; }
	const char* fam = n == 3 ? "grid3" : "grid4";
	const int sgs[2] = { scaled ? -1 : 0, 1 };
	for (int q = 0; q < (scaled ? 2 : 1); q++) {
		int sg = sgs[q];
		if (what & 1) float_system<float>(a, n, n, b, 1, kase, fam, 0, 20 * sg);
		if (what & 2) float_system<double>(a, n, n, b, 1, kase, fam, 0, 40 * sg);
		if (what & 4) float_system<float>(a, n, n, I, n, kase, fam, 0, 20 * sg);
		if (what & 8) float_system<double>(a, n, n, I, n, kase, fam, 0, 40 * sg);
	}
}

// "flsq:<m>:<n>:<r>:<idx>" — floating-point least squares on ALL integer m x n matrices over {-r..r} of full rank, two right-hand sides at once,
// through every entry point: solve(), solve_(), pseudoinverse()*b, and solveZero() on the linear residual (first column only)
static void check_flsq(int m, int n, int rad, uint64_t idx) {
	std::string kase = fmt("flsq:%d:%d:%d:%llu", m, n, rad, (unsigned long long)idx);
	vf::cur(kase);
	VU d = digits(idx, 2 * rad + 1, m * n);
	VL a(m * n); for (int i = 0; i < m * n; i++) a[i] = (long double)((int)d[i] - rad);
	VL B(m * 2), b(m);
	for (int i = 0; i < m; i++) { B[i * 2] = b[i] = i + 1; B[i * 2 + 1] = (i & 1) ? -1 : 2 + i; }
	bool ran = false;
	for (int ep = 0; ep < (m == n ? 2 : 3); ep++) { // pseudoinverse() squares the condition number: over-determined systems only
		bool r1 = float_system<float>(a, m, n, B, 2, kase, "lsqgrid", ep), r2 = float_system<double>(a, m, n, B, 2, kase, "lsqgrid", ep);
		if (r1) vf::add(W_FLS_ENTRY[ep]); if (r2) vf::add(W_FLS_ENTRY[ep]);
		ran = ran || r1 || r2;
		if (!r1 && !r2) break; // rank deficient
	}
	if (!ran) return;
	vf::add(C_DISTINCT); vf::add(W_FLS_GRID);
	if (float_system<float>(a, m, n, b, 1, kase, "lsqgrid", 3)) vf::add(W_FLS_ENTRY[3]);
	if (float_system<double>(a, m, n, b, 1, kase, "lsqgrid", 3)) vf::add(W_FLS_ENTRY[3]);
}

// structured families up to 12x12
static const char* FAMS[] = { "tridiag", "toeplitz", "permdom", "lu", "vandermonde", "lsq" };
static void check_family(int fam, int n, int var, int scaled = 0) {
	std::string kase = fmt(scaled ? "fam:%d:%d:%d:1" : "fam:%d:%d:%d", fam, n, var);
	vf::cur(kase);
	int m = n;
	VL a;
	if (fam == 0) { a.assign(n * n, 0); for (int i = 0; i < n; i++) { a[i * n + i] = 2; if (i) a[i * n + i - 1] = -1; if (i + 1 < n) a[i * n + i + 1] = -1; } if (var) for (int i = 0; i < n; i++) a[i * n + i] += 0.1L * var; }
	else if (fam == 1) { a.assign(n * n, 0); for (int i = 0; i < n; i++) for (int j = 0; j < n; j++) a[i * n + j] = 1.0L / (1 + abs(i - j) * (1 + var)); }
	else if (fam == 2) { // rows cyclically shifted by var (var == n: reversed): the dominant entry of column k sits in row sigma(k)
		a.assign(n * n, 0);
		for (int i = 0; i < n; i++) { int r = var == n ? n - 1 - i : (i + var) % n; for (int j = 0; j < n; j++) a[r * n + j] = ((7 * i + 3 * j) % 11 - 5) / 4.0L + (i == j ? 12 : 0); }
	}
	else if (fam == 3) { // P*L*U, |l_ij| <= 1/2, all permutations of n rows by Lehmer index var
		std::vector<int> rest(n), perm(n); for (int i = 0; i < n; i++) rest[i] = i;
		uint64_t f = 1; for (int i = 2; i <= n; i++) f *= i;
		uint64_t x = var; for (int i = 0; i < n; i++) { f /= (n - i); int q = (int)(x / f); x %= f; perm[i] = rest[q]; rest.erase(rest.begin() + q); }
		VL L(n * n, 0), U(n * n, 0), LU(n * n, 0);
		for (int i = 0; i < n; i++) for (int j = 0; j < n; j++) { if (j < i) L[i * n + j] = ((3 * i + 5 * j) % 9 - 4) / 8.0L; if (j == i) { L[i * n + j] = 1; U[i * n + j] = 2 + (i % 3); } if (j > i) U[i * n + j] = ((5 * i + 2 * j) % 7 - 3) / 2.0L; }
		for (int i = 0; i < n; i++) for (int j = 0; j < n; j++) for (int t = 0; t < n; t++) LU[i * n + j] += L[i * n + t] * U[t * n + j];
		a.assign(n * n, 0); for (int k = 0; k < n; k++) for (int j = 0; j < n; j++) a[perm[k] * n + j] = LU[k * n + j];
	}
	else if (fam == 4) { a.assign(n * n, 0); for (int i = 0; i < n; i++) { long double x = (i + 1.0L) / n * (var ? -1 : 1), pw = 1; for (int j = 0; j < n; j++) { a[i * n + j] = pw; pw *= x; } } }
	else { // over-determined: m = n + 1 + var rows
		m = n + 1 + var; a.assign(m * n, 0);
		for (int i = 0; i < m; i++) for (int j = 0; j < n; j++) a[i * n + j] = ((5 * i + 3 * j) % 7 - 3) / (var == 2 ? 3.0L : 1.0L) + (i % n == j ? 4 : 0);
	}
	if (!scaled) vf::add(C_DISTINCT);
	if (m == n && ld_needs_exchange(a, n)) vf::add(C_FLT_EXCH);
	VL b(m), B(m * 3, 0);
	for (int i = 0; i < m; i++) { b[i] = 1 + (i % 3) * 0.5L; B[i * 3] = i == 0; B[i * 3 + 1] = (i & 1) ? -1.25L : 0.7L; B[i * 3 + 2] = i == m - 1; }
	const int sgs[2] = { scaled ? -1 : 0, 1 };
	for (int q = 0; q < (scaled ? 2 : 1); q++) {
		int sf = 20 * sgs[q], sd = 40 * sgs[q];
		if (m != n) { sf /= 2; sd /= 2; } // the normal equations square the scale
		float_system<float>(a, m, n, b, 1, kase, FAMS[fam], 0, sf); float_system<double>(a, m, n, b, 1, kase, FAMS[fam], 0, sd);
		float_system<float>(a, m, n, B, 3, kase, FAMS[fam], 0, sf); float_system<double>(a, m, n, B, 3, kase, FAMS[fam], 0, sd);
		if (m != n) // the other entry points of the non-square path
			for (int ep = 1; ep < 3; ep++) { float_system<float>(a, m, n, B, 3, kase, FAMS[fam], ep, sf); float_system<double>(a, m, n, B, 3, kase, FAMS[fam], ep, sd); }
	}
}

static void run_case(const std::string& k) {
	unsigned long long p = 0, ia = 0; int n = 0, m = 0, v = 0, r = 0, base = 0, off = 0, sc = 0; char buf[400];
	if (sscanf(k.c_str(), "gf:%llu:%d:%llu", &p, &n, &ia) == 3) check_gf(p, n, ia);
	else if (sscanf(k.c_str(), "plu:%d:%d:%399s", &n, &v, buf) == 3) { std::vector<int> perm; for (char* q = strtok(buf, "."); q; q = strtok(0, ".")) perm.push_back(atoi(q)); if ((int)perm.size() == n) check_plu(n, v, perm); }
	else if (sscanf(k.c_str(), "lsq:%d:%d:%d:%llu", &m, &n, &r, &ia) == 4) check_lsq(m, n, r, ia, true);
	else if (sscanf(k.c_str(), "flsq:%d:%d:%d:%llu", &m, &n, &r, &ia) == 4) check_flsq(m, n, r, ia);
	else if (sscanf(k.c_str(), "fgrid:%d:%d:%d:%llu:%d", &n, &base, &off, &ia, &sc) >= 4) check_fgrid(n, base, off, ia, 15, sc);
	else if (sscanf(k.c_str(), "fam:%d:%d:%d:%d", &m, &n, &v, &sc) >= 3) check_family(m, n, v, sc);
	mx.flush();
}

int main(int argc, char** argv) {
	vf::init(argc, argv, "C20", "c20_solve");
	C_EVAL = vf::counter("evaluations"); C_DISTINCT = vf::counter("distinct_nontrivial");
	C_GF_NONSING = vf::counter("w.gf_nonsingular_systems"); C_GF_SING = vf::counter("gf_singular_skipped");
	C_EXCH = vf::counter("w.exact_row_exchange_needed"); C_NOEXCH = vf::counter("w.exact_no_exchange_needed");
	C_MULTICOL = vf::counter("w.multi_column_rhs_exact"); C_MULTICOL_F = vf::counter("w.multi_column_rhs_float"); C_INVERSE = vf::counter("w.matrix_inverse_calls");
	C_LS_EXACT = vf::counter("w.lsq_exact_solves"); C_LS_RANKDEF = vf::counter("lsq_rank_deficient_skipped");
	C_PLU = vf::counter("w.plu_systems"); C_PLU_BIG = vf::counter("w.plu_systems_9_to_12");
	C_FLT = vf::counter("w.float_double_solves"); C_FLT_EXCH = vf::counter("w.float_partial_pivoting_exchanges"); C_FLT_LS = vf::counter("w.float_double_lsq_solves"); C_ILL = vf::counter("float_ill_conditioned_skipped");
	C_MODE[0] = vf::counter("w.pivot_preference_largest"); C_MODE[1] = vf::counter("w.pivot_preference_smallest"); C_MODE[2] = vf::counter("w.pivot_preference_scrambled");
	W_PRESERVED = vf::counter("w.operands_read_back_after_solve"); W_ALIAS = vf::counter("w.solve_rhs_taken_from_matrix");
	W_LS_UNDERSCORE = vf::counter("w.lsq_exact_solve_underscore_nonsquare"); W_LS_PINV = vf::counter("w.lsq_exact_pseudoinverse"); W_LS_MULTI = vf::counter("w.lsq_exact_multi_column");
	W_SCALED = vf::counter("w.float_scaled_systems"); W_FLS_GRID = vf::counter("w.float_lsq_grid_matrices"); W_SOLVEZERO = vf::counter("w.solvezero_linear_calls");
	W_FLS_ENTRY[0] = vf::counter("w.float_grid_entry_solve"); W_FLS_ENTRY[1] = vf::counter("w.float_grid_entry_solve_underscore"); W_FLS_ENTRY[2] = vf::counter("w.float_grid_entry_pseudoinverse"); W_FLS_ENTRY[3] = vf::counter("w.float_grid_entry_solvezero");
	rep.c_supp = vf::counter("violations_not_listed_repeats");
	if (vf::opt.replay) { vf::parallel(1, [&](uint64_t) { run_case(vf::opt.kase); }); return vf::finish(); }
	bool T = vf::opt.thorough();
	Sections sec;
#define SECTION_DONE(name) sec.done(name)

	// ---- exact: all systems over small fields
	struct G { uint64_t p; int n; bool thorough_only; } gs[] = { { 2, 1, false }, { 2, 2, false }, { 3, 2, false }, { 5, 2, false }, { 7, 2, false }, { 2, 3, false }, { 3, 3, false }, { 5, 3, false }, { 2, 4, false }, { 2, 5, true } };
	for (size_t g = 0; g < sizeof gs / sizeof *gs; g++) {
		if (gs[g].thorough_only && !T) continue;
		uint64_t p = gs[g].p; int n = gs[g].n;
		uint64_t total = ipow(p, n * n), blk = total > 4096 ? 1024 : 1, nblk = (total + blk - 1) / blk;
		bool capped = false;
		vf::parallel(nblk, [&](uint64_t b) {
			if (vf::deadline_passed()) { if (!capped) { capped = true; vf::cap_hit(fmt("deadline inside GF(%llu) %dx%d", (unsigned long long)p, n, n)); } return; }
			for (uint64_t i = b * blk; i < (b + 1) * blk && i < total; i++) check_gf(p, n, i);
		}, 4);
	}
	SECTION_DONE("gf_all_systems");
	// ---- exact: P*U / P*L*U over GF(2^61-1), n = 1..12
	struct Job { int n, v; std::vector<int> perm; };
	std::vector<Job> jobs;
	int nall = T ? 8 : 6;
	for (int n = 1; n <= 12; n++) {
		std::vector<std::vector<int> > perms;
		std::vector<int> id(n); for (int i = 0; i < n; i++) id[i] = i;
		if (n <= nall) { std::vector<int> q = id; do perms.push_back(q); while (std::next_permutation(q.begin(), q.end())); }
		else {
			perms.push_back(id);
			for (int i = 0; i < n; i++) for (int j = i + 1; j < n; j++) { std::vector<int> q = id; std::swap(q[i], q[j]); perms.push_back(q); }
			for (int s = 1; s < n; s++) { std::vector<int> q(n); for (int i = 0; i < n; i++) q[i] = (i + s) % n; perms.push_back(q); }
			{ std::vector<int> q(n); for (int i = 0; i < n; i++) q[i] = n - 1 - i; perms.push_back(q); }
			{ std::vector<int> q(n); for (int i = 0; i < n; i++) q[i] = (i % 2 == 0) ? std::min(i + 1, n - 1) : i - 1; if (n % 2) q[n - 1] = n - 1; perms.push_back(q); } // adjacent swaps
		}
		for (size_t k = 0; k < perms.size(); k++) for (int v = 0; v < 2; v++) { Job j = { n, v, perms[k] }; jobs.push_back(j); }
	}
	vf::parallel(jobs.size(), [&](uint64_t i) { check_plu(jobs[i].n, jobs[i].v, jobs[i].perm); }, 16);
	SECTION_DONE("plu");
	// ---- exact least squares
	struct LS { int m, n, rad; bool thorough_only; } ls[] = { { 2, 1, 2, false }, { 3, 1, 2, false }, { 3, 2, 1, false }, { 4, 2, 1, false }, { 3, 2, 2, false }, { 5, 2, 1, false }, { 4, 3, 1, true }, { 4, 2, 2, true } };
	for (size_t g = 0; g < sizeof ls / sizeof *ls; g++) {
		if (ls[g].thorough_only && !T) continue;
		int m = ls[g].m, n = ls[g].n, rad = ls[g].rad;
		uint64_t total = ipow(2 * rad + 1, m * n), blk = total > 4096 ? 256 : 1, nblk = (total + blk - 1) / blk;
		vf::parallel(nblk, [&](uint64_t b) { if (vf::deadline_passed()) { vf::cap_hit("deadline inside exact least squares"); return; } for (uint64_t i = b * blk; i < (b + 1) * blk && i < total; i++) check_lsq(m, n, rad, i, T); }, 4);
	}
	SECTION_DONE("lsq_exact");
	// ---- floating point: integer grids
	vf::parallel(3125, [&](uint64_t b) { for (uint64_t i = b * 625; i < (b + 1) * 625; i++) check_fgrid(3, 5, 2, i); mx.flush(); mx.m.clear(); }, 4);
	vf::parallel(256, [&](uint64_t b) { for (uint64_t i = b * 256; i < (b + 1) * 256; i++) check_fgrid(4, 2, 0, i); mx.flush(); mx.m.clear(); }, 2);
	SECTION_DONE("float_grids");
	// the same systems with A scaled by 2^-40 and 2^+40 (float 2^-20, 2^+20): 3x3 over {-1,0,1} and 4x4 over {0,1}; thorough: 3x3 over {-2..2}
	vf::parallel(243, [&](uint64_t b) { for (uint64_t i = b * 81; i < (b + 1) * 81; i++) check_fgrid(3, 3, 1, i, 15, 1); mx.flush(); mx.m.clear(); }, 2);
	vf::parallel(256, [&](uint64_t b) { for (uint64_t i = b * 256; i < (b + 1) * 256; i++) check_fgrid(4, 2, 0, i, 15, 1); mx.flush(); mx.m.clear(); }, 2);
	if (T) vf::parallel(3125, [&](uint64_t b) { for (uint64_t i = b * 625; i < (b + 1) * 625; i++) check_fgrid(3, 5, 2, i, 15, 1); mx.flush(); mx.m.clear(); }, 4);
	SECTION_DONE("float_grids_scaled");
	// floating-point least squares / square systems through all entry points on complete integer grids
	struct FL { int m, n, rad; bool thorough_only; } fl[] = { { 2, 1, 2, false }, { 3, 1, 2, false }, { 3, 2, 1, false }, { 3, 2, 2, false }, { 4, 2, 1, false }, { 2, 2, 2, false }, { 3, 3, 1, false }, { 5, 2, 1, true }, { 4, 3, 1, true }, { 4, 2, 2, true } };
	for (size_t g = 0; g < sizeof fl / sizeof *fl; g++) {
		if (fl[g].thorough_only && !T) continue;
		int m = fl[g].m, n = fl[g].n, rad = fl[g].rad;
		uint64_t total = ipow(2 * rad + 1, m * n), blk = total > 4096 ? 256 : 1, nblk = (total + blk - 1) / blk;
		vf::parallel(nblk, [&](uint64_t b) { if (vf::deadline_passed()) { vf::cap_hit("deadline inside the floating-point least-squares grids"); return; } for (uint64_t i = b * blk; i < (b + 1) * blk && i < total; i++) check_flsq(m, n, rad, i); mx.flush(); mx.m.clear(); }, 4);
	}
	SECTION_DONE("float_lsq_grids");
	if (T) { // all 4x4 over {-1,0,1}: double, right-hand side I (4 columns)
		bool capped = false;
		vf::parallel(6561, [&](uint64_t b) {
			if (vf::deadline_passed()) { if (!capped) { capped = true; vf::cap_hit("deadline inside the float 3^16 grid"); } return; }
			for (uint64_t i = b * 6561; i < (b + 1) * 6561; i++) check_fgrid(4, 3, 1, i, 8);
			mx.flush(); mx.m.clear();
		}, 8);
	}
	SECTION_DONE("float_grid_4x4_all");
	// ---- floating point: families up to 12x12
	struct FJ { int fam, n, var; };
	std::vector<FJ> fj;
	for (int n = 1; n <= 12; n++) {
		for (int v = 0; v < 3; v++) { FJ j = { 0, n, v }; fj.push_back(j); FJ k = { 1, n, v }; fj.push_back(k); }
		for (int v = 0; v <= n; v++) { FJ j = { 2, n, v }; fj.push_back(j); }
		if (n <= (T ? 7 : 6)) { uint64_t f = 1; for (int i = 2; i <= n; i++) f *= i; for (uint64_t v = 0; v < f; v++) { FJ j = { 3, n, (int)v }; fj.push_back(j); } }
		if (n <= 7) for (int v = 0; v < 2; v++) { FJ j = { 4, n, v }; fj.push_back(j); }
		for (int v = 0; v < 3; v++) { FJ j = { 5, n, v }; fj.push_back(j); }
	}
	vf::parallel(fj.size(), [&](uint64_t i) { check_family(fj[i].fam, fj[i].n, fj[i].var); check_family(fj[i].fam, fj[i].n, fj[i].var, 1); mx.flush(); mx.m.clear(); }, 8);
	// too many systems dropped as ill-conditioned would hollow out the floating-point clause without any other sign
	if (vf::get(C_ILL) * 20 > vf::get(C_FLT)) vf::cap_hit(fmt("%llu floating-point systems skipped as ill-conditioned (more than 5%% of those solved)", (unsigned long long)vf::get(C_ILL)));

	SECTION_DONE("float_families");
	mx.collect(); mx.publish();
	vf::setinfo("residual_bound", fmt("\"||A x - b||_inf <= %.0f * eps * kappa_inf(A) * ||b||_inf (normal equations: A^T A, |A^T||b|)\"", C_RESID));
	vf::sample("gf:5:3:<idx> = every 3x3 system over GF(5) (b = I and one column, two pivot preferences); gf:2:4:<idx> x all 16 right-hand sides");
	vf::sample("plu:12:1:11.10.9.8.7.6.5.4.3.2.1.0 = 12x12 P*L*U over GF(2^61-1) whose pivot rows are forced in reverse order, three pivot preferences, 1 and 2 right-hand sides");
	vf::sample("lsq:4:2:1:<idx> = all 4x2 integer matrices over {-1,0,1} of full rank: solve() must satisfy A^T A x = A^T b exactly");
	vf::sample("flsq:4:2:1:<idx> = the same 4x2 integer matrices in float and double: solve(), solve_(), pseudoinverse()*b with two right-hand sides, solveZero() on A x - b; fgrid:3:3:1:<idx>:1 = 3x3 systems scaled by 2^-40 and 2^+40");
	vf::sample("fam:2:12:5 = 12x12 diagonally dominant matrix with rows rotated by 5 (float and double), residual <= 8 eps kappa |b|");
	return vf::finish();
}
