// C02 — Map / Dic / HashMap / HashDic / Set as finite maps and sets: explicit-state BFS over operation
// histories on the real containers against std::map / std::set.
#include <asl/Map.h>
#include <asl/HashMap.h>
#include <asl/Set.h>
#include <asl/String.h>
#include <map>
#include <set>
#include "vf.h"
#include "aslx.h"
using namespace asl;
using vf::fmt;

static int W_REHASH, W_RM_HEAD, W_RM_MID, W_RM_TAIL, W_RM_ABSENT, W_EQ_DIFF_ORDER, W_EQ_DIFF_SIZE, W_COLLIDE, W_MAP_BRANCH[6], W_AUTOINSERT, W_OVERWRITE;

// ---- key traits
template <class K> struct KT;
template <> struct KT<int> {
	static int nkeys() { return 5; }
	static int key(int i) { static const int k[] = { 1, 2, 3, 257, 513 }; return k[i]; }
	static int okey(int i) { return i + 1; } // ordered-map keys 1..5
	static std::string str(int k) { return fmt("%d", k); }
	static const char* name() { return "int"; }
};
template <> struct KT<String> {
	static int nkeys() { return 5; }
	// "Ab" and "BA" have equal hash (33*'A'+'b' == 33*'B'+'A'); the long ones share a 20-char prefix
	static String key(int i) { static const char* k[] = { "Ab", "BA", "common-prefix-0123456-x", "common-prefix-0123456-y", "" }; return k[i]; }
	static String okey(int i) { static const char* k[] = { "common-prefix-0123456-b", "common-prefix-0123456-a", "common-prefix-0123456", "common-prefix-0123456-ab", "d" }; return k[i]; }
	static std::string str(const String& k) { return vfx::S(k); }
	static const char* name() { return "String"; }
};
static std::string ks(int k) { return fmt("%d", k); }
static std::string ks(const String& k) { return vfx::S(k); }

// =============================================================== ordered Map
template <class K>
struct MapSys {
	enum Kind { SET, INDEX_ASSIGN, INDEX_READ, REMOVE, CLEAR, CLONE_TO, ADD_FROM, NEWEMPTY };
	struct O { Kind k; int m, key, v; };
	std::vector<O> ops;
	Map<K, int>* im[2];
	std::map<std::string, int>* mm[2];
	std::vector<K> keys; std::vector<std::string> kstr;
	MapSys() {
		im[0] = im[1] = 0; mm[0] = mm[1] = 0;
		for (int i = 0; i < KT<K>::nkeys(); i++) { keys.push_back(KT<K>::okey(i)); kstr.push_back(ks(KT<K>::okey(i))); }
		for (int m = 0; m < 2; m++) {
			for (int k = 0; k < (int)keys.size(); k++) { add(SET, m, k, 2); add(INDEX_ASSIGN, m, k, 1); add(INDEX_READ, m, k); add(REMOVE, m, k); }
			add(CLEAR, m); add(CLONE_TO, m); add(ADD_FROM, m);
		}
	}
	void add(Kind k, int m, int key = 0, int v = 0) { O o = { k, m, key, v }; ops.push_back(o); }
	int nops() { return (int)ops.size(); }
	void reset() { for (int i = 0; i < 2; i++) { delete im[i]; delete mm[i]; im[i] = new Map<K, int>(); mm[i] = new std::map<std::string, int>(); } }
	bool enabled(int op) { const O& o = ops[op]; if (o.k == CLEAR) return !mm[o.m]->empty(); if (o.k == ADD_FROM) return !mm[1 - o.m]->empty(); return true; }
	const char* predict(int) { return 0; }
	std::string opname(int op) {
		const O& o = ops[op];
		switch (o.k) {
		case SET: return fmt("m%d.set(%s, %d)", o.m, kstr[o.key].c_str(), o.v);
		case INDEX_ASSIGN: return fmt("m%d[%s] = %d", o.m, kstr[o.key].c_str(), o.v);
		case INDEX_READ: return fmt("read m%d[%s] (non-const)", o.m, kstr[o.key].c_str());
		case REMOVE: return fmt("m%d.remove(%s)", o.m, kstr[o.key].c_str());
		case CLEAR: return fmt("m%d.clear()", o.m);
		case CLONE_TO: return fmt("m%d = m%d.clone()", 1 - o.m, o.m);
		case ADD_FROM: return fmt("m%d.add(m%d)", o.m, 1 - o.m);
		default: return "?";
		}
	}
	// classify which branch of the hand-written binary search a lookup takes (witness only)
	void classify(int m, const std::string& key) {
		size_t n = mm[m]->size();
		if (n == 0) vf::add(W_MAP_BRANCH[0]);
		else if (mm[m]->count(key)) vf::add(W_MAP_BRANCH[1]);
		else if (key < mm[m]->begin()->first) vf::add(W_MAP_BRANCH[2]);
		else if (key > mm[m]->rbegin()->first) vf::add(W_MAP_BRANCH[3]);
		else vf::add(W_MAP_BRANCH[4]);
		if (n <= 3) vf::add(W_MAP_BRANCH[5]);
	}
	bool apply(int op, std::string& err) {
		const O& o = ops[op];
		Map<K, int>& I = *im[o.m]; std::map<std::string, int>& M = *mm[o.m];
		if (o.k <= REMOVE) classify(o.m, kstr[o.key]);
		switch (o.k) {
		case SET: if (M.count(kstr[o.key])) vf::add(W_OVERWRITE); I.set(keys[o.key], o.v); M[kstr[o.key]] = o.v; break;
		case INDEX_ASSIGN: I[keys[o.key]] = o.v; M[kstr[o.key]] = o.v; break;
		case INDEX_READ: { if (!M.count(kstr[o.key])) vf::add(W_AUTOINSERT); int r = I[keys[o.key]]; int e = M[kstr[o.key]]; if (r != e) { err = fmt("m[%s] = %d, reference %d", kstr[o.key].c_str(), r, e); return false; } break; }
		case REMOVE: { bool r = I.remove(keys[o.key]); bool e = M.erase(kstr[o.key]) != 0; if (r != e) { err = "remove() return value"; return false; } break; }
		case CLEAR: I.clear(); M.clear(); break;
		case CLONE_TO: *im[1 - o.m] = I.clone(); *mm[1 - o.m] = M; break;
		case ADD_FROM: I.add(*im[1 - o.m]); for (std::map<std::string, int>::iterator it = mm[1 - o.m]->begin(); it != mm[1 - o.m]->end(); ++it) M[it->first] = it->second; break;
		default: break;
		}
		return observe(err);
	}
	bool observe(std::string& err) {
		for (int m = 0; m < 2; m++) {
			const Map<K, int>& I = *im[m]; const std::map<std::string, int>& M = *mm[m];
			if (I.length() != (int)M.size()) { err = fmt("m%d.length() = %d, reference %d", m, I.length(), (int)M.size()); return false; }
			for (int k = 0; k < (int)keys.size(); k++) {
				std::map<std::string, int>::const_iterator it = M.find(kstr[k]);
				bool e = it != M.end();
				if (I.has(keys[k]) != e) { err = fmt("m%d.has(%s) = %d, reference %d", m, kstr[k].c_str(), (int)I.has(keys[k]), (int)e); return false; }
				const int* p = I.find(keys[k]);
				if ((p != 0) != e || (p && *p != it->second)) { err = fmt("m%d.find(%s)", m, kstr[k].c_str()); return false; }
				if (I.get(keys[k], -7) != (e ? it->second : -7)) { err = fmt("m%d.get(%s)", m, kstr[k].c_str()); return false; }
				if (I[keys[k]] != (e ? it->second : 0)) { err = fmt("const m%d[%s]", m, kstr[k].c_str()); return false; }
			}
			// enumeration: every entry exactly once, ascending key order (Map keys compare like the byte strings / ints)
			std::vector<std::pair<std::string, int> > got;
			for (typename Map<K, int>::Enumerator e = I.all(); e; ++e) got.push_back(std::make_pair(ks(~e), *e));
			std::vector<std::pair<std::string, int> > exp;
			if (sizeof(K) == sizeof(int)) { // numeric order for int keys
				std::map<int, int> num; for (std::map<std::string, int>::const_iterator it = M.begin(); it != M.end(); ++it) num[atoi(it->first.c_str())] = it->second;
				for (std::map<int, int>::iterator it = num.begin(); it != num.end(); ++it) exp.push_back(std::make_pair(fmt("%d", it->first), it->second));
			} else for (std::map<std::string, int>::const_iterator it = M.begin(); it != M.end(); ++it) exp.push_back(*it);
			if (got != exp) { err = fmt("m%d enumeration differs from the ascending reference (%d vs %d entries)", m, (int)got.size(), (int)exp.size()); return false; }
			Array<K> kk = I.keys();
			if (kk.length() != (int)exp.size()) { err = "keys() length"; return false; }
			for (int i = 0; i < kk.length(); i++) if (ks(kk[i]) != exp[i].first) { err = "keys() order"; return false; }
		}
		bool eq = *im[0] == *im[1], meq = *mm[0] == *mm[1];
		if (eq != meq || (*im[0] != *im[1]) == meq) { err = fmt("m0 == m1 is %d, reference %d", (int)eq, (int)meq); return false; }
		return true;
	}
	std::string canon() {
		std::string s;
		for (int m = 0; m < 2; m++) {
			s += fmt("c%d:", im[m]->kv().cap());
			for (std::map<std::string, int>::iterator it = mm[m]->begin(); it != mm[m]->end(); ++it) s += it->first + "=" + char('0' + it->second) + ",";
			s += "|";
		}
		return s;
	}
};

// =============================================================== HashMap
template <class K>
struct HashSys {
	enum Kind { NEW1, NEW2, NEW4, NEWDEF, INDEX_ASSIGN, SET, INDEX_READ, REMOVE, CLEAR, CLONE_TO, FILL225 };
	struct O { Kind k; int m, key, v; };
	std::vector<O> ops;
	HashMap<K, int>* im[2];
	std::map<std::string, int>* mm[2];
	std::vector<K> keys; std::vector<std::string> kstr;
	HashSys() {
		im[0] = im[1] = 0; mm[0] = mm[1] = 0;
		for (int i = 0; i < KT<K>::nkeys(); i++) { keys.push_back(KT<K>::key(i)); kstr.push_back(ks(KT<K>::key(i))); }
		for (int m = 0; m < 2; m++) {
			add(NEW1, m); add(NEW2, m); add(NEW4, m); add(NEWDEF, m);
			for (int k = 0; k < (int)keys.size(); k++) { add(INDEX_ASSIGN, m, k, 1); add(SET, m, k, 2); add(INDEX_READ, m, k); add(REMOVE, m, k); }
			add(CLEAR, m); add(CLONE_TO, m); add(FILL225, m);
		}
	}
	void add(Kind k, int m, int key = 0, int v = 0) { O o = { k, m, key, v }; ops.push_back(o); }
	int nops() { return (int)ops.size(); }
	void reset() { for (int i = 0; i < 2; i++) { delete im[i]; delete mm[i]; im[i] = 0; mm[i] = 0; } }
	bool enabled(int op) {
		const O& o = ops[op];
		if (o.k <= NEWDEF) return !im[o.m] && (o.m == 0 || im[0]);
		if (!im[o.m]) return false;
		if (o.k == CLEAR) return !mm[o.m]->empty();
		if (o.k == CLONE_TO) return true;
		if (o.k == FILL225) return sizeof(K) == sizeof(int) && im[o.m]->a.length() == 258 && mm[o.m]->size() < 10;
		return mm[o.m]->size() < 240;
	}
	const char* predict(int) { return 0; }
	std::string opname(int op) {
		const O& o = ops[op];
		switch (o.k) {
		case NEW1: return fmt("h%d = HashMap(1)", o.m); case NEW2: return fmt("h%d = HashMap(2)", o.m); case NEW4: return fmt("h%d = HashMap(4)", o.m); case NEWDEF: return fmt("h%d = HashMap()", o.m);
		case INDEX_ASSIGN: return fmt("h%d[%s] = %d", o.m, kstr[o.key].c_str(), o.v);
		case SET: return fmt("h%d.set(%s, %d)", o.m, kstr[o.key].c_str(), o.v);
		case INDEX_READ: return fmt("read h%d[%s] (non-const)", o.m, kstr[o.key].c_str());
		case REMOVE: return fmt("h%d.remove(%s)", o.m, kstr[o.key].c_str());
		case CLEAR: return fmt("h%d.clear()", o.m);
		case CLONE_TO: return fmt("h%d = h%d.clone()", 1 - o.m, o.m);
		case FILL225: return fmt("h%d: insert keys 1000..1224", o.m);
		}
		return "?";
	}
	void chainPos(int m, const K& key) { // witness: where in its chain does the key sit
		HashMap<K, int>& I = *im[m];
		typename HashMap<K, int>::KeyValN* p = I.a[I.binOf(key)];
		int pos = 0, len = 0, at = -1;
		for (; p; p = p->next, pos++) { if (p->key == key) at = pos; len++; }
		if (at < 0) vf::add(W_RM_ABSENT); else if (at == 0 && len > 1) vf::add(W_RM_HEAD); else if (at == len - 1 && len > 1) vf::add(W_RM_TAIL); else if (len > 2) vf::add(W_RM_MID);
		if (len > 1) vf::add(W_COLLIDE);
	}
	bool apply(int op, std::string& err) {
		const O& o = ops[op];
		if (o.k <= NEWDEF) {
			im[o.m] = o.k == NEW1 ? new HashMap<K, int>(1) : o.k == NEW2 ? new HashMap<K, int>(2) : o.k == NEW4 ? new HashMap<K, int>(4) : new HashMap<K, int>();
			mm[o.m] = new std::map<std::string, int>();
			return observe(err);
		}
		HashMap<K, int>& I = *im[o.m]; std::map<std::string, int>& M = *mm[o.m];
		int tbl = I.a.length();
		switch (o.k) {
		case INDEX_ASSIGN: I[keys[o.key]] = o.v; M[kstr[o.key]] = o.v; break;
		case SET: I.set(keys[o.key], o.v); M[kstr[o.key]] = o.v; break;
		case INDEX_READ: { int r = I[keys[o.key]]; int e = M[kstr[o.key]]; if (r != e) { err = fmt("h[%s] = %d, reference %d", kstr[o.key].c_str(), r, e); return false; } break; }
		case REMOVE: chainPos(o.m, keys[o.key]); I.remove(keys[o.key]); M.erase(kstr[o.key]); break;
		case CLEAR: I.clear(); M.clear(); break;
		case CLONE_TO: { delete im[1 - o.m]; im[1 - o.m] = new HashMap<K, int>(I.clone()); delete mm[1 - o.m]; mm[1 - o.m] = new std::map<std::string, int>(M); break; }
		case FILL225: fill(o.m); break;
		default: break;
		}
		if (im[o.m]->a.length() != tbl) vf::add(W_REHASH);
		return observe(err);
	}
	void fill(int m);
	bool observe(std::string& err) {
		for (int m = 0; m < 2; m++) {
			if (!im[m]) continue;
			const HashMap<K, int>& I = *im[m]; const std::map<std::string, int>& M = *mm[m];
			if (I.length() != (int)M.size()) { err = fmt("h%d.length() = %d, reference %d", m, I.length(), (int)M.size()); return false; }
			for (int k = 0; k < (int)keys.size(); k++) {
				std::map<std::string, int>::const_iterator it = M.find(kstr[k]);
				bool e = it != M.end();
				if (I.has(keys[k]) != e) { err = fmt("h%d.has(%s) = %d, reference %d", m, kstr[k].c_str(), (int)I.has(keys[k]), (int)e); return false; }
				const int* p = I.find(keys[k]);
				if ((p != 0) != e || (p && *p != it->second)) { err = fmt("h%d.find(%s)", m, kstr[k].c_str()); return false; }
				if (I.get(keys[k], -7) != (e ? it->second : -7)) { err = fmt("h%d.get(%s)", m, kstr[k].c_str()); return false; }
				if (I[keys[k]] != (e ? it->second : 0)) { err = fmt("const h%d[%s]", m, kstr[k].c_str()); return false; }
			}
			std::map<std::string, int> got; int visits = 0;
			for (typename HashMap<K, int>::Enumerator e = I.all(); e; ++e) { got[ks(~e)] = *e; if (++visits > (int)M.size() + 2) break; }
			if (visits != (int)M.size() || got != M) { err = fmt("h%d enumeration visited %d entries (%d distinct), reference has %d", m, visits, (int)got.size(), (int)M.size()); return false; }
		}
		if (im[0] && im[1]) {
			bool eq = *im[0] == *im[1], meq = *mm[0] == *mm[1];
			if (meq && mm[0]->size() >= 2) { if (im[0]->a.length() != im[1]->a.length()) vf::add(W_EQ_DIFF_SIZE); else if (canonOne(0) != canonOne(1)) vf::add(W_EQ_DIFF_ORDER); }
			if (eq != meq || (*im[0] != *im[1]) == meq) { err = fmt("h0 == h1 is %d, reference %d", (int)eq, (int)meq); return false; }
		}
		return true;
	}
	std::string canonOne(int m) {
		if (!im[m]) return "-";
		HashMap<K, int>& I = *im[m];
		std::string s = fmt("t%d:", I.a.length());
		if (mm[m]->size() > 12) return s + fmt("n%d", (int)mm[m]->size());
		for (int b = ASL_HMAP_SKIP; b < I.a.length(); b++) {
			typename HashMap<K, int>::KeyValN* p = I.a[b];
			if (!p) continue;
			s += "[";
			for (int g = 0; p && g < 300; p = p->next, g++) s += ks(p->key) + "=" + char('0' + p->value) + ",";
			s += "]";
		}
		return s;
	}
	std::string canon() { return canonOne(0) + "|" + canonOne(1); }
};
template <> void HashSys<int>::fill(int m) { for (int k = 1000; k < 1225; k++) { (*im[m])[k] = 1; (*mm[m])[fmt("%d", k)] = 1; } }
template <> void HashSys<String>::fill(int) {}

// =============================================================== Set
struct SetSys {
	enum Kind { NEW1, NEW4, NEWDEF, ADD, REMOVE, MERGE, CLONE_TO, FROM_UNION, FROM_INTER, FROM_DIFF, TO_UNION, TO_INTER, TO_DIFF };
	struct O { Kind k; int m, key; };
	std::vector<O> ops;
	Set<int>* is[2]; std::set<int>* ms[2];
	int keys[5];
	SetSys() {
		is[0] = is[1] = 0; ms[0] = ms[1] = 0;
		for (int i = 0; i < 5; i++) keys[i] = KT<int>::key(i);
		for (int m = 0; m < 2; m++) {
			add(NEW1, m); add(NEW4, m); add(NEWDEF, m);
			for (int k = 0; k < 5; k++) { add(ADD, m, k); add(REMOVE, m, k); }
			add(MERGE, m); add(CLONE_TO, m); add(FROM_UNION, m); add(FROM_INTER, m); add(FROM_DIFF, m);
			add(TO_UNION, m); add(TO_INTER, m); add(TO_DIFF, m); // result stored over the RIGHT operand: the left operand lives on beside it
		}
	}
	void add(Kind k, int m, int key = 0) { O o = { k, m, key }; ops.push_back(o); }
	int nops() { return (int)ops.size(); }
	void reset() { for (int i = 0; i < 2; i++) { delete is[i]; delete ms[i]; is[i] = 0; ms[i] = 0; } }
	bool enabled(int op) {
		const O& o = ops[op];
		if (o.k <= NEWDEF) return !is[o.m] && (o.m == 0 || is[0]);
		if (!is[o.m]) return false;
		if (o.k >= MERGE && o.k != CLONE_TO) return is[1 - o.m] != 0;
		return true;
	}
	const char* predict(int) { return 0; }
	std::string opname(int op) {
		const O& o = ops[op];
		switch (o.k) {
		case NEW1: return fmt("s%d = Set(1)", o.m); case NEW4: return fmt("s%d = Set(4)", o.m); case NEWDEF: return fmt("s%d = Set()", o.m);
		case ADD: return fmt("s%d << %d", o.m, keys[o.key]); case REMOVE: return fmt("s%d >> %d", o.m, keys[o.key]);
		case MERGE: return fmt("s%d << s%d", o.m, 1 - o.m); case CLONE_TO: return fmt("s%d = s%d.clone()", 1 - o.m, o.m);
		case FROM_UNION: return fmt("s%d = s%d + s%d", o.m, o.m, 1 - o.m); case FROM_INTER: return fmt("s%d = s%d & s%d", o.m, o.m, 1 - o.m); case FROM_DIFF: return fmt("s%d = s%d - s%d", o.m, o.m, 1 - o.m);
		case TO_UNION: return fmt("s%d = s%d + s%d", 1 - o.m, o.m, 1 - o.m); case TO_INTER: return fmt("s%d = s%d & s%d", 1 - o.m, o.m, 1 - o.m); case TO_DIFF: return fmt("s%d = s%d - s%d", 1 - o.m, o.m, 1 - o.m);
		}
		return "?";
	}
	static std::set<int> toStd(const Set<int>& s, int* visits) { std::set<int> r; int n = 0; for (Set<int>::Enumerator e = s.all(); e; ++e) { r.insert(*e); if (++n > 1000) break; } if (visits) *visits = n; return r; }
	void replace(int m, const Set<int>& v, const std::set<int>& mv) { Set<int>* n = new Set<int>(v); delete is[m]; is[m] = n; *ms[m] = mv; }
	bool apply(int op, std::string& err) {
		const O& o = ops[op];
		if (o.k <= NEWDEF) { is[o.m] = o.k == NEW1 ? new Set<int>(1) : o.k == NEW4 ? new Set<int>(4) : new Set<int>(); ms[o.m] = new std::set<int>(); return observe(err); }
		Set<int>& I = *is[o.m]; std::set<int>& M = *ms[o.m];
		switch (o.k) {
		case ADD: I << keys[o.key]; M.insert(keys[o.key]); break;
		case REMOVE: { int x = keys[o.key]; I >> x; M.erase(keys[o.key]); break; }
		case MERGE: I << *is[1 - o.m]; M.insert(ms[1 - o.m]->begin(), ms[1 - o.m]->end()); break;
		case CLONE_TO: { Set<int>* n = new Set<int>(); (HashMap<int, int>&)*n = I.clone(); delete is[1 - o.m]; is[1 - o.m] = n; delete ms[1 - o.m]; ms[1 - o.m] = new std::set<int>(M); break; }
		case FROM_UNION: { std::set<int> r = M; r.insert(ms[1 - o.m]->begin(), ms[1 - o.m]->end()); replace(o.m, I + *is[1 - o.m], r); break; }
		case FROM_INTER: { std::set<int> r; for (std::set<int>::iterator it = M.begin(); it != M.end(); ++it) if (ms[1 - o.m]->count(*it)) r.insert(*it); replace(o.m, I & *is[1 - o.m], r); break; }
		case FROM_DIFF: { std::set<int> r; for (std::set<int>::iterator it = M.begin(); it != M.end(); ++it) if (!ms[1 - o.m]->count(*it)) r.insert(*it); replace(o.m, I - *is[1 - o.m], r); break; }
		case TO_UNION: { std::set<int> r = M; r.insert(ms[1 - o.m]->begin(), ms[1 - o.m]->end()); replace(1 - o.m, I + *is[1 - o.m], r); break; }
		case TO_INTER: { std::set<int> r; for (std::set<int>::iterator it = M.begin(); it != M.end(); ++it) if (ms[1 - o.m]->count(*it)) r.insert(*it); replace(1 - o.m, I & *is[1 - o.m], r); break; }
		case TO_DIFF: { std::set<int> r; for (std::set<int>::iterator it = M.begin(); it != M.end(); ++it) if (!ms[1 - o.m]->count(*it)) r.insert(*it); replace(1 - o.m, I - *is[1 - o.m], r); break; }
		default: break;
		}
		return observe(err);
	}
	bool observe(std::string& err) {
		for (int m = 0; m < 2; m++) {
			if (!is[m]) continue;
			const Set<int>& I = *is[m]; const std::set<int>& M = *ms[m];
			if (I.length() != (int)M.size() || I.empty() != M.empty()) { err = fmt("s%d.length() = %d, reference %d", m, I.length(), (int)M.size()); return false; }
			for (int k = 0; k < 5; k++) if (I.contains(keys[k]) != (M.count(keys[k]) != 0)) { err = fmt("s%d.contains(%d)", m, keys[k]); return false; }
			int visits = 0; std::set<int> got = toStd(I, &visits);
			if (visits != (int)M.size() || got != M) { err = fmt("s%d enumeration visited %d members, reference has %d", m, visits, (int)M.size()); return false; }
			Array<int> arr = I.array();
			std::set<int> fromArr; for (int i = 0; i < arr.length(); i++) fromArr.insert(arr[i]);
			if (arr.length() != (int)M.size() || fromArr != M) { err = fmt("s%d.array()", m); return false; }
		}
		if (is[0] && is[1]) {
			const Set<int>& A = *is[0]; const Set<int>& B = *is[1]; const std::set<int>& MA = *ms[0]; const std::set<int>& MB = *ms[1];
			bool eq = A == B, meq = MA == MB;
			if (meq && MA.size() >= 2) { if (A.a.length() != B.a.length()) vf::add(W_EQ_DIFF_SIZE); else { Array<int> x = A.array(), y = B.array(); if (!(x == y)) vf::add(W_EQ_DIFF_ORDER); } }
			if (eq != meq || (A != B) == meq) { err = fmt("s0 == s1 is %d, reference %d", (int)eq, (int)meq); return false; }
			std::set<int> u = MA, in, d;
			u.insert(MB.begin(), MB.end());
			bool all = true, any = false;
			for (std::set<int>::const_iterator it = MA.begin(); it != MA.end(); ++it) { if (MB.count(*it)) in.insert(*it); else d.insert(*it); }
			for (std::set<int>::const_iterator it = MB.begin(); it != MB.end(); ++it) { if (MA.count(*it)) any = true; else all = false; }
			if (toStd(A + B, 0) != u || (A + B).length() != (int)u.size()) { err = "s0 + s1 (union)"; return false; }
			if (toStd(A & B, 0) != in || (A & B).length() != (int)in.size()) { err = "s0 & s1 (intersection)"; return false; }
			if (toStd(A - B, 0) != d || (A - B).length() != (int)d.size()) { err = "s0 - s1 (difference)"; return false; }
			// a result is a new set: changing it must leave both operands as they were
			for (int which = 0; which < 6; which++) {
				const Set<int>& X = which < 3 ? A : B; const Set<int>& Y = which < 3 ? B : A;
				Set<int> r = which % 3 == 0 ? X + Y : which % 3 == 1 ? (X & Y) : X - Y;
				r << 777001; int gone = keys[0]; r >> gone;
				static const char* on[] = { "s0 + s1", "s0 & s1", "s0 - s1", "s1 + s0", "s1 & s0", "s1 - s0" };
				if (A.length() != (int)MA.size() || B.length() != (int)MB.size() || A.contains(777001) || B.contains(777001) || A.contains(keys[0]) != (MA.count(keys[0]) != 0) || B.contains(keys[0]) != (MB.count(keys[0]) != 0)) { err = fmt("modifying the result of %s changed an operand", on[which]); return false; }
			}
			if (A.contains(B) != all) { err = fmt("s0.contains(s1) = %d, reference %d", (int)A.contains(B), (int)all); return false; }
			if (A.containsAny(B) != any) { err = fmt("s0.containsAny(s1) = %d, reference %d", (int)A.containsAny(B), (int)any); return false; }
		}
		return true;
	}
	std::string canon() {
		std::string s;
		for (int m = 0; m < 2; m++) {
			if (!is[m]) { s += "-|"; continue; }
			Set<int>& I = *is[m];
			s += fmt("t%d:", I.a.length());
			for (int b = ASL_HMAP_SKIP; b < I.a.length(); b++) {
				HashMap<int, int>::KeyValN* p = I.a[b];
				if (!p) continue;
				s += "[";
				for (int g = 0; p && g < 300; p = p->next, g++) s += fmt("%d,", p->key);
				s += "]";
			}
			s += "|";
		}
		return s;
	}
};

static uint64_t totS, totT, totTr;
template <class Sys>
static void runBfs(Sys& sys, const std::string& label, int depth) {
	vf::Bfs<Sys> b(sys, label);
	vf::BfsResult r = b.run(depth, 0);
	totS += r.states; totT += r.transitions; totTr += r.traces;
	std::string pd;
	for (size_t i = 0; i < r.per_depth.size(); i++) pd += fmt(i ? ",%llu" : "%llu", (unsigned long long)r.per_depth[i]);
	vf::setinfo(label, fmt("{\"depth_completed\": %d, \"states\": %llu, \"transitions\": %llu, \"fixed_point\": %s, \"new_states_per_depth\": [%s], \"op_alphabet\": %d}", r.depth_done, (unsigned long long)r.states, (unsigned long long)r.transitions, r.fixed_point ? "true" : "false", pd.c_str(), sys.nops()));
}

int main(int argc, char** argv) {
	vf::init(argc, argv, "C02", "c02_maps");
	int cS = vf::counter("states"), cT = vf::counter("transitions"), cTr = vf::counter("traces");
	W_REHASH = vf::counter("w.hash_table_regrown"); W_RM_HEAD = vf::counter("w.remove_chain_head"); W_RM_MID = vf::counter("w.remove_chain_middle"); W_RM_TAIL = vf::counter("w.remove_chain_tail"); W_RM_ABSENT = vf::counter("w.remove_absent_key");
	W_EQ_DIFF_ORDER = vf::counter("w.equal_contents_different_chain_order_compared"); W_EQ_DIFF_SIZE = vf::counter("w.equal_contents_different_table_size_compared"); W_COLLIDE = vf::counter("w.remove_in_chain_longer_than_1");
	static const char* bn[] = { "w.map_lookup_in_empty", "w.map_lookup_found", "w.map_lookup_below_first", "w.map_lookup_above_last", "w.map_lookup_between", "w.map_lookup_size_le_3" };
	for (int i = 0; i < 6; i++) W_MAP_BRANCH[i] = vf::counter(bn[i]);
	W_AUTOINSERT = vf::counter("w.index_read_auto_inserts"); W_OVERWRITE = vf::counter("w.overwrite_existing_key");
	bool T = vf::opt.thorough();
	MapSys<int> mi; MapSys<String> md; HashSys<int> hi; HashSys<String> hd; SetSys ss;
	if (vf::opt.replay) {
		const std::string& k = vf::opt.kase;
		vf::parallel(1, [&](uint64_t) {
			if (k.compare(0, 8, "map<int>") == 0) vf::Bfs<MapSys<int> >(mi, "map<int>").replay(k);
			else if (k.compare(0, 3, "dic") == 0) vf::Bfs<MapSys<String> >(md, "dic").replay(k);
			else if (k.compare(0, 12, "hashmap<int>") == 0) vf::Bfs<HashSys<int> >(hi, "hashmap<int>").replay(k);
			else if (k.compare(0, 7, "hashdic") == 0) vf::Bfs<HashSys<String> >(hd, "hashdic").replay(k);
			else if (k.compare(0, 3, "set") == 0) vf::Bfs<SetSys>(ss, "set").replay(k);
		});
		return vf::finish();
	}
	runBfs(mi, "map<int>", T ? 6 : 5);
	runBfs(md, "dic", T ? 5 : 4);
	runBfs(hi, "hashmap<int>", T ? 7 : 5);
	runBfs(hd, "hashdic", T ? 6 : 4);
	runBfs(ss, "set", T ? 7 : 6);
	vf::add(cS, totS); vf::add(cT, totT); vf::add(cTr, totTr);
	return vf::finish();
}
