// C02 — Map / Dic / HashMap / HashDic / Set as finite maps and sets.
//  (1) explicit-state BFS over operation histories on the real containers against std::map / std::set
//      (labels map<int>, dic, hashmap<int>, hashdic, set, map9),
//  (2) flat exhaustive families for the entry points that are not BFS operations:
//      build (constructors / initializer lists / shorthand initialisers), sizes (table-size arguments),
//      grow (every insertion order of 8-9 colliding keys through two table growths),
//      alias (every call whose key / value argument is a reference into the container that the call modifies).
#include <asl/Map.h>
#include <asl/HashMap.h>
#include <asl/Set.h>
#include <asl/String.h>
#include <map>
#include <set>
#include <climits>
#include "vf.h"
#include "aslx.h"
using namespace asl;
using vf::fmt;

typedef std::map<std::string, int> Ref; // reference map: printable key -> value number

static std::string ks(int k) { char b[16]; snprintf(b, sizeof b, "%d", k); return b; } // (vf::fmt clears a 4 KB buffer per call)
static std::string ks(const String& k) { return vfx::S(k); }

// ---- key traits
template <class K> struct KT;
template <> struct KT<int> {
	// hash keys: 1, -255, 257 are congruent modulo 256 (and modulo every smaller table size); negative and extreme values included
	static int nkeys() { return 5; }
	static int key(int i) { static const int k[] = { 1, -255, 3, 257, INT_MIN }; return k[i]; }
	// ordered-map keys: both extremes, so that a comparison by subtraction overflows
	static int nokeys() { return 5; }
	static int okey(int i) { static const int k[] = { INT_MIN, -1, 0, 1, INT_MAX }; return k[i]; }
	static int fillkey(int i) { return 1000 + i; }
	static bool negHash(int k) { return k < 0; }
};
template <> struct KT<String> {
	// "Ab" and "BA" have equal hash (33*'A'+'b' == 33*'B'+'A' == 2243); "\xc3" has hash -61, which is a different value in
	// the same bucket of every table of up to 256 bins (2243 & 255 == -61 & 255 == 195); the long ones share a 20-char prefix
	static int nkeys() { return 6; }
	static String key(int i) { static const char* k[] = { "Ab", "BA", "common-prefix-0123456-x", "common-prefix-0123456-y", "", "\xc3" }; return k[i]; }
	static int nokeys() { return 5; }
	static String okey(int i) { static const char* k[] = { "common-prefix-0123456-b", "common-prefix-0123456-a", "common-prefix-0123456", "common-prefix-0123456-ab", "\xe9t\xe9" }; return k[i]; }
	static String fillkey(int i) { return String(fmt("k%d", 1000 + i).c_str()); }
	static bool negHash(const String& k) { return asl::hash(k) < 0; }
};

// ---- value traits: value number n (0 = default constructed) <-> value of type V
template <class V> struct VT;
template <> struct VT<int> {
	static void init() {}
	static int val(int n) { return n; }
	static int num(int v) { return v; }
};
template <> struct VT<String> {
	enum { N = 32, NPLAIN = 12 }; // 1..11: plain values; 16..: the strings of the alias family, which serve as keys and as values
	static String* tab() { static String t[N]; return t; }
	static void init() { for (int i = 1; i < NPLAIN; i++) tab()[i] = String(fmt("value-%02d-0123456789-0123456789-x", i).c_str()); } // heap-represented
	static int reg(int slot, const String& s) { tab()[slot] = s; return num(s); } // number under which the string s is known as a value
	static const String& val(int n) { return tab()[n]; }
	static int num(const String& v) { for (int i = 0; i < N; i++) if (v == tab()[i]) return i; return 99; }
};

// ---- growth policy of the hash tables, MEASURED on the library instead of assumed (a different default table size, growth
// threshold or growth factor does not change the property): the size of a default-constructed table, and the number of
// entries with which a default table still has its initial size but regrows when one more new key is inserted
template <class K, class V, class C> struct HashPolicy {
	static int measure() { C h; int t = h.a.length(); for (int i = 0; i < 8192; i++) { h[KT<K>::fillkey(i)] = VT<V>::val(1); if (h.a.length() != t) return i; } return 225; }
	static int defTable() { static int t = C().a.length(); return t; }
	static int fullAt() { static int g = measure(); return g; }
};

static bool nativeLess(int a, int b) { return a < b; }
static bool nativeLess(const String& a, const String& b) { return ks(a) < ks(b); } // std::string: unsigned byte order, as strcmp (keys have no embedded NUL)
static bool sameKey(int a, int b) { return a == b; }
static bool sameKey(const String& a, const String& b) { return a.length() == b.length() && memcmp(*a, *b, (size_t)a.length()) == 0; }
template <class K> struct KeyList {
	std::vector<K> k; std::vector<std::string> s;
	std::vector<int> rank; // key numbers in ascending key order (computed with std::sort on the native values, not with asl)
	void add(const K& x) {
		k.push_back(x); s.push_back(ks(x));
		rank.clear(); for (int i = 0; i < n(); i++) rank.push_back(i);
		const std::vector<K>& kk = k;
		std::sort(rank.begin(), rank.end(), [&kk](int a, int b) { return nativeLess(kk[a], kk[b]); });
	}
	int n() const { return (int)k.size(); }
};


// =============================================================== observation of ONE container against the reference
// ordered map (Map / Dic): lookups, length, every enumeration API, ascending order
template <class K, class V, class C>
static bool checkMap(C& J, const Ref& M, const KeyList<K>& keys, const char* nm, std::string& err) {
	const C& I = J;
	if (I.length() != (int)M.size()) { err = fmt("%s.length() = %d, reference %d", nm, I.length(), (int)M.size()); return false; }
	for (int k = 0; k < keys.n(); k++) {
		Ref::const_iterator it = M.find(keys.s[k]);
		bool e = it != M.end();
		if (I.has(keys.k[k]) != e) { err = fmt("%s.has(%s) = %d, reference %d", nm, keys.s[k].c_str(), (int)I.has(keys.k[k]), (int)e); return false; }
		const V* p = I.find(keys.k[k]);
		if ((p != 0) != e || (p && *p != VT<V>::val(it->second))) { err = fmt("%s.find(%s)", nm, keys.s[k].c_str()); return false; }
		V* q = J.find(keys.k[k]); // non-const overload
		if ((q != 0) != e || (q && *q != VT<V>::val(it->second))) { err = fmt("non-const %s.find(%s)", nm, keys.s[k].c_str()); return false; }
		if (I.get(keys.k[k], VT<V>::val(7)) != VT<V>::val(e ? it->second : 7)) { err = fmt("%s.get(%s)", nm, keys.s[k].c_str()); return false; }
		if (I[keys.k[k]] != VT<V>::val(e ? it->second : 0)) { err = fmt("const %s[%s]", nm, keys.s[k].c_str()); return false; }
	}
	// enumeration: every entry exactly once, ascending key order. Expected sequence = the listed keys, in rank order, that the reference holds
	int ek[64], ev[64], ne = 0;
	for (int r = 0; r < keys.n(); r++) { Ref::const_iterator it = M.find(keys.s[keys.rank[r]]); if (it != M.end()) { ek[ne] = keys.rank[r]; ev[ne] = it->second; ne++; } }
	if (ne != (int)M.size()) { err = "harness: reference holds a key outside the key list"; return false; }
	int i = 0; bool bad = false;
	for (typename C::Enumerator e = I.all(); e; ++e, ++i) { if (i >= ne || !sameKey(~e, keys.k[ek[i]]) || *e != VT<V>::val(ev[i])) { bad = true; break; } }
	if (bad || i != ne) { err = fmt("%s enumeration (all()) differs from the ascending reference at position %d (reference has %d entries)", nm, i, ne); return false; }
	i = 0;
	for (auto& e : I) { if (i >= ne || !sameKey(e.key, keys.k[ek[i]]) || e.value != VT<V>::val(ev[i])) { bad = true; break; } ++i; } // C++11 begin()/end()
	if (bad || i != ne) { err = fmt("%s range-for enumeration differs from the ascending reference at position %d (reference has %d entries)", nm, i, ne); return false; }
	Array<K> kk = I.keys();
	if (kk.length() != ne) { err = fmt("%s.keys() length", nm); return false; }
	for (i = 0; i < ne; i++) if (!sameKey(kk[i], keys.k[ek[i]])) { err = fmt("%s.keys() order", nm); return false; }
	return true;
}

static std::vector<const int*>& scratchPtrs() { static std::vector<const int*> v; if (v.capacity() == 0) v.reserve(4096); return v; }
static std::vector<int>& scratchInts() { static std::vector<int> v; if (v.capacity() == 0) v.reserve(4096); return v; }
// hash map (HashMap / HashDic)
template <class K, class V, class C>
static bool checkHash(C& J, const Ref& M, const KeyList<K>& keys, const char* nm, std::string& err) {
	const C& I = J;
	if (I.length() != (int)M.size()) { err = fmt("%s.length() = %d, reference %d", nm, I.length(), (int)M.size()); return false; }
	for (int k = 0; k < keys.n(); k++) {
		Ref::const_iterator it = M.find(keys.s[k]);
		bool e = it != M.end();
		if (I.has(keys.k[k]) != e) { err = fmt("%s.has(%s) = %d, reference %d", nm, keys.s[k].c_str(), (int)I.has(keys.k[k]), (int)e); return false; }
		const V* p = I.find(keys.k[k]);
		if ((p != 0) != e || (p && *p != VT<V>::val(it->second))) { err = fmt("%s.find(%s)", nm, keys.s[k].c_str()); return false; }
		V* q = J.find(keys.k[k]);
		if ((q != 0) != e || (q && *q != VT<V>::val(it->second))) { err = fmt("non-const %s.find(%s)", nm, keys.s[k].c_str()); return false; }
		if (I.get(keys.k[k], VT<V>::val(7)) != VT<V>::val(e ? it->second : 7)) { err = fmt("%s.get(%s)", nm, keys.s[k].c_str()); return false; }
		// const operator[] of HashMap is documented "the key has to exist" (unlike Map's, which documents the default for an absent key): only present keys are asked
		if (e && I[keys.k[k]] != VT<V>::val(it->second)) { err = fmt("const %s[%s]", nm, keys.s[k].c_str()); return false; }
	}
	// every entry exactly once: as many visits as entries, every visited key is in the reference with its value, no reference entry visited twice
	std::vector<const int*>& seen = scratchPtrs();
	for (int pass = 0; pass < 2; pass++) {
		seen.clear();
		int visits = 0; bool bad = false;
		if (pass == 0) { for (typename C::Enumerator e = I.all(); e; ++e) { Ref::const_iterator it = M.find(ks(~e)); if (++visits > (int)M.size() || it == M.end() || *e != VT<V>::val(it->second)) { bad = true; break; } seen.push_back(&it->second); } }
		else { for (auto& e : I) { Ref::const_iterator it = M.find(ks(e.key)); if (++visits > (int)M.size() || it == M.end() || e.value != VT<V>::val(it->second)) { bad = true; break; } seen.push_back(&it->second); } } // C++11 begin()/end(), FEnumerator
		std::sort(seen.begin(), seen.end());
		if (bad || visits != (int)M.size() || std::adjacent_find(seen.begin(), seen.end()) != seen.end()) { err = fmt("%s %s enumeration: visit %d is wrong or repeated, or entries are missing (reference has %d)", nm, pass ? "range-for" : "all()", visits, (int)M.size()); return false; }
	}
	return true;
}

// members collected into got (sorted here) are exactly the reference set, each once
static bool exactly(std::vector<int>& got, const std::set<int>& M) { std::sort(got.begin(), got.end()); return got.size() == M.size() && std::equal(got.begin(), got.end(), M.begin()); }
static bool setIs(const Set<int>& s, const std::set<int>& M) { // by all()
	std::vector<int>& got = scratchInts(); got.clear();
	for (Set<int>::Enumerator e = s.all(); e; ++e) { got.push_back(*e); if (got.size() > M.size()) return false; }
	return exactly(got, M) && s.length() == (int)M.size();
}
static bool sameMembers(const Array<int>& arr, const std::set<int>& M) { std::vector<int>& got = scratchInts(); got.clear(); for (int i = 0; i < arr.length() && i < 4000; i++) got.push_back(arr[i]); return arr.length() == (int)M.size() && exactly(got, M); }

static bool checkSet(const Set<int>& I, const std::set<int>& M, const int* keys, int nkeys, const char* nm, std::string& err) {
	if (I.length() != (int)M.size() || I.empty() != M.empty()) { err = fmt("%s.length() = %d, reference %d", nm, I.length(), (int)M.size()); return false; }
	for (int k = 0; k < nkeys; k++) if (I.contains(keys[k]) != (M.count(keys[k]) != 0)) { err = fmt("%s.contains(%d)", nm, keys[k]); return false; }
	if (!setIs(I, M)) { err = fmt("%s enumeration (all()) does not visit every member exactly once (reference has %d)", nm, (int)M.size()); return false; }
	std::vector<int>& got = scratchInts(); got.clear();
	for (int x : I) { got.push_back(x); if (got.size() > M.size()) break; } // C++11 begin()/end() of Set
	if (!exactly(got, M)) { err = fmt("%s range-for enumeration visited %d members, reference has %d", nm, (int)got.size(), (int)M.size()); return false; }
	if (!sameMembers(I.array(), M)) { err = fmt("%s.array()", nm); return false; }
	Array<int> conv = I; // operator Array<T>
	if (!sameMembers(conv, M)) { err = fmt("(Array)%s", nm); return false; }
	if (!sameMembers(array(I), M)) { err = fmt("array(%s)", nm); return false; }
	return true;
}

// =============================================================== ordered Map (BFS)
// C is the container class under test: Map<K,V> or Dic<V>
template <class K, class V, class C>
struct MapSys {
	enum Kind { SET, INDEX_ASSIGN, INDEX_READ, REMOVE, CLEAR, CLONE_TO, ADD_FROM, NEWEMPTY, REMOVE_ALIAS, SET_VALUE_ALIAS };
	struct O { Kind k; int m, key, v; }; // SET_VALUE_ALIAS: v = number of the key whose stored value is passed (by reference) as the value argument
	std::vector<O> ops;
	C* im[2];
	Ref* mm[2];
	KeyList<K> keys;
	bool big; // one map, many keys, set/remove only (sizes above 5)
	int W_BRANCH[5], W_AUTOINSERT, W_OVERWRITE, W_ALIAS, W_ASSIGN_OVER, W_BIG6, W_LOOP3, W_VA_BEFORE, W_VA_AFTER, W_VA_REALLOC, W_VA_OVERWRITE;
	// the first 46 op numbers are those of the original alphabet, so that older case strings keep their meaning
	MapSys(const std::string& label, const KeyList<K>& kl, bool big_ = false) : keys(kl), big(big_) {
		im[0] = im[1] = 0; mm[0] = mm[1] = 0;
		if (!big) {
			for (int m = 0; m < 2; m++) {
				for (int k = 0; k < keys.n(); k++) { add(SET, m, k, 2); add(INDEX_ASSIGN, m, k, 1); add(INDEX_READ, m, k); add(REMOVE, m, k); }
				add(CLEAR, m); add(CLONE_TO, m); add(ADD_FROM, m);
			}
			for (int m = 0; m < 2; m++) for (int k = 0; k < keys.n(); k++) add(REMOVE_ALIAS, m, k);
			for (int m = 0; m < 2; m++) for (int k = 0; k < keys.n(); k++) for (int src = 0; src < keys.n(); src++) add(SET_VALUE_ALIAS, m, k, src);
		} else {
			for (int k = 0; k < keys.n(); k++) { add(SET, 0, k, 2); add(REMOVE, 0, k); add(REMOVE_ALIAS, 0, k); }
			for (int k = 0; k < keys.n(); k++) for (int src = 0; src < keys.n(); src++) add(SET_VALUE_ALIAS, 0, k, src);
		}
		static const char* bn[] = { "lookup_in_empty", "lookup_found", "lookup_below_first", "lookup_above_last", "lookup_between" };
		for (int i = 0; i < 5; i++) W_BRANCH[i] = vf::counter(("w." + label + "." + bn[i]).c_str());
		W_OVERWRITE = vf::counter(("w." + label + ".overwrite_existing_key").c_str());
		W_ALIAS = vf::counter(("w." + label + ".remove_key_aliasing_own_entry").c_str());
		W_VA_BEFORE = vf::counter(("w." + label + ".set_value_aliasing_own_entry_inserts_before_source").c_str());
		W_VA_AFTER = vf::counter(("w." + label + ".set_value_aliasing_own_entry_inserts_after_source").c_str());
		W_VA_REALLOC = vf::counter(("w." + label + ".set_value_aliasing_own_entry_inserts_at_full_capacity").c_str());
		W_VA_OVERWRITE = vf::counter(("w." + label + ".set_value_aliasing_own_entry_overwrites").c_str());
		W_AUTOINSERT = W_ASSIGN_OVER = W_BIG6 = W_LOOP3 = -1;
		if (!big) { W_AUTOINSERT = vf::counter(("w." + label + ".index_read_auto_inserts").c_str()); W_ASSIGN_OVER = vf::counter(("w." + label + ".clone_assigned_over_nonempty").c_str()); }
		else { W_BIG6 = vf::counter(("w." + label + ".lookup_in_6_or_more").c_str()); W_LOOP3 = vf::counter(("w." + label + ".insert_in_middle_at_full_capacity").c_str()); }
	}
	void add(Kind k, int m, int key = 0, int v = 0) { O o = { k, m, key, v }; ops.push_back(o); }
	int nops() { return (int)ops.size(); }
	void reset() { for (int i = 0; i < 2; i++) { delete im[i]; delete mm[i]; im[i] = new C(); mm[i] = new Ref(); } }
	bool enabled(int op) {
		const O& o = ops[op];
		if (o.k == CLEAR) return !mm[o.m]->empty();
		if (o.k == ADD_FROM) return !mm[1 - o.m]->empty();
		if (o.k == REMOVE_ALIAS) return mm[o.m]->count(keys.s[o.key]) != 0;
		if (o.k == SET_VALUE_ALIAS) return mm[o.m]->count(keys.s[o.v]) != 0;
		return true;
	}
	const char* predict(int) { return 0; }
	std::string opname(int op) {
		const O& o = ops[op];
		switch (o.k) {
		case SET_VALUE_ALIAS: return fmt("m%d.set(%s, <the value stored inside m%d under %s>)", o.m, keys.s[o.key].c_str(), o.m, keys.s[o.v].c_str());
		case SET: return fmt("m%d.set(%s, %d)", o.m, keys.s[o.key].c_str(), o.v);
		case INDEX_ASSIGN: return fmt("m%d[%s] = %d", o.m, keys.s[o.key].c_str(), o.v);
		case INDEX_READ: return fmt("read m%d[%s] (non-const)", o.m, keys.s[o.key].c_str());
		case REMOVE: return fmt("m%d.remove(%s)", o.m, keys.s[o.key].c_str());
		case REMOVE_ALIAS: return fmt("m%d.remove(<the key %s stored inside m%d>)", o.m, keys.s[o.key].c_str(), o.m);
		case CLEAR: return fmt("m%d.clear()", o.m);
		case CLONE_TO: return fmt("m%d = m%d.clone()", 1 - o.m, o.m);
		case ADD_FROM: return fmt("m%d.add(m%d)", o.m, 1 - o.m);
		default: return "?";
		}
	}
	// classify which branch of the hand-written binary search a lookup takes (witness only)
	// position of key number kn among the keys the reference holds: 0 = reference empty, 1 = present, 2 = below all, 3 = above all, 4 = strictly inside
	int where(int m, int kn) {
		if (mm[m]->empty()) return 0;
		if (mm[m]->count(keys.s[kn])) return 1;
		bool below = false, above = false, passed = false;
		for (int r = 0; r < keys.n(); r++) { int j = keys.rank[r]; if (j == kn) { passed = true; continue; } if (mm[m]->count(keys.s[j])) { if (passed) above = true; else below = true; } }
		return below && above ? 4 : above ? 2 : 3; // "above" = some held key ranks above the probe: the probe is below it
	}
	void classify(int m, int kn) { if (big && mm[m]->size() >= 6) vf::add(W_BIG6); vf::add(W_BRANCH[where(m, kn)]); }
	bool apply(int op, std::string& err) {
		const O& o = ops[op];
		C& I = *im[o.m]; Ref& M = *mm[o.m];
		if (o.k <= REMOVE || o.k == REMOVE_ALIAS || o.k == SET_VALUE_ALIAS) classify(o.m, o.key);
		switch (o.k) {
		case SET_VALUE_ALIAS: { // the value argument is a reference to a value stored in the map that is being modified
			int e = M[keys.s[o.v]]; // the value the argument has when set() is called
			if (M.count(keys.s[o.key])) vf::add(W_VA_OVERWRITE);
			else { vf::add(nativeLess(keys.k[o.key], keys.k[o.v]) ? W_VA_BEFORE : W_VA_AFTER); if (I.length() == I.kv().cap()) vf::add(W_VA_REALLOC); }
			const C& cI = I;
			I.set(keys.k[o.key], cI[keys.k[o.v]]); M[keys.s[o.key]] = e; break; }
		case SET:
			if (M.count(keys.s[o.key])) vf::add(W_OVERWRITE);
			else if (big && I.length() >= 6 && I.length() == I.kv().cap() && where(o.m, o.key) == 4) vf::add(W_LOOP3);
			I.set(keys.k[o.key], VT<V>::val(o.v)); M[keys.s[o.key]] = o.v; break;
		case INDEX_ASSIGN: I[keys.k[o.key]] = VT<V>::val(o.v); M[keys.s[o.key]] = o.v; break;
		case INDEX_READ: { if (!M.count(keys.s[o.key])) vf::add(W_AUTOINSERT); int r = VT<V>::num(I[keys.k[o.key]]); int e = M[keys.s[o.key]]; if (r != e) { err = fmt("m[%s] = value #%d, reference #%d", keys.s[o.key].c_str(), r, e); return false; } break; }
		case REMOVE: { bool r = I.remove(keys.k[o.key]); bool e = M.erase(keys.s[o.key]) != 0; if (r != e) { err = "remove() return value"; return false; } break; }
		case REMOVE_ALIAS: { // the argument is a reference to the key stored in the entry that is being removed
			bool found = false, r = false;
			for (typename C::Enumerator e = I.all(); e; ++e) if (ks(~e) == keys.s[o.key]) { found = true; vf::add(W_ALIAS); r = I.remove(~e); break; }
			if (!found) { err = fmt("key %s not reached by enumeration", keys.s[o.key].c_str()); return false; }
			M.erase(keys.s[o.key]);
			if (!r) { err = "remove() return value"; return false; }
			break; }
		case CLEAR: I.clear(); M.clear(); break;
		case CLONE_TO: if (!mm[1 - o.m]->empty()) vf::add(W_ASSIGN_OVER); *im[1 - o.m] = I.clone(); *mm[1 - o.m] = M; break;
		case ADD_FROM: I.add(*im[1 - o.m]); for (Ref::iterator it = mm[1 - o.m]->begin(); it != mm[1 - o.m]->end(); ++it) M[it->first] = it->second; break;
		default: break;
		}
		return observe(err);
	}
	bool observe(std::string& err) {
		for (int m = 0; m < (big ? 1 : 2); m++) if (!checkMap<K, V, C>(*im[m], *mm[m], keys, m ? "m1" : "m0", err)) return false;
		bool eq = *im[0] == *im[1], meq = *mm[0] == *mm[1];
		if (eq != meq || (*im[0] != *im[1]) == meq) { err = fmt("m0 == m1 is %d, reference %d", (int)eq, (int)meq); return false; }
		return true;
	}
	std::string canon() {
		std::string s;
		for (int m = 0; m < 2; m++) {
			s += fmt("c%d:", im[m]->kv().cap());
			for (Ref::iterator it = mm[m]->begin(); it != mm[m]->end(); ++it) s += it->first + "=" + char('0' + it->second) + ",";
			s += "|";
		}
		return s;
	}
};

// =============================================================== HashMap (BFS)
// C is HashMap<K,V> or HashDic<V>
template <class K, class V, class C>
struct HashSys {
	enum Kind { NEW1, NEW2, NEW4, NEWDEF, INDEX_ASSIGN, SET, INDEX_READ, REMOVE, CLEAR, CLONE_TO, FILL225, NEW0, NEW3, REMOVE_ALIAS };
	struct O { Kind k; int m, key, v; };
	std::vector<O> ops;
	C* im[2];
	Ref* mm[2];
	KeyList<K> keys;
	int G; // entries that fill a default table to its growth threshold (225 in the library as it stands)
	int W_GROW_TINY, W_GROW_FILL, W_RM_HEAD, W_RM_MID, W_RM_TAIL, W_RM_ABSENT, W_EQ_DIFF_ORDER, W_EQ_DIFF_SIZE, W_COLLIDE, W_ALIAS, W_ASSIGN_OVER, W_NEGHASH, W_POSTFILL;
	static bool isNew(Kind k) { return k <= NEWDEF || k == NEW0 || k == NEW3; }
	// the first 54 op numbers are those of the original alphabet (5 keys), so that older case strings keep their meaning
	HashSys(const std::string& label, const KeyList<K>& kl) : keys(kl) {
		im[0] = im[1] = 0; mm[0] = mm[1] = 0;
		G = HashPolicy<K, V, C>::fullAt();
		for (int m = 0; m < 2; m++) {
			add(NEW1, m); add(NEW2, m); add(NEW4, m); add(NEWDEF, m);
			for (int k = 0; k < 5; k++) { add(INDEX_ASSIGN, m, k, 1); add(SET, m, k, 2); add(INDEX_READ, m, k); add(REMOVE, m, k); }
			add(CLEAR, m); add(CLONE_TO, m); add(FILL225, m);
		}
		for (int m = 0; m < 2; m++) {
			add(NEW0, m); add(NEW3, m);
			for (int k = 0; k < keys.n(); k++) add(REMOVE_ALIAS, m, k);
			for (int k = 5; k < keys.n(); k++) { add(INDEX_ASSIGN, m, k, 1); add(SET, m, k, 2); add(INDEX_READ, m, k); add(REMOVE, m, k); }
		}
		struct { int* c; const char* n; } w[] = { { &W_GROW_TINY, "tiny_table_regrown" }, { &W_GROW_FILL, "default_table_regrown_by_fill" }, { &W_RM_HEAD, "remove_chain_head" }, { &W_RM_MID, "remove_chain_middle" }, { &W_RM_TAIL, "remove_chain_tail" }, { &W_RM_ABSENT, "remove_absent_key" },
			{ &W_EQ_DIFF_ORDER, "equal_contents_different_chain_order_compared" }, { &W_EQ_DIFF_SIZE, "equal_contents_different_table_size_compared" }, { &W_COLLIDE, "remove_in_chain_longer_than_1" }, { &W_ALIAS, "remove_key_aliasing_own_node" },
			{ &W_ASSIGN_OVER, "clone_assigned_over_nonempty" }, { &W_NEGHASH, "negative_hash_key_inserted" }, { &W_POSTFILL, "probe_key_op_after_fill" } };
		for (size_t i = 0; i < sizeof w / sizeof w[0]; i++) *w[i].c = vf::counter(("w." + label + "." + w[i].n).c_str());
	}
	void add(Kind k, int m, int key = 0, int v = 0) { O o = { k, m, key, v }; ops.push_back(o); }
	int nops() { return (int)ops.size(); }
	void reset() { for (int i = 0; i < 2; i++) { delete im[i]; delete mm[i]; im[i] = 0; mm[i] = 0; } }
	bool enabled(int op) {
		const O& o = ops[op];
		if (isNew(o.k)) return !im[o.m] && (o.m == 0 || im[0]);
		if (!im[o.m]) return false;
		if (o.k == CLEAR) return !mm[o.m]->empty();
		if (o.k == CLONE_TO) return true;
		if (o.k == FILL225) return im[o.m]->a.length() == HashPolicy<K, V, C>::defTable() && mm[o.m]->size() < 10;
		if (o.k == REMOVE_ALIAS) return mm[o.m]->count(keys.s[o.key]) != 0;
		return (int)mm[o.m]->size() < G + 15;
	}
	const char* predict(int) { return 0; }
	std::string opname(int op) {
		const O& o = ops[op];
		switch (o.k) {
		case NEW0: return fmt("h%d = HashMap(0)", o.m); case NEW1: return fmt("h%d = HashMap(1)", o.m); case NEW2: return fmt("h%d = HashMap(2)", o.m); case NEW3: return fmt("h%d = HashMap(3)", o.m);
		case NEW4: return fmt("h%d = HashMap(4)", o.m); case NEWDEF: return fmt("h%d = HashMap()", o.m);
		case INDEX_ASSIGN: return fmt("h%d[%s] = %d", o.m, keys.s[o.key].c_str(), o.v);
		case SET: return fmt("h%d.set(%s, %d)", o.m, keys.s[o.key].c_str(), o.v);
		case INDEX_READ: return fmt("read h%d[%s] (non-const)", o.m, keys.s[o.key].c_str());
		case REMOVE: return fmt("h%d.remove(%s)", o.m, keys.s[o.key].c_str());
		case REMOVE_ALIAS: return fmt("h%d.remove(<the key %s stored inside h%d>)", o.m, keys.s[o.key].c_str(), o.m);
		case CLEAR: return fmt("h%d.clear()", o.m);
		case CLONE_TO: return fmt("h%d = h%d.clone()", 1 - o.m, o.m);
		case FILL225: return fmt("h%d: insert %d more keys (%s...)", o.m, G, ks(KT<K>::fillkey(0)).c_str());
		}
		return "?";
	}
	// The chains are read through the public enumeration (bins in ascending order, chain order within a bin) and binOf(): no
	// dependence on the node type or its link field.
	void chainPos(int m, const K& key) { // witness: where in its chain does the key sit
		C& I = *im[m];
		int bin = I.binOf(key), len = 0, at = -1, g = 0;
		for (typename C::Enumerator e = I.all(); e && g < 100000; ++e, ++g) if (I.binOf(~e) == bin) { if (~e == key) at = len; len++; }
		if (at < 0) vf::add(W_RM_ABSENT); else if (at == 0 && len > 1) vf::add(W_RM_HEAD); else if (at == len - 1 && len > 1) vf::add(W_RM_TAIL); else if (len > 2) vf::add(W_RM_MID);
		if (len > 1) vf::add(W_COLLIDE);
	}
	bool apply(int op, std::string& err) {
		const O& o = ops[op];
		if (isNew(o.k)) {
			im[o.m] = o.k == NEWDEF ? new C() : new C(o.k == NEW0 ? 0 : o.k == NEW1 ? 1 : o.k == NEW2 ? 2 : o.k == NEW3 ? 3 : 4);
			mm[o.m] = new Ref();
			return observe(err);
		}
		C& I = *im[o.m]; Ref& M = *mm[o.m];
		int tbl = I.a.length();
		bool inserts = (o.k == INDEX_ASSIGN || o.k == SET || o.k == INDEX_READ) && !M.count(keys.s[o.key]);
		if (inserts && KT<K>::negHash(keys.k[o.key])) vf::add(W_NEGHASH);
		if (o.k != FILL225 && o.k != CLONE_TO && o.k != CLEAR && (int)M.size() >= G) vf::add(W_POSTFILL);
		switch (o.k) {
		case INDEX_ASSIGN: I[keys.k[o.key]] = VT<V>::val(o.v); M[keys.s[o.key]] = o.v; break;
		case SET: I.set(keys.k[o.key], VT<V>::val(o.v)); M[keys.s[o.key]] = o.v; break;
		case INDEX_READ: { int r = VT<V>::num(I[keys.k[o.key]]); int e = M[keys.s[o.key]]; if (r != e) { err = fmt("h[%s] = value #%d, reference #%d", keys.s[o.key].c_str(), r, e); return false; } break; }
		case REMOVE: chainPos(o.m, keys.k[o.key]); I.remove(keys.k[o.key]); M.erase(keys.s[o.key]); break;
		case REMOVE_ALIAS: { // the argument is a reference to the key stored in the node that is being deleted
			bool found = false; int guard = 0;
			for (typename C::Enumerator e = I.all(); e && guard < 100000; ++e, ++guard) if (ks(~e) == keys.s[o.key]) { found = true; vf::add(W_ALIAS); chainPos(o.m, keys.k[o.key]); I.remove(~e); break; }
			if (!found) { err = fmt("key %s not reached by enumeration", keys.s[o.key].c_str()); return false; }
			M.erase(keys.s[o.key]);
			break; }
		case CLEAR: I.clear(); M.clear(); break;
		case CLONE_TO:
			if (im[1 - o.m]) { if (!mm[1 - o.m]->empty()) vf::add(W_ASSIGN_OVER); *im[1 - o.m] = I.clone(); *mm[1 - o.m] = M; } // assignment releases the target's old table
			else { im[1 - o.m] = new C(I.clone()); mm[1 - o.m] = new Ref(M); }
			break;
		case FILL225: for (int i = 0; i < G; i++) { I[KT<K>::fillkey(i)] = VT<V>::val(1); M[ks(KT<K>::fillkey(i))] = 1; } break;
		default: break;
		}
		if (im[o.m]->a.length() != tbl) vf::add(o.k == FILL225 ? W_GROW_FILL : W_GROW_TINY);
		return observe(err);
	}
	bool observe(std::string& err) {
		for (int m = 0; m < 2; m++) if (im[m] && !checkHash<K, V, C>(*im[m], *mm[m], keys, m ? "h1" : "h0", err)) return false;
		if (im[0] && im[1]) {
			bool eq = *im[0] == *im[1], meq = *mm[0] == *mm[1];
			if (meq && mm[0]->size() >= 2) { if (im[0]->a.length() != im[1]->a.length()) vf::add(W_EQ_DIFF_SIZE); else if (canonOne(0) != canonOne(1)) vf::add(W_EQ_DIFF_ORDER); }
			if (eq != meq || (*im[0] != *im[1]) == meq) { err = fmt("h0 == h1 is %d, reference %d", (int)eq, (int)meq); return false; }
		}
		return true;
	}
	std::string canonOne(int m) {
		if (!im[m]) return "-";
		C& I = *im[m];
		std::string s = fmt("t%d:", I.a.length());
		if (I.a.length() <= ASL_HMAP_SKIP) return s; // no bins at all (HashMap(0) on a tree without the size clamp)
		bool post = mm[m]->size() > 12; // after the fill: only the chains that hold (or would hold) the probe keys, in chain order
		std::set<int> bins;
		if (post) { s += fmt("n%d", (int)mm[m]->size()); for (int k = 0; k < keys.n(); k++) bins.insert(I.binOf(keys.k[k])); }
		int last = -1, g = 0;
		for (typename C::Enumerator e = I.all(); e && g < 100000; ++e, ++g) {
			int b = I.binOf(~e);
			if (post && !bins.count(b)) continue;
			if (b != last) { if (last >= 0) s += "]"; if (post) s += "b" + ks(b); s += "["; last = b; }
			s += ks(~e) + "=" + char('0' + VT<V>::num(*e)) + ",";
		}
		if (last >= 0) s += "]";
		return s;
	}
	std::string canon() { return canonOne(0) + "|" + canonOne(1); }
};

// =============================================================== Set (BFS)
struct SetSys {
	enum Kind { NEW1, NEW4, NEWDEF, ADD, REMOVE, MERGE, CLONE_TO, FROM_UNION, FROM_INTER, FROM_DIFF, TO_UNION, TO_INTER, TO_DIFF, NEW0, NEW3, FROM_ARR0, REMOVE_ALIAS };
	struct O { Kind k; int m, key; };
	std::vector<O> ops;
	Set<int>* is[2]; std::set<int>* ms[2];
	int keys[5];
	int W_GROW, W_RM_HEAD, W_RM_MID, W_RM_TAIL, W_EQ_DIFF_ORDER, W_EQ_DIFF_SIZE, W_ALIAS, W_ASSIGN_OVER, W_FROM_ARRAY;
	static bool isNew(Kind k) { return k <= NEWDEF || (k >= NEW0 && k <= FROM_ARR0); }
	// the first 42 op numbers are those of the original alphabet
	SetSys(const std::string& label) {
		is[0] = is[1] = 0; ms[0] = ms[1] = 0;
		for (int i = 0; i < 5; i++) keys[i] = KT<int>::key(i);
		for (int m = 0; m < 2; m++) {
			add(NEW1, m); add(NEW4, m); add(NEWDEF, m);
			for (int k = 0; k < 5; k++) { add(ADD, m, k); add(REMOVE, m, k); }
			add(MERGE, m); add(CLONE_TO, m); add(FROM_UNION, m); add(FROM_INTER, m); add(FROM_DIFF, m);
			add(TO_UNION, m); add(TO_INTER, m); add(TO_DIFF, m); // result stored over the RIGHT operand: the left operand lives on beside it
		}
		for (int m = 0; m < 2; m++) {
			add(NEW0, m); add(NEW3, m); add(FROM_ARR0, m); // non-empty arrays and initializer lists: flat family "build"
			for (int k = 0; k < 5; k++) add(REMOVE_ALIAS, m, k);
		}
		struct { int* c; const char* n; } w[] = { { &W_GROW, "table_regrown" }, { &W_RM_HEAD, "remove_chain_head" }, { &W_RM_MID, "remove_chain_middle" }, { &W_RM_TAIL, "remove_chain_tail" },
			{ &W_EQ_DIFF_ORDER, "equal_contents_different_chain_order_compared" }, { &W_EQ_DIFF_SIZE, "equal_contents_different_table_size_compared" }, { &W_ALIAS, "remove_member_aliasing_own_node" },
			{ &W_ASSIGN_OVER, "assigned_over_nonempty" }, { &W_FROM_ARRAY, "constructed_from_empty_array" } };
		for (size_t i = 0; i < sizeof w / sizeof w[0]; i++) *w[i].c = vf::counter(("w." + label + "." + w[i].n).c_str());
	}
	void add(Kind k, int m, int key = 0) { O o = { k, m, key }; ops.push_back(o); }
	int nops() { return (int)ops.size(); }
	void reset() { for (int i = 0; i < 2; i++) { delete is[i]; delete ms[i]; is[i] = 0; ms[i] = 0; } }
	bool enabled(int op) {
		const O& o = ops[op];
		if (isNew(o.k)) return !is[o.m] && (o.m == 0 || is[0]);
		if (!is[o.m]) return false;
		if (o.k == REMOVE_ALIAS) return ms[o.m]->count(keys[o.key]) != 0;
		if (o.k >= MERGE && o.k != CLONE_TO) return is[1 - o.m] != 0;
		return true;
	}
	const char* predict(int) { return 0; }
	std::string opname(int op) {
		const O& o = ops[op];
		switch (o.k) {
		case NEW0: return fmt("s%d = Set(0)", o.m); case NEW1: return fmt("s%d = Set(1)", o.m); case NEW3: return fmt("s%d = Set(3)", o.m); case NEW4: return fmt("s%d = Set(4)", o.m); case NEWDEF: return fmt("s%d = Set()", o.m);
		case FROM_ARR0: return fmt("s%d = Set(Array<int>())", o.m);
		case ADD: return fmt("s%d << %d", o.m, keys[o.key]); case REMOVE: return fmt("s%d >> %d", o.m, keys[o.key]);
		case REMOVE_ALIAS: return fmt("s%d >> <the member %d stored inside s%d>", o.m, keys[o.key], o.m);
		case MERGE: return fmt("s%d << s%d", o.m, 1 - o.m); case CLONE_TO: return fmt("s%d = s%d.clone()", 1 - o.m, o.m);
		case FROM_UNION: return fmt("s%d = s%d + s%d", o.m, o.m, 1 - o.m); case FROM_INTER: return fmt("s%d = s%d & s%d", o.m, o.m, 1 - o.m); case FROM_DIFF: return fmt("s%d = s%d - s%d", o.m, o.m, 1 - o.m);
		case TO_UNION: return fmt("s%d = s%d + s%d", 1 - o.m, o.m, 1 - o.m); case TO_INTER: return fmt("s%d = s%d & s%d", 1 - o.m, o.m, 1 - o.m); case TO_DIFF: return fmt("s%d = s%d - s%d", 1 - o.m, o.m, 1 - o.m);
		}
		return "?";
	}
	// the result of a set operation is ASSIGNED to s<m> (operator= releases the previous table of the target)
	void replace(int m, const Set<int>& v, const std::set<int>& mv) { if (!ms[m]->empty()) vf::add(W_ASSIGN_OVER); *is[m] = v; *ms[m] = mv; }
	void chainPos(int m, int key) {
		Set<int>& I = *is[m];
		int bin = I.binOf(key), len = 0, at = -1, g = 0;
		for (Set<int>::Enumerator e = I.all(); e && g < 100000; ++e, ++g) if (I.binOf(*e) == bin) { if (*e == key) at = len; len++; }
		if (at == 0 && len > 1) vf::add(W_RM_HEAD); else if (at >= 0 && at == len - 1 && len > 1) vf::add(W_RM_TAIL); else if (at > 0 && len > 2) vf::add(W_RM_MID);
	}
	bool apply(int op, std::string& err) {
		const O& o = ops[op];
		if (isNew(o.k)) {
			ms[o.m] = new std::set<int>();
			switch (o.k) {
			case NEW0: is[o.m] = new Set<int>(0); break; case NEW1: is[o.m] = new Set<int>(1); break; case NEW3: is[o.m] = new Set<int>(3); break; case NEW4: is[o.m] = new Set<int>(4); break;
			case FROM_ARR0: { Array<int> a; is[o.m] = new Set<int>(a); vf::add(W_FROM_ARRAY); break; }
			default: is[o.m] = new Set<int>(); break;
			}
			return observe(err);
		}
		Set<int>& I = *is[o.m]; std::set<int>& M = *ms[o.m];
		int tbl = I.a.length();
		switch (o.k) {
		case ADD: I << keys[o.key]; M.insert(keys[o.key]); break;
		case REMOVE: { chainPos(o.m, keys[o.key]); int x = keys[o.key]; I >> x; M.erase(keys[o.key]); break; }
		case REMOVE_ALIAS: { // s >> *e : the argument is the member stored in the node that is being deleted
			bool found = false; int guard = 0;
			for (Set<int>::Enumerator e = I.all(); e && guard < 100000; ++e, ++guard) if (*e == keys[o.key]) { found = true; vf::add(W_ALIAS); chainPos(o.m, keys[o.key]); I >> *e; break; }
			if (!found) { err = fmt("member %d not reached by enumeration", keys[o.key]); return false; }
			M.erase(keys[o.key]);
			break; }
		case MERGE: I << *is[1 - o.m]; M.insert(ms[1 - o.m]->begin(), ms[1 - o.m]->end()); break;
		case CLONE_TO:
			if (is[1 - o.m]) { if (!ms[1 - o.m]->empty()) vf::add(W_ASSIGN_OVER); (HashMap<int, int>&)*is[1 - o.m] = I.clone(); *ms[1 - o.m] = M; }
			else { Set<int>* n = new Set<int>(); (HashMap<int, int>&)*n = I.clone(); is[1 - o.m] = n; ms[1 - o.m] = new std::set<int>(M); }
			break;
		case FROM_UNION: { std::set<int> r = M; r.insert(ms[1 - o.m]->begin(), ms[1 - o.m]->end()); replace(o.m, I + *is[1 - o.m], r); break; }
		case FROM_INTER: { std::set<int> r; for (std::set<int>::iterator it = M.begin(); it != M.end(); ++it) if (ms[1 - o.m]->count(*it)) r.insert(*it); replace(o.m, I & *is[1 - o.m], r); break; }
		case FROM_DIFF: { std::set<int> r; for (std::set<int>::iterator it = M.begin(); it != M.end(); ++it) if (!ms[1 - o.m]->count(*it)) r.insert(*it); replace(o.m, I - *is[1 - o.m], r); break; }
		case TO_UNION: { std::set<int> r = M; r.insert(ms[1 - o.m]->begin(), ms[1 - o.m]->end()); replace(1 - o.m, I + *is[1 - o.m], r); break; }
		case TO_INTER: { std::set<int> r; for (std::set<int>::iterator it = M.begin(); it != M.end(); ++it) if (ms[1 - o.m]->count(*it)) r.insert(*it); replace(1 - o.m, I & *is[1 - o.m], r); break; }
		case TO_DIFF: { std::set<int> r; for (std::set<int>::iterator it = M.begin(); it != M.end(); ++it) if (!ms[1 - o.m]->count(*it)) r.insert(*it); replace(1 - o.m, I - *is[1 - o.m], r); break; }
		default: break;
		}
		if ((o.k == ADD || o.k == MERGE) && is[o.m]->a.length() != tbl) vf::add(W_GROW);
		return observe(err);
	}
	bool observe(std::string& err) {
		for (int m = 0; m < 2; m++) if (is[m] && !checkSet(*is[m], *ms[m], keys, 5, m ? "s1" : "s0", err)) return false;
		if (is[0] && is[1]) {
			const Set<int>& A = *is[0]; const Set<int>& B = *is[1]; const std::set<int>& MA = *ms[0]; const std::set<int>& MB = *ms[1];
			bool eq = A == B, meq = MA == MB;
			if (meq && MA.size() >= 2) { if (A.a.length() != B.a.length()) vf::add(W_EQ_DIFF_SIZE); else { Array<int> x = A.array(), y = B.array(); if (!(x == y)) vf::add(W_EQ_DIFF_ORDER); } }
			if (eq != meq || (A != B) == meq) { err = fmt("s0 == s1 is %d, reference %d", (int)eq, (int)meq); return false; }
			std::set<int> u = MA, in, d;
			u.insert(MB.begin(), MB.end());
			bool all = true, any = false;
			for (std::set<int>::const_iterator it = MA.begin(); it != MA.end(); ++it) { if (MB.count(*it)) in.insert(*it); else d.insert(*it); }
			for (std::set<int>::const_iterator it = MB.begin(); it != MB.end(); ++it) { if (MA.count(*it)) any = true; else all = false; }
			if (!setIs(A + B, u)) { err = "s0 + s1 (union)"; return false; }
			if (!setIs(A & B, in)) { err = "s0 & s1 (intersection)"; return false; }
			if (!setIs(A - B, d)) { err = "s0 - s1 (difference)"; return false; }
			// a result is a new set: changing it must leave both operands as they were
			for (int which = 0; which < 6; which++) {
				const Set<int>& X = which < 3 ? A : B; const Set<int>& Y = which < 3 ? B : A;
				Set<int> r = which % 3 == 0 ? X + Y : which % 3 == 1 ? (X & Y) : X - Y;
				r << 777001; int gone = keys[0]; r >> gone;
				static const char* on[] = { "s0 + s1", "s0 & s1", "s0 - s1", "s1 + s0", "s1 & s0", "s1 - s0" };
				if (A.length() != (int)MA.size() || B.length() != (int)MB.size() || A.contains(777001) || B.contains(777001) || A.contains(keys[0]) != (MA.count(keys[0]) != 0) || B.contains(keys[0]) != (MB.count(keys[0]) != 0)) { err = fmt("modifying the result of %s changed an operand", on[which]); return false; }
			}
			if (A.contains(B) != all) { err = fmt("s0.contains(s1) = %d, reference %d", (int)A.contains(B), (int)all); return false; }
			if (A.containsAny(B) != any) { err = fmt("s0.containsAny(s1) = %d, reference %d", (int)A.containsAny(B), (int)any); return false; }
		}
		return true;
	}
	std::string canon() {
		std::string s;
		for (int m = 0; m < 2; m++) {
			if (!is[m]) { s += "-|"; continue; }
			Set<int>& I = *is[m];
			s += fmt("t%d:", I.a.length());
			int last = -1, g = 0;
			if (I.a.length() > ASL_HMAP_SKIP) for (Set<int>::Enumerator e = I.all(); e && g < 100000; ++e, ++g) { int b = I.binOf(*e); if (b != last) { if (last >= 0) s += "]"; s += "["; last = b; } s += ks(*e) + ","; }
			if (last >= 0) s += "]";
			s += "|";
		}
		return s;
	}
};

// =============================================================== flat exhaustive families
static std::vector<int> parseSeq(const std::string& s) { std::vector<int> r; size_t i = 0; while (i < s.size()) { size_t j = s.find('.', i); if (j == std::string::npos) j = s.size(); r.push_back(atoi(s.substr(i, j - i).c_str())); i = j + 1; } return r; }
static std::string seqStr(const std::vector<int>& q) { std::string s; for (size_t i = 0; i < q.size(); i++) s += fmt(i ? ".%d" : "%d", q[i]); return s; }
// all sequences of length 0..L over an alphabet of A symbols (distinct = without repetition)
static void genSeqs(std::vector<std::vector<int> >& out, std::vector<int>& cur, int A, int L, bool distinct) {
	out.push_back(cur);
	if ((int)cur.size() == L) return;
	for (int a = 0; a < A; a++) { if (distinct && std::find(cur.begin(), cur.end(), a) != cur.end()) continue; cur.push_back(a); genSeqs(out, cur, A, L, distinct); cur.pop_back(); }
}

struct Flat {
	std::string label;
	std::vector<std::string> cases; // case string = label + ":" + spec
	std::function<bool(const std::string& spec, std::string& err)> body;
	std::function<std::string(const std::string& spec)> describe;
	int c_cases, c_leak;
	std::string sub, sigx; // set by a body that runs a group of sub-cases: the failing sub-case (itself a valid spec) and its signature
	Flat(const std::string& l) : label(l) { c_cases = vf::counter((l + ".cases").c_str()); c_leak = vf::counter((l + ".leak_checks").c_str()); }
	bool one(const std::string& spec, bool report = true, bool retry = false) {
		std::string kase = label + ":" + spec, err, sig, desc; err.reserve(1024); sig.reserve(64); desc.reserve(2048);
		vf::cur(kase); vf::asan_clear();
		uint64_t base = vf::heap_bytes();
		sub.clear(); sigx.clear();
		bool ok = body(spec, err);
		if (!ok) { sig = "diverge"; desc = err; }
		if (vf::asan_tripped()) { sig = "asan"; desc = "ASan " + vf::asan_what() + (err.empty() ? "" : "; " + err); ok = false; }
		if (!ok && !sigx.empty()) sig = sigx;
		if (!ok && !sub.empty()) { std::string full = sub; kase = label + ":" + full; if (report) vf::violation(sig, desc + "  case: " + describe(full), kase); vf::add(c_cases); vf::asan_clear(); return false; }
		if (ok && vf::have_asan()) {
			uint64_t after = vf::heap_bytes();
			if (after != base && !retry) return one(spec, report, true); // lazily built statics allocate once: only a delta that repeats is a leak
			vf::add(c_leak);
			if (after != base) { ok = false; sig = "leak"; desc = fmt("allocated bytes %+lld after dropping everything", (long long)(after - base)); }
		}
		vf::add(c_cases);
		if (!ok && report) vf::violation(sig, desc + "  case: " + describe(spec), kase);
		vf::asan_clear();
		return ok;
	}
	void run() {
		vf::parallel(cases.size(), [&](uint64_t i) { one(cases[i]); }, 64);
	}
};

static int W_B_UNSORTED, W_B_DUP, W_B_FAMILY[16], W_SZ_ZERO, W_SZ_NONPOT, W_SZ_GROWN, W_G_GROWN1, W_G_GROWN2, W_G_CHAIN3, W_G_RMCLONE;

// ---- build: every sequence of (key, value) pairs through every constructor / initialiser entry point
static KeyList<int> BK_I; static KeyList<String> BK_S;
static const char* BUILDERS[] = { "map.initlist", "map.ctor_kv_then_call", "map.reserve_then_set", "map.converting_ctor", "dic.initlist", "dic.ctor_kv_then_call", "dic.assign_initlist", "dic.from_map", "dic.from_dic_other_value_type",
	"set.initlist", "set.from_array", "set.shift_chain", "set.from_own_array_conversion" };
enum { NBUILD = 13 };
template <class C, class E> static C fromList(const std::vector<E>& e) {
	switch (e.size()) {
	case 0: { std::initializer_list<E> il = {}; return C(il); }
	case 1: { std::initializer_list<E> il = { e[0] }; return C(il); }
	case 2: { std::initializer_list<E> il = { e[0], e[1] }; return C(il); }
	case 3: { std::initializer_list<E> il = { e[0], e[1], e[2] }; return C(il); }
	case 4: { std::initializer_list<E> il = { e[0], e[1], e[2], e[3] }; return C(il); }
	default: { std::initializer_list<E> il = { e[0], e[1], e[2], e[3], e[4] }; return C(il); }
	}
}
static bool buildCase(const std::string& spec, std::string& err) {
	size_t sl = spec.find('/');
	int b = atoi(spec.c_str());
	std::vector<int> q = parseSeq(spec.substr(sl + 1));
	int n = (int)q.size();
	if (b < 0 || b >= NBUILD || n > 5 || (n == 0 && (b == 1 || b == 5))) { err = "bad case"; return false; }
	for (int i = 0; i < n; i++) if (q[i] < 0 || q[i] >= BK_I.n()) { err = "bad case"; return false; }
	vf::add(W_B_FAMILY[b]);
	{ bool dup = false, uns = false; for (int i = 0; i < n; i++) for (int j = i + 1; j < n; j++) { if (q[i] == q[j]) dup = true; } for (int i = 0; i + 1 < n; i++) if (BK_I.k[q[i]] > BK_I.k[q[i + 1]]) uns = true; if (dup) vf::add(W_B_DUP); if (uns) vf::add(W_B_UNSORTED); }
	Ref M; std::set<int> MS;
	if (b < 4) { // Map<int,int>; values 1..n in list order, the latest value of a repeated key wins
		for (int i = 0; i < n; i++) M[BK_I.s[q[i]]] = i + 1;
		typedef Map<int, int>::KeyVal KV;
		Map<int, int> m;
		if (b == 0) { std::vector<KV> e; for (int i = 0; i < n; i++) e.push_back(KV(BK_I.k[q[i]], i + 1)); m = fromList<Map<int, int>, KV>(e); }
		else if (b == 1) { Map<int, int> t(BK_I.k[q[0]], 1); for (int i = 1; i < n; i++) t(BK_I.k[q[i]], i + 1); m = t; }
		else if (b == 2) { m.reserve(n); for (int i = 0; i < n; i++) m.set(BK_I.k[q[i]], i + 1); }
		else { Map<long, long> src; for (int i = 0; i < n; i++) src[(long)BK_I.k[q[i]]] = i + 1; Map<int, int> t(src); m = t; }
		return checkMap<int, int, Map<int, int> >(m, M, BK_I, BUILDERS[b], err);
	}
	if (b < 9) { // Dic<String> (the library's default Dic<>), heap-represented values
		for (int i = 0; i < n; i++) M[BK_S.s[q[i]]] = i + 1;
		typedef Map<String, String>::KeyVal KV;
		Dic<String> d;
		if (b == 4) { std::vector<KV> e; for (int i = 0; i < n; i++) e.push_back(KV(BK_S.k[q[i]], VT<String>::val(i + 1))); d = fromList<Dic<String>, KV>(e); }
		else if (b == 5) { Dic<String> t(BK_S.k[q[0]], VT<String>::val(1)); for (int i = 1; i < n; i++) t(BK_S.k[q[i]], VT<String>::val(i + 1)); d = t; }
		else if (b == 6) {
			typedef Dic<String>::KV E;
			d["stale"] = "x"; // the assignment must replace the previous contents
			std::vector<E> e; for (int i = 0; i < n; i++) { E x = { *BK_S.k[q[i]], VT<String>::val(i + 1) }; e.push_back(x); }
			switch (n) {
			case 0: { std::initializer_list<E> il = {}; d = il; break; } case 1: { std::initializer_list<E> il = { e[0] }; d = il; break; } case 2: { std::initializer_list<E> il = { e[0], e[1] }; d = il; break; }
			case 3: { std::initializer_list<E> il = { e[0], e[1], e[2] }; d = il; break; } case 4: { std::initializer_list<E> il = { e[0], e[1], e[2], e[3] }; d = il; break; } default: { std::initializer_list<E> il = { e[0], e[1], e[2], e[3], e[4] }; d = il; break; }
			}
		}
		else if (b == 7) { Map<String, String> src; for (int i = 0; i < n; i++) src[BK_S.k[q[i]]] = VT<String>::val(i + 1); Dic<String> t(src); d = t; }
		else { Dic<const char*> src; for (int i = 0; i < n; i++) src[BK_S.k[q[i]]] = *VT<String>::val(i + 1); Dic<String> t(src); d = t; }
		return checkMap<String, String, Dic<String> >(d, M, BK_S, BUILDERS[b], err);
	}
	for (int i = 0; i < n; i++) MS.insert(BK_I.k[q[i]]);
	Set<int> s;
	if (b == 9) { std::vector<int> e; for (int i = 0; i < n; i++) e.push_back(BK_I.k[q[i]]); s = fromList<Set<int>, int>(e); }
	else if (b == 10) { Array<int> a; for (int i = 0; i < n; i++) a << BK_I.k[q[i]]; Set<int> t(a); s = t; }
	else if (b == 11) { Set<int> t; for (int i = 0; i < n; i++) t << BK_I.k[q[i]]; s = t; }
	else { Set<int> t; for (int i = 0; i < n; i++) t << BK_I.k[q[i]]; Array<int> a = t; Set<int> u(a); s = u; if (!(s == t) || s != t) { err = "Set(Array(s)) == s"; return false; } }
	return checkSet(s, MS, &BK_I.k[0], BK_I.n(), BUILDERS[b], err);
}
static std::string buildDescribe(const std::string& spec) {
	int b = atoi(spec.c_str()); std::vector<int> q = parseSeq(spec.substr(spec.find('/') + 1));
	std::string s = std::string(b >= 0 && b < NBUILD ? BUILDERS[b] : "?") + " with the list {";
	for (size_t i = 0; i < q.size(); i++) s += (i ? ", " : "") + (b >= 4 && b < 9 ? "\"" + BK_S.s[q[i]] + "\"" : BK_I.s[q[i]]) + (b < 9 ? fmt(": value #%d", (int)i + 1) : std::string());
	return s + "}";
}

// ---- sizes: every table-size argument n of HashMap(n) / HashDic(n) / Set(n)
static KeyList<int> HK_I; static KeyList<String> HK_S;
template <class K, class V, class C>
static bool sizesHash(int n, const KeyList<K>& keys, const char* nm, std::string& err) {
	C h(n); Ref M;
	if (!checkHash<K, V, C>(h, M, keys, nm, err)) return false;
	int t0 = h.a.length();
	for (int k = 0; k < keys.n(); k++) { h[keys.k[k]] = VT<V>::val(k % 3); M[keys.s[k]] = k % 3; if (!checkHash<K, V, C>(h, M, keys, nm, err)) { err += fmt(" after %d insertions", k + 1); return false; } }
	if (n <= 64) for (int i = 0; i < n + 3; i++) { h[KT<K>::fillkey(i)] = VT<V>::val(1); M[ks(KT<K>::fillkey(i))] = 1; } // enough to cross the growth threshold of the table asked for
	if (h.a.length() != t0) vf::add(W_SZ_GROWN);
	if (!checkHash<K, V, C>(h, M, keys, nm, err)) { err += " after the fill"; return false; }
	C c = h.clone();
	h.remove(keys.k[0]); h.remove(keys.k[3]); Ref M2 = M; M2.erase(keys.s[0]); M2.erase(keys.s[3]);
	if (!checkHash<K, V, C>(h, M2, keys, nm, err)) { err += " after two removals"; return false; }
	if (!checkHash<K, V, C>(c, M, keys, "clone", err)) return false;
	if (c == h || !(c != h)) { err = "clone == original after removals from the original"; return false; }
	return true;
}
static bool sizesCase(const std::string& spec, std::string& err) {
	size_t sl = spec.find('/');
	int f = atoi(spec.c_str()), n = atoi(spec.substr(sl + 1).c_str());
	if (n == 0) vf::add(W_SZ_ZERO);
	if (n & (n - 1)) vf::add(W_SZ_NONPOT);
	if (f == 0) return sizesHash<int, int, HashMap<int, int> >(n, HK_I, fmt("HashMap<int,int>(%d)", n).c_str(), err);
	if (f == 1) return sizesHash<String, String, HashDic<String> >(n, HK_S, fmt("HashDic<String>(%d)", n).c_str(), err);
	Set<int> s(n); std::set<int> M;
	std::string nm = fmt("Set<int>(%d)", n);
	if (!checkSet(s, M, &HK_I.k[0], HK_I.n(), nm.c_str(), err)) return false;
	int t0 = s.a.length();
	for (int k = 0; k < HK_I.n(); k++) { s << HK_I.k[k]; M.insert(HK_I.k[k]); if (!checkSet(s, M, &HK_I.k[0], HK_I.n(), nm.c_str(), err)) { err += fmt(" after %d insertions", k + 1); return false; } }
	if (n <= 64) for (int i = 0; i < n + 3; i++) { s << 1000 + i; M.insert(1000 + i); }
	if (s.a.length() != t0) vf::add(W_SZ_GROWN);
	if (!checkSet(s, M, &HK_I.k[0], HK_I.n(), nm.c_str(), err)) { err += " after the fill"; return false; }
	int x = HK_I.k[0]; s >> x; M.erase(x);
	return checkSet(s, M, &HK_I.k[0], HK_I.n(), nm.c_str(), err);
}
static std::string sizesDescribe(const std::string& spec) {
	int f = atoi(spec.c_str()), n = atoi(spec.substr(spec.find('/') + 1).c_str());
	return fmt("%s(%d): empty lookups, insert the probe keys one by one, fill across the growth threshold, clone, remove", f == 0 ? "HashMap<int,int>" : f == 1 ? "HashDic<String>" : "Set<int>", n);
}

// ---- grow: every insertion order of keys that share buckets, from HashMap(1) through two table growths (1 -> 8 -> 64 bins in the
// library as it stands; the growths are observed, not assumed)
// bins of 8: {1,9,65,73,-63,17,193}->1, {2,10}->2 ; bins of 64: {1,65,-63,193}->1, {9,73}->9, 17, 2, 10
static KeyList<int> GK;
static bool growCase(const std::string& spec, std::string& err) {
	std::vector<int> q = parseSeq(spec);
	int n = (int)q.size(), N = GK.n();
	HashMap<int, int> h(1); Ref M;
	int grown = 0, t = h.a.length();
	for (int i = 0; i < n; i++) { if (q[i] < 0 || q[i] >= N) { err = "bad case"; return false; } h[GK.k[q[i]]] = 1 + i % 3; M[GK.s[q[i]]] = 1 + i % 3; if (h.a.length() != t) { grown++; t = h.a.length(); } }
	if (grown == 1) vf::add(W_G_GROWN1);
	if (!checkHash<int, int, HashMap<int, int> >(h, M, GK, "h", err)) return false;
	if (n < 8) return true;
	// with 8 entries in 8 bins the next non-const lookup grows the table a second time (library as it stands)
	int r = h[GK.k[q[0]]];
	if (r != 1) { err = fmt("h[%s] = %d after the second growth, reference 1", GK.s[q[0]].c_str(), r); return false; }
	if (h.a.length() == t && grown < 2) { h[777001] = 5; h.remove(777001); } // a library that grows only when a NEW key arrives: let one arrive (and go)
	if (h.a.length() != t) { grown++; t = h.a.length(); }
	if (grown >= 2) vf::add(W_G_GROWN2);
	if (grown >= 2) { int mx = 0; for (int i = 0; i < N; i++) { int c = 0; for (int j = 0; j < N; j++) if (h.binOf(GK.k[j]) == h.binOf(GK.k[i])) c++; if (c > mx) mx = c; } if (mx >= 3) vf::add(W_G_CHAIN3); }
	if (!checkHash<int, int, HashMap<int, int> >(h, M, GK, "h (after the second growth)", err)) return false;
	if (n < N) return true;
	for (int j = 0; j < N; j++) { // every single removal from an independent copy of the grown table
		HashMap<int, int> c = h.clone();
		c.remove(GK.k[j]);
		Ref M2 = M; M2.erase(GK.s[j]);
		vf::add(W_G_RMCLONE);
		if (!checkHash<int, int, HashMap<int, int> >(c, M2, GK, "clone", err)) { err += fmt(" after clone.remove(%s)", GK.s[j].c_str()); return false; }
		if (c == h) { err = "clone == h after a removal from the clone"; return false; }
		c[GK.k[j]] = M[GK.s[j]]; // same contents again, other chain order
		if (!(c == h) || c != h) { err = fmt("clone != h after removing and re-inserting %s", GK.s[j].c_str()); return false; }
	}
	return checkHash<int, int, HashMap<int, int> >(h, M, GK, "h (after work on its clones)", err);
}
static std::string growDescribe(const std::string& spec) {
	std::vector<int> q = parseSeq(spec); std::string s = "HashMap<int,int> h(1); insert in this order:";
	for (size_t i = 0; i < q.size(); i++) s += " " + (q[i] >= 0 && q[i] < GK.n() ? GK.s[q[i]] : std::string("?"));
	return s + (q.size() >= 8 ? " ; lookup ; clone and remove each key" : "");
}

// ---- alias: every call whose key or value argument is a reference INTO the container that the call modifies.
// The library takes keys and values by const reference; an insertion into an ordered map shifts the entries and may move the
// block, a hash-table growth relinks the nodes: the argument must be read (or followed) correctly all the same, and the result
// must be the finite map obtained with a copy of the argument taken before the call.
// kind: 0 Map<int,int>  1 Dic<String>  2 HashMap<int,int>  3 HashDic<String>  4 Set<int>
// Every element of the universe U serves as key and as value: the entry with key U[i] is created with the value U[(i+1) % n].
// spec = kind/variant/seq           : the state built by inserting the keys seq (distinct, every order), then EVERY applicable (op, a, b)
//        kind/variant/seq/op/a/b    : one of them
//   a = key argument: 0..n-1 an external copy of U[a]; n..2n-1 the key U[a-n] stored in the container (by reference);
//       2n..3n-1 the VALUE stored under U[a-2n] (by reference; it names the key U[(a-2n+1) % n])
//   b = value argument of set()/operator(): 0 an external value; 1..n the value stored under U[b-1] (by reference);
//       n+1..2n the KEY U[b-n-1] stored in the container (by reference)
static KeyList<int> AU_MI, AU_HI, AU_SI; static KeyList<String> AU_DS, AU_HS;
static const char* AKIND[] = { "Map<int,int>", "Dic<String>", "HashMap<int,int>", "HashDic<String>", "Set<int>" };
enum AOp { A_SET, A_CALL, A_INDEX_ASSIGN, A_INDEX_READ, A_REMOVE, A_SELF_ADD, A_SELF_ASSIGN, A_SELF_CLONE, A_SELF_UNION, A_SELF_INTER, A_SELF_DIFF, A_INITLIST_OWN, A_NOPS };
static const char* AOPN[] = { "c.set(K, V)", "c(K, V)", "c[K] = external value", "read c[K] (non-const)", "c.remove(K)", "c.add(c) / s << s", "c = c", "c = c.clone()", "s = s + s", "s = s & s", "s = s - s", "d = { {K, V} } (initializer list of references)" };
static int W_A_SUB[5], W_A_VREF_BEFORE, W_A_VREF_AFTER, W_A_VREF_FULL, W_A_VREF_OVER, W_A_VREF_OWN, W_A_VKEY, W_A_KVAL_INS, W_A_KVAL_OVER, W_A_KKEY, W_A_HGROW, W_A_HGROW_FILL, W_A_SELF, W_A_INITLIST, W_A_SET_ATFULL;
struct Flat; static Flat* FA;
static void aliasFail(const std::string& subspec, const char* sig);

static int numOf(int v) { return v; }
static int numOf(const String& v) { return VT<String>::num(v); }
template <class K, class C> static const K* storedKey(C& I, const K& k) { int g = 0; for (typename C::Enumerator e = I.all(); e && g < 100000; ++e, ++g) if (sameKey(~e, k)) return &~e; return 0; }

// d = { {key, <reference to a value of d>}, ... }: only Dic has an initializer list of references
template <class C, class KL> static bool initlistOwn(C&, Ref&, const KL&, int, int, std::string&) { return true; }
static bool initlistOwn(Dic<String>& d, Ref& M, const KeyList<String>& U, int a, int b, std::string&) {
	typedef Dic<String>::KV E;
	int n = U.n();
	std::vector<E> e; Ref R;
	if (a < n) { E x = { *U.k[a], *d.find(U.k[b - 1]) }; e.push_back(x); R[U.s[a]] = M[U.s[b - 1]]; } // one pair: the value of another (or the same) entry under the key U[a]
	else for (int i = 0; i < n; i++) { String* p = d.find(U.k[i]); if (p) { E x = { *U.k[i], *p }; e.push_back(x); R[U.s[i]] = M[U.s[i]]; } } // the whole dictionary assigned to itself, pair by pair
	switch (e.size()) {
	case 1: { std::initializer_list<E> il = { e[0] }; d = il; break; } case 2: { std::initializer_list<E> il = { e[0], e[1] }; d = il; break; } case 3: { std::initializer_list<E> il = { e[0], e[1], e[2] }; d = il; break; }
	case 4: { std::initializer_list<E> il = { e[0], e[1], e[2], e[3] }; d = il; break; } default: { std::initializer_list<E> il = { e[0], e[1], e[2], e[3], e[4] }; d = il; break; }
	}
	M = R;
	return true;
}

template <class K, class V, class C> struct AOrdered {
	enum { ORDERED = 1, NVAR = 2 };
	static C* make(int v) { C* c = new C(); if (v == 1) c->reserve(16); return c; }
	static void finish(C&, Ref&, int, int) {}
	static bool check(C& I, const Ref& M, const KeyList<K>& U, const char* nm, std::string& err) { return checkMap<K, V, C>(I, M, U, nm, err); }
	static bool remove(C& I, const K& k, bool expect, std::string& err) { bool r = I.remove(k); if (r != expect) { err = "remove() return value"; return false; } return true; }
	static void call(C& I, const K& k, const V& v) { I(k, v); }
	static void selfAdd(C& I) { C& r = I; I.add(r); }
	static int shape(C& I) { return I.kv().cap(); }
	static bool full(C& I) { return I.length() == I.kv().cap(); }
};
template <class K, class V, class C> struct AHashed {
	enum { ORDERED = 0, NVAR = 5 };
	static C* make(int v) { return v < 3 ? new C(1 << v) : new C(); }
	static void finish(C& I, Ref& M, int v, int have) { if (v == 4) for (int i = 0; i < HashPolicy<K, V, C>::fullAt() - have; i++) { I[KT<K>::fillkey(i)] = VT<V>::val(1); M[ks(KT<K>::fillkey(i))] = 1; } } // the next non-const lookup regrows the table
	static bool check(C& I, const Ref& M, const KeyList<K>& U, const char* nm, std::string& err) { return checkHash<K, V, C>(I, M, U, nm, err); }
	static bool remove(C& I, const K& k, bool, std::string&) { I.remove(k); return true; }
	static void call(C&, const K&, const V&) {}
	static void selfAdd(C&) {}
	static int shape(C& I) { return I.a.length(); }
	static bool full(C&) { return false; } // (asked of the ordered kinds only)
};
static const char* avariant(int kind, int v) {
	static const char* o[] = { "default capacity (3, doubling)", "reserve(16) first (no reallocation)" };
	static const char* h[] = { "table of 1 bin", "table of 2 bins", "table of 4 bins", "default table", "default table filled to its growth threshold (225 entries in the library as it stands: the next non-const lookup regrows it)" };
	return kind < 2 ? o[v & 1] : h[v % 5];
}

// one sub-case; applicable = false (and true returned) when the sources named by a/b do not exist in this state or the op does not take them
template <class K, class V, class C, class X>
static bool aliasSub(int kind, int variant, const std::vector<int>& q, int op, int a, int b, const KeyList<K>& U, bool& applicable, std::string& err) {
	int n = U.n(), len = (int)q.size();
	applicable = false;
	bool present[8] = { false, false, false, false, false, false, false, false };
	for (int j = 0; j < len; j++) present[q[j]] = true;
	int ki = -1;
	if (op <= A_REMOVE) {
		if (a < 0 || a >= 3 * n) return true;
		if (a < n) ki = a; else if (a < 2 * n) { if (!present[a - n]) return true; ki = a - n; } else { if (!present[a - 2 * n]) return true; ki = (a - 2 * n + 1) % n; }
		if (op == A_SET || op == A_CALL) { if (b < 0 || b > 2 * n || (b > 0 && !present[(b - 1) % n])) return true; } else if (b != 0) return true;
		if (op == A_CALL && !X::ORDERED) return true;
	}
	else if (op == A_INITLIST_OWN) { if (kind != 1 || a < 0 || a > n || (a < n ? (b < 1 || b > n || !present[b - 1]) : (b != 0 || len == 0))) return true; }
	else { if (a != 0 || b != 0 || op >= A_SELF_UNION || (op == A_SELF_ADD && !X::ORDERED)) return true; }
	applicable = true;
	vf::add(W_A_SUB[kind]);

	C* holder = X::make(variant); C& I = *holder; Ref M;
	struct Del { C* p; ~Del() { delete p; } } del = { holder };
	for (int j = 0; j < len; j++) { int i = q[j]; V v = U.k[(i + 1) % n]; I[U.k[i]] = v; M[U.s[i]] = numOf(U.k[(i + 1) % n]); }
	X::finish(I, M, variant, len);

	K kext = K(); V vext = VT<V>::val(7);
	const K* kp = 0; const V* vp = 0; int vnum = 7;
	if (op <= A_REMOVE) {
		if (a < n) { kext = U.k[a]; kp = &kext; } else if (a < 2 * n) kp = storedKey<K, C>(I, U.k[a - n]); else kp = I.find(U.k[a - 2 * n]); // K and V are the same type
		if (!kp) { err = "harness: the source of the key argument was not found"; return false; }
	}
	if (op == A_SET || op == A_CALL) {
		if (b == 0) vp = &vext; else if (b <= n) { vp = I.find(U.k[b - 1]); vnum = M[U.s[b - 1]]; } else { vp = storedKey<K, C>(I, U.k[b - n - 1]); vnum = numOf(U.k[b - n - 1]); }
		if (!vp) { err = "harness: the source of the value argument was not found"; return false; }
	}
	bool aliased = a >= n || b > 0, absent = ki >= 0 && !present[ki], full = X::full(I);
	int shape0 = X::shape(I);
	if (op == A_SET || op == A_CALL) {
		if (b >= 1 && b <= n) {
			if (!absent) { vf::add(W_A_VREF_OVER); if (b - 1 == ki) vf::add(W_A_VREF_OWN); }
			else if (X::ORDERED) { vf::add(nativeLess(U.k[ki], U.k[b - 1]) ? W_A_VREF_BEFORE : W_A_VREF_AFTER); if (full) vf::add(W_A_VREF_FULL); }
		}
		if (b > n) vf::add(W_A_VKEY);
	}
	if (op <= A_REMOVE && a >= 2 * n) vf::add(absent && op != A_REMOVE ? W_A_KVAL_INS : W_A_KVAL_OVER);
	if (op <= A_REMOVE && a >= n && a < 2 * n) vf::add(W_A_KKEY);

	switch (op) {
	case A_SET: I.set(*kp, *vp); M[U.s[ki]] = vnum; break;
	case A_CALL: X::call(I, *kp, *vp); M[U.s[ki]] = vnum; break;
	case A_INDEX_ASSIGN: I[*kp] = vext; M[U.s[ki]] = 7; break;
	case A_INDEX_READ: { int e = M[U.s[ki]]; int r = numOf(I[*kp]); if (r != e) { err = fmt("c[K] = value #%d, reference #%d", r, e); return false; } break; }
	case A_REMOVE: { bool e = M.erase(U.s[ki]) != 0; if (!X::remove(I, *kp, e, err)) return false; break; }
	case A_SELF_ADD: vf::add(W_A_SELF); X::selfAdd(I); break;
	case A_SELF_ASSIGN: { vf::add(W_A_SELF); C& r = I; I = r; break; }
	case A_SELF_CLONE: vf::add(W_A_SELF); I = I.clone(); break;
	case A_INITLIST_OWN: vf::add(W_A_INITLIST); initlistOwn(I, M, U, a, b, err); break;
	default: break;
	}
	if (!X::ORDERED && aliased && X::shape(I) != shape0) vf::add(variant == 4 ? W_A_HGROW_FILL : W_A_HGROW);
	return X::check(I, M, U, "c", err);
}

static bool aliasSubSet(int variant, const std::vector<int>& q, int op, int a, int b, bool& applicable, std::string& err) {
	const KeyList<int>& U = AU_SI;
	int n = U.n(), len = (int)q.size();
	applicable = false;
	bool present[8] = { false, false, false, false, false, false, false, false };
	for (int j = 0; j < len; j++) present[q[j]] = true;
	if (b != 0) return true;
	if (op == A_SET || op == A_REMOVE) { if (a < 0 || a >= 2 * n || (a >= n && !present[a - n])) return true; }
	else if (op == A_SELF_ADD || (op >= A_SELF_ASSIGN && op <= A_SELF_DIFF)) { if (a != 0) return true; }
	else return true;
	applicable = true;
	vf::add(W_A_SUB[4]);
	Set<int>* holder = variant < 3 ? new Set<int>(1 << variant) : new Set<int>();
	struct Del { Set<int>* p; ~Del() { delete p; } } del = { holder };
	Set<int>& s = *holder; std::set<int> M;
	for (int j = 0; j < len; j++) { s << U.k[q[j]]; M.insert(U.k[q[j]]); }
	if (variant == 4) for (int i = 0; i < HashPolicy<int, int, HashMap<int, int> >::fullAt() - len; i++) { s << 1000 + i; M.insert(1000 + i); }
	int shape0 = s.a.length();
	int ext = a < n ? U.k[a] : 0; int* mp = &ext;
	if ((op == A_SET || op == A_REMOVE) && a >= n) { mp = 0; int g = 0; for (Set<int>::Enumerator e = s.all(); e && g < 100000; ++e, ++g) if (*e == U.k[a - n]) { mp = &*e; break; } if (!mp) { err = "harness: member not reached by enumeration"; return false; } vf::add(W_A_KKEY); }
	Set<int>& r = s;
	switch (op) {
	case A_SET: if (a >= n && variant == 4) vf::add(W_A_SET_ATFULL); M.insert(*mp); s << *mp; break; // s << <member stored in s>: nothing to insert, but the lookup may regrow the table
	case A_REMOVE: M.erase(*mp); s >> *mp; break;
	case A_SELF_ADD: vf::add(W_A_SELF); s << r; break;
	case A_SELF_ASSIGN: vf::add(W_A_SELF); s = r; break;
	case A_SELF_CLONE: vf::add(W_A_SELF); (HashMap<int, int>&)s = s.clone(); break;
	case A_SELF_UNION: vf::add(W_A_SELF); s = s + r; break;
	case A_SELF_INTER: vf::add(W_A_SELF); s = s & r; break;
	case A_SELF_DIFF: vf::add(W_A_SELF); s = s - r; M.clear(); break;
	default: break;
	}
	(void)shape0;
	if (!s.contains(r) || s.containsAny(r) != !M.empty() || !(s == r) || s != r) { err = "s.contains(s) / s.containsAny(s) / s == s"; return false; }
	std::vector<int> probe; for (int i = 0; i < n; i++) probe.push_back(U.k[i]);
	return checkSet(s, M, &probe[0], n, "s", err);
}

static bool aliasOne(int kind, int variant, const std::vector<int>& q, int op, int a, int b, bool& applicable, std::string& err) {
	switch (kind) {
	case 0: return aliasSub<int, int, Map<int, int>, AOrdered<int, int, Map<int, int> > >(kind, variant, q, op, a, b, AU_MI, applicable, err);
	case 1: return aliasSub<String, String, Dic<String>, AOrdered<String, String, Dic<String> > >(kind, variant, q, op, a, b, AU_DS, applicable, err);
	case 2: return aliasSub<int, int, HashMap<int, int>, AHashed<int, int, HashMap<int, int> > >(kind, variant, q, op, a, b, AU_HI, applicable, err);
	case 3: return aliasSub<String, String, HashDic<String>, AHashed<String, String, HashDic<String> > >(kind, variant, q, op, a, b, AU_HS, applicable, err);
	default: return aliasSubSet(variant, q, op, a, b, applicable, err);
	}
}
static std::vector<std::string> splitSlash(const std::string& s) { std::vector<std::string> r; size_t i = 0; for (;;) { size_t j = s.find('/', i); if (j == std::string::npos) { r.push_back(s.substr(i)); break; } r.push_back(s.substr(i, j - i)); i = j + 1; } return r; }
static int aliasN(int kind) { return kind == 0 ? AU_MI.n() : kind == 1 ? AU_DS.n() : kind == 2 ? AU_HI.n() : kind == 3 ? AU_HS.n() : AU_SI.n(); }
static bool aliasCase(const std::string& spec, std::string& err) {
	std::vector<std::string> f = splitSlash(spec);
	if (f.size() != 3 && f.size() != 6) { err = "bad case"; return false; }
	int kind = atoi(f[0].c_str()), variant = atoi(f[1].c_str());
	std::vector<int> q = parseSeq(f[2]);
	if (kind < 0 || kind > 4 || variant < 0 || variant >= (kind < 2 ? 2 : 5) || q.size() > 5) { err = "bad case"; return false; }
	int n = aliasN(kind);
	for (size_t i = 0; i < q.size(); i++) { if (q[i] < 0 || q[i] >= n) { err = "bad case"; return false; } for (size_t j = 0; j < i; j++) if (q[j] == q[i]) { err = "bad case"; return false; } }
	bool applicable;
	if (f.size() == 6) {
		int op = atoi(f[3].c_str()), a = atoi(f[4].c_str()), b = atoi(f[5].c_str());
		if (op < 0 || op >= A_NOPS) { err = "bad case"; return false; }
		bool ok = aliasOne(kind, variant, q, op, a, b, applicable, err);
		if (ok && !applicable) { err = "bad case: this (op, a, b) does not apply to this state"; return false; }
		if (!ok || vf::asan_tripped()) aliasFail(spec, op == A_INITLIST_OWN ? "dic_assign_initlist_own_values" : "");
		return ok;
	}
	for (int op = 0; op < A_NOPS; op++) for (int a = 0; a <= 3 * n; a++) for (int b = 0; b <= 2 * n; b++) {
		if (op > A_REMOVE && op != A_INITLIST_OWN && (a || b)) continue;
		bool ok = aliasOne(kind, variant, q, op, a, b, applicable, err);
		if (!ok || vf::asan_tripped()) { aliasFail(spec + fmt("/%d/%d/%d", op, a, b), op == A_INITLIST_OWN ? "dic_assign_initlist_own_values" : ""); return false; }
	}
	return true;
}
static std::string aliasArgK(const std::string& name, int a, int n, const std::vector<std::string>& us) {
	if (a < n) return us[a];
	if (a < 2 * n) return "<the key " + us[a - n] + " stored inside " + name + ">";
	return "<the value stored inside " + name + " under " + us[a - 2 * n] + " (it equals " + us[(a - 2 * n + 1) % n] + ")>";
}
static std::string aliasDescribe(const std::string& spec) {
	std::vector<std::string> f = splitSlash(spec);
	if (f.size() < 3) return "?";
	int kind = atoi(f[0].c_str()), variant = atoi(f[1].c_str());
	if (kind < 0 || kind > 4) return "?";
	std::vector<int> q = parseSeq(f[2]);
	int n = aliasN(kind);
	std::vector<std::string> us; for (int i = 0; i < n; i++) { std::string x = kind == 0 ? AU_MI.s[i] : kind == 1 ? AU_DS.s[i] : kind == 2 ? AU_HI.s[i] : kind == 3 ? AU_HS.s[i] : AU_SI.s[i]; us.push_back(kind == 1 || kind == 3 ? "\"" + x + "\"" : x); }
	std::string s = std::string(AKIND[kind]) + " c, " + avariant(kind, variant) + "; ";
	for (size_t i = 0; i < q.size(); i++) { if (q[i] < 0 || q[i] >= n) return "?"; s += kind == 4 ? "c << " + us[q[i]] + "; " : "c[" + us[q[i]] + "] = " + us[(q[i] + 1) % n] + "; "; }
	if (f.size() < 6) return s + "then every call with an argument that refers into c";
	int op = atoi(f[3].c_str()), a = atoi(f[4].c_str()), b = atoi(f[5].c_str());
	if (op < 0 || op >= A_NOPS || a < 0 || a > 3 * n || b < 0 || b > 2 * n) return s + "?";
	std::string K = aliasArgK("c", a, n, us), V = b == 0 ? std::string("<external value>") : b <= n ? "<the value stored inside c under " + us[b - 1] + ">" : "<the key " + us[b - n - 1] + " stored inside c>";
	if (kind == 4) return s + (op == A_SET ? "c << " + K : op == A_REMOVE ? "c >> " + K : std::string(AOPN[op]) + " with s = c");
	switch (op) {
	case A_SET: return s + "c.set(" + K + ", " + V + ")";
	case A_CALL: return s + "c(" + K + ", " + V + ")";
	case A_INDEX_ASSIGN: return s + "c[" + K + "] = <external value>";
	case A_INDEX_READ: return s + "read c[" + K + "] (non-const)";
	case A_REMOVE: return s + "c.remove(" + K + ")";
	case A_INITLIST_OWN: return s + (a < n ? "c = { {" + us[a] + ", " + V + "} }  (initializer list of Dic::KV, which holds the value by reference)" : std::string("c = { {k, c[k]} for every key k of c }  (initializer list of Dic::KV, which holds the values by reference)"));
	default: return s + AOPN[op];
	}
}

static void aliasFail(const std::string& subspec, const char* sig) { FA->sub = subspec; FA->sigx = sig; }

// =============================================================== driver
static uint64_t totS, totT, totTr;
template <class Sys>
static void runBfs(Sys& sys, const std::string& label, int depth) {
	double t0 = vf::now_s();
	vf::Bfs<Sys> b(sys, label);
	vf::BfsResult r = b.run(depth, 0);
	totS += r.states; totT += r.transitions; totTr += r.traces;
	std::string pd;
	for (size_t i = 0; i < r.per_depth.size(); i++) pd += fmt(i ? ",%llu" : "%llu", (unsigned long long)r.per_depth[i]);
	vf::setinfo(label, fmt("{\"depth_completed\": %d, \"states\": %llu, \"transitions\": %llu, \"fixed_point\": %s, \"new_states_per_depth\": [%s], \"op_alphabet\": %d, \"wall_s\": %.1f}", r.depth_done, (unsigned long long)r.states, (unsigned long long)r.transitions, r.fixed_point ? "true" : "false", pd.c_str(), sys.nops(), vf::now_s() - t0));
}
static uint64_t totFlat;
static void runFlat(Flat& f) {
	double t0 = vf::now_s();
	f.run();
	totFlat += vf::get(f.c_cases);
	vf::setinfo(f.label, fmt("{\"cases\": %llu, \"leak_checks\": %llu, \"wall_s\": %.1f}", (unsigned long long)f.cases.size(), (unsigned long long)vf::get(f.c_leak), vf::now_s() - t0));
	vf::sample(f.label + ": " + f.describe(f.cases.back()));
}

int main(int argc, char** argv) {
	vf::init(argc, argv, "C02", "c02_maps");
	int cS = vf::counter("states"), cT = vf::counter("transitions"), cTr = vf::counter("traces"), cEv = vf::counter("evaluations");
	bool T = vf::opt.thorough();
	VT<String>::init();
	KeyList<int> ki_o, ki_h, ki_9; KeyList<String> ks_o, ks_h;
	for (int i = 0; i < KT<int>::nokeys(); i++) ki_o.add(KT<int>::okey(i));
	for (int i = 0; i < KT<int>::nkeys(); i++) ki_h.add(KT<int>::key(i));
	for (int i = 0; i < KT<String>::nokeys(); i++) ks_o.add(KT<String>::okey(i));
	for (int i = 0; i < KT<String>::nkeys(); i++) ks_h.add(KT<String>::key(i));
	{ static const int k9[] = { INT_MIN, -3, -2, -1, 0, 1, 2, 3, INT_MAX }; for (int i = 0; i < 9; i++) ki_9.add(k9[i]); }
	HK_I = ki_h; HK_S = ks_h;
	// measured once, in the coordinator
	vf::setinfo("hash_policy", fmt("{\"default_table\": %d, \"int_full_at\": %d, \"string_full_at\": %d}", HashPolicy<int, int, HashMap<int, int> >::defTable() - ASL_HMAP_SKIP, HashPolicy<int, int, HashMap<int, int> >::fullAt(), HashPolicy<String, String, HashDic<String> >::fullAt()));
	HashPolicy<String, String, HashDic<String> >::defTable();
	{ static const int bk[] = { INT_MAX, -1, INT_MIN, 1, 0 }; static const char* bs[] = { "\xe9t\xe9", "b", "common-prefix-0123456-b", "common-prefix-0123456", "" }; for (int i = 0; i < (T ? 5 : 4); i++) { BK_I.add(bk[i]); BK_S.add(bs[i]); } }
	{ static const int gk[] = { 1, 9, 65, 73, -63, 17, 2, 10, 193 }; for (int i = 0; i < (T ? 9 : 8); i++) GK.add(gk[i]); }

	{ // alias family: universes whose elements serve as keys and as values (0 / "" = the default-constructed value is one of them)
		static const int mi_[] = { INT_MAX, 0, INT_MIN, 1, -1 }, hi_[] = { 1, -255, 0, 257, INT_MIN }, si_[] = { 1, -255, 3, 257, INT_MIN };
		static const char* ds_[] = { "\xe9t\xe9", "", "common-prefix-0123456-b", "common-prefix-0123456", "common-prefix-0123456-ab" }, *hs_[] = { "Ab", "BA", "", "common-prefix-0123456-x", "\xc3" };
		for (int i = 0; i < (T ? 5 : 4); i++) { AU_MI.add(mi_[i]); AU_HI.add(hi_[i]); AU_SI.add(si_[i]); AU_DS.add(ds_[i]); AU_HS.add(hs_[i]); VT<String>::reg(16 + i, ds_[i]); VT<String>::reg(21 + i, hs_[i]); }
	}
	MapSys<int, int, Map<int, int> > mi("map<int>", ki_o);
	MapSys<String, String, Dic<String> > md("dic", ks_o);
	MapSys<int, int, Map<int, int> > m9("map9", ki_9, true);
	HashSys<int, int, HashMap<int, int> > hi("hashmap<int>", ki_h);
	HashSys<String, String, HashDic<String> > hd("hashdic", ks_h);
	SetSys ss("set");

	Flat fb("build"), fs("sizes"), fg("grow"), fa("alias");
	FA = &fa; fa.body = aliasCase; fa.describe = aliasDescribe;
	for (int k = 0; k < 5; k++) W_A_SUB[k] = vf::counter((std::string("w.alias.calls_on_") + AKIND[k]).c_str());
	{
		struct { int* c; const char* n; } w[] = { { &W_A_VREF_BEFORE, "ordered.value_is_own_value.new_key_sorts_before_source" }, { &W_A_VREF_AFTER, "ordered.value_is_own_value.new_key_sorts_after_source" }, { &W_A_VREF_FULL, "ordered.value_is_own_value.insert_at_full_capacity" },
			{ &W_A_VREF_OVER, "value_is_own_value.overwrites_existing_key" }, { &W_A_VREF_OWN, "value_is_the_value_of_the_same_key" }, { &W_A_VKEY, "value_is_own_stored_key" }, { &W_A_KVAL_INS, "key_is_own_stored_value.inserts" }, { &W_A_KVAL_OVER, "key_is_own_stored_value.key_present_or_removed" },
			{ &W_A_KKEY, "key_is_own_stored_key" }, { &W_A_HGROW, "hash.aliased_argument_while_tiny_table_regrows" }, { &W_A_HGROW_FILL, "hash.aliased_argument_while_default_table_regrows" }, { &W_A_SELF, "container_itself_as_argument" },
			{ &W_A_INITLIST, "dic.assign_initlist_of_own_values" }, { &W_A_SET_ATFULL, "set.add_own_member_to_table_at_growth_threshold" } };
		for (size_t i = 0; i < sizeof w / sizeof w[0]; i++) *w[i].c = vf::counter((std::string("w.alias.") + w[i].n).c_str());
	}
	fb.body = buildCase; fb.describe = buildDescribe; fs.body = sizesCase; fs.describe = sizesDescribe; fg.body = growCase; fg.describe = growDescribe;
	W_B_UNSORTED = vf::counter("w.build.list_not_in_key_order"); W_B_DUP = vf::counter("w.build.list_with_repeated_key");
	for (int b = 0; b < NBUILD; b++) W_B_FAMILY[b] = vf::counter((std::string("w.build.") + BUILDERS[b]).c_str());
	W_SZ_ZERO = vf::counter("w.sizes.table_size_0"); W_SZ_NONPOT = vf::counter("w.sizes.table_size_not_power_of_2"); W_SZ_GROWN = vf::counter("w.sizes.table_regrown");
	W_G_GROWN1 = vf::counter("w.grow.table_grown_once"); W_G_GROWN2 = vf::counter("w.grow.table_grown_twice"); W_G_CHAIN3 = vf::counter("w.grow.chain_of_3_survives_second_growth"); W_G_RMCLONE = vf::counter("w.grow.remove_from_clone_of_grown_table");
	{
		std::vector<std::vector<int> > seqs; std::vector<int> cur;
		genSeqs(seqs, cur, BK_I.n(), T ? 5 : 4, false);
		for (int b = 0; b < NBUILD; b++) for (size_t i = 0; i < seqs.size(); i++) { if ((b == 1 || b == 5) && seqs[i].empty()) continue; fb.cases.push_back(fmt("%d/", b) + seqStr(seqs[i])); }
		for (int f = 0; f < 3; f++) for (int n = 0; n <= (T ? 1030 : 260); n++) fs.cases.push_back(fmt("%d/%d", f, n));
		seqs.clear();
		genSeqs(seqs, cur, GK.n(), GK.n(), true);
		for (size_t i = 0; i < seqs.size(); i++) fg.cases.push_back(seqStr(seqs[i]));
		seqs.clear();
		genSeqs(seqs, cur, AU_MI.n(), AU_MI.n(), true);
		for (int kind = 0; kind < 5; kind++) for (int v = 0; v < (kind < 2 ? 2 : 5); v++) for (size_t i = 0; i < seqs.size(); i++) fa.cases.push_back(fmt("%d/%d/", kind, v) + seqStr(seqs[i]));
	}

	if (vf::opt.replay) {
		const std::string& k = vf::opt.kase;
		vf::parallel(1, [&](uint64_t) {
			if (k.compare(0, 8, "map<int>") == 0) vf::Bfs<MapSys<int, int, Map<int, int> > >(mi, "map<int>").replay(k);
			else if (k.compare(0, 5, "map9:") == 0) vf::Bfs<MapSys<int, int, Map<int, int> > >(m9, "map9").replay(k);
			else if (k.compare(0, 3, "dic") == 0) vf::Bfs<MapSys<String, String, Dic<String> > >(md, "dic").replay(k);
			else if (k.compare(0, 12, "hashmap<int>") == 0) vf::Bfs<HashSys<int, int, HashMap<int, int> > >(hi, "hashmap<int>").replay(k);
			else if (k.compare(0, 7, "hashdic") == 0) vf::Bfs<HashSys<String, String, HashDic<String> > >(hd, "hashdic").replay(k);
			else if (k.compare(0, 4, "set:") == 0) vf::Bfs<SetSys>(ss, "set").replay(k);
			else if (k.compare(0, 6, "build:") == 0) { fb.one(k.substr(6), false); fb.one(k.substr(6)); }
			else if (k.compare(0, 6, "sizes:") == 0) { fs.one(k.substr(6), false); fs.one(k.substr(6)); }
			else if (k.compare(0, 5, "grow:") == 0) { fg.one(k.substr(5), false); fg.one(k.substr(5)); }
			else if (k.compare(0, 6, "alias:") == 0) { fa.one(k.substr(6), false); fa.one(k.substr(6)); }
		});
		return vf::finish();
	}
	// debugging aid: C02_ONLY=label,label runs only those families (the run is then marked non-exhaustive)
	const char* only = getenv("C02_ONLY");
	std::string sel = only && *only ? std::string(",") + only + "," : std::string();
	if (!sel.empty()) vf::cap_hit("partial run: C02_ONLY=" + std::string(only));
	#define WANT(l) (sel.empty() || sel.find("," l ",") != std::string::npos)
	if (WANT("sizes")) runFlat(fs);
	if (WANT("build")) runFlat(fb);
	if (WANT("grow")) runFlat(fg);
	if (WANT("alias")) { // one case = one state; the evaluations are the calls made on it
		double t0 = vf::now_s();
		runFlat(fa);
		uint64_t calls = 0; for (int k = 0; k < 5; k++) calls += vf::get(W_A_SUB[k]);
		totFlat += calls - vf::get(fa.c_cases);
		vf::setinfo("alias", fmt("{\"cases\": %llu, \"calls\": %llu, \"leak_checks\": %llu, \"wall_s\": %.1f}", (unsigned long long)fa.cases.size(), (unsigned long long)calls, (unsigned long long)vf::get(fa.c_leak), vf::now_s() - t0));
	}
	if (WANT("map9")) runBfs(m9, "map9", 40);
	if (WANT("map<int>")) runBfs(mi, "map<int>", T ? 6 : 5);
	if (WANT("dic")) runBfs(md, "dic", T ? 5 : 4);
	if (WANT("hashmap<int>")) runBfs(hi, "hashmap<int>", T ? 7 : 5);
	if (WANT("hashdic")) runBfs(hd, "hashdic", T ? 6 : 5);
	if (WANT("set")) runBfs(ss, "set", T ? 7 : 6);
	vf::add(cS, totS); vf::add(cT, totT); vf::add(cTr, totTr); vf::add(cEv, totTr + totFlat);
	return vf::finish();
}
