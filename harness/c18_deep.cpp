// C18 deep part: the large INI / CSV products of c18_inicsv.cpp, built without sanitizer (flavour plain), thorough tier only.
#define C18_DEEP 1
#include "c18_inicsv.cpp"
