// C13 — Thread start/join/finished, ThreadGroup, parallel_for / parallel_invoke, Semaphore and Condition under the
// controlled scheduler: every schedule (or every schedule within a preemption bound) of each small scenario.
//
// Oracles: run counts / captured values / visibility at the moment join() (or parallel_*) returns, finished() afterwards,
// deadlock and livelock (lost post / signal), return values of timed waits against the virtual clock, refused joins
// (join on an empty, detached or already joined handle: vsched strict joins), and AddressSanitizer with
// detect_stack_use_after_return switched on for this binary (a thread that outlives the frame its context or its Thread
// object lived in), read after the execution has drained its remaining threads.
//
// Re-use histories (family "reuse.*" and the ".x2"/".x3" scenarios): ONE object taken through several complete cycles. The first cycle
// leaves state behind (the finished flag stays set: nothing in the library resets it; the handle is consumed by join() or by a copy;
// the semaphore count is back to 0), and every later cycle must give exactly the guarantees of the first: its function runs exactly
// once more (and the earlier ones not again), join() returns only after it completed with its effects visible, finished() is true
// afterwards. What finished() says between a later start() and the end of that run is NOT demanded (the statement says "true from
// then on", and the unchanged library keeps the flag set): it is only counted (reuse_finished_still_set_during_later_run, not a witness: a library that resets the flag in start() shows 0).
#include <asl/Thread.h>
#include <asl/Mutex.h>
#include <asl/Array.h>
#include <set>
#include "vf.h"
#include "vsched.h"
using namespace asl;
using vf::fmt;

extern "C" void* __asan_get_current_fake_stack(void) __attribute__((weak));

static int C_EXEC, C_POINTS, C_JOBS, W_PREEMPT, C_STATES, W_WORKER_FIRST, W_TIMEOUT, W_EARLY, W_SEM_TO, W_SEM_BOTH_TO, W_SEM_ACQ, W_COND_TO, W_COND_SIG,
	C_EXPECT_PRE, C_WITH_PRE, C_NO_OPP, C_SKIPPED, W_UAR, W_CREATOR_FIRST, W_TRY_FAIL, W_TRY_OK, W_YIELD_FORCED, W_DEFAULT_NTH, W_COPY_RUNNING, W_ALL_BEHIND, W_READY_POINT = -1,
	W_REUSE_CYCLES, W_REUSE_WAIT, W_REUSE_STALE, W_REUSE_GROUP, W_REUSE_GROUP_GROW, W_PFOR_TWICE, W_INVOKE_TWICE, W_SEM_ROUND2, W_COND_ROUND2, W_SEM_TO_THEN_ACQ, W_COND_TO_THEN_SIG, W_FINISH_HOOK, W_FUNCTOR_DTOR;
static std::string g_case;
static bool g_opportunity; // some execution of the current scenario had a point at which a preemption was possible
static void onFatal(const char* what, const std::string& schedule) {
	std::string w = what; for (size_t i = 0; i < w.size(); i++) w[i] = (char)tolower(w[i]);
	if (w == "diverged") { fprintf(stderr, "HARNESS ERROR: schedule replay diverged (%s | %s)\n", g_case.c_str(), schedule.c_str()); _exit(2); }
	vf::violation(w, std::string(what) + " in scenario " + g_case + " under schedule " + schedule, g_case + "|" + schedule);
	vf::restart_worker();
}

// all state that scenarios touch; reset per execution
static volatile int g_runs[16], g_value, g_hits[64], g_cap[4];
static int g_final[16]; // run count each slot must show when the execution is over (all threads drained); -1 = not demanded
static int g_timeouts; // timed waits that reported a timeout in this execution
static int g_body; // 0 empty, 1 yield, 2 write-then-yield, 3 yield-then-write
static void bodyFn(int idx) { if (g_body == 1 || g_body == 3) vsched::point(); g_value = 42; g_runs[idx]++; if (g_body == 2) vsched::point(); }
static void plainFn() { bodyFn(0); }
struct SubThread : public Thread { int idx; SubThread(int i = 0) : idx(i) {} void run() { bodyFn(idx); } };
struct Functor { int k; void operator()() const { if (g_body == 1 || g_body == 3) vsched::point(); g_cap[0] = k; g_value = 42; g_runs[0]++; if (g_body == 2) vsched::point(); } };
// what a creator typically does next: its stack below the current frame is reused
static __attribute__((noinline, no_sanitize_address)) void clobberStack() { volatile char buf[2048]; for (int i = 0; i < 2048; i++) buf[i] = 0x5a; }

struct Scenario { std::string name; std::function<std::string()> body; int bound; std::string sig; Scenario() : bound(-1), sig("thread_contract") {} }; // body returns "" when every assertion holds

static std::string chk(bool c, const char* what) { return c ? "" : std::string(what) + "; "; }
static std::string ranOnce(int i, const char* who) { return g_runs[i] == 1 ? "" : fmt("%s had run %d time(s) when join() returned, expected exactly once; ", who, (int)g_runs[i]); }
static std::string visible() { return chk(g_value == 42, "effect of the thread function not visible after join()"); }

// Semaphore::wait(timeout): true = acquired. In the model a wait ends either by a post or by the clock reaching its deadline.
static bool semTimed(Semaphore& s, double timeout, std::string& bad) {
	double t0 = vsched::vnow();
	bool r = s.wait(timeout);
	bool expired = vsched::vnow() - t0 >= timeout - 1e-3;
	if (!r) g_timeouts++;
	vf::add(r ? W_SEM_ACQ : W_SEM_TO);
	// only this direction is a lost post (or a timeout reported before the time was up). The other one, true although the deadline was reached, is not
	// demanded: "return true if it has signaled" allows an implementation to pick up a post that arrives while the wait is expiring (the sums below still
	// account for every permit, and a wait that reports a permit nobody posted is caught there)
	if (!r && !expired) bad += fmt("Semaphore::wait(%g) returned false (timed out) although the wait was ended by a post before its timeout; ", timeout);
	return r;
}
// Condition::wait(timeout): true = timed out. A wait that was ended by signal() must not be reported as a timeout (a lost signal for the caller).
static bool condTimed(Condition& c, double timeout, std::string& bad) {
	double t0 = vsched::vnow();
	bool to = c.wait(timeout);
	bool expired = vsched::vnow() - t0 >= timeout - 1e-3;
	if (to) g_timeouts++;
	vf::add(to ? W_COND_TO : W_COND_SIG);
	if (to && !expired) bad += fmt("Condition::wait(%g) reported a timeout although it was woken by signal() before the timeout; ", timeout);
	return to;
}

static std::vector<Scenario> scenarios(bool T) {
	std::vector<Scenario> v;
	for (int b = 0; b < 4; b++) {
		{ Scenario s; s.name = fmt("subclass.body%d", b); s.body = [b]() { g_body = b; SubThread t(0); t.start(); t.join(); return chk(g_runs[0] == 1, "run() did not execute exactly once before join() returned") + chk(g_value == 42, "effect of run() not visible after join()") + chk(t.finished(), "finished() is false after join()"); }; v.push_back(s); }
		{ Scenario s; s.name = fmt("lambda.body%d", b); s.body = [b]() { g_body = b; Thread t([]() { bodyFn(0); }); t.join(); return chk(g_runs[0] == 1, "lambda did not execute exactly once before join() returned") + chk(g_value == 42, "effect not visible after join()") + chk(t.finished(), "finished() is false after join() of a lambda thread"); }; v.push_back(s); }
		{ Scenario s; s.name = fmt("subclass_poll.body%d", b); s.body = [b]() { g_body = b; SubThread t(0); t.start(); bool f1 = t.finished(); int r1 = g_runs[0]; if (f1) vf::add(W_WORKER_FIRST); else vf::add(W_CREATOR_FIRST); t.join(); return chk(!f1 || r1 == 1, "finished() was true before run() completed") + chk(t.finished() && g_runs[0] == 1, "finished()/run count after join()"); }; v.push_back(s); }
		{ Scenario s; s.name = fmt("two_subclass.body%d", b); s.body = [b]() { g_body = b; SubThread t1(0), t2(1); t1.start(); t2.start(); t1.join(); bool ok1 = g_runs[0] == 1; t2.join(); return chk(ok1 && g_runs[1] == 1, "each thread must have run exactly once when its join() returns") + chk(t1.finished() && t2.finished(), "finished() after join()"); }; v.push_back(s); }
		// the lambda carries a value and a reference: both must reach the thread intact although the creator's context is gone by then
		{ Scenario s; s.name = fmt("lambda_capture.body%d", b); s.body = [b]() {
			g_body = b; int k = 1000 + b; volatile int x = 0;
			Thread t([k, &x]() { if (g_body == 1 || g_body == 3) vsched::point(); g_cap[0] = k; x = k + 1; g_value = 42; g_runs[0]++; if (g_body == 2) vsched::point(); });
			clobberStack();
			t.join();
			return ranOnce(0, "the lambda") + visible() + chk(g_cap[0] == k, "the value captured by the lambda did not reach the thread intact") + chk(x == k + 1, "the write through the captured reference is not visible after join()") + chk(t.finished(), "finished() is false after join() of a lambda thread"); }; v.push_back(s); }
		// finished() of a lambda thread polled before join(): true only once the function has completed
		{ Scenario s; s.name = fmt("lambda_poll.body%d", b); s.body = [b]() { g_body = b; Thread t([]() { bodyFn(0); }); bool f1 = t.finished(); int r1 = g_runs[0]; if (f1) vf::add(W_WORKER_FIRST); else vf::add(W_CREATOR_FIRST); t.join(); return chk(!f1 || r1 == 1, "finished() of a lambda thread was true before the function completed") + chk(t.finished() && g_runs[0] == 1, "finished()/run count after join() of a lambda thread"); }; v.push_back(s); }
		// function pointer and stateful function object as thread function
		{ Scenario s; s.name = fmt("fnptr.body%d", b); s.body = [b]() { g_body = b; Thread t(&plainFn); clobberStack(); t.join(); return ranOnce(0, "the function") + visible() + chk(t.finished(), "finished() is false after join() of a function thread"); }; v.push_back(s); }
		{ Scenario s; s.name = fmt("functor.body%d", b); s.body = [b]() { g_body = b; Functor f; f.k = 77 + b; Thread t(f); f.k = -1; clobberStack(); t.join(); return ranOnce(0, "the function object") + visible() + chk(g_cap[0] == 77 + b, "the thread did not run on its own copy of the function object") + chk(t.finished(), "finished() is false after join() of a function-object thread"); }; v.push_back(s); }
		// static Thread::start(f, &t): the three ways its result can be used
		{ Scenario s; s.name = fmt("start_static_ret.body%d", b); s.body = [b]() { g_body = b; Thread t; Thread u = Thread::start([]() { bodyFn(0); }, &t); clobberStack(); u.join(); return ranOnce(0, "the function given to Thread::start(f, &t)") + visible() + chk(t.finished() || u.finished(), "neither t nor the returned Thread reports finished() after join()"); }; v.push_back(s); }
		{ Scenario s; s.name = fmt("start_static_obj.body%d", b); s.body = [b]() { g_body = b; Thread t; Thread::start([]() { bodyFn(0); }, &t); clobberStack(); t.join(); return ranOnce(0, "the function given to Thread::start(f, &t)") + visible() + chk(t.finished(), "t.finished() is false after Thread::start(f, &t); t.join()"); }; v.push_back(s); }
		{ Scenario s; s.name = fmt("start_static_assign.body%d", b); s.body = [b]() { g_body = b; Thread t; t = Thread::start([]() { bodyFn(0); }, &t); clobberStack(); t.join(); return ranOnce(0, "the function given to Thread::start(f, &t)") + visible() + chk(t.finished(), "t.finished() is false after t = Thread::start(f, &t); t.join()"); }; v.push_back(s); }
		// copying a Thread transfers the handle: the copy is the one to join. finished() must be true afterwards on the object the thread was started on or on the
		// copy whose join() returned (the statement does not say which of the two keeps the flag; the unchanged library keeps it on the first)
		{ Scenario s; s.name = fmt("copy_ctor_subclass.body%d", b); s.body = [b]() { g_body = b; SubThread t(0); t.start(); bool running = !t.finished(); SubThread u(t); if (running) vf::add(W_COPY_RUNNING); u.join(); return ranOnce(0, "run()") + visible() + chk(t.finished() || u.finished(), "neither the object the thread was started on nor the copy that was joined reports finished() after join() through the copy"); }; v.push_back(s); }
		{ Scenario s; s.name = fmt("copy_assign_subclass.body%d", b); s.body = [b]() { g_body = b; SubThread t(0), u(5); t.start(); u = t; u.join(); return ranOnce(0, "run()") + visible() + chk(g_runs[5] == 0, "the thread ran on the wrong object") + chk(t.finished() || u.finished(), "neither the object the thread was started on nor the assigned copy that was joined reports finished() after join()"); }; v.push_back(s); }
		{ Scenario s; s.name = fmt("copy_ctor_lambda.body%d", b); s.body = [b]() { g_body = b; Thread t([]() { bodyFn(0); }); Thread u(t); clobberStack(); u.join(); return ranOnce(0, "the lambda") + visible() + chk(t.finished() || u.finished(), "neither the object the lambda thread was created on nor the copy that was joined reports finished() after join() through the copy"); }; v.push_back(s); }
		{ Scenario s; s.name = fmt("array_lambda.body%d", b); s.body = [b]() { g_body = b; Array<Thread> a; a << Thread([]() { bodyFn(0); }); clobberStack(); a[0].join(); return ranOnce(0, "the lambda") + visible(); }; v.push_back(s); }
	}
	{ Scenario s; s.name = "threadgroup3"; s.bound = T ? 3 : 2; s.body = []() { g_body = 1; ThreadGroup<SubThread> g; g << SubThread(0) << SubThread(1) << SubThread(2); g.start(); g.join(); return chk(g_runs[0] == 1 && g_runs[1] == 1 && g_runs[2] == 1, "ThreadGroup member did not run exactly once before join() returned"); }; v.push_back(s); }
	{ Scenario s; s.name = "threadgroup2.body2"; s.body = []() { g_body = 2; ThreadGroup<SubThread> g; g << SubThread(0) << SubThread(1); g.start(); g.join(); return chk(g_runs[0] == 1 && g_runs[1] == 1, "ThreadGroup member did not run exactly once before join() returned"); }; v.push_back(s); }
	{ Scenario s; s.name = "parallel_invoke2"; s.body = []() { g_body = 1; Thread::parallel_invoke([]() { bodyFn(0); }, []() { bodyFn(1); }); return chk(g_runs[0] == 1 && g_runs[1] == 1, "parallel_invoke(2) must run each function exactly once before returning"); }; v.push_back(s); }
	{ Scenario s; s.name = "parallel_invoke3"; s.bound = T ? 3 : 2; s.body = []() { g_body = 1; Thread::parallel_invoke([]() { bodyFn(0); }, []() { bodyFn(1); }, []() { bodyFn(2); }); return chk(g_runs[0] == 1 && g_runs[1] == 1 && g_runs[2] == 1, "parallel_invoke(3) must run each function exactly once before returning"); }; v.push_back(s); }
	{ Scenario s; s.name = "parallel_invoke4"; s.bound = T ? 2 : 1; s.body = []() { g_body = 0; Thread::parallel_invoke([]() { bodyFn(0); }, []() { bodyFn(1); }, []() { bodyFn(2); }, []() { bodyFn(3); }); return chk(g_runs[0] == 1 && g_runs[1] == 1 && g_runs[2] == 1 && g_runs[3] == 1, "parallel_invoke(4) must run each function exactly once before returning"); }; v.push_back(s); }
	// the same with functions that yield (a creator can get ahead of them) and capture a value
	for (int b = 1; b <= 3; b += 2) { Scenario s; s.name = fmt("parallel_invoke4.body%d", b); s.bound = T ? 2 : 1; s.body = [b]() {
		g_body = b; int k = 500;
		Thread::parallel_invoke([k]() { bodyFn(0); g_cap[0] = k; }, [k]() { bodyFn(1); g_cap[1] = k + 1; }, [k]() { bodyFn(2); g_cap[2] = k + 2; }, [k]() { bodyFn(3); g_cap[3] = k + 3; });
		std::string bad;
		for (int i = 0; i < 4; i++) { if (g_runs[i] != 1) bad += fmt("function %d had run %d time(s) when parallel_invoke(4) returned, expected exactly once; ", i + 1, (int)g_runs[i]); else if (g_cap[i] != k + i) bad += fmt("function %d did not see its captured value; ", i + 1); }
		clobberStack();
		return bad; }; v.push_back(s); }
	{ Scenario s; s.name = "parallel_invoke3.body3"; s.bound = T ? 3 : 2; s.body = []() {
		g_body = 3; int k = 600;
		Thread::parallel_invoke([k]() { bodyFn(0); g_cap[0] = k; }, [k]() { bodyFn(1); g_cap[1] = k + 1; }, [k]() { bodyFn(2); g_cap[2] = k + 2; });
		std::string bad;
		for (int i = 0; i < 3; i++) { if (g_runs[i] != 1) bad += fmt("function %d had run %d time(s) when parallel_invoke(3) returned, expected exactly once; ", i + 1, (int)g_runs[i]); else if (g_cap[i] != k + i) bad += fmt("function %d did not see its captured value; ", i + 1); }
		clobberStack();
		return bad; }; v.push_back(s); }
	// Semaphore: k posts against k waits, no post may be lost
	for (int k = 1; k <= 3; k++) {
		Scenario s; s.name = fmt("semaphore.k%d", k);
		s.body = [k]() {
			Semaphore sem; int got = 0;
			struct Cons : public Thread { Semaphore* s; int k; int* got; void run() { for (int i = 0; i < k; i++) { s->wait(); (*got)++; } } } c; c.s = &sem; c.k = k; c.got = &got;
			c.start();
			for (int i = 0; i < k; i++) sem.post();
			c.join();
			return chk(got == k, "consumer did not receive every post") + chk(sem.value() == 0, "semaphore count not back to 0");
		};
		v.push_back(s);
	}
	// Semaphore(count): the initial permits are there without any post
	for (int k = 1; k <= 3; k++) {
		Scenario s; s.name = fmt("semaphore.initial.k%d", k);
		s.body = [k]() {
			Semaphore sem(k); int got = 0;
			struct Cons : public Thread { Semaphore* s; int k; int* got; void run() { for (int i = 0; i < k; i++) { s->wait(); (*got)++; } } } c; c.s = &sem; c.k = k; c.got = &got;
			int v0 = sem.value();
			c.start(); c.join();
			return chk(v0 == k, "value() of a fresh Semaphore(k) is not k") + chk(got == k, "consumer could not take the k initial permits") + chk(sem.value() == 0, "semaphore count not 0 after k waits on Semaphore(k)");
		};
		v.push_back(s);
	}
	{ Scenario s; s.name = "semaphore.initial_plus_post"; s.body = []() {
		Semaphore sem(1); int got = 0;
		struct Cons : public Thread { Semaphore* s; int* got; void run() { for (int i = 0; i < 2; i++) { s->wait(); (*got)++; } } } c; c.s = &sem; c.got = &got;
		c.start(); sem.post(); c.join();
		return chk(got == 2, "initial permit plus one post must satisfy two waits") + chk(sem.value() == 0, "semaphore count not back to 0"); }; v.push_back(s); }
	{ Scenario s; s.name = "semaphore.two_consumers"; s.bound = T ? -1 : 3; s.body = []() {
		Semaphore sem; int got[2] = { 0, 0 };
		struct Cons : public Thread { Semaphore* s; int* got; void run() { s->wait(); (*got)++; } } c1, c2; c1.s = c2.s = &sem; c1.got = &got[0]; c2.got = &got[1];
		c1.start(); c2.start(); sem.post(2); c1.join(); c2.join();
		return chk(got[0] == 1 && got[1] == 1, "post(2) must release both waiters"); }; v.push_back(s); }
	{ Scenario s; s.name = "semaphore.post3"; s.bound = T ? 3 : 2; s.body = []() {
		Semaphore sem; int got[3] = { 0, 0, 0 };
		struct Cons : public Thread { Semaphore* s; int* got; void run() { s->wait(); (*got)++; } } c[3]; for (int i = 0; i < 3; i++) { c[i].s = &sem; c[i].got = &got[i]; }
		for (int i = 0; i < 3; i++) c[i].start();
		sem.post(3);
		for (int i = 0; i < 3; i++) c[i].join();
		return chk(got[0] == 1 && got[1] == 1 && got[2] == 1, "post(3) must release all three waiters") + chk(sem.value() == 0, "semaphore count not back to 0"); }; v.push_back(s); }
	// trywait never blocks; every permit is either taken by a successful trywait or still there
	{ Scenario s; s.name = "semaphore.trywait"; s.body = []() {
		Semaphore sem; int got = 0, failed = 0;
		struct Cons : public Thread { Semaphore* s; int* got; int* failed; void run() { for (int i = 0; i < 3; i++) { if (s->trywait()) (*got)++; else (*failed)++; } } } c; c.s = &sem; c.got = &got; c.failed = &failed;
		c.start(); sem.post(); sem.post(); c.join();
		if (failed) vf::add(W_TRY_FAIL); if (got) vf::add(W_TRY_OK);
		return chk(got + sem.value() == 2, "permits taken by trywait() plus permits left do not add up to the posts") + chk(got + failed == 3, "trywait() calls lost"); }; v.push_back(s); }
	{ Scenario s; s.name = "semaphore.trywait_initial"; s.body = []() {
		Semaphore sem(1); bool a = sem.trywait(), b = sem.trywait(); int v1 = sem.value(); sem.post(); bool c = sem.trywait();
		SubThread t(0); g_body = 0; t.start(); t.join();
		return chk(a && !b && c, "trywait() on Semaphore(1): expected true, false, and true again after a post") + chk(v1 == 0 && sem.value() == 0, "semaphore count wrong after trywait()"); }; v.push_back(s); }
	{ Scenario s; s.name = "semaphore.timedwait"; s.bound = 3; s.body = []() {
		Semaphore sem; bool r1 = false, r2 = true; std::string bad;
		struct Cons : public Thread { Semaphore* s; bool* r1; bool* r2; std::string* bad; void run() { *r1 = semTimed(*s, 5.0, *bad); *r2 = semTimed(*s, 0.5, *bad); } } c; c.s = &sem; c.r1 = &r1; c.r2 = &r2; c.bad = &bad;
		c.start(); sem.post(); c.join();
		if (!r1 && !r2) vf::add(W_SEM_BOTH_TO);
		return bad + chk((r1 ? 1 : 0) + (r2 ? 1 : 0) + sem.value() == 1, "the single post must be consumed by exactly one timed wait or still be pending"); }; v.push_back(s); }
	// Condition under the documented protocol
	{ Scenario s; s.name = "condition.protocol"; s.body = []() {
		Mutex m; Condition cond(m); bool ready = false; int seen = 0;
		struct W : public Thread { Mutex* m; Condition* c; bool* ready; int* seen; void run() { m->lock(); while (!*ready) c->wait(); *seen = 1; m->unlock(); } } w; w.m = &m; w.c = &cond; w.ready = &ready; w.seen = &seen;
		w.start();
		m.lock(); ready = true; cond.signal(); m.unlock();
		w.join();
		return chk(seen == 1, "waiter did not observe the condition"); }; v.push_back(s); }
	{ Scenario s; s.name = "condition.use"; s.body = []() { // default-constructed Condition bound to its mutex with use()
		Mutex m; Condition cond; cond.use(m); bool ready = false; int seen = 0;
		struct W : public Thread { Mutex* m; Condition* c; bool* ready; int* seen; void run() { m->lock(); while (!*ready) c->wait(); *seen = 1; m->unlock(); } } w; w.m = &m; w.c = &cond; w.ready = &ready; w.seen = &seen;
		w.start();
		m.lock(); ready = true; cond.signal(); m.unlock();
		w.join();
		return chk(seen == 1, "waiter on a Condition bound with use() did not observe the condition"); }; v.push_back(s); }
	{ Scenario s; s.name = "condition.two_waiters"; s.bound = T ? -1 : 3; s.body = []() {
		Mutex m; Condition cond(m); bool ready = false; int seen[2] = { 0, 0 };
		struct W : public Thread { Mutex* m; Condition* c; bool* ready; int* seen; void run() { m->lock(); while (!*ready) c->wait(); *seen = 1; m->unlock(); } } w1, w2;
		w1.m = w2.m = &m; w1.c = w2.c = &cond; w1.ready = w2.ready = &ready; w1.seen = &seen[0]; w2.seen = &seen[1];
		w1.start(); w2.start();
		m.lock(); ready = true; cond.signal(); m.unlock();
		w1.join(); w2.join();
		return chk(seen[0] == 1 && seen[1] == 1, "a waiter missed the signal"); }; v.push_back(s); }
	{ Scenario s; s.name = "condition.timedwait"; s.bound = 3; s.body = []() {
		Mutex m; Condition cond(m); bool ready = false; bool timedOut = true; std::string bad;
		struct W : public Thread { Mutex* m; Condition* c; bool* ready; bool* to; std::string* bad; void run() { m->lock(); int n = 0; while (!*ready) { if (condTimed(*c, 5.0, *bad)) n++; } *to = n > 3; m->unlock(); } } w; w.m = &m; w.c = &cond; w.ready = &ready; w.to = &timedOut; w.bad = &bad;
		w.start(); m.lock(); ready = true; cond.signal(); m.unlock(); w.join();
		return bad + chk(!timedOut, "timed wait kept timing out although the condition was signalled under the mutex"); }; v.push_back(s); }
	// a timed wait nobody signals runs into its timeout at quiescence and says so
	{ Scenario s; s.name = "condition.timedwait_unsignalled"; s.bound = 3; s.body = []() {
		Mutex m; Condition cond(m); bool to = false; std::string bad;
		struct W : public Thread { Mutex* m; Condition* c; bool* to; std::string* bad; void run() { m->lock(); *to = condTimed(*c, 2.0, *bad); m->unlock(); } } w; w.m = &m; w.c = &cond; w.to = &to; w.bad = &bad;
		w.start(); w.join();
		return bad + chk(to, "Condition::wait(2.0) that nobody signalled did not report its timeout"); }; v.push_back(s); }
	return v;
}

// ------------------------------------------------------------------ re-use histories of one object
// One Thread object t taken through c complete cycles. Kind of a cycle (how the thread is started and how its handle is consumed):
//   S  t.start(); t.join()                                   C  t.start(); copy v(t); v.join()   (the copy takes the handle)
//   F  Thread::start(f, &t); t.join()                        A  t = Thread::start(f, &t); t.join()
//   K  Thread v = Thread::start(f, &t); v.join()             U  u = Thread::start(f, &t); u.join()   (u: a second object kept over all cycles; operator= copies t's flag)
// Every cycle has its own counter slot, body shape (0..3 as above), captured value and reference.
struct ReuseThread : public Thread { volatile int slot, shape; ReuseThread() : slot(0), shape(0) {} void run() { int j = slot, b = shape; if (b == 1 || b == 3) vsched::point(); g_value = 42 + j; g_runs[j]++; if (b == 2) vsched::point(); } };
static std::string othersUntouched(int j, int n, const char* what) {
	std::string bad;
	for (int i = 0; i < n; i++) { int want = i <= j ? 1 : 0; if (i != j && g_runs[i] != want) bad += fmt("%s %d had run %d time(s) when the join() of cycle %d returned, expected %d; ", what, i + 1, (int)g_runs[i], j + 1, want); }
	return bad;
}
static std::string reuseHistory(const std::string& kinds, const std::string& bodies) {
	std::string bad; int c = (int)kinds.size();
	{
		ReuseThread t; Thread& tb = t; Thread u; volatile int x = 0;
		for (int j = 0; j < c; j++) {
			char kd = kinds[j]; int b = bodies[j] - '0', k = 1000 + 10 * j + b;
			bool lam = kd != 'S' && kd != 'C', fin = false;
			g_value = 0; x = 0; t.slot = j; t.shape = b; g_final[j] = 1;
			auto f = [j, b, k, &x]() { if (b == 1 || b == 3) vsched::point(); g_cap[j] = k; x = k + 1; g_value = 42 + j; g_runs[j]++; if (b == 2) vsched::point(); };
			bool f1 = false; int r1 = 0;
			#define POLL() do { f1 = t.finished(); r1 = g_runs[j]; } while (0)
			switch (kd) {
			case 'S': t.start(); POLL(); t.join(); fin = t.finished(); break;
			case 'C': { t.start(); POLL(); ReuseThread v(t); v.join(); fin = t.finished() || v.finished(); } break;
			case 'F': Thread::start(f, &t); POLL(); clobberStack(); t.join(); fin = t.finished(); break;
			case 'A': tb = Thread::start(f, &t); POLL(); clobberStack(); t.join(); fin = t.finished(); break;
			case 'K': { Thread v = Thread::start(f, &t); POLL(); clobberStack(); v.join(); fin = t.finished() || v.finished(); } break;
			default: u = Thread::start(f, &t); POLL(); clobberStack(); u.join(); fin = t.finished() || u.finished(); break;
			}
			#undef POLL
			vf::add(W_REUSE_CYCLES);
			if (j > 0 && r1 == 0) vf::add(W_REUSE_WAIT); // the creator was ahead of the function of a later cycle: this join() had something to wait for
			if (j > 0 && f1 && r1 == 0) vf::add(W_REUSE_STALE); // not demanded either way, see the head of the file
			if (j == 0 && f1 && r1 != 1) bad += "finished() was true before the function of the first cycle had completed; ";
			if (g_runs[j] != 1) bad += fmt("the function of cycle %d (kind %c) had run %d time(s) when its join() returned, expected exactly once; ", j + 1, kd, (int)g_runs[j]);
			bad += othersUntouched(j, c, "the function of cycle");
			if (g_value != 42 + j) bad += fmt("effect of the function of cycle %d not visible after its join(); ", j + 1);
			if (lam && g_runs[j] == 1 && g_cap[j] != k) bad += fmt("the value captured by the function of cycle %d did not reach the thread intact; ", j + 1);
			if (lam && x != k + 1) bad += fmt("the write through the reference captured in cycle %d is not visible after its join(); ", j + 1);
			if (!fin) bad += fmt("finished() is false after the join() of cycle %d (kind %c); ", j + 1, kd);
			if (!bad.empty()) break; // later cycles would only repeat the consequences
		}
	}
	clobberStack();
	return bad;
}
static void enumHistories(std::vector<Scenario>& v, int c, const std::string& kindAlphabet, const std::string& bodyAlphabet, int bound) {
	std::vector<int> ik(c, 0), ib(c, 0);
	size_t nk = kindAlphabet.size(), nb = bodyAlphabet.size();
	for (;;) {
		std::string kinds, bodies; for (int j = 0; j < c; j++) { kinds += kindAlphabet[ik[j]]; bodies += bodyAlphabet[ib[j]]; }
		Scenario s; s.name = "reuse." + kinds + "." + bodies + (bound >= 0 ? fmt(".b%d", bound) : std::string()); s.bound = bound;
		s.body = [kinds, bodies]() { return reuseHistory(kinds, bodies); };
		v.push_back(s);
		int d = 0;
		for (; d < 2 * c; d++) { std::vector<int>& a = d < c ? ib : ik; int i = d % c; size_t lim = d < c ? nb : nk; if ((size_t)++a[i] < lim) break; a[i] = 0; }
		if (d == 2 * c) break;
	}
}
// first use, but the thread still has code to execute on (or on behalf of) the object after the finished flag is set: the documented
// finish() hook of a subclass, the destructor of the thread's own copy of a function object. join() must not return while the thread
// is still alive; what is asserted is memory safety only (the objects die right after join(): ASan), not the effects of that code.
struct HookThread : public Thread { volatile int idx, hooked; HookThread() : idx(0), hooked(0) {} void run() { bodyFn(idx); } void finish() { vsched::point(); hooked = hooked + 1; vf::add(W_FINISH_HOOK); } };
struct DtorFunctor { volatile int* p; int idx; DtorFunctor(volatile int* q, int i) : p(q), idx(i) {} DtorFunctor(const DtorFunctor& o) : p(o.p), idx(o.idx) {} ~DtorFunctor() { bool thr = vsched::self() > 0; vsched::point(); *p = *p + 1; if (thr) vf::add(W_FUNCTOR_DTOR); } void operator()() const { bodyFn(idx); } };

static void reuseScenarios(std::vector<Scenario>& v, bool T) {
	// all histories of 2 cycles over the full alphabet under every schedule; 3 cycles: thorough, every schedule; quick: the stale-state kinds with the yielding bodies
	enumHistories(v, 2, "SCFAKU", "0123", -1);
	if (T) enumHistories(v, 3, "SCFAKU", "0123", 2); else enumHistories(v, 3, "SFU", "03", 1);
	for (int b = 0; b < 4; b++) {
		{ Scenario s; s.name = fmt("subclass_finish_hook.body%d", b); s.body = [b]() { g_body = b; std::string bad; { HookThread t; t.start(); t.join(); bad = ranOnce(0, "run()") + visible() + chk(t.finished(), "finished() is false after join()"); } clobberStack(); return bad; }; v.push_back(s); }
		{ Scenario s; s.name = fmt("subclass_finish_hook.x2.body%d", b); s.body = [b]() { g_body = b; std::string bad; { HookThread t; t.start(); t.join(); bad = ranOnce(0, "run()"); t.idx = 1; g_value = 0; t.start(); t.join(); bad += ranOnce(1, "run() of the second cycle") + visible() + chk(g_runs[0] == 1, "run() of the first cycle was executed again") + chk(t.finished(), "finished() is false after the second join()"); } clobberStack(); g_final[0] = g_final[1] = 1; return bad; }; v.push_back(s); }
		{ Scenario s; s.name = fmt("functor_dtor.body%d", b); s.body = [b]() { g_body = b; std::string bad; { volatile int cell = 0; { DtorFunctor f(&cell, 0); Thread t(f); t.join(); bad = ranOnce(0, "the function object") + visible() + chk(t.finished(), "finished() is false after join() of a function-object thread"); } } clobberStack(); return bad; }; v.push_back(s); }
		{ Scenario s; s.name = fmt("functor_dtor_static.x2.body%d", b); s.body = [b]() { g_body = b; std::string bad; { volatile int cell = 0; Thread t; { DtorFunctor f(&cell, 0), g(&cell, 1); Thread::start(f, &t); t.join(); bad = ranOnce(0, "the function object"); g_value = 0; Thread::start(g, &t); t.join(); bad += ranOnce(1, "the function object of the second cycle") + visible() + chk(g_runs[0] == 1, "the function object of the first cycle was executed again") + chk(t.finished(), "finished() is false after the second join()"); } } clobberStack(); g_final[0] = g_final[1] = 1; return bad; }; v.push_back(s); }
	}
	// ThreadGroup: start(); join() r times on the same group; variant g: a member is added between the rounds (the array of threads is reallocated, the members are copied)
	struct GroupSpec { int m, r, body, bq, bt; bool grow; };
	static const GroupSpec gs[] = { { 1, 2, 1, -1, -1, false }, { 1, 3, 3, -1, -1, false }, { 2, 2, 0, -1, -1, false }, { 2, 2, 1, 2, 3, false }, { 2, 2, 2, 2, 3, false }, { 2, 2, 3, 2, 3, false }, { 2, 3, 1, 1, 2, false }, { 3, 2, 1, 1, 2, false }, { 3, 2, 0, 1, 2, false }, { 1, 2, 1, -1, -1, true }, { 2, 2, 3, 2, 3, true } };
	for (size_t q = 0; q < sizeof gs / sizeof gs[0]; q++) {
		GroupSpec G = gs[q]; int bound = T ? G.bt : G.bq;
		Scenario s; s.name = fmt("threadgroup%d.x%d%s.body%d", G.m, G.r, G.grow ? "g" : "", G.body) + (bound >= 0 ? fmt(".b%d", bound) : std::string()); s.bound = bound;
		s.body = [G]() {
			std::string bad; int slot = 0;
			{
				ThreadGroup<ReuseThread> g; for (int i = 0; i < G.m; i++) g << ReuseThread();
				for (int j = 0; j < G.r && bad.empty(); j++) {
					if (G.grow && j > 0) { g << ReuseThread(); vf::add(W_REUSE_GROUP_GROW); }
					int m = g._threads.length(), first = slot;
					for (int i = 0; i < m; i++) { g._threads[i].slot = slot; g._threads[i].shape = G.body; g_final[slot] = 1; slot++; }
					g.start(); g.join();
					if (j > 0) vf::add(W_REUSE_GROUP);
					for (int i = 0; i < 16; i++) { int want = i < slot ? 1 : 0; if (g_runs[i] != want) bad += fmt("%s had run %d time(s) when the join() of round %d of the group returned, expected %d; ", i < first ? fmt("member run %d of an earlier round", i + 1).c_str() : i < slot ? fmt("member %d", i - first + 1).c_str() : "a run that was never started", (int)g_runs[i], j + 1, want); }
					for (int i = 0; i < m; i++) if (!g._threads[i].finished()) bad += fmt("finished() of member %d is false after the join() of round %d; ", i + 1, j + 1);
				}
			}
			clobberStack();
			return bad; };
		v.push_back(s);
	}
	// parallel_invoke called again with the same call site (2, 3, 4 functions)
	for (int n = 2; n <= 4; n++) for (int b = 0; b <= 3; b += 3) {
		int bound = n == 2 ? -1 : n == 3 ? (T ? 2 : 1) : 1;
		Scenario s; s.name = fmt("parallel_invoke%d.x2.body%d", n, b) + (bound >= 0 ? fmt(".b%d", bound) : std::string()); s.bound = bound;
		s.body = [n, b]() {
			g_body = b; std::string bad;
			for (int j = 0; j < 2 && bad.empty(); j++) {
				int o = 4 * j, k = 700 + 10 * j;
				for (int i = 0; i < n; i++) g_final[o + i] = 1;
				for (int i = 0; i < 4; i++) g_cap[i] = 0;
				if (n == 2) Thread::parallel_invoke([k, o]() { bodyFn(o); g_cap[0] = k; }, [k, o]() { bodyFn(o + 1); g_cap[1] = k + 1; });
				else if (n == 3) Thread::parallel_invoke([k, o]() { bodyFn(o); g_cap[0] = k; }, [k, o]() { bodyFn(o + 1); g_cap[1] = k + 1; }, [k, o]() { bodyFn(o + 2); g_cap[2] = k + 2; });
				else Thread::parallel_invoke([k, o]() { bodyFn(o); g_cap[0] = k; }, [k, o]() { bodyFn(o + 1); g_cap[1] = k + 1; }, [k, o]() { bodyFn(o + 2); g_cap[2] = k + 2; }, [k, o]() { bodyFn(o + 3); g_cap[3] = k + 3; });
				if (j > 0) vf::add(W_INVOKE_TWICE);
				for (int i = 0; i < 8; i++) { int want = (i < 4 * j + n && i % 4 < n) ? 1 : 0; if (g_runs[i] != want) bad += fmt("function %d of call %d had run %d time(s) when call %d of parallel_invoke(%d) returned, expected %d; ", i % 4 + 1, i / 4 + 1, (int)g_runs[i], j + 1, n, want); }
				for (int i = 0; i < n; i++) if (g_cap[i] != k + i) bad += fmt("function %d of call %d did not see its captured value; ", i + 1, j + 1);
				clobberStack();
			}
			return bad; };
		v.push_back(s);
	}
	// Semaphore: a second round on the same semaphore (count back to 0 after the first), consumer = the same Thread object started again
	for (int k = 1; k <= 3; k++) for (int init = 0; init <= 1; init++) {
		Scenario s; s.name = fmt("semaphore.%sk%d.x2", init ? "initial." : "", k);
		s.body = [k, init]() {
			Semaphore sem(init ? k : 0); int got = 0; std::string bad;
			struct Cons : public Thread { Semaphore* s; int k; int* got; void run() { for (int i = 0; i < k; i++) { s->wait(); (*got)++; } } } c; c.s = &sem; c.k = k; c.got = &got;
			for (int j = 0; j < 2 && bad.empty(); j++) {
				c.start();
				if (!(init && j == 0)) { if (j == 1 && k > 1) sem.post(k); else for (int i = 0; i < k; i++) sem.post(); }
				c.join();
				if (j > 0) vf::add(W_SEM_ROUND2);
				if (got != k * (j + 1)) bad += fmt("the consumer had received %d of the %d permits when the join() of round %d returned; ", got, k * (j + 1), j + 1);
				if (sem.value() != 0) bad += fmt("semaphore count not back to 0 after round %d; ", j + 1);
			}
			return bad; };
		v.push_back(s);
	}
	// two consumers, two rounds, post(2) then two single posts
	{ Scenario s; s.name = "semaphore.two_consumers.x2"; s.bound = T ? 3 : 2; s.body = []() {
		Semaphore sem; int got[2] = { 0, 0 }; std::string bad;
		struct Cons : public Thread { Semaphore* s; int* got; void run() { s->wait(); (*got)++; } } c1, c2; c1.s = c2.s = &sem; c1.got = &got[0]; c2.got = &got[1];
		for (int j = 0; j < 2 && bad.empty(); j++) {
			c1.start(); c2.start(); if (j == 0) sem.post(2); else { sem.post(); sem.post(); } c1.join(); c2.join();
			if (j > 0) vf::add(W_SEM_ROUND2);
			if (got[0] != j + 1 || got[1] != j + 1) bad += fmt("round %d: a waiter was not released (got %d and %d, expected %d each); ", j + 1, got[0], got[1], j + 1);
			if (sem.value() != 0) bad += fmt("semaphore count not back to 0 after round %d; ", j + 1);
		}
		return bad; }; v.push_back(s); }
	// a timed wait that ran into its timeout must not spoil the next round on the same semaphore, and the other way round
	for (int order = 0; order < 2; order++) { Scenario s; s.name = fmt("semaphore.timedwait.x2.o%d", order); s.bound = 3; s.body = [order]() {
		Semaphore sem; bool r[2] = { false, false }; std::string bad;
		struct Cons : public Thread { Semaphore* s; bool* r; double to; std::string* bad; void run() { *r = semTimed(*s, to, *bad); } } c; c.s = &sem; c.bad = &bad;
		for (int j = 0; j < 2; j++) {
			bool posted = (j == 1) == (order == 0); // order 0: nobody posts in round 1, one post in round 2; order 1: the reverse
			c.r = &r[j]; c.to = posted ? 5.0 : 0.5;
			c.start(); if (posted) sem.post(); c.join();
			if (j > 0) vf::add(W_SEM_ROUND2);
			if (!posted && r[j]) bad += fmt("round %d: Semaphore::wait(0.5) reported a permit although nobody posted; ", j + 1);
			if (posted && (r[j] ? 1 : 0) + sem.value() != 1) bad += fmt("round %d: the single post is neither consumed by the timed wait nor pending; ", j + 1);
			if (posted && !r[j]) { if (!sem.trywait()) bad += "the pending post could not be taken; "; }
			if (sem.value() != 0) bad += fmt("semaphore count not 0 at the end of round %d; ", j + 1);
		}
		if (order == 0 && !r[0] && r[1]) vf::add(W_SEM_TO_THEN_ACQ);
		return bad; }; v.push_back(s); }
	// trywait, two rounds: permits never lost or invented over both rounds
	{ Scenario s; s.name = "semaphore.trywait.x2"; s.bound = T ? -1 : 3; s.body = []() {
		Semaphore sem; int got = 0, failed = 0; std::string bad;
		struct Cons : public Thread { Semaphore* s; int* got; int* failed; void run() { for (int i = 0; i < 2; i++) { if (s->trywait()) (*got)++; else (*failed)++; } } } c; c.s = &sem; c.got = &got; c.failed = &failed;
		for (int j = 0; j < 2; j++) {
			c.start(); sem.post(); c.join();
			if (j > 0) vf::add(W_SEM_ROUND2);
			if (got + sem.value() != j + 1) bad += fmt("round %d: permits taken by trywait() plus permits left do not add up to the posts; ", j + 1);
			if (got + failed != 2 * (j + 1)) bad += fmt("round %d: trywait() calls lost; ", j + 1);
		}
		return bad; }; v.push_back(s); }
	// Condition: the same condition, mutex and waiter thread object for a second round (constructor and use())
	for (int useForm = 0; useForm < 2; useForm++) { Scenario s; s.name = useForm ? "condition.use.x2" : "condition.protocol.x2"; s.body = [useForm]() {
		Mutex m; Condition c1(m), c2; c2.use(m); Condition& cond = useForm ? c2 : c1; bool ready = false; int seen = 0; std::string bad;
		struct W : public Thread { Mutex* m; Condition* c; bool* ready; int* seen; void run() { m->lock(); while (!*ready) c->wait(); (*seen)++; m->unlock(); } } w; w.m = &m; w.c = &cond; w.ready = &ready; w.seen = &seen;
		for (int j = 0; j < 2 && bad.empty(); j++) {
			m.lock(); ready = false; m.unlock();
			w.start();
			m.lock(); ready = true; cond.signal(); m.unlock();
			w.join();
			if (j > 0) vf::add(W_COND_ROUND2);
			if (seen != j + 1) bad += fmt("round %d: the waiter had observed the condition %d time(s) when its join() returned, expected %d; ", j + 1, seen, j + 1);
		}
		return bad; }; v.push_back(s); }
	{ Scenario s; s.name = "condition.two_waiters.x2"; s.bound = T ? 2 : 1; s.body = []() {
		Mutex m; Condition cond(m); bool ready = false; int seen[2] = { 0, 0 }; std::string bad;
		struct W : public Thread { Mutex* m; Condition* c; bool* ready; int* seen; void run() { m->lock(); while (!*ready) c->wait(); (*seen)++; m->unlock(); } } w1, w2;
		w1.m = w2.m = &m; w1.c = w2.c = &cond; w1.ready = w2.ready = &ready; w1.seen = &seen[0]; w2.seen = &seen[1];
		for (int j = 0; j < 2 && bad.empty(); j++) {
			m.lock(); ready = false; m.unlock();
			w1.start(); w2.start();
			m.lock(); ready = true; cond.signal(); m.unlock();
			w1.join(); w2.join();
			if (j > 0) vf::add(W_COND_ROUND2);
			if (seen[0] != j + 1 || seen[1] != j + 1) bad += fmt("round %d: a waiter missed the signal; ", j + 1);
		}
		return bad; }; v.push_back(s); }
	// timed waits on the same condition: a round that ran into its timeout followed by a signalled round, and the reverse
	for (int order = 0; order < 2; order++) { Scenario s; s.name = fmt("condition.timedwait.x2.o%d", order); s.bound = 3; s.body = [order]() {
		Mutex m; Condition cond(m); bool ready = false; std::string bad; int nto[2] = { 0, 0 }; bool sawReady[2] = { false, false };
		struct W : public Thread { Mutex* m; Condition* c; bool* ready; int* nto; bool* saw; bool signalled; std::string* bad; void run() { m->lock(); if (signalled) { while (!*ready) { if (condTimed(*c, 5.0, *bad)) (*nto)++; } *saw = true; } else { if (condTimed(*c, 2.0, *bad)) (*nto)++; *saw = *ready; } m->unlock(); } } w; w.m = &m; w.c = &cond; w.ready = &ready; w.bad = &bad;
		for (int j = 0; j < 2; j++) {
			bool signalled = (j == 1) == (order == 0);
			m.lock(); ready = false; m.unlock();
			w.nto = &nto[j]; w.saw = &sawReady[j]; w.signalled = signalled;
			w.start(); if (signalled) { m.lock(); ready = true; cond.signal(); m.unlock(); } w.join();
			if (j > 0) vf::add(W_COND_ROUND2);
			if (signalled && !sawReady[j]) bad += fmt("round %d: the waiter did not observe the signalled condition; ", j + 1);
			if (signalled && nto[j] > 3) bad += fmt("round %d: the timed wait kept timing out although the condition was signalled under the mutex; ", j + 1);
			if (!signalled && nto[j] != 1) bad += fmt("round %d: Condition::wait(2.0) that nobody signalled did not report its timeout; ", j + 1);
		}
		if (order == 0 && nto[0] == 1 && sawReady[1]) vf::add(W_COND_TO_THEN_SIG);
		return bad; }; v.push_back(s); }
}

static std::string runScenario(const Scenario& s, const std::string* replay, vsched::ExploreStats* out) {
	g_case = s.name;
	std::string verdict;
	auto body = [&]() { for (int i = 0; i < 16; i++) { g_runs[i] = 0; g_final[i] = -1; } g_value = 0; for (int i = 0; i < 64; i++) g_hits[i] = 0; for (int i = 0; i < 4; i++) g_cap[i] = 0; g_timeouts = 0; vf::asan_clear(); verdict = s.body(); if (vf::asan_tripped()) { verdict += "ASan " + vf::asan_what() + "; "; vf::asan_clear(); } };
	auto after = [&](const vsched::Result& x) {
		vf::add(C_EXEC); vf::add(C_POINTS, x.points.size()); if (x.preemptions) vf::add(W_PREEMPT);
		// run_once has let the threads that were still alive when the scenario returned run to their end: what they touched then counts too
		if (vf::asan_tripped()) { verdict += "ASan " + vf::asan_what() + " in a thread that was still running after the scenario had returned; "; vf::asan_clear(); }
		for (int i = 0; i < 16; i++) if (g_final[i] >= 0 && g_runs[i] != g_final[i]) verdict += fmt("run %d had been executed %d time(s) when all threads of the execution had ended, expected %d; ", i + 1, (int)g_runs[i], g_final[i]);
		if (vsched::invalid_joins()) verdict += fmt("%d join()/detach call(s) on an empty, detached or already joined thread handle; ", vsched::invalid_joins());
		int early = 0, readyPts = 0;
		for (size_t i = 0; i < x.points.size(); i++) { const vsched::PointInfo& q = x.points[i]; if (q.ntimer && q.chosen >= q.nenabled - q.ntimer) early++; if (q.kind == 20) readyPts++; if (q.nenabled >= 2 && (q.running_enabled || q.ntimer)) g_opportunity = true; }
		if (early) vf::add(W_EARLY);
		if (g_timeouts > early) vf::add(W_TIMEOUT);
		if (readyPts && W_READY_POINT >= 0) vf::add(W_READY_POINT, readyPts);
		if (!verdict.empty()) {
			std::string sig = s.sig, desc = s.name + ": " + verdict + "schedule " + x.trace();
			// the one failure of this scenario family that is classified on its own (everything else it may show stays thread_contract)
			if (s.name.compare(0, 13, "array_lambda.") == 0 && (verdict == "ASan stack-use-after-scope; " || verdict == "ASan stack-use-after-scope in a thread that was still running after the scenario had returned; ")) sig = "moved_lambda_thread_writes_dead_object";
			if (sig != s.sig && vf::known(sig)) vf::known_hit(sig, desc); else vf::violation(sig, desc, s.name + "|" + x.trace());
			if (getenv("VF_DEBUG")) { FILE* df = fopen(getenv("VF_DEBUG"), "a"); if (df) { fprintf(df, "VIOL %s %s %s\n", s.name.c_str(), sig.c_str(), verdict.c_str()); fclose(df); } }
		}
	};
	if (replay) { vsched::Result x = vsched::run_once(vsched::parse_schedule(*replay), body); after(x); return verdict; }
	g_opportunity = false;
	vsched::ExploreStats st = vsched::explore(body, after, s.bound);
	if (out) *out = st;
	vf::add(C_JOBS); vf::add(C_STATES, st.distinct_states);
	// vacuity guard per scenario: with a non-zero bound, a scenario in which a preemption was possible at all (a point with the running thread and another
	// one enabled, or a timed waiter that may expire early) must have had executions with a preemption. How many threads the library uses is its own business
	// (a parallel_for that runs a share on the calling thread has none for n = 1): scenarios without any such point are counted, not failed.
	if (s.bound != 0) { if (g_opportunity) { vf::add(C_EXPECT_PRE); if (st.with_preemption) vf::add(C_WITH_PRE); else fprintf(stderr, "HARNESS ERROR: scenario %s had no execution with a preemption\n", s.name.c_str()); } else vf::add(C_NO_OPP); }
	return "";
}

// parallel_for(i0, i1, f, n): f exactly once for every index in [i0,i1), no other index, and everything done on return.
// mode 0: f does not yield; 1: f is a schedule point (every call); 2: the k-th thread stops at its first index until another thread has stepped
// (a forced switch: under bound 0 the creator gets ahead of that thread, which then competes with every later thread);
// 3: every thread sleeps at its first index, thread j for j+1 (k = 0) or nn-j (k = 1) virtual milliseconds: under bound 0 the creator reaches
// its join loop while NO thread has done its work, and the threads then finish in ascending / descending order. n < 0: the 3-argument form.
static int g_pforForced, g_pforSlept;
static void pforFn(int i) { vsched::point(); if (i >= -8 && i < 56) g_hits[i + 8]++; else g_hits[0] += 1000; }
// rep 1: the same call a second time (".x2"); rep 2: followed by a call with a wider range and one more thread, parallel_for(i0-2, i1+3, f, n+1) (".x2w"):
// nothing of the first call (threads, contexts, indices) may leak into the second. Expected count of f(i) = number of the calls whose range holds i.
static Scenario pforScenario(int i0, int i1, int n, int bound, int mode, int k = 0, bool fnptr = false, int rep = 0) {
	Scenario s; s.bound = bound;
	std::string ns = n < 0 ? std::string("def") : fmt("%d", n);
	s.name = fnptr ? fmt("parallel_for_fnptr.%d.%d.%s.b%d", i0, i1, ns.c_str(), bound) : mode == 2 ? fmt("parallel_for.%d.%d.%s.b%d.s%d", i0, i1, ns.c_str(), bound, k) : mode == 3 ? fmt("parallel_for.%d.%d.%s.b%d.t%d", i0, i1, ns.c_str(), bound, k) : fmt("parallel_for.%d.%d.%s.b%d.y%d", i0, i1, ns.c_str(), bound, mode);
	if (rep) s.name += rep == 1 ? ".x2" : ".x2w";
	s.body = [i0, i1, n, mode, k, fnptr, rep]() {
		g_pforForced = 0; g_pforSlept = 0;
		auto mk = [mode, k](int a0, int an) { return [mode, a0, k, an](int i) { if (mode == 1) vsched::point(); else if (mode == 2 && i == a0 + k) { if (vsched::self() > 0) { g_pforForced++; vsched::yield_spin(0); } else vsched::point(); } /* an implementation may run a share on the calling thread: nobody is left to step for it */ else if (mode == 3 && i - a0 < an) { g_pforSlept++; usleep(1000 * (k ? an - (i - a0) : i - a0 + 1)); } if (i >= -8 && i < 56) g_hits[i + 8]++; else g_hits[0] += 1000; }; };
		std::string bad;
		int calls = rep ? 2 : 1, lo[2] = { i0, rep == 2 ? i0 - 2 : i0 }, hi[2] = { i1, rep == 2 ? i1 + 3 : i1 }, nth[2] = { n, (rep == 2 && n > 0) ? n + 1 : n };
		for (int c = 0; c < calls && bad.empty(); c++) {
			int a0 = lo[c], a1 = hi[c], an = nth[c];
			auto f = mk(a0, std::min(an < 0 ? 8 : an, a1 - a0));
			if (fnptr) Thread::parallel_for(a0, a1, &pforFn, an);
			else if (an < 0) { Thread::parallel_for(a0, a1, f); vf::add(W_DEFAULT_NTH); }
			else Thread::parallel_for(a0, a1, f, an);
			clobberStack();
			if (c > 0) vf::add(W_PFOR_TWICE);
			for (int i = -8; i < 56; i++) { int want = 0; for (int d = 0; d <= c; d++) if (i >= lo[d] && i < hi[d]) want++; if (g_hits[i + 8] != want) { bad = fmt("f(%d) was invoked %d time(s) by the time %sparallel_for(%d, %d, f%s) returned, expected %d", i, (int)g_hits[i + 8], c ? "the second call, " : "", a0, a1, an < 0 ? "" : fmt(", %d", an).c_str(), want); break; } }
		}
		if (g_pforForced) vf::add(W_YIELD_FORCED);
		if (g_pforSlept) vf::add(W_ALL_BEHIND);
		return bad.empty() ? bad : bad + "; ";
	};
	return s;
}

// this binary runs with ASan's stack-use-after-return detection (vf's default options switch it off for all harnesses)
static void enableUseAfterReturn(char** argv) {
	const char* o = getenv("ASAN_OPTIONS"); std::string s = o ? o : "";
	if (s.find("detect_stack_use_after_return=") != std::string::npos) return;
	s += std::string(s.empty() ? "" : ":") + "detect_stack_use_after_return=1:max_uar_stack_size_log=16";
	setenv("ASAN_OPTIONS", s.c_str(), 1);
	execv("/proc/self/exe", argv); // only returns on failure: then w.stack_use_after_return_detection_on stays 0 and the run is reported as a harness error
}
static __attribute__((noinline)) void escape(volatile int* p) { *p = 1; }
static __attribute__((noinline)) bool uarActive() { volatile int probe = 0; escape(&probe); return __asan_get_current_fake_stack && __asan_get_current_fake_stack() != 0; }

int main(int argc, char** argv) {
	if (vf::have_asan()) enableUseAfterReturn(argv);
	vf::init(argc, argv, "C13", "s_c13_threads");
	C_EXEC = vf::counter("traces"); C_POINTS = vf::counter("transitions"); C_JOBS = vf::counter("scenarios"); W_PREEMPT = vf::counter("w.executions_with_preemption"); C_STATES = vf::counter("states"); W_TIMEOUT = vf::counter("w.timed_wait_timeouts_fired_at_quiescence");
	W_EARLY = vf::counter("w.executions_with_early_timeout_deviation"); W_SEM_TO = vf::counter("w.semaphore_timed_wait_timed_out"); W_SEM_BOTH_TO = vf::counter("w.semaphore_both_timed_waits_timed_out"); W_SEM_ACQ = vf::counter("w.semaphore_timed_wait_acquired");
	W_COND_TO = vf::counter("w.condition_timed_wait_timed_out"); W_COND_SIG = vf::counter("w.condition_timed_wait_signalled");
	W_WORKER_FIRST = vf::counter("w.thread_finished_before_creator_resumed"); W_CREATOR_FIRST = vf::counter("w.creator_resumed_before_thread_finished");
	W_TRY_FAIL = vf::counter("w.trywait_found_no_permit"); W_TRY_OK = vf::counter("w.trywait_took_permit"); W_YIELD_FORCED = vf::counter("w.parallel_for_creator_got_ahead_at_bound0"); W_DEFAULT_NTH = vf::counter("w.parallel_for_default_thread_count"); W_ALL_BEHIND = vf::counter("w.parallel_for_creator_ahead_of_all_threads_at_bound0");
	W_COPY_RUNNING = vf::counter("w.thread_copied_while_running"); W_UAR = vf::counter("w.stack_use_after_return_detection_on");
	W_REUSE_CYCLES = vf::counter("w.reuse_cycles_completed"); W_REUSE_WAIT = vf::counter("w.reuse_later_cycle_creator_ahead_of_function"); W_REUSE_STALE = vf::counter("reuse_finished_still_set_during_later_run");
	W_REUSE_GROUP = vf::counter("w.threadgroup_later_round"); W_REUSE_GROUP_GROW = vf::counter("w.threadgroup_member_added_between_rounds"); W_PFOR_TWICE = vf::counter("w.parallel_for_second_call"); W_INVOKE_TWICE = vf::counter("w.parallel_invoke_second_call");
	W_SEM_ROUND2 = vf::counter("w.semaphore_second_round"); W_COND_ROUND2 = vf::counter("w.condition_second_round"); W_SEM_TO_THEN_ACQ = vf::counter("w.semaphore_timeout_round_then_acquiring_round"); W_COND_TO_THEN_SIG = vf::counter("w.condition_timeout_round_then_signalled_round");
	W_FINISH_HOOK = vf::counter("w.finish_hook_ran_in_thread"); W_FUNCTOR_DTOR = vf::counter("w.functor_copy_destroyed_in_thread");
	C_EXPECT_PRE = vf::counter("scenarios_expecting_preemption"); C_WITH_PRE = vf::counter("scenarios_with_preemption"); C_SKIPPED = vf::counter("scenarios_skipped_deadline"); C_NO_OPP = vf::counter("scenarios_without_preemption_opportunity");
#ifdef ASL_VERIF_HAVE_READY_POINT
	W_READY_POINT = vf::counter("w.ready_flag_points");
#endif
	vsched::set_fatal_handler(onFatal);
	vsched::set_strict_joins(true);
	bool T = vf::opt.thorough();
	std::vector<Scenario> sc = scenarios(T);
	reuseScenarios(sc, T);
	// parallel_for: small ranges under all schedules within a preemption bound, with a yield inside f
	for (int i0 = -3; i0 <= 6; i0++) for (int i1 = -3; i1 <= 6; i1++) for (int n = 1; n <= 4; n++) { if (i1 - i0 > 5 && n > 3) continue; sc.push_back(pforScenario(i0, i1, n, (i1 - i0 <= 3 || n <= 2) ? (T ? 3 : 2) : (T ? 2 : 1), 1)); }
	// ... with a plain function instead of a lambda
	sc.push_back(pforScenario(0, 5, 2, 2, 1, 0, true)); sc.push_back(pforScenario(-3, 4, 3, T ? 2 : 1, 1, 0, true)); sc.push_back(pforScenario(2, 2, 1, 2, 1, 0, true));
	// every range -3..40 and thread count 1..12 under all non-preemptive schedules (bound 0: creator-first, worker-first at every forced switch)
	for (int i0 = -3; i0 <= 40; i0++) for (int i1 = -3; i1 <= 40; i1++) for (int n = 1; n <= 12; n++) sc.push_back(pforScenario(i0, i1, n, 0, 0));
	// the 3-argument form (default thread count)
	for (int i0 = -3; i0 <= 40; i0++) for (int i1 = -3; i1 <= 40; i1++) sc.push_back(pforScenario(i0, i1, -1, 0, 0));
	// the same ranges and thread counts with threads that sleep at their first index: the creator reaches its join loop ahead of every thread
	for (int i0 = -3; i0 <= 40; i0++) for (int i1 = i0 + 1; i1 <= 40; i1++) for (int n = 1; n <= 12; n++) { sc.push_back(pforScenario(i0, i1, n, 0, 3, 0)); if (std::min(n, i1 - i0) >= 2) sc.push_back(pforScenario(i0, i1, n, 0, 3, 1)); }
	for (int i0 = -3; i0 <= 40; i0++) for (int i1 = i0 + 1; i1 <= 40; i1++) sc.push_back(pforScenario(i0, i1, -1, 0, 3, 0));
	// ... and with one thread k that lets its creator get ahead and then competes with the later threads (quick: n <= 3, every k; thorough: also n <= 12, first and last thread)
	for (int i0 = -3; i0 <= 40; i0++) for (int i1 = i0 + 1; i1 <= 40; i1++) for (int n = 1; n <= 12; n++) { int nn = std::min(n, i1 - i0); for (int k = 0; k < nn; k++) if (n <= 3 || (T && (k == 0 || k == nn - 1))) sc.push_back(pforScenario(i0, i1, n, 0, 2, k)); }
	if (T) for (int i0 = -3; i0 <= 12; i0++) for (int i1 = i0; i1 <= 12; i1++) for (int n = 1; n <= 6; n++) sc.push_back(pforScenario(i0, i1, n, 1, 0));
	// parallel_for called twice in a row (the scheduler holds 15 threads per execution: n <= 7 for the same call again, n <= 6 when the second call is the wider one)
	for (int i0 = -3; i0 <= 40; i0++) for (int i1 = -3; i1 <= 40; i1++) for (int n = 1; n <= 7; n++) sc.push_back(pforScenario(i0, i1, n, 0, 0, 0, false, 1));
	for (int i0 = -3; i0 <= 40; i0++) for (int i1 = i0 + 1; i1 <= std::min(40, i0 + 7); i1++) sc.push_back(pforScenario(i0, i1, -1, 0, 0, 0, false, 1));
	for (int i0 = -3; i0 <= 40; i0++) for (int i1 = i0 + 1; i1 <= 40; i1++) for (int n = 1; n <= 6; n++) sc.push_back(pforScenario(i0, i1, n, 0, 3, 0, false, 2));
	for (int i0 = -3; i0 <= 6; i0++) for (int i1 = -3; i1 <= 6; i1++) for (int n = 1; n <= 3; n++) for (int rep = 1; rep <= 2; rep++) sc.push_back(pforScenario(i0, i1, n, T ? 2 : 1, 1, 0, false, rep));
	sc.push_back(pforScenario(0, 5, 2, T ? 2 : 1, 1, 0, true, 1));
	if (vf::opt.replay) {
		std::string k = vf::opt.kase, sched; size_t bar = k.find('|'); if (bar != std::string::npos) { sched = k.substr(bar + 1); k = k.substr(0, bar); }
		bool found = false;
		for (size_t i = 0; i < sc.size(); i++) if (sc[i].name == k) { found = true; vf::parallel(1, [&](uint64_t) { vf::cur(sc[i].name); runScenario(sc[i], &sched, 0); }); break; }
		if (!found) { fprintf(stderr, "HARNESS ERROR: no scenario named %s\n", k.c_str()); return 2; }
		return vf::finish();
	}
	// development aid (detection proofs per family): C13_ONLY=<prefix> explores only the scenarios whose name starts with it; ./check then fails the run on the zero witnesses
	if (const char* only = getenv("C13_ONLY")) { std::vector<Scenario> keep; for (size_t i = 0; i < sc.size(); i++) if (sc[i].name.compare(0, strlen(only), only) == 0) keep.push_back(sc[i]); sc.swap(keep); }
	vf::parallel(sc.size(), [&](uint64_t i) { vf::cur(sc[i].name); if (vf::deadline_passed()) { vf::add(C_SKIPPED); vf::cap_hit("deadline"); return; } if (i == 0 && uarActive()) vf::add(W_UAR); vsched::ExploreStats st; runScenario(sc[i], 0, &st); if (getenv("VF_DEBUG")) { FILE* df = fopen(getenv("VF_DEBUG"), "a"); if (df) { fprintf(df, "%s %llu %llu\n", sc[i].name.c_str(), (unsigned long long)st.executions, (unsigned long long)st.points); fclose(df); } } });
	vf::setinfo("scenarios", fmt("%d", (int)sc.size()));
	vf::sample("lambda.body0: Thread t([]{}); t.join(); t.finished() - all schedules of creator / worker / ready-flag spin");
	vf::sample("parallel_for(-3, 2, f, 3) with a yield inside f, all schedules with <= 1 preemption; parallel_for(i0, i1, f, n) for every -3<=i0,i1<=40, n<=12 (and the 3-argument form) under every non-preemptive schedule, plain and with one thread that lets its creator get ahead");
	int rc = vf::finish();
	// a skipped scenario or a scenario that never saw a preemption makes the tier fail: the bounds registered for it were not explored
	bool herr = false;
	if (vf::get(C_SKIPPED)) { fprintf(stderr, "HARNESS ERROR: %llu scenario(s) skipped because the deadline had passed\n", (unsigned long long)vf::get(C_SKIPPED)); herr = true; }
	if (vf::get(C_WITH_PRE) != vf::get(C_EXPECT_PRE)) { fprintf(stderr, "HARNESS ERROR: %llu of %llu scenario(s) with threads and a preemption budget had no execution with a preemption\n", (unsigned long long)(vf::get(C_EXPECT_PRE) - vf::get(C_WITH_PRE)), (unsigned long long)vf::get(C_EXPECT_PRE)); herr = true; }
	return rc ? rc : herr ? 2 : 0;
}
