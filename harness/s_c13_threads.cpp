// C13 — Thread start/join/finished, ThreadGroup, parallel_for / parallel_invoke, Semaphore and Condition under the
// controlled scheduler: every schedule (or every schedule within a preemption bound) of each small scenario.
#include <asl/Thread.h>
#include <asl/Mutex.h>
#include <set>
#include "vf.h"
#include "vsched.h"
using namespace asl;
using vf::fmt;

static int C_EXEC, C_POINTS, C_JOBS, W_PREEMPT, C_STATES, W_WORKER_FIRST, W_TIMEOUT;
static std::string g_case;
static void onFatal(const char* what, const std::string& schedule) {
	std::string w = what; for (size_t i = 0; i < w.size(); i++) w[i] = (char)tolower(w[i]);
	if (w == "diverged") { fprintf(stderr, "HARNESS ERROR: schedule replay diverged (%s | %s)\n", g_case.c_str(), schedule.c_str()); _exit(2); }
	vf::violation(w, std::string(what) + " in scenario " + g_case + " under schedule " + schedule, g_case + "|" + schedule);
	vf::restart_worker();
}

// all state that scenarios touch; reset per execution
static volatile int g_runs[16], g_value, g_hits[64];
static int g_body; // 0 empty, 1 yield, 2 write-then-yield, 3 yield-then-write
static void bodyFn(int idx) { if (g_body == 1 || g_body == 3) vsched::point(); g_value = 42; g_runs[idx]++; if (g_body == 2) vsched::point(); }
struct SubThread : public Thread { int idx; SubThread(int i = 0) : idx(i) {} void run() { bodyFn(idx); } };

struct Scenario { std::string name; std::function<std::string()> body; int bound; }; // body returns "" when every assertion holds

static std::string chk(bool c, const char* what) { return c ? "" : std::string(what) + "; "; }

static std::vector<Scenario> scenarios(bool T) {
	std::vector<Scenario> v;
	for (int b = 0; b < 4; b++) {
		{ Scenario s; s.name = fmt("subclass.body%d", b); s.bound = -1; s.body = [b]() { g_body = b; SubThread t(0); t.start(); t.join(); return chk(g_runs[0] == 1, "run() did not execute exactly once before join() returned") + chk(g_value == 42, "effect of run() not visible after join()") + chk(t.finished(), "finished() is false after join()"); }; v.push_back(s); }
		{ Scenario s; s.name = fmt("lambda.body%d", b); s.bound = -1; s.body = [b]() { g_body = b; Thread t([]() { bodyFn(0); }); t.join(); return chk(g_runs[0] == 1, "lambda did not execute exactly once before join() returned") + chk(g_value == 42, "effect not visible after join()") + chk(t.finished(), "finished() is false after join() of a lambda thread"); }; v.push_back(s); }
		{ Scenario s; s.name = fmt("subclass_poll.body%d", b); s.bound = -1; s.body = [b]() { g_body = b; SubThread t(0); t.start(); bool f1 = t.finished(); int r1 = g_runs[0]; t.join(); return chk(!f1 || r1 == 1, "finished() was true before run() completed") + chk(t.finished() && g_runs[0] == 1, "finished()/run count after join()"); }; v.push_back(s); }
		{ Scenario s; s.name = fmt("two_subclass.body%d", b); s.bound = -1; s.body = [b]() { g_body = b; SubThread t1(0), t2(1); t1.start(); t2.start(); t1.join(); bool ok1 = g_runs[0] == 1; t2.join(); return chk(ok1 && g_runs[1] == 1, "each thread must have run exactly once when its join() returns") + chk(t1.finished() && t2.finished(), "finished() after join()"); }; v.push_back(s); }
	}
	{ Scenario s; s.name = "threadgroup3"; s.bound = T ? 3 : 2; s.body = []() { g_body = 1; ThreadGroup<SubThread> g; g << SubThread(0) << SubThread(1) << SubThread(2); g.start(); g.join(); return chk(g_runs[0] == 1 && g_runs[1] == 1 && g_runs[2] == 1, "ThreadGroup member did not run exactly once before join() returned"); }; v.push_back(s); }
	{ Scenario s; s.name = "threadgroup2.body2"; s.bound = -1; s.body = []() { g_body = 2; ThreadGroup<SubThread> g; g << SubThread(0) << SubThread(1); g.start(); g.join(); return chk(g_runs[0] == 1 && g_runs[1] == 1, "ThreadGroup member did not run exactly once before join() returned"); }; v.push_back(s); }
	{ Scenario s; s.name = "parallel_invoke2"; s.bound = -1; s.body = []() { g_body = 1; Thread::parallel_invoke([]() { bodyFn(0); }, []() { bodyFn(1); }); return chk(g_runs[0] == 1 && g_runs[1] == 1, "parallel_invoke(2) must run each function exactly once before returning"); }; v.push_back(s); }
	{ Scenario s; s.name = "parallel_invoke3"; s.bound = T ? 3 : 2; s.body = []() { g_body = 1; Thread::parallel_invoke([]() { bodyFn(0); }, []() { bodyFn(1); }, []() { bodyFn(2); }); return chk(g_runs[0] == 1 && g_runs[1] == 1 && g_runs[2] == 1, "parallel_invoke(3) must run each function exactly once before returning"); }; v.push_back(s); }
	{ Scenario s; s.name = "parallel_invoke4"; s.bound = T ? 2 : 1; s.body = []() { g_body = 0; Thread::parallel_invoke([]() { bodyFn(0); }, []() { bodyFn(1); }, []() { bodyFn(2); }, []() { bodyFn(3); }); return chk(g_runs[0] == 1 && g_runs[1] == 1 && g_runs[2] == 1 && g_runs[3] == 1, "parallel_invoke(4) must run each function exactly once before returning"); }; v.push_back(s); }
	// Semaphore: k posts against k waits, no post may be lost
	for (int k = 1; k <= 3; k++) {
		Scenario s; s.name = fmt("semaphore.k%d", k); s.bound = -1;
		s.body = [k]() {
			Semaphore sem; int got = 0;
			struct Cons : public Thread { Semaphore* s; int k; int* got; void run() { for (int i = 0; i < k; i++) { s->wait(); (*got)++; } } } c; c.s = &sem; c.k = k; c.got = &got;
			c.start();
			for (int i = 0; i < k; i++) sem.post();
			c.join();
			return chk(got == k, "consumer did not receive every post") + chk(sem.value() == 0, "semaphore count not back to 0");
		};
		v.push_back(s);
	}
	{ Scenario s; s.name = "semaphore.two_consumers"; s.bound = T ? -1 : 3; s.body = []() {
		Semaphore sem; int got[2] = { 0, 0 };
		struct Cons : public Thread { Semaphore* s; int* got; void run() { s->wait(); (*got)++; } } c1, c2; c1.s = c2.s = &sem; c1.got = &got[0]; c2.got = &got[1];
		c1.start(); c2.start(); sem.post(2); c1.join(); c2.join();
		return chk(got[0] == 1 && got[1] == 1, "post(2) must release both waiters"); }; v.push_back(s); }
	{ Scenario s; s.name = "semaphore.timedwait"; s.bound = 3; s.body = []() {
		Semaphore sem; bool r1 = false, r2 = true;
		struct Cons : public Thread { Semaphore* s; bool* r1; bool* r2; void run() { *r1 = s->wait(5.0); *r2 = s->wait(0.5); } } c; c.s = &sem; c.r1 = &r1; c.r2 = &r2;
		c.start(); sem.post(); c.join();
		if (!r2 || !r1) vf::add(W_TIMEOUT);
		return chk((r1 ? 1 : 0) + (r2 ? 1 : 0) + sem.value() == 1, "the single post must be consumed by exactly one timed wait or still be pending"); }; v.push_back(s); }
	// Condition under the documented protocol
	{ Scenario s; s.name = "condition.protocol"; s.bound = -1; s.body = []() {
		Mutex m; Condition cond(m); bool ready = false; int seen = 0;
		struct W : public Thread { Mutex* m; Condition* c; bool* ready; int* seen; void run() { m->lock(); while (!*ready) c->wait(); *seen = 1; m->unlock(); } } w; w.m = &m; w.c = &cond; w.ready = &ready; w.seen = &seen;
		w.start();
		m.lock(); ready = true; cond.signal(); m.unlock();
		w.join();
		return chk(seen == 1, "waiter did not observe the condition"); }; v.push_back(s); }
	{ Scenario s; s.name = "condition.two_waiters"; s.bound = T ? -1 : 3; s.body = []() {
		Mutex m; Condition cond(m); bool ready = false; int seen[2] = { 0, 0 };
		struct W : public Thread { Mutex* m; Condition* c; bool* ready; int* seen; void run() { m->lock(); while (!*ready) c->wait(); *seen = 1; m->unlock(); } } w1, w2;
		w1.m = w2.m = &m; w1.c = w2.c = &cond; w1.ready = w2.ready = &ready; w1.seen = &seen[0]; w2.seen = &seen[1];
		w1.start(); w2.start();
		m.lock(); ready = true; cond.signal(); m.unlock();
		w1.join(); w2.join();
		return chk(seen[0] == 1 && seen[1] == 1, "a waiter missed the signal"); }; v.push_back(s); }
	{ Scenario s; s.name = "condition.timedwait"; s.bound = 3; s.body = []() {
		Mutex m; Condition cond(m); bool ready = false; bool timedOut = true;
		struct W : public Thread { Mutex* m; Condition* c; bool* ready; bool* to; void run() { m->lock(); int n = 0; while (!*ready) { if (c->wait(5.0)) n++; } *to = n > 3; m->unlock(); } } w; w.m = &m; w.c = &cond; w.ready = &ready; w.to = &timedOut;
		w.start(); m.lock(); ready = true; cond.signal(); m.unlock(); w.join();
		return chk(!timedOut, "timed wait kept timing out although the condition was signalled under the mutex"); }; v.push_back(s); }
	return v;
}

static std::string runScenario(const Scenario& s, const std::string* replay, vsched::ExploreStats* out) {
	g_case = s.name;
	std::string verdict;
	auto body = [&]() { for (int i = 0; i < 16; i++) g_runs[i] = 0; g_value = 0; for (int i = 0; i < 64; i++) g_hits[i] = 0; vf::asan_clear(); verdict = s.body(); if (vf::asan_tripped()) verdict += "ASan " + vf::asan_what() + "; "; };
	auto after = [&](const vsched::Result& x) {
		vf::add(C_EXEC); vf::add(C_POINTS, x.points.size()); if (x.preemptions) vf::add(W_PREEMPT);
		if (!verdict.empty()) vf::violation("thread_contract", s.name + ": " + verdict + "schedule " + x.trace(), s.name + "|" + x.trace());
	};
	if (replay) { vsched::Result x = vsched::run_once(vsched::parse_schedule(*replay), body); after(x); return verdict; }
	vsched::ExploreStats st = vsched::explore(body, after, s.bound);
	if (out) *out = st;
	vf::add(C_JOBS); vf::add(C_STATES, st.distinct_states);
	return "";
}

// parallel_for(i0, i1, f, n): f exactly once for every index in [i0,i1), no other index, and everything done on return
static Scenario pforScenario(int i0, int i1, int n, int bound, bool yieldInF) {
	Scenario s; s.name = fmt("parallel_for.%d.%d.%d.b%d.y%d", i0, i1, n, bound, (int)yieldInF); s.bound = bound;
	s.body = [i0, i1, n, yieldInF]() {
		Thread::parallel_for(i0, i1, [yieldInF](int i) { if (yieldInF) vsched::point(); if (i >= -8 && i < 56) g_hits[i + 8]++; else g_hits[0] += 1000; }, n);
		std::string bad;
		for (int i = -8; i < 56; i++) { int want = (i >= i0 && i < i1) ? 1 : 0; if (g_hits[i + 8] != want) { bad = fmt("f(%d) was invoked %d time(s) by the time parallel_for(%d, %d, f, %d) returned, expected %d", i, (int)g_hits[i + 8], i0, i1, n, want); break; } }
		return bad.empty() ? bad : bad + "; ";
	};
	return s;
}

int main(int argc, char** argv) {
	vf::init(argc, argv, "C13", "s_c13_threads");
	C_EXEC = vf::counter("traces"); C_POINTS = vf::counter("transitions"); C_JOBS = vf::counter("scenarios"); W_PREEMPT = vf::counter("w.executions_with_preemption"); C_STATES = vf::counter("states"); W_TIMEOUT = vf::counter("w.timed_wait_timeouts_fired_at_quiescence");
	vsched::set_fatal_handler(onFatal);
	bool T = vf::opt.thorough();
	std::vector<Scenario> sc = scenarios(T);
	// parallel_for: small ranges under all schedules within a preemption bound, with a yield inside f
	for (int i0 = -3; i0 <= 6; i0++) for (int i1 = -3; i1 <= 6; i1++) for (int n = 1; n <= 4; n++) { if (i1 - i0 > 5 && n > 3) continue; sc.push_back(pforScenario(i0, i1, n, (i1 - i0 <= 3 || n <= 2) ? (T ? 3 : 2) : (T ? 2 : 1), true)); }
	// every range -3..40 and thread count 1..12 under all non-preemptive schedules (bound 0: creator-first, worker-first at every forced switch)
	for (int i0 = -3; i0 <= 40; i0++) for (int i1 = -3; i1 <= 40; i1++) for (int n = 1; n <= 12; n++) sc.push_back(pforScenario(i0, i1, n, 0, false));
	if (T) for (int i0 = -3; i0 <= 12; i0++) for (int i1 = i0; i1 <= 12; i1++) for (int n = 1; n <= 6; n++) sc.push_back(pforScenario(i0, i1, n, 1, false));
	if (vf::opt.replay) {
		std::string k = vf::opt.kase, sched; size_t bar = k.find('|'); if (bar != std::string::npos) { sched = k.substr(bar + 1); k = k.substr(0, bar); }
		for (size_t i = 0; i < sc.size(); i++) if (sc[i].name == k) { vf::parallel(1, [&](uint64_t) { runScenario(sc[i], &sched, 0); }); break; }
		return vf::finish();
	}
	vf::parallel(sc.size(), [&](uint64_t i) { vf::cur(sc[i].name); if (vf::deadline_passed()) { vf::cap_hit("deadline"); return; } vsched::ExploreStats st; runScenario(sc[i], 0, &st); if (getenv("VF_DEBUG")) fprintf(stderr, "%s: %llu executions\n", sc[i].name.c_str(), (unsigned long long)st.executions); });
	vf::setinfo("scenarios", fmt("%d", (int)sc.size()));
	vf::sample("lambda.body0: Thread t([]{}); t.join(); t.finished() - all schedules of creator / worker / ready-flag spin");
	vf::sample("parallel_for(-3, 2, f, 3) with a yield inside f, all schedules with <= 1 preemption; parallel_for(i0, i1, f, n) for every -3<=i0,i1<=14, n<=6 under every non-preemptive schedule");
	return vf::finish();
}
