// C13 — Thread start/join/finished, ThreadGroup, parallel_for / parallel_invoke, Semaphore and Condition under the
// controlled scheduler: every schedule (or every schedule within a preemption bound) of each small scenario.
//
// Oracles: run counts / captured values / visibility at the moment join() (or parallel_*) returns, finished() afterwards,
// deadlock and livelock (lost post / signal), return values of timed waits against the virtual clock, refused joins
// (join on an empty, detached or already joined handle: vsched strict joins), and AddressSanitizer with
// detect_stack_use_after_return switched on for this binary (a thread that outlives the frame its context or its Thread
// object lived in), read after the execution has drained its remaining threads.
#include <asl/Thread.h>
#include <asl/Mutex.h>
#include <asl/Array.h>
#include <set>
#include "vf.h"
#include "vsched.h"
using namespace asl;
using vf::fmt;

extern "C" void* __asan_get_current_fake_stack(void) __attribute__((weak));

static int C_EXEC, C_POINTS, C_JOBS, W_PREEMPT, C_STATES, W_WORKER_FIRST, W_TIMEOUT, W_EARLY, W_SEM_TO, W_SEM_BOTH_TO, W_SEM_ACQ, W_COND_TO, W_COND_SIG,
	C_EXPECT_PRE, C_WITH_PRE, C_SKIPPED, W_UAR, W_CREATOR_FIRST, W_TRY_FAIL, W_TRY_OK, W_YIELD_FORCED, W_DEFAULT_NTH, W_COPY_RUNNING, W_ALL_BEHIND, W_READY_POINT = -1;
static std::string g_case;
static void onFatal(const char* what, const std::string& schedule) {
	std::string w = what; for (size_t i = 0; i < w.size(); i++) w[i] = (char)tolower(w[i]);
	if (w == "diverged") { fprintf(stderr, "HARNESS ERROR: schedule replay diverged (%s | %s)\n", g_case.c_str(), schedule.c_str()); _exit(2); }
	vf::violation(w, std::string(what) + " in scenario " + g_case + " under schedule " + schedule, g_case + "|" + schedule);
	vf::restart_worker();
}

// all state that scenarios touch; reset per execution
static volatile int g_runs[16], g_value, g_hits[64], g_cap[4];
static int g_timeouts; // timed waits that reported a timeout in this execution
static int g_body; // 0 empty, 1 yield, 2 write-then-yield, 3 yield-then-write
static void bodyFn(int idx) { if (g_body == 1 || g_body == 3) vsched::point(); g_value = 42; g_runs[idx]++; if (g_body == 2) vsched::point(); }
static void plainFn() { bodyFn(0); }
struct SubThread : public Thread { int idx; SubThread(int i = 0) : idx(i) {} void run() { bodyFn(idx); } };
struct Functor { int k; void operator()() const { if (g_body == 1 || g_body == 3) vsched::point(); g_cap[0] = k; g_value = 42; g_runs[0]++; if (g_body == 2) vsched::point(); } };
// what a creator typically does next: its stack below the current frame is reused
static __attribute__((noinline, no_sanitize_address)) void clobberStack() { volatile char buf[2048]; for (int i = 0; i < 2048; i++) buf[i] = 0x5a; }

struct Scenario { std::string name; std::function<std::string()> body; int bound; bool threads; std::string sig; Scenario() : bound(-1), threads(true), sig("thread_contract") {} }; // body returns "" when every assertion holds

static std::string chk(bool c, const char* what) { return c ? "" : std::string(what) + "; "; }
static std::string ranOnce(int i, const char* who) { return g_runs[i] == 1 ? "" : fmt("%s had run %d time(s) when join() returned, expected exactly once; ", who, (int)g_runs[i]); }
static std::string visible() { return chk(g_value == 42, "effect of the thread function not visible after join()"); }

// Semaphore::wait(timeout): true = acquired. In the model a wait ends either by a post or by the clock reaching its deadline.
static bool semTimed(Semaphore& s, double timeout, std::string& bad) {
	double t0 = vsched::vnow();
	bool r = s.wait(timeout);
	bool expired = vsched::vnow() - t0 >= timeout - 1e-3;
	if (!r) g_timeouts++;
	vf::add(r ? W_SEM_ACQ : W_SEM_TO);
	if (r == expired) bad += fmt("Semaphore::wait(%g) returned %s although the wait %s; ", timeout, r ? "true (acquired)" : "false (timed out)", expired ? "ran into its timeout" : "was ended by a post before its timeout");
	return r;
}
// Condition::wait(timeout): true = timed out. A wait that was ended by signal() must not be reported as a timeout (a lost signal for the caller).
static bool condTimed(Condition& c, double timeout, std::string& bad) {
	double t0 = vsched::vnow();
	bool to = c.wait(timeout);
	bool expired = vsched::vnow() - t0 >= timeout - 1e-3;
	if (to) g_timeouts++;
	vf::add(to ? W_COND_TO : W_COND_SIG);
	if (to && !expired) bad += fmt("Condition::wait(%g) reported a timeout although it was woken by signal() before the timeout; ", timeout);
	return to;
}

static std::vector<Scenario> scenarios(bool T) {
	std::vector<Scenario> v;
	for (int b = 0; b < 4; b++) {
		{ Scenario s; s.name = fmt("subclass.body%d", b); s.body = [b]() { g_body = b; SubThread t(0); t.start(); t.join(); return chk(g_runs[0] == 1, "run() did not execute exactly once before join() returned") + chk(g_value == 42, "effect of run() not visible after join()") + chk(t.finished(), "finished() is false after join()"); }; v.push_back(s); }
		{ Scenario s; s.name = fmt("lambda.body%d", b); s.body = [b]() { g_body = b; Thread t([]() { bodyFn(0); }); t.join(); return chk(g_runs[0] == 1, "lambda did not execute exactly once before join() returned") + chk(g_value == 42, "effect not visible after join()") + chk(t.finished(), "finished() is false after join() of a lambda thread"); }; v.push_back(s); }
		{ Scenario s; s.name = fmt("subclass_poll.body%d", b); s.body = [b]() { g_body = b; SubThread t(0); t.start(); bool f1 = t.finished(); int r1 = g_runs[0]; if (f1) vf::add(W_WORKER_FIRST); else vf::add(W_CREATOR_FIRST); t.join(); return chk(!f1 || r1 == 1, "finished() was true before run() completed") + chk(t.finished() && g_runs[0] == 1, "finished()/run count after join()"); }; v.push_back(s); }
		{ Scenario s; s.name = fmt("two_subclass.body%d", b); s.body = [b]() { g_body = b; SubThread t1(0), t2(1); t1.start(); t2.start(); t1.join(); bool ok1 = g_runs[0] == 1; t2.join(); return chk(ok1 && g_runs[1] == 1, "each thread must have run exactly once when its join() returns") + chk(t1.finished() && t2.finished(), "finished() after join()"); }; v.push_back(s); }
		// the lambda carries a value and a reference: both must reach the thread intact although the creator's context is gone by then
		{ Scenario s; s.name = fmt("lambda_capture.body%d", b); s.body = [b]() {
			g_body = b; int k = 1000 + b; volatile int x = 0;
			Thread t([k, &x]() { if (g_body == 1 || g_body == 3) vsched::point(); g_cap[0] = k; x = k + 1; g_value = 42; g_runs[0]++; if (g_body == 2) vsched::point(); });
			clobberStack();
			t.join();
			return ranOnce(0, "the lambda") + visible() + chk(g_cap[0] == k, "the value captured by the lambda did not reach the thread intact") + chk(x == k + 1, "the write through the captured reference is not visible after join()") + chk(t.finished(), "finished() is false after join() of a lambda thread"); }; v.push_back(s); }
		// finished() of a lambda thread polled before join(): true only once the function has completed
		{ Scenario s; s.name = fmt("lambda_poll.body%d", b); s.body = [b]() { g_body = b; Thread t([]() { bodyFn(0); }); bool f1 = t.finished(); int r1 = g_runs[0]; if (f1) vf::add(W_WORKER_FIRST); else vf::add(W_CREATOR_FIRST); t.join(); return chk(!f1 || r1 == 1, "finished() of a lambda thread was true before the function completed") + chk(t.finished() && g_runs[0] == 1, "finished()/run count after join() of a lambda thread"); }; v.push_back(s); }
		// function pointer and stateful function object as thread function
		{ Scenario s; s.name = fmt("fnptr.body%d", b); s.body = [b]() { g_body = b; Thread t(&plainFn); clobberStack(); t.join(); return ranOnce(0, "the function") + visible() + chk(t.finished(), "finished() is false after join() of a function thread"); }; v.push_back(s); }
		{ Scenario s; s.name = fmt("functor.body%d", b); s.body = [b]() { g_body = b; Functor f; f.k = 77 + b; Thread t(f); f.k = -1; clobberStack(); t.join(); return ranOnce(0, "the function object") + visible() + chk(g_cap[0] == 77 + b, "the thread did not run on its own copy of the function object") + chk(t.finished(), "finished() is false after join() of a function-object thread"); }; v.push_back(s); }
		// static Thread::start(f, &t): the three ways its result can be used
		{ Scenario s; s.name = fmt("start_static_ret.body%d", b); s.body = [b]() { g_body = b; Thread t; Thread u = Thread::start([]() { bodyFn(0); }, &t); clobberStack(); u.join(); return ranOnce(0, "the function given to Thread::start(f, &t)") + visible() + chk(t.finished() || u.finished(), "neither t nor the returned Thread reports finished() after join()"); }; v.push_back(s); }
		{ Scenario s; s.name = fmt("start_static_obj.body%d", b); s.body = [b]() { g_body = b; Thread t; Thread::start([]() { bodyFn(0); }, &t); clobberStack(); t.join(); return ranOnce(0, "the function given to Thread::start(f, &t)") + visible() + chk(t.finished(), "t.finished() is false after Thread::start(f, &t); t.join()"); }; v.push_back(s); }
		{ Scenario s; s.name = fmt("start_static_assign.body%d", b); s.body = [b]() { g_body = b; Thread t; t = Thread::start([]() { bodyFn(0); }, &t); clobberStack(); t.join(); return ranOnce(0, "the function given to Thread::start(f, &t)") + visible() + chk(t.finished(), "t.finished() is false after t = Thread::start(f, &t); t.join()"); }; v.push_back(s); }
		// copying a Thread transfers the handle: the copy is the one to join, the thread keeps running on the object it was started on
		{ Scenario s; s.name = fmt("copy_ctor_subclass.body%d", b); s.body = [b]() { g_body = b; SubThread t(0); t.start(); bool running = !t.finished(); SubThread u(t); if (running) vf::add(W_COPY_RUNNING); u.join(); return ranOnce(0, "run()") + visible() + chk(t.finished(), "finished() of the object the thread runs on is false after join() through the copy"); }; v.push_back(s); }
		{ Scenario s; s.name = fmt("copy_assign_subclass.body%d", b); s.body = [b]() { g_body = b; SubThread t(0), u(5); t.start(); u = t; u.join(); return ranOnce(0, "run()") + visible() + chk(g_runs[5] == 0, "the thread ran on the wrong object") + chk(t.finished(), "finished() of the object the thread runs on is false after join() through the assigned copy"); }; v.push_back(s); }
		{ Scenario s; s.name = fmt("copy_ctor_lambda.body%d", b); s.body = [b]() { g_body = b; Thread t([]() { bodyFn(0); }); Thread u(t); clobberStack(); u.join(); return ranOnce(0, "the lambda") + visible() + chk(t.finished(), "finished() of the object the lambda thread was created on is false after join() through the copy"); }; v.push_back(s); }
		{ Scenario s; s.name = fmt("array_lambda.body%d", b); s.body = [b]() { g_body = b; Array<Thread> a; a << Thread([]() { bodyFn(0); }); clobberStack(); a[0].join(); return ranOnce(0, "the lambda") + visible(); }; v.push_back(s); }
	}
	{ Scenario s; s.name = "threadgroup3"; s.bound = T ? 3 : 2; s.body = []() { g_body = 1; ThreadGroup<SubThread> g; g << SubThread(0) << SubThread(1) << SubThread(2); g.start(); g.join(); return chk(g_runs[0] == 1 && g_runs[1] == 1 && g_runs[2] == 1, "ThreadGroup member did not run exactly once before join() returned"); }; v.push_back(s); }
	{ Scenario s; s.name = "threadgroup2.body2"; s.body = []() { g_body = 2; ThreadGroup<SubThread> g; g << SubThread(0) << SubThread(1); g.start(); g.join(); return chk(g_runs[0] == 1 && g_runs[1] == 1, "ThreadGroup member did not run exactly once before join() returned"); }; v.push_back(s); }
	{ Scenario s; s.name = "parallel_invoke2"; s.body = []() { g_body = 1; Thread::parallel_invoke([]() { bodyFn(0); }, []() { bodyFn(1); }); return chk(g_runs[0] == 1 && g_runs[1] == 1, "parallel_invoke(2) must run each function exactly once before returning"); }; v.push_back(s); }
	{ Scenario s; s.name = "parallel_invoke3"; s.bound = T ? 3 : 2; s.body = []() { g_body = 1; Thread::parallel_invoke([]() { bodyFn(0); }, []() { bodyFn(1); }, []() { bodyFn(2); }); return chk(g_runs[0] == 1 && g_runs[1] == 1 && g_runs[2] == 1, "parallel_invoke(3) must run each function exactly once before returning"); }; v.push_back(s); }
	{ Scenario s; s.name = "parallel_invoke4"; s.bound = T ? 2 : 1; s.body = []() { g_body = 0; Thread::parallel_invoke([]() { bodyFn(0); }, []() { bodyFn(1); }, []() { bodyFn(2); }, []() { bodyFn(3); }); return chk(g_runs[0] == 1 && g_runs[1] == 1 && g_runs[2] == 1 && g_runs[3] == 1, "parallel_invoke(4) must run each function exactly once before returning"); }; v.push_back(s); }
	// the same with functions that yield (a creator can get ahead of them) and capture a value
	for (int b = 1; b <= 3; b += 2) { Scenario s; s.name = fmt("parallel_invoke4.body%d", b); s.bound = T ? 2 : 1; s.body = [b]() {
		g_body = b; int k = 500;
		Thread::parallel_invoke([k]() { bodyFn(0); g_cap[0] = k; }, [k]() { bodyFn(1); g_cap[1] = k + 1; }, [k]() { bodyFn(2); g_cap[2] = k + 2; }, [k]() { bodyFn(3); g_cap[3] = k + 3; });
		std::string bad;
		for (int i = 0; i < 4; i++) { if (g_runs[i] != 1) bad += fmt("function %d had run %d time(s) when parallel_invoke(4) returned, expected exactly once; ", i + 1, (int)g_runs[i]); else if (g_cap[i] != k + i) bad += fmt("function %d did not see its captured value; ", i + 1); }
		clobberStack();
		return bad; }; v.push_back(s); }
	{ Scenario s; s.name = "parallel_invoke3.body3"; s.bound = T ? 3 : 2; s.body = []() {
		g_body = 3; int k = 600;
		Thread::parallel_invoke([k]() { bodyFn(0); g_cap[0] = k; }, [k]() { bodyFn(1); g_cap[1] = k + 1; }, [k]() { bodyFn(2); g_cap[2] = k + 2; });
		std::string bad;
		for (int i = 0; i < 3; i++) { if (g_runs[i] != 1) bad += fmt("function %d had run %d time(s) when parallel_invoke(3) returned, expected exactly once; ", i + 1, (int)g_runs[i]); else if (g_cap[i] != k + i) bad += fmt("function %d did not see its captured value; ", i + 1); }
		clobberStack();
		return bad; }; v.push_back(s); }
	// Semaphore: k posts against k waits, no post may be lost
	for (int k = 1; k <= 3; k++) {
		Scenario s; s.name = fmt("semaphore.k%d", k);
		s.body = [k]() {
			Semaphore sem; int got = 0;
			struct Cons : public Thread { Semaphore* s; int k; int* got; void run() { for (int i = 0; i < k; i++) { s->wait(); (*got)++; } } } c; c.s = &sem; c.k = k; c.got = &got;
			c.start();
			for (int i = 0; i < k; i++) sem.post();
			c.join();
			return chk(got == k, "consumer did not receive every post") + chk(sem.value() == 0, "semaphore count not back to 0");
		};
		v.push_back(s);
	}
	// Semaphore(count): the initial permits are there without any post
	for (int k = 1; k <= 3; k++) {
		Scenario s; s.name = fmt("semaphore.initial.k%d", k);
		s.body = [k]() {
			Semaphore sem(k); int got = 0;
			struct Cons : public Thread { Semaphore* s; int k; int* got; void run() { for (int i = 0; i < k; i++) { s->wait(); (*got)++; } } } c; c.s = &sem; c.k = k; c.got = &got;
			int v0 = sem.value();
			c.start(); c.join();
			return chk(v0 == k, "value() of a fresh Semaphore(k) is not k") + chk(got == k, "consumer could not take the k initial permits") + chk(sem.value() == 0, "semaphore count not 0 after k waits on Semaphore(k)");
		};
		v.push_back(s);
	}
	{ Scenario s; s.name = "semaphore.initial_plus_post"; s.body = []() {
		Semaphore sem(1); int got = 0;
		struct Cons : public Thread { Semaphore* s; int* got; void run() { for (int i = 0; i < 2; i++) { s->wait(); (*got)++; } } } c; c.s = &sem; c.got = &got;
		c.start(); sem.post(); c.join();
		return chk(got == 2, "initial permit plus one post must satisfy two waits") + chk(sem.value() == 0, "semaphore count not back to 0"); }; v.push_back(s); }
	{ Scenario s; s.name = "semaphore.two_consumers"; s.bound = T ? -1 : 3; s.body = []() {
		Semaphore sem; int got[2] = { 0, 0 };
		struct Cons : public Thread { Semaphore* s; int* got; void run() { s->wait(); (*got)++; } } c1, c2; c1.s = c2.s = &sem; c1.got = &got[0]; c2.got = &got[1];
		c1.start(); c2.start(); sem.post(2); c1.join(); c2.join();
		return chk(got[0] == 1 && got[1] == 1, "post(2) must release both waiters"); }; v.push_back(s); }
	{ Scenario s; s.name = "semaphore.post3"; s.bound = T ? 3 : 2; s.body = []() {
		Semaphore sem; int got[3] = { 0, 0, 0 };
		struct Cons : public Thread { Semaphore* s; int* got; void run() { s->wait(); (*got)++; } } c[3]; for (int i = 0; i < 3; i++) { c[i].s = &sem; c[i].got = &got[i]; }
		for (int i = 0; i < 3; i++) c[i].start();
		sem.post(3);
		for (int i = 0; i < 3; i++) c[i].join();
		return chk(got[0] == 1 && got[1] == 1 && got[2] == 1, "post(3) must release all three waiters") + chk(sem.value() == 0, "semaphore count not back to 0"); }; v.push_back(s); }
	// trywait never blocks; every permit is either taken by a successful trywait or still there
	{ Scenario s; s.name = "semaphore.trywait"; s.body = []() {
		Semaphore sem; int got = 0, failed = 0;
		struct Cons : public Thread { Semaphore* s; int* got; int* failed; void run() { for (int i = 0; i < 3; i++) { if (s->trywait()) (*got)++; else (*failed)++; } } } c; c.s = &sem; c.got = &got; c.failed = &failed;
		c.start(); sem.post(); sem.post(); c.join();
		if (failed) vf::add(W_TRY_FAIL); if (got) vf::add(W_TRY_OK);
		return chk(got + sem.value() == 2, "permits taken by trywait() plus permits left do not add up to the posts") + chk(got + failed == 3, "trywait() calls lost"); }; v.push_back(s); }
	{ Scenario s; s.name = "semaphore.trywait_initial"; s.body = []() {
		Semaphore sem(1); bool a = sem.trywait(), b = sem.trywait(); int v1 = sem.value(); sem.post(); bool c = sem.trywait();
		SubThread t(0); g_body = 0; t.start(); t.join();
		return chk(a && !b && c, "trywait() on Semaphore(1): expected true, false, and true again after a post") + chk(v1 == 0 && sem.value() == 0, "semaphore count wrong after trywait()"); }; v.push_back(s); }
	{ Scenario s; s.name = "semaphore.timedwait"; s.bound = 3; s.body = []() {
		Semaphore sem; bool r1 = false, r2 = true; std::string bad;
		struct Cons : public Thread { Semaphore* s; bool* r1; bool* r2; std::string* bad; void run() { *r1 = semTimed(*s, 5.0, *bad); *r2 = semTimed(*s, 0.5, *bad); } } c; c.s = &sem; c.r1 = &r1; c.r2 = &r2; c.bad = &bad;
		c.start(); sem.post(); c.join();
		if (!r1 && !r2) vf::add(W_SEM_BOTH_TO);
		return bad + chk((r1 ? 1 : 0) + (r2 ? 1 : 0) + sem.value() == 1, "the single post must be consumed by exactly one timed wait or still be pending"); }; v.push_back(s); }
	// Condition under the documented protocol
	{ Scenario s; s.name = "condition.protocol"; s.body = []() {
		Mutex m; Condition cond(m); bool ready = false; int seen = 0;
		struct W : public Thread { Mutex* m; Condition* c; bool* ready; int* seen; void run() { m->lock(); while (!*ready) c->wait(); *seen = 1; m->unlock(); } } w; w.m = &m; w.c = &cond; w.ready = &ready; w.seen = &seen;
		w.start();
		m.lock(); ready = true; cond.signal(); m.unlock();
		w.join();
		return chk(seen == 1, "waiter did not observe the condition"); }; v.push_back(s); }
	{ Scenario s; s.name = "condition.use"; s.body = []() { // default-constructed Condition bound to its mutex with use()
		Mutex m; Condition cond; cond.use(m); bool ready = false; int seen = 0;
		struct W : public Thread { Mutex* m; Condition* c; bool* ready; int* seen; void run() { m->lock(); while (!*ready) c->wait(); *seen = 1; m->unlock(); } } w; w.m = &m; w.c = &cond; w.ready = &ready; w.seen = &seen;
		w.start();
		m.lock(); ready = true; cond.signal(); m.unlock();
		w.join();
		return chk(seen == 1, "waiter on a Condition bound with use() did not observe the condition"); }; v.push_back(s); }
	{ Scenario s; s.name = "condition.two_waiters"; s.bound = T ? -1 : 3; s.body = []() {
		Mutex m; Condition cond(m); bool ready = false; int seen[2] = { 0, 0 };
		struct W : public Thread { Mutex* m; Condition* c; bool* ready; int* seen; void run() { m->lock(); while (!*ready) c->wait(); *seen = 1; m->unlock(); } } w1, w2;
		w1.m = w2.m = &m; w1.c = w2.c = &cond; w1.ready = w2.ready = &ready; w1.seen = &seen[0]; w2.seen = &seen[1];
		w1.start(); w2.start();
		m.lock(); ready = true; cond.signal(); m.unlock();
		w1.join(); w2.join();
		return chk(seen[0] == 1 && seen[1] == 1, "a waiter missed the signal"); }; v.push_back(s); }
	{ Scenario s; s.name = "condition.timedwait"; s.bound = 3; s.body = []() {
		Mutex m; Condition cond(m); bool ready = false; bool timedOut = true; std::string bad;
		struct W : public Thread { Mutex* m; Condition* c; bool* ready; bool* to; std::string* bad; void run() { m->lock(); int n = 0; while (!*ready) { if (condTimed(*c, 5.0, *bad)) n++; } *to = n > 3; m->unlock(); } } w; w.m = &m; w.c = &cond; w.ready = &ready; w.to = &timedOut; w.bad = &bad;
		w.start(); m.lock(); ready = true; cond.signal(); m.unlock(); w.join();
		return bad + chk(!timedOut, "timed wait kept timing out although the condition was signalled under the mutex"); }; v.push_back(s); }
	// a timed wait nobody signals runs into its timeout at quiescence and says so
	{ Scenario s; s.name = "condition.timedwait_unsignalled"; s.bound = 3; s.body = []() {
		Mutex m; Condition cond(m); bool to = false; std::string bad;
		struct W : public Thread { Mutex* m; Condition* c; bool* to; std::string* bad; void run() { m->lock(); *to = condTimed(*c, 2.0, *bad); m->unlock(); } } w; w.m = &m; w.c = &cond; w.to = &to; w.bad = &bad;
		w.start(); w.join();
		return bad + chk(to, "Condition::wait(2.0) that nobody signalled did not report its timeout"); }; v.push_back(s); }
	return v;
}

static std::string runScenario(const Scenario& s, const std::string* replay, vsched::ExploreStats* out) {
	g_case = s.name;
	std::string verdict;
	auto body = [&]() { for (int i = 0; i < 16; i++) g_runs[i] = 0; g_value = 0; for (int i = 0; i < 64; i++) g_hits[i] = 0; for (int i = 0; i < 4; i++) g_cap[i] = 0; g_timeouts = 0; vf::asan_clear(); verdict = s.body(); if (vf::asan_tripped()) { verdict += "ASan " + vf::asan_what() + "; "; vf::asan_clear(); } };
	auto after = [&](const vsched::Result& x) {
		vf::add(C_EXEC); vf::add(C_POINTS, x.points.size()); if (x.preemptions) vf::add(W_PREEMPT);
		// run_once has let the threads that were still alive when the scenario returned run to their end: what they touched then counts too
		if (vf::asan_tripped()) { verdict += "ASan " + vf::asan_what() + " in a thread that was still running after the scenario had returned; "; vf::asan_clear(); }
		if (vsched::invalid_joins()) verdict += fmt("%d join()/detach call(s) on an empty, detached or already joined thread handle; ", vsched::invalid_joins());
		int early = 0, readyPts = 0;
		for (size_t i = 0; i < x.points.size(); i++) { const vsched::PointInfo& q = x.points[i]; if (q.ntimer && q.chosen >= q.nenabled - q.ntimer) early++; if (q.kind == 20) readyPts++; }
		if (early) vf::add(W_EARLY);
		if (g_timeouts > early) vf::add(W_TIMEOUT);
		if (readyPts && W_READY_POINT >= 0) vf::add(W_READY_POINT, readyPts);
		if (!verdict.empty()) {
			std::string sig = s.sig, desc = s.name + ": " + verdict + "schedule " + x.trace();
			// the one failure of this scenario family that is classified on its own (everything else it may show stays thread_contract)
			if (s.name.compare(0, 13, "array_lambda.") == 0 && (verdict == "ASan stack-use-after-scope; " || verdict == "ASan stack-use-after-scope in a thread that was still running after the scenario had returned; ")) sig = "moved_lambda_thread_writes_dead_object";
			if (sig != s.sig && vf::known(sig)) vf::known_hit(sig, desc); else vf::violation(sig, desc, s.name + "|" + x.trace());
			if (getenv("VF_DEBUG")) { FILE* df = fopen(getenv("VF_DEBUG"), "a"); if (df) { fprintf(df, "VIOL %s %s %s\n", s.name.c_str(), sig.c_str(), verdict.c_str()); fclose(df); } }
		}
	};
	if (replay) { vsched::Result x = vsched::run_once(vsched::parse_schedule(*replay), body); after(x); return verdict; }
	vsched::ExploreStats st = vsched::explore(body, after, s.bound);
	if (out) *out = st;
	vf::add(C_JOBS); vf::add(C_STATES, st.distinct_states);
	// vacuity guard per scenario: one with threads and a non-zero bound must have had executions in which a running thread was preempted
	if (s.threads && s.bound != 0) { vf::add(C_EXPECT_PRE); if (st.with_preemption) vf::add(C_WITH_PRE); else fprintf(stderr, "HARNESS ERROR: scenario %s had no execution with a preemption\n", s.name.c_str()); }
	return "";
}

// parallel_for(i0, i1, f, n): f exactly once for every index in [i0,i1), no other index, and everything done on return.
// mode 0: f does not yield; 1: f is a schedule point (every call); 2: the k-th thread stops at its first index until another thread has stepped
// (a forced switch: under bound 0 the creator gets ahead of that thread, which then competes with every later thread);
// 3: every thread sleeps at its first index, thread j for j+1 (k = 0) or nn-j (k = 1) virtual milliseconds: under bound 0 the creator reaches
// its join loop while NO thread has done its work, and the threads then finish in ascending / descending order. n < 0: the 3-argument form.
static int g_pforForced, g_pforSlept;
static void pforFn(int i) { vsched::point(); if (i >= -8 && i < 56) g_hits[i + 8]++; else g_hits[0] += 1000; }
static Scenario pforScenario(int i0, int i1, int n, int bound, int mode, int k = 0, bool fnptr = false) {
	Scenario s; s.bound = bound;
	std::string ns = n < 0 ? std::string("def") : fmt("%d", n);
	s.name = fnptr ? fmt("parallel_for_fnptr.%d.%d.%s.b%d", i0, i1, ns.c_str(), bound) : mode == 2 ? fmt("parallel_for.%d.%d.%s.b%d.s%d", i0, i1, ns.c_str(), bound, k) : mode == 3 ? fmt("parallel_for.%d.%d.%s.b%d.t%d", i0, i1, ns.c_str(), bound, k) : fmt("parallel_for.%d.%d.%s.b%d.y%d", i0, i1, ns.c_str(), bound, mode);
	int nn = std::min(n < 0 ? 8 : n, i1 - i0);
	s.threads = nn >= 1;
	s.body = [i0, i1, n, nn, mode, k, fnptr]() {
		g_pforForced = 0; g_pforSlept = 0;
		auto f = [mode, i0, k, nn](int i) { if (mode == 1) vsched::point(); else if (mode == 2 && i == i0 + k) { g_pforForced++; vsched::yield_spin(0); } else if (mode == 3 && i - i0 < nn) { g_pforSlept++; usleep(1000 * (k ? nn - (i - i0) : i - i0 + 1)); } if (i >= -8 && i < 56) g_hits[i + 8]++; else g_hits[0] += 1000; };
		if (fnptr) Thread::parallel_for(i0, i1, &pforFn, n);
		else if (n < 0) { Thread::parallel_for(i0, i1, f); vf::add(W_DEFAULT_NTH); }
		else Thread::parallel_for(i0, i1, f, n);
		clobberStack();
		if (g_pforForced) vf::add(W_YIELD_FORCED);
		if (g_pforSlept) vf::add(W_ALL_BEHIND);
		std::string bad;
		for (int i = -8; i < 56; i++) { int want = (i >= i0 && i < i1) ? 1 : 0; if (g_hits[i + 8] != want) { bad = fmt("f(%d) was invoked %d time(s) by the time parallel_for(%d, %d, f%s) returned, expected %d", i, (int)g_hits[i + 8], i0, i1, n < 0 ? "" : fmt(", %d", n).c_str(), want); break; } }
		return bad.empty() ? bad : bad + "; ";
	};
	return s;
}

// this binary runs with ASan's stack-use-after-return detection (vf's default options switch it off for all harnesses)
static void enableUseAfterReturn(char** argv) {
	const char* o = getenv("ASAN_OPTIONS"); std::string s = o ? o : "";
	if (s.find("detect_stack_use_after_return=") != std::string::npos) return;
	s += std::string(s.empty() ? "" : ":") + "detect_stack_use_after_return=1:max_uar_stack_size_log=16";
	setenv("ASAN_OPTIONS", s.c_str(), 1);
	execv("/proc/self/exe", argv); // only returns on failure: then w.stack_use_after_return_detection_on stays 0 and the run is reported as a harness error
}
static __attribute__((noinline)) void escape(volatile int* p) { *p = 1; }
static __attribute__((noinline)) bool uarActive() { volatile int probe = 0; escape(&probe); return __asan_get_current_fake_stack && __asan_get_current_fake_stack() != 0; }

int main(int argc, char** argv) {
	if (vf::have_asan()) enableUseAfterReturn(argv);
	vf::init(argc, argv, "C13", "s_c13_threads");
	C_EXEC = vf::counter("traces"); C_POINTS = vf::counter("transitions"); C_JOBS = vf::counter("scenarios"); W_PREEMPT = vf::counter("w.executions_with_preemption"); C_STATES = vf::counter("states"); W_TIMEOUT = vf::counter("w.timed_wait_timeouts_fired_at_quiescence");
	W_EARLY = vf::counter("w.executions_with_early_timeout_deviation"); W_SEM_TO = vf::counter("w.semaphore_timed_wait_timed_out"); W_SEM_BOTH_TO = vf::counter("w.semaphore_both_timed_waits_timed_out"); W_SEM_ACQ = vf::counter("w.semaphore_timed_wait_acquired");
	W_COND_TO = vf::counter("w.condition_timed_wait_timed_out"); W_COND_SIG = vf::counter("w.condition_timed_wait_signalled");
	W_WORKER_FIRST = vf::counter("w.thread_finished_before_creator_resumed"); W_CREATOR_FIRST = vf::counter("w.creator_resumed_before_thread_finished");
	W_TRY_FAIL = vf::counter("w.trywait_found_no_permit"); W_TRY_OK = vf::counter("w.trywait_took_permit"); W_YIELD_FORCED = vf::counter("w.parallel_for_creator_got_ahead_at_bound0"); W_DEFAULT_NTH = vf::counter("w.parallel_for_default_thread_count"); W_ALL_BEHIND = vf::counter("w.parallel_for_creator_ahead_of_all_threads_at_bound0");
	W_COPY_RUNNING = vf::counter("w.thread_copied_while_running"); W_UAR = vf::counter("w.stack_use_after_return_detection_on");
	C_EXPECT_PRE = vf::counter("scenarios_expecting_preemption"); C_WITH_PRE = vf::counter("scenarios_with_preemption"); C_SKIPPED = vf::counter("scenarios_skipped_deadline");
#ifdef ASL_VERIF_HAVE_READY_POINT
	W_READY_POINT = vf::counter("w.ready_flag_points");
#endif
	vsched::set_fatal_handler(onFatal);
	vsched::set_strict_joins(true);
	bool T = vf::opt.thorough();
	std::vector<Scenario> sc = scenarios(T);
	// parallel_for: small ranges under all schedules within a preemption bound, with a yield inside f
	for (int i0 = -3; i0 <= 6; i0++) for (int i1 = -3; i1 <= 6; i1++) for (int n = 1; n <= 4; n++) { if (i1 - i0 > 5 && n > 3) continue; sc.push_back(pforScenario(i0, i1, n, (i1 - i0 <= 3 || n <= 2) ? (T ? 3 : 2) : (T ? 2 : 1), 1)); }
	// ... with a plain function instead of a lambda
	sc.push_back(pforScenario(0, 5, 2, 2, 1, 0, true)); sc.push_back(pforScenario(-3, 4, 3, T ? 2 : 1, 1, 0, true)); sc.push_back(pforScenario(2, 2, 1, 2, 1, 0, true));
	// every range -3..40 and thread count 1..12 under all non-preemptive schedules (bound 0: creator-first, worker-first at every forced switch)
	for (int i0 = -3; i0 <= 40; i0++) for (int i1 = -3; i1 <= 40; i1++) for (int n = 1; n <= 12; n++) sc.push_back(pforScenario(i0, i1, n, 0, 0));
	// the 3-argument form (default thread count)
	for (int i0 = -3; i0 <= 40; i0++) for (int i1 = -3; i1 <= 40; i1++) sc.push_back(pforScenario(i0, i1, -1, 0, 0));
	// the same ranges and thread counts with threads that sleep at their first index: the creator reaches its join loop ahead of every thread
	for (int i0 = -3; i0 <= 40; i0++) for (int i1 = i0 + 1; i1 <= 40; i1++) for (int n = 1; n <= 12; n++) { sc.push_back(pforScenario(i0, i1, n, 0, 3, 0)); if (std::min(n, i1 - i0) >= 2) sc.push_back(pforScenario(i0, i1, n, 0, 3, 1)); }
	for (int i0 = -3; i0 <= 40; i0++) for (int i1 = i0 + 1; i1 <= 40; i1++) sc.push_back(pforScenario(i0, i1, -1, 0, 3, 0));
	// ... and with one thread k that lets its creator get ahead and then competes with the later threads (quick: n <= 3, every k; thorough: also n <= 12, first and last thread)
	for (int i0 = -3; i0 <= 40; i0++) for (int i1 = i0 + 1; i1 <= 40; i1++) for (int n = 1; n <= 12; n++) { int nn = std::min(n, i1 - i0); for (int k = 0; k < nn; k++) if (n <= 3 || (T && (k == 0 || k == nn - 1))) sc.push_back(pforScenario(i0, i1, n, 0, 2, k)); }
	if (T) for (int i0 = -3; i0 <= 12; i0++) for (int i1 = i0; i1 <= 12; i1++) for (int n = 1; n <= 6; n++) sc.push_back(pforScenario(i0, i1, n, 1, 0));
	if (vf::opt.replay) {
		std::string k = vf::opt.kase, sched; size_t bar = k.find('|'); if (bar != std::string::npos) { sched = k.substr(bar + 1); k = k.substr(0, bar); }
		bool found = false;
		for (size_t i = 0; i < sc.size(); i++) if (sc[i].name == k) { found = true; vf::parallel(1, [&](uint64_t) { vf::cur(sc[i].name); runScenario(sc[i], &sched, 0); }); break; }
		if (!found) { fprintf(stderr, "HARNESS ERROR: no scenario named %s\n", k.c_str()); return 2; }
		return vf::finish();
	}
	vf::parallel(sc.size(), [&](uint64_t i) { vf::cur(sc[i].name); if (vf::deadline_passed()) { vf::add(C_SKIPPED); vf::cap_hit("deadline"); return; } if (i == 0 && uarActive()) vf::add(W_UAR); vsched::ExploreStats st; runScenario(sc[i], 0, &st); if (getenv("VF_DEBUG")) { FILE* df = fopen(getenv("VF_DEBUG"), "a"); if (df) { fprintf(df, "%s %llu %llu\n", sc[i].name.c_str(), (unsigned long long)st.executions, (unsigned long long)st.points); fclose(df); } } });
	vf::setinfo("scenarios", fmt("%d", (int)sc.size()));
	vf::sample("lambda.body0: Thread t([]{}); t.join(); t.finished() - all schedules of creator / worker / ready-flag spin");
	vf::sample("parallel_for(-3, 2, f, 3) with a yield inside f, all schedules with <= 1 preemption; parallel_for(i0, i1, f, n) for every -3<=i0,i1<=40, n<=12 (and the 3-argument form) under every non-preemptive schedule, plain and with one thread that lets its creator get ahead");
	int rc = vf::finish();
	// a skipped scenario or a scenario that never saw a preemption makes the tier fail: the bounds registered for it were not explored
	bool herr = false;
	if (vf::get(C_SKIPPED)) { fprintf(stderr, "HARNESS ERROR: %llu scenario(s) skipped because the deadline had passed\n", (unsigned long long)vf::get(C_SKIPPED)); herr = true; }
	if (vf::get(C_WITH_PRE) != vf::get(C_EXPECT_PRE)) { fprintf(stderr, "HARNESS ERROR: %llu of %llu scenario(s) with threads and a preemption budget had no execution with a preemption\n", (unsigned long long)(vf::get(C_EXPECT_PRE) - vf::get(C_WITH_PRE)), (unsigned long long)vf::get(C_EXPECT_PRE)); herr = true; }
	return rc ? rc : herr ? 2 : 0;
}
