// C20 — shared pieces of the matrix / rotation harnesses (c20_matrix, c20_solve, c20_rot).
// Oracle side uses plain C++ only (integers, long double, std::vector); asl types appear only on the tested side.
#pragma once
#include <stdint.h>
#include <math.h>
#include <float.h>
#include <limits>
#include <string>
#include <vector>
#include <map>
#include <type_traits>
#include <sys/time.h>
#include <sys/resource.h>
#include "vf.h"

namespace c20 {

// ---------------------------------------------------------------- prime field, run-time modulus
// fabs() is a bijection x -> K*x (mod P) fixing 0: every non-zero element is "larger than zero", and the
// multiplier K selects WHICH non-zero candidate the partial-pivoting search of solve_() prefers
// ("whichever rows are chosen as pivots").
struct Fp {
	uint64_t v;
	static uint64_t P, K;
	static uint64_t divzero;
	Fp() : v(0) {}
	template <class N, class = typename std::enable_if<std::is_integral<N>::value>::type>
	Fp(N x) { long long y = (long long)x % (long long)P; if (y < 0) y += (long long)P; v = (uint64_t)y; }
	Fp(double x) { long long y = (long long)x % (long long)P; if (y < 0) y += (long long)P; v = (uint64_t)y; }
	Fp(float x) { long long y = (long long)x % (long long)P; if (y < 0) y += (long long)P; v = (uint64_t)y; }
	static Fp raw(uint64_t x) { Fp r; r.v = x; return r; }
	static uint64_t mulm(uint64_t a, uint64_t b) { return (uint64_t)((unsigned __int128)a * b % P); }
	static uint64_t powm(uint64_t a, uint64_t e) { uint64_t r = 1 % P; while (e) { if (e & 1) r = mulm(r, a); a = mulm(a, a); e >>= 1; } return r; }
	Fp operator+(Fp b) const { uint64_t s = v + b.v; return raw(s >= P ? s - P : s); }
	Fp operator-(Fp b) const { return raw(v >= b.v ? v - b.v : v + P - b.v); }
	Fp operator-() const { return raw(v ? P - v : 0); }
	Fp operator*(Fp b) const { return raw(mulm(v, b.v)); }
	Fp operator/(Fp b) const { if (b.v == 0) { divzero++; return raw(0); } return raw(mulm(v, powm(b.v, P - 2))); }
	Fp& operator+=(Fp b) { return *this = *this + b; }
	Fp& operator-=(Fp b) { return *this = *this - b; }
	Fp& operator*=(Fp b) { return *this = *this * b; }
	Fp& operator/=(Fp b) { return *this = *this / b; }
	bool operator==(Fp b) const { return v == b.v; }
	bool operator!=(Fp b) const { return v != b.v; }
	bool operator<(Fp b) const { return v < b.v; }
	bool operator>(Fp b) const { return v > b.v; }
	bool operator<=(Fp b) const { return v <= b.v; }
	bool operator>=(Fp b) const { return v >= b.v; }
};
#define C20_FP_MIXED(op, R) \
	template <class N, class = typename std::enable_if<std::is_arithmetic<N>::value>::type> inline R operator op(Fp a, N b) { return a op Fp(b); } \
	template <class N, class = typename std::enable_if<std::is_arithmetic<N>::value>::type> inline R operator op(N a, Fp b) { return Fp(a) op b; }
C20_FP_MIXED(+, Fp) C20_FP_MIXED(-, Fp) C20_FP_MIXED(*, Fp) C20_FP_MIXED(/, Fp) C20_FP_MIXED(<, bool) C20_FP_MIXED(>, bool) C20_FP_MIXED(==, bool) C20_FP_MIXED(!=, bool)
inline Fp fabs(Fp a) { return Fp::raw(Fp::mulm(a.v, Fp::K)); }
// never called on the exact side; they only have to exist so that the class templates can be named
inline Fp sqrt(Fp a) { return a; }
inline Fp sin(Fp a) { return a; }
inline Fp cos(Fp a) { return a; }
inline Fp tan(Fp a) { return a; }
inline Fp acos(Fp a) { return a; }
inline Fp asin(Fp a) { return a; }
inline Fp atan2(Fp a, Fp) { return a; }
inline Fp floor(Fp a) { return a; }

// ---------------------------------------------------------------- "division-free" scalar
// Values p + q*X over the integers, where X stands for the (single) quotient 1/d formed by inverse().
// inverse() computes the cofactor matrix, then multiplies it by T(1)/d: with this scalar the result has p = 0 and
// q = the adjugate entry, and the divisor d is recorded — so the two POLYNOMIALS (adjugate, determinant) are observed
// at every grid point, including the singular ones where a numeric inverse does not exist.
struct Sym {
	int64_t p, q;
	static int64_t div;      // last divisor
	static int ndiv;         // number of divisions in the current evaluation
	static int unsupported;  // X*X, X in a divisor, ... : the code under test no longer has the shape "adjugate times 1/d"
	Sym() : p(0), q(0) {}
	template <class N, class = typename std::enable_if<std::is_arithmetic<N>::value>::type>
	Sym(N x) : p((int64_t)x), q(0) {}
	static Sym mk(int64_t p, int64_t q) { Sym s; s.p = p; s.q = q; return s; }
	static void reset() { div = 0; ndiv = 0; unsupported = 0; }
	Sym operator+(Sym b) const { return mk(p + b.p, q + b.q); }
	Sym operator-(Sym b) const { return mk(p - b.p, q - b.q); }
	Sym operator-() const { return mk(-p, -q); }
	Sym operator*(Sym b) const { if (q && b.q) unsupported++; return mk(p * b.p, p * b.q + q * b.p); }
	Sym operator/(Sym b) const {
		if (b.q || q) unsupported++;
		if (ndiv && b.p != div) unsupported++; // a second, different divisor
		div = b.p; ndiv++;
		return mk(0, p);
	}
	Sym& operator+=(Sym b) { return *this = *this + b; }
	Sym& operator-=(Sym b) { return *this = *this - b; }
	Sym& operator*=(Sym b) { return *this = *this * b; }
	Sym& operator/=(Sym b) { return *this = *this / b; }
	bool operator==(Sym b) const { return p == b.p && q == b.q; }
	bool operator!=(Sym b) const { return !(*this == b); }
	bool operator<(Sym b) const { return p < b.p; }
};
#define C20_SYM_MIXED(op) \
	template <class N, class = typename std::enable_if<std::is_arithmetic<N>::value>::type> inline Sym operator op(Sym a, N b) { return a op Sym(b); } \
	template <class N, class = typename std::enable_if<std::is_arithmetic<N>::value>::type> inline Sym operator op(N a, Sym b) { return Sym(a) op b; }
C20_SYM_MIXED(+) C20_SYM_MIXED(-) C20_SYM_MIXED(*) C20_SYM_MIXED(/)
inline Sym fabs(Sym a) { return a.p < 0 ? -a : a; }
inline Sym sqrt(Sym a) { return a; }
inline Sym sin(Sym a) { return a; }
inline Sym cos(Sym a) { return a; }
inline Sym tan(Sym a) { return a; }
inline Sym acos(Sym a) { return a; }
inline Sym asin(Sym a) { return a; }
inline Sym atan2(Sym a, Sym) { return a; }
inline Sym floor(Sym a) { return a; }

// ---------------------------------------------------------------- reference algebra over any commutative ring R
// 4x4 adjugate and determinant from the six 2x2 minors of the upper and of the lower row pair (Laplace expansion along
// two rows) — a different organisation than asl's 3x3-cofactor expressions. m and adj are row-major.
template <class R>
inline R ref_adj4(const R* m, R* adj) {
	R s0 = m[0] * m[5] - m[4] * m[1], s1 = m[0] * m[6] - m[4] * m[2], s2 = m[0] * m[7] - m[4] * m[3];
	R s3 = m[1] * m[6] - m[5] * m[2], s4 = m[1] * m[7] - m[5] * m[3], s5 = m[2] * m[7] - m[6] * m[3];
	R c5 = m[10] * m[15] - m[14] * m[11], c4 = m[9] * m[15] - m[13] * m[11], c3 = m[9] * m[14] - m[13] * m[10];
	R c2 = m[8] * m[15] - m[12] * m[11], c1 = m[8] * m[14] - m[12] * m[10], c0 = m[8] * m[13] - m[12] * m[9];
	adj[0] = m[5] * c5 - m[6] * c4 + m[7] * c3;
	adj[1] = m[2] * c4 - m[1] * c5 - m[3] * c3;
	adj[2] = m[13] * s5 - m[14] * s4 + m[15] * s3;
	adj[3] = m[10] * s4 - m[9] * s5 - m[11] * s3;
	adj[4] = m[6] * c2 - m[4] * c5 - m[7] * c1;
	adj[5] = m[0] * c5 - m[2] * c2 + m[3] * c1;
	adj[6] = m[14] * s2 - m[12] * s5 - m[15] * s1;
	adj[7] = m[8] * s5 - m[10] * s2 + m[11] * s1;
	adj[8] = m[4] * c4 - m[5] * c2 + m[7] * c0;
	adj[9] = m[1] * c2 - m[0] * c4 - m[3] * c0;
	adj[10] = m[12] * s4 - m[13] * s2 + m[15] * s0;
	adj[11] = m[9] * s2 - m[8] * s4 - m[11] * s0;
	adj[12] = m[5] * c1 - m[4] * c3 - m[6] * c0;
	adj[13] = m[0] * c3 - m[1] * c1 + m[2] * c0;
	adj[14] = m[13] * s1 - m[12] * s3 - m[14] * s0;
	adj[15] = m[8] * s3 - m[9] * s1 + m[10] * s0;
	return s0 * c5 - s1 * c4 + s2 * c3 + s3 * c2 - s4 * c1 + s5 * c0;
}
// determinant by the Leibniz sum over all permutations (n = 3 or 4) — the definition
template <class R>
inline R ref_det_leibniz(const R* m, int n) {
	int p[4] = { 0, 1, 2, 3 };
	R det = R(0);
	// all permutations by simple recursion-free enumeration (Heap's algorithm, with parity tracking)
	int c[4] = { 0, 0, 0, 0 };
	int sign = 1;
	{ R t = R(1); for (int i = 0; i < n; i++) t = t * m[i * n + p[i]]; det = det + t; }
	int i = 0;
	while (i < n) {
		if (c[i] < i) {
			int a = (i % 2 == 0) ? 0 : c[i];
			int tmp = p[a]; p[a] = p[i]; p[i] = tmp;
			sign = -sign;
			R t = R(1); for (int k = 0; k < n; k++) t = t * m[k * n + p[k]];
			det = sign > 0 ? det + t : det - t;
			c[i]++; i = 0;
		} else { c[i] = 0; i++; }
	}
	return det;
}
template <class R>
inline R ref_adj3(const R* m, R* adj) {
	// adj(i,j) = cofactor(j,i) with cyclic index arithmetic
	for (int i = 0; i < 3; i++)
		for (int j = 0; j < 3; j++) {
			int r1 = (j + 1) % 3, r2 = (j + 2) % 3, c1 = (i + 1) % 3, c2 = (i + 2) % 3;
			adj[i * 3 + j] = m[r1 * 3 + c1] * m[r2 * 3 + c2] - m[r1 * 3 + c2] * m[r2 * 3 + c1];
		}
	return m[0] * adj[0] + m[1] * adj[3] + m[2] * adj[6];
}
// generic n x n product (asl's Matrix3::operator* is affine-only by design and never used as an oracle)
template <class R>
inline void ref_mul(const R* a, const R* b, R* c, int n) {
	for (int i = 0; i < n; i++)
		for (int j = 0; j < n; j++) {
			R s = R(0);
			for (int k = 0; k < n; k++) s = s + a[i * n + k] * b[k * n + j];
			c[i * n + j] = s;
		}
}

// ---------------------------------------------------------------- deterministic "generic points" (fixed constants, NOT seeded)
inline uint64_t splitmix(uint64_t& s) { uint64_t z = (s += 0x9e3779b97f4a7c15ULL); z = (z ^ (z >> 30)) * 0xbf58476d1ce4e5b9ULL; z = (z ^ (z >> 27)) * 0x94d049bb133111ebULL; return z ^ (z >> 31); }

// ---------------------------------------------------------------- cost accounting
// CPU seconds (user + system) of all finished worker processes: the wall clock says little on a shared machine
inline double cpu_children_s() { struct rusage u; getrusage(RUSAGE_CHILDREN, &u); return u.ru_utime.tv_sec + u.ru_stime.tv_sec + 1e-6 * (u.ru_utime.tv_usec + u.ru_stime.tv_usec); }
struct Sections {
	double t, c;
	Sections() : t(vf::now_s()), c(cpu_children_s()) {}
	void done(const char* name) {
		vf::setinfo(std::string("seconds.") + name, vf::fmt("%.1f", vf::now_s() - t));
		vf::setinfo(std::string("cpu_seconds.") + name, vf::fmt("%.1f", cpu_children_s() - c));
		t = vf::now_s(); c = cpu_children_s();
	}
};

// ---------------------------------------------------------------- reporting helpers
// per-signature throttle: a formula error fails on millions of grid points; keep the first few of each class per worker
struct Reporter {
	std::map<std::string, int> n;
	int c_supp;
	void bad(const std::string& sig, const std::string& desc, const std::string& kase) {
		int& k = n[sig];
		if (k++ < 3) vf::violation(sig, desc, kase); else vf::add(c_supp);
	}
};
// maxima of measured ratios, gathered across workers through the scratch directory
struct MaxTrack {
	struct E { long double v; std::string kase; };
	std::map<std::string, E> m;
	void see(const char* name, long double v, const std::string& kase) { E& e = m[name]; if (e.kase.empty() || v > e.v) { e.v = v; e.kase = kase; } }
	template <class F> void see_lazy(const char* name, long double v, F kase) { std::map<std::string, E>::iterator it = m.find(name); if (it == m.end() || v > it->second.v) { E& e = m[name]; e.v = v; e.kase = kase(); } }
	void flush() { // worker: append; cheap, called at the end of a parallel item
		if (m.empty()) return;
		FILE* f = fopen((vf::scratch_dir() + vf::fmt("/max.%d", vf::worker_id())).c_str(), "a");
		if (!f) return;
		for (std::map<std::string, E>::iterator it = m.begin(); it != m.end(); ++it) fprintf(f, "%s %.6Lg %s\n", it->first.c_str(), it->second.v, vf::hex(it->second.kase).c_str());
		fclose(f);
	}
	void collect() { // parent, after parallel()
		std::vector<std::string> fs = vf::list_scratch("max.");
		for (size_t i = 0; i < fs.size(); i++) {
			FILE* f = fopen(fs[i].c_str(), "r");
			if (!f) continue;
			char name[200], hx[8000]; long double v;
			while (fscanf(f, "%199s %Lg %7999s", name, &v, hx) == 3) see(name, v, vf::unhex(hx));
			fclose(f); remove(fs[i].c_str());
		}
	}
	void publish() {
		for (std::map<std::string, E>::iterator it = m.begin(); it != m.end(); ++it)
			vf::setinfo("max." + it->first, vf::jstr(vf::fmt("%.4Lg at %s", it->second.v, it->second.kase.c_str())));
	}
};

} // namespace c20
