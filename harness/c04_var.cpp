// C04 — Var.
//  "var"  : explicit-state BFS over histories of construction / assignment (incl. to own descendants and from own siblings) /
//           typed assignment / indexing with auto-creation / append / remove / extend / clone on three real Var slots against a
//           shared-node JSON tree model.
//  "ctor" : every constructor x boundary values, read back through every accessor / conversion, copied, cloned, assigned.
//  "eq", "eqt": full equality matrix over a value set with numerically equal cross-type numbers, both booleans, both string
//           representations and nested containers; typed == overloads.
//  "tas"  : prior state x typed assignment x typed assignment (every operator= overload, strings on both sides of the 7/8 boundary,
//           targets that are roots, shared roots, elements and properties).
//  "cln"  : clone() of every value, every node of the original (resp. of the clone) mutated afterwards.
#include <asl/Var.h>
#include <memory>
#include <map>
#include <set>
#include <limits.h>
#include <math.h>
#include "vf.h"
#include "aslx.h"
using namespace asl;
using vf::fmt;

static int W_STR_HEAP_SHORT, W_TYPECHANGE, W_SAMETYPE_FAST, W_OWN_DESC, W_AUTOVIV, W_AUTORESIZE, W_SHARED_MUT, W_CLONE, W_STR_INLINE_HEAP, W_EXTEND, W_EQ_TRUE, W_EQ_FALSE, W_SCALAR_OVER_SHARED;
// added with the coverage extension (review C04)
static int W_FP_STR, W_FP_ARR, W_FP_OBJ, W_OWN_SAME, W_OWN_CHANGE, W_CLONE_MUT, W_EQ_XREP, W_ARR_REALLOC, W_OBJ_REALLOC, W_PRED_ARR, W_PRED_OBJ, W_PRED_ALIAS,
	W_TYPED_OVER_HEAPSTR, W_TYPED_OVER_CONTAINER, W_CSTR_HEAP_ARM, W_CSTR_GROW, W_HEAP_EMPTY, W_ALIAS_NOCREATE, W_ALIAS_CREATE_OK, W_ALIAS_APPEND_FULL, W_ALIAS_EXTEND, W_ALIAS_EXTEND_OVERWRITES_SRC,
	W_INDEX_HOLES, W_OBJ_4KEYS, W_OBJ_INSERT_FRONT, W_NEST_OWN, W_CONV_NUM, W_CONV_NUMSTR;
static int C_CTOR, C_EQ, C_EQT, C_TAS, C_CLN, W_EQ_NUM_XTYPE, W_EQ_BOOLS, W_EQ_CONT_TRUE, W_EQ_CONT_FALSE, W_TAS_SS_EDGE, W_TAS_ELEM_TARGET, W_TAS_SHARED_TARGET, W_CTOR_BIG, W_CTOR_STR_EDGE;

// ---------------------------------------------------------------- model
struct MV;
typedef std::shared_ptr<std::vector<MV> > MArr;
typedef std::shared_ptr<std::map<std::string, MV> > MObj;
struct MV {
	enum T { NONE, NUL, BOOL, INT, NUM, FLT, STR, ARR, OBJ };
	T t; bool b; int i; double d; std::string s; MArr a; MObj o;
	MV() : t(NONE), b(false), i(0), d(0) {}
	static MV nul() { MV v; v.t = NUL; return v; }
	static MV boolean(bool x) { MV v; v.t = BOOL; v.b = x; return v; }
	static MV integer(int x) { MV v; v.t = INT; v.i = x; return v; }
	static MV num(double x) { MV v; v.t = NUM; v.d = x; return v; }
	static MV flt(float x) { MV v; v.t = FLT; v.d = x; return v; }
	static MV str(const std::string& x) { MV v; v.t = STR; v.s = x; return v; }
	static MV arr() { MV v; v.t = ARR; v.a = std::make_shared<std::vector<MV> >(); return v; }
	static MV obj() { MV v; v.t = OBJ; v.o = std::make_shared<std::map<std::string, MV> >(); return v; }
	MV& operator<<(const MV& x) { a->push_back(x); return *this; }
	MV& operator()(const std::string& k, const MV& x) { (*o)[k] = x; return *this; }
	bool isnum() const { return t == INT || t == NUM || t == FLT; }
	double numval() const { return t == INT ? i : d; }
};
static MV deepclone(const MV& v) {
	MV r = v;
	if (v.t == MV::ARR) { r.a = std::make_shared<std::vector<MV> >(); for (size_t i = 0; i < v.a->size(); i++) r.a->push_back(deepclone((*v.a)[i])); }
	if (v.t == MV::OBJ) { r.o = std::make_shared<std::map<std::string, MV> >(); for (std::map<std::string, MV>::iterator it = v.o->begin(); it != v.o->end(); ++it) (*r.o)[it->first] = deepclone(it->second); }
	return r;
}
static bool meq(const MV& x, const MV& y) {
	if (x.isnum() || y.isnum()) return x.isnum() && y.isnum() && x.numval() == y.numval();
	if (x.t != y.t) return false;
	switch (x.t) {
	case MV::NUL: return true; case MV::BOOL: return x.b == y.b; case MV::STR: return x.s == y.s;
	case MV::ARR: if (x.a->size() != y.a->size()) return false; for (size_t i = 0; i < x.a->size(); i++) if (!meq((*x.a)[i], (*y.a)[i])) return false; return true;
	case MV::OBJ: { if (x.o->size() != y.o->size()) return false; std::map<std::string, MV>::iterator i = x.o->begin(), j = y.o->begin(); for (; i != x.o->end(); ++i, ++j) if (i->first != j->first || !meq(i->second, j->second)) return false; return true; }
	default: return false;
	}
}
static const void* cid(const MV& v) { return v.t == MV::ARR ? (const void*)v.a.get() : v.t == MV::OBJ ? (const void*)v.o.get() : 0; }
// does value v (transitively) reference container c?
static bool reaches(const MV& v, const void* c) {
	if (!c) return false;
	if (cid(v) == c) return true;
	if (v.t == MV::ARR) { for (size_t i = 0; i < v.a->size(); i++) if (reaches((*v.a)[i], c)) return true; }
	if (v.t == MV::OBJ) { for (std::map<std::string, MV>::iterator it = v.o->begin(); it != v.o->end(); ++it) if (reaches(it->second, c)) return true; }
	return false;
}
static bool hasNone(const MV& v) {
	if (v.t == MV::NONE) return true;
	if (v.t == MV::ARR) { for (size_t i = 0; i < v.a->size(); i++) if (hasNone((*v.a)[i])) return true; }
	if (v.t == MV::OBJ) { for (std::map<std::string, MV>::iterator it = v.o->begin(); it != v.o->end(); ++it) if (hasNone(it->second)) return true; }
	return false;
}
static int msize(const MV& v) {
	int n = 1;
	if (v.t == MV::ARR) for (size_t i = 0; i < v.a->size(); i++) n += msize((*v.a)[i]);
	if (v.t == MV::OBJ) for (std::map<std::string, MV>::iterator it = v.o->begin(); it != v.o->end(); ++it) n += msize(it->second);
	return n;
}
static bool alldigits(const std::string& s) { if (s.empty() || s.size() > 9) return false; for (size_t i = 0; i < s.size(); i++) if (s[i] < '0' || s[i] > '9') return false; return true; }
static bool integral(double d) { return d == floor(d); }

// ---------------------------------------------------------------- comparison impl vs model
// Only value-preserving readings are demanded: a number read in another numeric type that holds it exactly, its text read back as a
// number, a string through every string accessor, a string of decimal digits read as that number, truth value of numbers and strings
// ("similar to JS conversion", Var.h). Every other conversion is only called (memory oracle).
// ext = false: only the accessors of the value's own type (used for slots the last operation did not assign or index)
static bool same(const Var& v, const MV& m, std::string& err, const std::string& path, int depth = 0, bool ext = true) {
	if (depth > 12) { err = path + ": nesting deeper than the reference"; return false; }
	const Var& cv = v;
	switch (m.t) {
	case MV::NONE: if (v.type() != Var::NONE || v.ok()) { err = path + ": expected an unset Var"; return false; } return true;
	case MV::NUL: if (v.type() != Var::NUL || !v.is(Var::NUL)) { err = path + ": expected null"; return false; } (void)(bool)v; (void)*v; (void)cv[0].type(); (void)cv["a"].type(); return true;
	case MV::BOOL: if (v.type() != Var::BOOL || (bool)v != m.b || !(v == m.b) || v == !m.b || v != m.b) { err = path + fmt(": expected bool %d", (int)m.b); return false; } (void)(int)v; (void)cv[0].type(); return true;
	case MV::INT: {
		if (v.type() != Var::INT || (int)v != m.i || (double)v != m.i || !v.is(Var::NUMBER) || !(v == m.i)) { err = path + fmt(": expected int %d, type %d value %d", m.i, (int)v.type(), (int)v); return false; }
		if (depth > 1 || !ext) return true; // the remaining readings depend on the leaf alone: every leaf kind also occurs as a root or a direct child
		vf::add(W_CONV_NUM);
		if ((Long)v != (Long)m.i || (m.i >= 0 && ((unsigned)v != (unsigned)m.i || (ULong)v != (ULong)m.i)) || (bool)v != (m.i != 0) || !(v == (double)m.i) || v != (double)m.i) { err = path + fmt(": int %d read back differently as Long/unsigned/ULong/bool/==double", m.i); return false; }
		if ((double)(float)m.i == (double)m.i && ((float)v != (float)m.i || !(v == (float)m.i))) { err = path + fmt(": int %d read back differently as float", m.i); return false; }
		String t = v.toString(); String u = v;
		if (vfx::S(t) != fmt("%d", m.i) || vfx::S(u) != vfx::S(t)) { err = path + fmt(": int %d as text '%s'", m.i, *t); return false; }
		(void)cv[0].type(); (void)cv["a"].type();
		return true;
	}
	case MV::NUM: {
		if (v.type() != Var::NUMBER || (double)v != m.d || !(v == m.d) || v != m.d || !v.is(Var::NUMBER)) { err = path + fmt(": expected number %.17g, type %d value %.17g", m.d, (int)v.type(), (double)v); return false; }
		if (depth > 1 || !ext) return true;
		vf::add(W_CONV_NUM);
		if ((float)v != (float)m.d || (bool)v != (m.d != 0)) { err = path + fmt(": number %g read back differently as float/bool", m.d); return false; }
		if (integral(m.d) && fabs(m.d) <= 9007199254740992.0 && (Long)v != (Long)m.d) { err = path + fmt(": number %.17g read back as Long %lld", m.d, (long long)(Long)v); return false; }
		if (integral(m.d) && m.d >= 0 && m.d <= 9007199254740992.0 && (ULong)v != (ULong)m.d) { err = path + fmt(": number %.17g read back differently as ULong", m.d); return false; }
		if (integral(m.d) && m.d >= INT_MIN && m.d <= INT_MAX && ((int)v != (int)m.d || !(v == (int)m.d))) { err = path + fmt(": number %.17g read back differently as int", m.d); return false; }
		if (integral(m.d) && m.d >= 0 && m.d <= 4294967295.0 && (unsigned)v != (unsigned)m.d) { err = path + fmt(": number %.17g read back differently as unsigned", m.d); return false; }
		if ((double)(float)m.d == m.d && !(v == (float)m.d)) { err = path + fmt(": number %g == float", m.d); return false; }
		String t = v.toString(); String u = v;
		if (atof(fmt("%.15g", m.d).c_str()) == m.d && (atof(*t) != m.d || vfx::S(u) != vfx::S(t))) { err = path + fmt(": number %.17g as text '%s'", m.d, *t); return false; }
		return true;
	}
	case MV::FLT: {
		if (v.type() != Var::FLOAT || (float)v != (float)m.d || !v.is(Var::NUMBER) || (double)v != (double)(float)m.d || !(v == (float)m.d) || v != (float)m.d) { err = path + fmt(": expected float %g, type %d", m.d, (int)v.type()); return false; }
		if (depth > 1 || !ext) return true;
		vf::add(W_CONV_NUM);
		if ((bool)v != (m.d != 0) || !(v == (double)(float)m.d)) { err = path + fmt(": float %g read back differently as bool/==double", m.d); return false; }
		if (integral(m.d) && fabs(m.d) < 16777216.0 && ((int)v != (int)m.d || (Long)v != (Long)m.d || !(v == (int)m.d))) { err = path + fmt(": float %g read back differently as int/Long", m.d); return false; }
		String t = v.toString();
		if ((float)atof(fmt("%.7g", m.d).c_str()) == (float)m.d && (float)atof(*t) != (float)m.d) { err = path + fmt(": float %g as text '%s'", m.d, *t); return false; }
		return true;
	}
	case MV::STR: {
		if (v.type() != Var::STRING || !v.is(Var::STRING)) { err = path + fmt(": expected string, type %d", (int)v.type()); return false; }
		String s = v;
		if (vfx::S(s) != m.s || v.length() != (int)m.s.size() || strcmp(*v, m.s.c_str()) != 0 || !(v == m.s.c_str()) || vfx::S(v.toString()) != m.s) { err = path + ": string value '" + vfx::S(s) + "', reference '" + m.s + "'"; return false; }
		if (v._type == Var::STRING && m.s.empty()) vf::add(W_HEAP_EMPTY);
		if ((bool)v != !m.s.empty()) { err = path + fmt(": string '%s' (%s representation) converts to bool %d", m.s.c_str(), v._type == Var::STRING ? "heap" : "inline", (int)(bool)v); return false; }
		if (depth > 1 || !ext) return true;
		if (!(v == vfx::A(m.s)) || v != m.s.c_str() || v != vfx::A(m.s) || v == (m.s + "x").c_str() || v == vfx::A(m.s + "x") || vfx::S(v.string()) != m.s) { err = path + ": string '" + m.s + "' compares wrongly with a String / const char*"; return false; }
		if (alldigits(m.s)) { vf::add(W_CONV_NUMSTR); if ((int)v != atoi(m.s.c_str()) || (double)v != atof(m.s.c_str()) || (Long)v != atoi(m.s.c_str()) || (unsigned)v != (unsigned)atoi(m.s.c_str()) || (float)v != (float)atof(m.s.c_str())) { err = path + ": digit string '" + m.s + "' read back as another number"; return false; } }
		else { (void)(int)v; (void)(double)v; (void)(Long)v; }
		(void)cv[0].type(); (void)cv["a"].type();
		return true;
	}
	case MV::ARR: {
		if (v.type() != Var::ARRAY || !v.is(Var::ARRAY)) { err = path + fmt(": expected array, type %d", (int)v.type()); return false; }
		if (v.length() != (int)m.a->size()) { err = path + fmt(": array length %d, reference %d", v.length(), (int)m.a->size()); return false; }
		for (int i = 0; i < v.length(); i++) if (!same(cv[i], (*m.a)[i], err, path + fmt("[%d]", i), depth + 1, ext)) return false;
		if (depth == 0 && ext && (v.array().length() != (int)m.a->size() || v.object().length() != 0)) { err = path + ": array()/object() of an array"; return false; }
		(void)(bool)v; (void)cv["a"].type();
		return true;
	}
	case MV::OBJ: {
		if (v.type() != Var::OBJ || !v.is(Var::OBJ)) { err = path + fmt(": expected object, type %d", (int)v.type()); return false; }
		if (v.length() != (int)m.o->size()) { err = path + fmt(": object has %d properties, reference %d", v.length(), (int)m.o->size()); return false; }
		for (std::map<std::string, MV>::iterator it = m.o->begin(); it != m.o->end(); ++it) {
			if (!v.has(it->first.c_str())) { err = path + ": property '" + it->first + "' missing"; return false; }
			if (!same(cv[it->first.c_str()], it->second, err, path + "." + it->first, depth + 1, ext)) return false;
		}
		// enumeration: every key of the reference exactly once (the order is not part of the statement)
		int n = 0; std::vector<std::string> seen; seen.reserve(m.o->size());
		foreach2 (String & k, const Var& x, cv) { (void)x; if (!m.o->count(vfx::S(k)) || std::find(seen.begin(), seen.end(), vfx::S(k)) != seen.end() || (seen.push_back(vfx::S(k)), false)) { err = path + ": property enumeration yields '" + vfx::S(k) + "' (not in the reference, or twice)"; return false; } n++; }
		if (n != (int)m.o->size()) { err = path + ": property enumeration count"; return false; }
		if (depth == 0 && ext && (v.object().length() != (int)m.o->size() || v.array().length() != 0 || v.has("no-such-key"))) { err = path + ": object()/array()/has() of an object"; return false; }
		(void)(bool)v; (void)cv[0].type();
		return true;
	}
	}
	return false;
}

// ---------------------------------------------------------------- system (BFS)
struct VarSys {
	enum Kind { GEN, ASSIGN, OWN_ELEM, OWN_PROP, OWN_DEEP, SET_ELEM, SET_PROP, SET_ELEM_SCALAR, SET_PROP_SCALAR, APPEND, APPEND_SCALAR, REMOVEAT, REMOVE, CLEAR, EXTEND, CLONE, TYPED, SELF,
		TYPED2, ALIAS_ELEM, ALIAS_PROP, ALIAS_APPEND, ALIAS_EXTEND, OWN_DEEP_PROP, NEST_OWN };
	struct O { Kind k; int i, j, a; };
	enum { NSLOT = 3, NGEN = 14, NGEN2 = 15, NTYPED2 = 10 };
	std::vector<O> ops;
	Var* v[NSLOT]; MV m[NSLOT];
	struct CloneRec { int slot; MV cloneRoot, orig; };
	std::vector<CloneRec> clones;
	VarSys() {
		for (int i = 0; i < NSLOT; i++) v[i] = 0;
		for (int i = 0; i < NSLOT; i++) { // the first 147 ops keep their numbers (case strings of earlier evidence stay replayable)
			for (int g = 0; g < NGEN; g++) add(GEN, i, 0, g);
			for (int j = 0; j < NSLOT; j++) if (j != i) { add(ASSIGN, i, j); add(SET_ELEM, i, j, 0); add(SET_ELEM, i, j, 1); add(SET_PROP, i, j, 0); add(SET_PROP, i, j, 1); add(APPEND, i, j); add(EXTEND, i, j); add(CLONE, i, j); }
			add(OWN_ELEM, i, 0, 0); add(OWN_ELEM, i, 0, 1); add(OWN_PROP, i); add(OWN_DEEP, i);
			add(SET_ELEM_SCALAR, i, 0, 0); add(SET_ELEM_SCALAR, i, 0, 1); add(SET_PROP_SCALAR, i, 0, 0); add(SET_PROP_SCALAR, i, 0, 1);
			add(APPEND_SCALAR, i); add(REMOVEAT, i); add(REMOVE, i); add(CLEAR, i);
			add(TYPED, i, 0, 0); add(TYPED, i, 0, 1); add(TYPED, i, 0, 2); add(TYPED, i, 0, 3); add(TYPED, i, 0, 4); add(TYPED, i, 0, 5); add(SELF, i);
		}
		for (int i = 0; i < NSLOT; i++) { // extension
			for (int g = NGEN; g < NGEN2; g++) add(GEN, i, 0, g);
			for (int t = 0; t < NTYPED2; t++) add(TYPED2, i, 0, t);
			add(ALIAS_ELEM, i, 0, 0); add(ALIAS_ELEM, i, 0, 1);
			for (int p = 0; p < 4; p++) add(ALIAS_PROP, i, 0, p);
			add(ALIAS_APPEND, i); add(ALIAS_EXTEND, i, 0, 0); add(ALIAS_EXTEND, i, 0, 1);
			add(SET_ELEM_SCALAR, i, 0, 2);
			add(SET_PROP_SCALAR, i, 0, 2);
			add(OWN_PROP, i, 0, 1); add(OWN_DEEP_PROP, i); add(NEST_OWN, i);
		}
	}
	void add(Kind k, int i, int j = 0, int a = 0) { O o = { k, i, j, a }; ops.push_back(o); }
	int nops() { return (int)ops.size(); }
	void reset() { clones.clear(); for (int i = 0; i < NSLOT; i++) { delete v[i]; v[i] = 0; m[i] = MV(); } for (int i = 0; i < NSLOT; i++) v[i] = new Var(); }
	static const char* genName(int g) { static const char* n[] = { "null", "true", "1", "1.5", "2.5f", "\"s\"", "\"1234567\"", "\"12345678\"", "[]", "[1]", "[[1],2]", "{}", "{a:1}", "{a:[1]}", "{b:1,c:2,d:3}" }; return n[g]; }
	static Var genVar(int g) {
		switch (g) {
		case 0: return Var(Var::NUL); case 1: return Var(true); case 2: return Var(1); case 3: return Var(1.5); case 4: return Var(2.5f);
		case 5: return Var("s"); case 6: return Var("1234567"); case 7: return Var("12345678");
		case 8: return Var(Var::ARRAY); case 9: { Var a(Var::ARRAY); a << 1; return a; }
		case 10: { Var in(Var::ARRAY); in << 1; Var a(Var::ARRAY); a << in << 2; return a; }
		case 11: return Var(Var::OBJ); case 12: { Var o(Var::OBJ); o["a"] = 1; return o; }
		case 13: { Var in(Var::ARRAY); in << 1; Var o(Var::OBJ); o["a"] = in; return o; }
		default: { Var o(Var::OBJ); o["b"] = 1; o["c"] = 2; o["d"] = 3; return o; } // a dictionary filled to its initial capacity
		}
	}
	static MV genModel(int g) {
		switch (g) {
		case 0: return MV::nul(); case 1: return MV::boolean(true); case 2: return MV::integer(1); case 3: return MV::num(1.5); case 4: return MV::flt(2.5f);
		case 5: return MV::str("s"); case 6: return MV::str("1234567"); case 7: return MV::str("12345678");
		case 8: return MV::arr(); case 9: { MV a = MV::arr(); a.a->push_back(MV::integer(1)); return a; }
		case 10: { MV in = MV::arr(); in.a->push_back(MV::integer(1)); MV a = MV::arr(); a.a->push_back(in); a.a->push_back(MV::integer(2)); return a; }
		case 11: return MV::obj(); case 12: { MV o = MV::obj(); (*o.o)["a"] = MV::integer(1); return o; }
		case 13: { MV in = MV::arr(); in.a->push_back(MV::integer(1)); MV o = MV::obj(); (*o.o)["a"] = in; return o; }
		default: { MV o = MV::obj(); (*o.o)["b"] = MV::integer(1); (*o.o)["c"] = MV::integer(2); (*o.o)["d"] = MV::integer(3); return o; }
		}
	}
	static const char* key(int a) { return a == 0 ? "a" : a == 1 ? "b" : "c"; }
	static const char* apDst(int p) { static const char* d[] = { "a", "b", "c", "c" }; return d[p]; }
	static const char* apSrc(int p) { static const char* s[] = { "b", "a", "a", "b" }; return s[p]; }
	static const char* typed2Name(int t) { static const char* n[] = { "true (bool)", "2.5f (float)", "(Long)4", "1u (unsigned)", "\"12345678\" (const char*)", "\"\" (const char*)", "String(\"1234567\")", "Var::NUL (Type)", "Array<int>{1}", "Dic<int>{a:1}" }; return n[t]; }
	bool small() { int n = 0; for (int i = 0; i < NSLOT; i++) n += msize(m[i]); return n < 40; }
	static bool hasProp(const MV& x, const char* k) { return x.t == MV::OBJ && x.o->count(k) && (*x.o)[k].t != MV::NONE; }
	bool enabled(int op) {
		const O& o = ops[op];
		const MV& x = m[o.i];
		for (int q = 0; q < o.i; q++) if (m[q].t == MV::NONE && (o.k == GEN || o.k == TYPED || o.k == TYPED2 || o.k == CLONE || o.k == ASSIGN) && x.t == MV::NONE) return false; // fill slots in order (symmetry)
		switch (o.k) {
		case GEN: return o.a < NGEN || o.i == 0; // the added generator is offered on slot 0 only (other slots obtain it by assignment)
		case ASSIGN: return m[o.j].t != MV::NONE && !reaches(m[o.j], 0);
		case OWN_ELEM: return x.t == MV::ARR && (int)x.a->size() > o.a && (*x.a)[o.a].t != MV::NONE;
		case OWN_PROP: return hasProp(x, key(o.a));
		case OWN_DEEP: return x.t == MV::ARR && x.a->size() >= 1 && (*x.a)[0].t == MV::ARR && (*x.a)[0].a->size() >= 1 && (*(*x.a)[0].a)[0].t != MV::NONE;
		case SET_ELEM: { if (!(x.t == MV::ARR || (x.t == MV::NONE && o.a == 0)) || m[o.j].t == MV::NONE || !small()) return false; if (x.t == MV::ARR && reaches(m[o.j], cid(x))) return false; int idx = o.a == 0 ? 0 : (int)x.a->size(); return x.t == MV::NONE || idx <= (int)x.a->size(); }
		case SET_PROP: { if (!(x.t == MV::OBJ || x.t == MV::NONE) || m[o.j].t == MV::NONE || !small()) return false; return !(x.t == MV::OBJ && reaches(m[o.j], cid(x))); }
		case SET_ELEM_SCALAR: return (x.t == MV::ARR || (x.t == MV::NONE && o.a != 1)) && small() && (o.a != 2 || (o.i == 0 && (x.t == MV::NONE || x.a->size() <= 1))); // n+2: slot 0 only, from unset, [] or [x] (inside / across the initial capacity)
		case SET_PROP_SCALAR: return (x.t == MV::OBJ || x.t == MV::NONE) && small() && (o.a != 2 || o.i == 0); // key "c": slot 0 only
		case APPEND: return (x.t == MV::ARR || x.t == MV::NONE) && m[o.j].t != MV::NONE && small() && !(x.t == MV::ARR && reaches(m[o.j], cid(x)));
		case APPEND_SCALAR: return (x.t == MV::ARR || x.t == MV::NONE) && small();
		case REMOVEAT: return x.t == MV::ARR && x.a->size() >= 1;
		case REMOVE: return x.t == MV::OBJ && x.o->count("a");
		case CLEAR: return (x.t == MV::ARR && !x.a->empty()) || (x.t == MV::OBJ && !x.o->empty());
		case EXTEND: { if (!(x.t == MV::OBJ || x.t == MV::NONE) || m[o.j].t != MV::OBJ || !small()) return false; if (x.t == MV::OBJ) { if (cid(x) == cid(m[o.j])) return false; for (std::map<std::string, MV>::iterator it = m[o.j].o->begin(); it != m[o.j].o->end(); ++it) if (reaches(it->second, cid(x))) return false; } return true; }
		case CLONE: return m[o.j].t != MV::NONE;
		case TYPED: return true;
		case TYPED2: return (o.a != 2 && o.a != 5) || o.i == 0; // the two assignments that introduce a new leaf value are offered on slot 0 only
		case SELF: return x.t != MV::NONE;
		// own siblings as the source (no cycle can arise: a child never reaches its parent)
		case ALIAS_ELEM: return x.t == MV::ARR && (int)x.a->size() >= (o.a == 0 ? 1 : 2) && (*x.a)[o.a == 0 ? 0 : x.a->size() - 1].t != MV::NONE && small();
		case ALIAS_PROP: return hasProp(x, apSrc(o.a)) && small();
		case ALIAS_APPEND: return x.t == MV::ARR && x.a->size() >= 1 && (*x.a)[0].t != MV::NONE && small();
		case ALIAS_EXTEND: return hasProp(x, key(o.a)) && (*x.o)[key(o.a)].t == MV::OBJ && small();
		case OWN_DEEP_PROP: return hasProp(x, "a") && (*x.o)["a"].t == MV::ARR && (*x.o)["a"].a->size() >= 1 && (*(*x.o)["a"].a)[0].t != MV::NONE;
		case NEST_OWN: return x.t == MV::ARR && x.a->size() >= 1 && (*x.a)[0].t == MV::ARR && (*x.a)[0].a->size() >= 1 && (*(*x.a)[0].a)[0].t != MV::NONE;
		}
		return false;
	}
	// index written by SET_ELEM / SET_ELEM_SCALAR in the current model state
	int elemIndex(const O& o) { const MV& x = m[o.i]; int n = x.t == MV::ARR ? (int)x.a->size() : 0; return o.a == 0 ? 0 : o.a == 1 ? n : n + 2; }
	// Predicted classified defects.
	//  grow_while_shared: container at capacity, referenced by >= 2 Vars, op adds entries (same root cause as C01 grow_while_shared).
	//  autocreate_invalidates_source: `x[k] = x[j]` where indexing the target creates it and thereby moves the storage (reallocation of the
	//    block, or shift of the sorted property array at or before the source) that holds the source the right operand refers to.
	const char* predict(int op) {
		const O& o = ops[op];
		Var& x = *v[o.i];
		int grow = 0; bool alias = false;
		switch (o.k) {
		case SET_ELEM: case SET_ELEM_SCALAR: if (x._type == Var::ARRAY) { int idx = elemIndex(o); if (idx >= x._a->length()) grow = idx + 1 - x._a->length(); } break;
		case APPEND: case APPEND_SCALAR: case ALIAS_APPEND: if (x._type == Var::ARRAY) grow = 1; break;
		case SET_PROP: case SET_PROP_SCALAR: if (x._type == Var::OBJ && !x.has(key(o.a))) grow = 1; break;
		case EXTEND: if (x._type == Var::OBJ) { grow = 0; for (std::map<std::string, MV>::iterator it = m[o.j].o->begin(); it != m[o.j].o->end(); ++it) if (it->second.t != MV::NONE && !m[o.i].o->count(it->first)) grow++; } break;
		case ALIAS_EXTEND: { const MV& src = (*m[o.i].o)[key(o.a)]; for (std::map<std::string, MV>::iterator it = src.o->begin(); it != src.o->end(); ++it) if (it->second.t != MV::NONE && !m[o.i].o->count(it->first)) grow++; break; }
		case ALIAS_ELEM: if (o.a == 0) { grow = 1; alias = true; } break;
		case ALIAS_PROP: if (!x.has(apDst(o.a))) { grow = 1; alias = true; } break;
		default: break;
		}
		if (!grow) return 0;
		if (x._type == Var::ARRAY && x._a->rc() >= 2 && x._a->length() + grow > x._a->cap()) { vf::add(W_PRED_ARR); return "grow_while_shared"; }
		if (x._type == Var::OBJ && x._o->kv().rc() >= 2 && x._o->length() + grow > x._o->kv().cap()) { vf::add(W_PRED_OBJ); return "grow_while_shared"; }
		if (alias) {
			bool moves = x._type == Var::ARRAY ? x._a->length() + 1 > x._a->cap() : (x._o->length() + 1 > x._o->kv().cap() || strcmp(apDst(o.a), apSrc(o.a)) < 0);
			if (moves) { vf::add(W_PRED_ALIAS); return "autocreate_invalidates_source"; }
		}
		return 0;
	}
	std::string opname(int op) {
		const O& o = ops[op];
		switch (o.k) {
		case GEN: return fmt("v%d = %s", o.i, genName(o.a)); case ASSIGN: return fmt("v%d = v%d", o.i, o.j);
		case OWN_ELEM: return fmt("v%d = v%d[%d]", o.i, o.i, o.a); case OWN_PROP: return fmt("v%d = v%d[\"%s\"]", o.i, o.i, key(o.a)); case OWN_DEEP: return fmt("v%d = v%d[0][0]", o.i, o.i);
		case SET_ELEM: return fmt("v%d[%s] = v%d", o.i, o.a == 0 ? "0" : "n", o.j); case SET_PROP: return fmt("v%d[\"%s\"] = v%d", o.i, key(o.a), o.j);
		case SET_ELEM_SCALAR: return fmt("v%d[%s] = 7", o.i, o.a == 0 ? "0" : o.a == 1 ? "n" : "n+2"); case SET_PROP_SCALAR: return fmt("v%d[\"%s\"] = \"p\"", o.i, key(o.a));
		case APPEND: return fmt("v%d << v%d", o.i, o.j); case APPEND_SCALAR: return fmt("v%d << 3", o.i);
		case REMOVEAT: return fmt("v%d.removeAt(0)", o.i); case REMOVE: return fmt("v%d.remove(\"a\")", o.i); case CLEAR: return fmt("v%d.clear()", o.i);
		case EXTEND: return fmt("v%d.extend(v%d)", o.i, o.j); case CLONE: return fmt("v%d = v%d.clone()", o.i, o.j);
		case TYPED: return fmt("v%d = %s", o.i, o.a == 0 ? "5 (int)" : o.a == 1 ? "\"t\" (const char*)" : o.a == 2 ? "String(\"a-long-string\")" : o.a == 3 ? "0.25 (double)" : o.a == 4 ? "\"1234567\" (const char*)" : "String(\"12345678\")");
		case SELF: return fmt("v%d = v%d", o.i, o.i);
		case TYPED2: return fmt("v%d = %s", o.i, typed2Name(o.a));
		case ALIAS_ELEM: return o.a == 0 ? fmt("v%d[n] = v%d[0]", o.i, o.i) : fmt("v%d[0] = v%d[n-1]", o.i, o.i);
		case ALIAS_PROP: return fmt("v%d[\"%s\"] = v%d[\"%s\"]", o.i, apDst(o.a), o.i, apSrc(o.a));
		case ALIAS_APPEND: return fmt("v%d << v%d[0]", o.i, o.i);
		case ALIAS_EXTEND: return fmt("v%d.extend(v%d[\"%s\"])", o.i, o.i, key(o.a));
		case OWN_DEEP_PROP: return fmt("v%d = v%d[\"a\"][0]", o.i, o.i);
		case NEST_OWN: return fmt("v%d[0] = v%d[0][0]", o.i, o.i);
		}
		return "?";
	}
	static bool container(const MV& x) { return x.t == MV::ARR || x.t == MV::OBJ; }
	void fastPath(int before, int src) { if (before == Var::STRING && src == Var::STRING) vf::add(W_FP_STR); else if (before == Var::ARRAY && src == Var::ARRAY) vf::add(W_FP_ARR); else if (before == Var::OBJ && src == Var::OBJ) vf::add(W_FP_OBJ); }
	void ownDesc(int before, int src) { vf::add(W_OWN_DESC); if (before == src) vf::add(W_OWN_SAME); else vf::add(W_OWN_CHANGE); fastPath(before, src); }
	// container c is about to be mutated in place: does it belong to exactly one side of an earlier clone() whose result is still held?
	void mutating(const void* c) {
		for (size_t k = 0; k < clones.size(); k++) {
			const CloneRec& r = clones[k];
			if (cid(m[r.slot]) != cid(r.cloneRoot)) continue; // that clone is no longer held
			if (reaches(r.orig, c) != reaches(r.cloneRoot, c)) vf::add(W_CLONE_MUT);
		}
	}
	void growth(Var& x, int add) {
		if (x._type == Var::ARRAY && x._a->length() + add > x._a->cap()) vf::add(W_ARR_REALLOC);
		if (x._type == Var::OBJ && x._o->length() + add > x._o->kv().cap()) vf::add(W_OBJ_REALLOC);
	}
	bool apply(int op, std::string& err) {
		const O& o = ops[op];
		Var& x = *v[o.i]; MV& mx = m[o.i];
		bool sharedC = container(mx) && (mx.t == MV::ARR ? mx.a.use_count() : mx.o.use_count()) >= 2;
		int before = x._type;
		switch (o.k) {
		case GEN: { MV g = genModel(o.a); if (mx.t == g.t && mx.t != MV::NONE) vf::add(W_SAMETYPE_FAST); else if (mx.t != MV::NONE) vf::add(W_TYPECHANGE); if (sharedC && !container(g)) vf::add(W_SCALAR_OVER_SHARED); { Var gv = genVar(o.a); fastPath(before, gv._type); x = gv; } mx = g; if (o.a == 6 || o.a == 7) vf::add(W_STR_INLINE_HEAP); break; }
		case ASSIGN: if (mx.t == m[o.j].t) vf::add(W_SAMETYPE_FAST); else if (mx.t != MV::NONE) vf::add(W_TYPECHANGE); fastPath(before, v[o.j]->_type); x = *v[o.j]; mx = m[o.j]; break;
		case OWN_ELEM: { MV t = (*mx.a)[o.a]; { const Var& s = x[o.a]; ownDesc(before, s._type); x = s; } mx = t; break; }
		case OWN_PROP: { MV t = (*mx.o)[key(o.a)]; { const Var& s = x[key(o.a)]; ownDesc(before, s._type); x = s; } mx = t; break; }
		case OWN_DEEP: { MV t = (*(*mx.a)[0].a)[0]; { const Var& s = x[0][0]; ownDesc(before, s._type); x = s; } mx = t; break; }
		case OWN_DEEP_PROP: { MV t = (*(*mx.o)["a"].a)[0]; { const Var& s = x["a"][0]; ownDesc(before, s._type); x = s; } mx = t; break; }
		case NEST_OWN: { vf::add(W_NEST_OWN); if (sharedC) vf::add(W_SHARED_MUT); mutating(cid(mx)); MV t = (*(*mx.a)[0].a)[0]; { Var& d = x[0]; const Var& s = d[0]; d = s; } (*mx.a)[0] = t; break; }
		case SET_ELEM: case SET_ELEM_SCALAR: {
			if (mx.t == MV::NONE) { vf::add(W_AUTOVIV); mx = MV::arr(); }
			int idx = elemIndex(o);
			if (idx >= (int)mx.a->size()) { vf::add(W_AUTORESIZE); if (idx > (int)mx.a->size()) vf::add(W_INDEX_HOLES); growth(x, idx + 1 - (int)mx.a->size()); mx.a->resize(idx + 1); }
			if (sharedC) vf::add(W_SHARED_MUT);
			mutating(cid(mx));
			if (o.k == SET_ELEM) { x[idx] = *v[o.j]; (*mx.a)[idx] = m[o.j]; } else { x[idx] = 7; (*mx.a)[idx] = MV::integer(7); }
			break;
		}
		case SET_PROP: case SET_PROP_SCALAR: {
			if (mx.t == MV::NONE) { vf::add(W_AUTOVIV); mx = MV::obj(); }
			if (sharedC) vf::add(W_SHARED_MUT);
			mutating(cid(mx));
			if (!mx.o->count(key(o.a))) { growth(x, 1); if (!mx.o->empty() && key(o.a) < mx.o->begin()->first) vf::add(W_OBJ_INSERT_FRONT); }
			if (o.k == SET_PROP) { x[key(o.a)] = *v[o.j]; (*mx.o)[key(o.a)] = m[o.j]; } else { x[key(o.a)] = "p"; (*mx.o)[key(o.a)] = MV::str("p"); }
			if (mx.o->size() >= 4) vf::add(W_OBJ_4KEYS);
			break;
		}
		case APPEND: if (mx.t == MV::NONE) { vf::add(W_AUTOVIV); mx = MV::arr(); } if (sharedC) vf::add(W_SHARED_MUT); mutating(cid(mx)); growth(x, 1); x << *v[o.j]; mx.a->push_back(m[o.j]); break;
		case APPEND_SCALAR: if (mx.t == MV::NONE) { vf::add(W_AUTOVIV); mx = MV::arr(); } if (sharedC) vf::add(W_SHARED_MUT); mutating(cid(mx)); growth(x, 1); x << 3; mx.a->push_back(MV::integer(3)); break;
		case REMOVEAT: if (sharedC) vf::add(W_SHARED_MUT); mutating(cid(mx)); x.removeAt(0); mx.a->erase(mx.a->begin()); break;
		case REMOVE: if (sharedC) vf::add(W_SHARED_MUT); mutating(cid(mx)); x.remove("a"); mx.o->erase("a"); break;
		case CLEAR: if (sharedC) vf::add(W_SHARED_MUT); mutating(cid(mx)); x.clear(); if (mx.t == MV::ARR) mx.a->clear(); else mx.o->clear(); break;
		case EXTEND: { vf::add(W_EXTEND); if (mx.t == MV::NONE) mx = MV::obj(); mutating(cid(mx)); x.extend(*v[o.j]); std::map<std::string, MV> src(*m[o.j].o); for (std::map<std::string, MV>::iterator it = src.begin(); it != src.end(); ++it) if (it->second.t != MV::NONE) (*mx.o)[it->first] = it->second; break; }
		case CLONE: { vf::add(W_CLONE); x = v[o.j]->clone(); mx = deepclone(m[o.j]); if (container(mx)) { CloneRec r; r.slot = o.i; r.cloneRoot = mx; r.orig = m[o.j]; clones.push_back(r); } break; }
		case TYPED:
			if (sharedC) vf::add(W_SCALAR_OVER_SHARED);
			if (o.a == 0) { x = 5; mx = MV::integer(5); } else if (o.a == 1) { x = "t"; mx = MV::str("t"); } else if (o.a == 2) { x = String("a-long-string"); mx = MV::str("a-long-string"); } else if (o.a == 3) { x = 0.25; mx = MV::num(0.25); }
			else if (o.a == 4) { x = "1234567"; mx = MV::str("1234567"); if (x._type == Var::STRING) vf::add(W_STR_HEAP_SHORT); } else { x = String("12345678"); mx = MV::str("12345678"); }
			break;
		case TYPED2:
			if (sharedC) vf::add(W_SCALAR_OVER_SHARED);
			if (before == Var::STRING) vf::add(W_TYPED_OVER_HEAPSTR);
			if (before == Var::ARRAY || before == Var::OBJ) vf::add(W_TYPED_OVER_CONTAINER);
			switch (o.a) {
			case 0: x = true; mx = MV::boolean(true); break;
			case 1: x = 2.5f; mx = MV::flt(2.5f); break;
			case 2: x = (Long)4; mx = MV::num(4); break;
			case 3: x = 1u; mx = MV::integer(1); break;
			case 4: if (before != Var::STRING) vf::add(W_CSTR_HEAP_ARM); else if (x._s->length() < 9) vf::add(W_CSTR_GROW); x = "12345678"; mx = MV::str("12345678"); break;
			case 5: x = ""; mx = MV::str(""); break;
			case 6: x = String("1234567"); mx = MV::str("1234567"); if (x._type == Var::STRING) vf::add(W_STR_HEAP_SHORT); break;
			case 7: x = Var::NUL; mx = MV::nul(); break;
			case 8: { Array<int> ai; ai << 1; x = ai; mx = MV::arr(); mx << MV::integer(1); break; }
			default: { Dic<int> di; di["a"] = 1; x = di; mx = MV::obj(); mx("a", MV::integer(1)); break; }
			}
			break;
		case SELF: { Var& r = x; x = r; break; }
		// the right operand is evaluated first (the order C++17 prescribes for `a = b`, and what g++ does in every mode), then the target is indexed
		case ALIAS_ELEM: {
			if (sharedC) vf::add(W_SHARED_MUT);
			mutating(cid(mx));
			int n = (int)mx.a->size();
			if (o.a == 0) { if (x._a->length() + 1 <= x._a->cap()) vf::add(W_ALIAS_CREATE_OK); else growth(x, 1); MV t = (*mx.a)[0]; { const Var& s = x[0]; x[n] = s; } mx.a->push_back(t); }
			else { vf::add(W_ALIAS_NOCREATE); MV t = (*mx.a)[n - 1]; { const Var& s = x[n - 1]; x[0] = s; } (*mx.a)[0] = t; }
			break;
		}
		case ALIAS_PROP: {
			if (sharedC) vf::add(W_SHARED_MUT);
			mutating(cid(mx));
			if (mx.o->count(apDst(o.a))) vf::add(W_ALIAS_NOCREATE); else vf::add(W_ALIAS_CREATE_OK);
			MV t = (*mx.o)[apSrc(o.a)];
			{ const Var& s = x[apSrc(o.a)]; x[apDst(o.a)] = s; }
			(*mx.o)[apDst(o.a)] = t;
			break;
		}
		case ALIAS_APPEND: { if (sharedC) vf::add(W_SHARED_MUT); mutating(cid(mx)); if (x._a->length() == x._a->cap()) vf::add(W_ALIAS_APPEND_FULL); growth(x, 1); MV t = (*mx.a)[0]; { const Var& s = x[0]; x << s; } mx.a->push_back(t); break; }
		case ALIAS_EXTEND: {
			vf::add(W_ALIAS_EXTEND); if (sharedC) vf::add(W_SHARED_MUT); mutating(cid(mx));
			std::map<std::string, MV> src(*(*mx.o)[key(o.a)].o);
			if (src.count(key(o.a)) && src[key(o.a)].t != MV::NONE) vf::add(W_ALIAS_EXTEND_OVERWRITES_SRC);
			x.extend(x[key(o.a)]);
			for (std::map<std::string, MV>::iterator it = src.begin(); it != src.end(); ++it) if (it->second.t != MV::NONE) (*mx.o)[it->first] = it->second;
			break;
		}
		}
		return observe(err, o.i);
	}
	bool observe(std::string& err, int touched) {
		for (int i = 0; i < NSLOT; i++) if (!same(*v[i], m[i], err, fmt("v%d", i), 0, i == touched)) return false;
		for (int i = 0; i < NSLOT; i++) for (int j = 0; j < NSLOT; j++) {
			if (hasNone(m[i]) || hasNone(m[j])) continue; // unset Vars are outside the statement's value list
			bool e = *v[i] == *v[j], me = meq(m[i], m[j]);
			if (me) vf::add(W_EQ_TRUE); else vf::add(W_EQ_FALSE);
			if (me && m[i].t == MV::STR && v[i]->_type != v[j]->_type) vf::add(W_EQ_XREP);
			if (e != me || (*v[i] != *v[j]) == me) { err = fmt("v%d == v%d is %d, reference %d", i, j, (int)e, (int)me); return false; }
		}
		return true;
	}
	// canonical form: model structure with container identities + implementation shape (capacity, share count, string storage kind)
	void canonV(const Var& x, const MV& mv, std::map<const void*, int>& ids, std::string& s) {
		switch (mv.t) {
		case MV::NONE: s += "~"; break; case MV::NUL: s += "N"; break; case MV::BOOL: s += mv.b ? "T" : "F"; break;
		case MV::INT: s += fmt("i%d", mv.i); break; case MV::NUM: s += fmt("d%g", mv.d); break; case MV::FLT: s += fmt("f%g", mv.d); break;
		case MV::STR: s += (x._type == Var::SSTRING ? "s'" : "S'") + mv.s + "'"; if (x._type == Var::STRING) s += fmt("c%d", x._s->cap()); break;
		case MV::ARR: {
			std::map<const void*, int>::iterator it = ids.find(mv.a.get());
			if (it != ids.end()) { s += fmt("@%d", it->second); break; }
			int id = (int)ids.size(); ids[mv.a.get()] = id;
			s += fmt("[#%d c%d r%d:", id, x._a->cap(), x._a->rc());
			for (size_t i = 0; i < mv.a->size(); i++) { canonV((*x._a)[(int)i], (*mv.a)[i], ids, s); s += ","; }
			s += "]"; break;
		}
		case MV::OBJ: {
			std::map<const void*, int>::iterator it = ids.find(mv.o.get());
			if (it != ids.end()) { s += fmt("@%d", it->second); break; }
			int id = (int)ids.size(); ids[mv.o.get()] = id;
			s += fmt("{#%d c%d r%d:", id, x._o->kv().cap(), x._o->kv().rc());
			for (std::map<std::string, MV>::iterator p = mv.o->begin(); p != mv.o->end(); ++p) { s += p->first + "="; canonV((*x._o)[p->first.c_str()], p->second, ids, s); s += ","; }
			s += "}"; break;
		}
		}
	}
	std::string canon() {
		std::string s; std::map<const void*, int> ids;
		for (int i = 0; i < NSLOT; i++) { canonV(*v[i], m[i], ids, s); s += "|"; }
		return s;
	}
};

// ---------------------------------------------------------------- pure input families
// One case: body builds real Vars and reference values, compares, and destroys everything it built. ASan + allocation delta as in the BFS.
template <class F>
static bool run_case(const std::string& kase, int counter, F body) {
	for (int attempt = 0; attempt < 2; attempt++) {
		std::string sig, desc; sig.reserve(64); desc.reserve(2048);
		vf::cur(kase); vf::asan_clear();
		uint64_t base = vf::heap_bytes();
		bool ok = true;
		{ std::string err, name; if (!body(err, name)) { ok = false; sig = "diverge"; desc = name + ": " + err; } if (vf::asan_tripped()) { ok = false; sig = "asan"; desc = "ASan " + vf::asan_what() + " in " + name + (err.empty() ? "" : "; " + err); } }
		if (ok && vf::have_asan()) {
			uint64_t after = vf::heap_bytes();
			if (after != base && attempt == 0) continue; // lazily built statics allocate once: only a delta that repeats is a leak
			if (after != base) { ok = false; sig = "leak"; std::string err, name; body(err, name); desc = fmt("allocated bytes %+lld after dropping everything in ", (long long)(after - base)) + name; }
		}
		vf::add(counter);
		if (!ok) vf::violation(sig, desc, kase);
		vf::asan_clear();
		return ok;
	}
	return true;
}
static MV mI(int i) { return MV::integer(i); }
static MV mS(const std::string& s) { return MV::str(s); }
static const char* DIGITS = "123456789012345678901234567890";
static const char* LETTERS = "abcdefghijklmnopqrstuvwxyzABCD";

// ---- value set: named builders of a real Var (into a fresh, unset heap Var) with its reference value
struct Val { std::string name; std::function<void(Var&)> build; std::function<MV()> model; };
static std::vector<Val> VS;
static void heapStr(Var& v, const char* s) { v = "a-string-longer-than-the-inline-space"; v = s; } // keeps the heap representation whatever the length
static void addVal(const std::string& n, std::function<void(Var&)> b, std::function<MV()> m) { Val x; x.name = n; x.build = b; x.model = m; VS.push_back(x); }
#define LEAF(name, expr, model) addVal(name, [](Var& v) { v = Var(expr); }, []() { return model; })
static void buildValues() {
	LEAF("null", Var::NUL, MV::nul()); LEAF("true", true, MV::boolean(true)); LEAF("false", false, MV::boolean(false));
	LEAF("0", 0, mI(0)); LEAF("1", 1, mI(1)); LEAF("-1", -1, mI(-1)); LEAF("2", 2, mI(2)); LEAF("16777217", 16777217, mI(16777217));
	LEAF("0.0", 0.0, MV::num(0)); LEAF("1.0", 1.0, MV::num(1)); LEAF("-1.0", -1.0, MV::num(-1)); LEAF("1.5", 1.5, MV::num(1.5)); LEAF("0.1", 0.1, MV::num(0.1)); LEAF("3e9", 3000000000u, MV::num(3e9)); LEAF("2^40", (Long)1 << 40, MV::num(1099511627776.0));
	LEAF("0.0f", 0.0f, MV::flt(0)); LEAF("1.0f", 1.0f, MV::flt(1)); LEAF("1.5f", 1.5f, MV::flt(1.5f)); LEAF("2.5f", 2.5f, MV::flt(2.5f)); LEAF("0.1f", 0.1f, MV::flt(0.1f)); LEAF("16777216f", 16777216.0f, MV::flt(16777216.0f));
	LEAF("''", "", mS("")); LEAF("'s'", "s", mS("s")); LEAF("'1'", "1", mS("1")); LEAF("'true'", "true", mS("true")); LEAF("'1234567'", "1234567", mS("1234567")); LEAF("'1234568'", "1234568", mS("1234568"));
	LEAF("'12345678'", "12345678", mS("12345678")); LEAF("'12345679'", "12345679", mS("12345679")); LEAF("'123456789'", "123456789", mS("123456789")); LEAF("'1234567' via String", String("1234567"), mS("1234567"));
	addVal("heap ''", [](Var& v) { heapStr(v, ""); }, []() { return mS(""); });
	addVal("heap 's'", [](Var& v) { heapStr(v, "s"); }, []() { return mS("s"); });
	addVal("heap '1234567'", [](Var& v) { heapStr(v, "1234567"); }, []() { return mS("1234567"); });
	addVal("heap '1234568'", [](Var& v) { heapStr(v, "1234568"); }, []() { return mS("1234568"); });
	LEAF("[]", Var::ARRAY, MV::arr()); LEAF("{}", Var::OBJ, MV::obj());
	addVal("[1]", [](Var& v) { v << 1; }, []() { return MV::arr() << mI(1); });
	addVal("[1.0]", [](Var& v) { v << 1.0; }, []() { return MV::arr() << MV::num(1); });
	addVal("[true]", [](Var& v) { v << true; }, []() { return MV::arr() << MV::boolean(true); });
	addVal("[null]", [](Var& v) { v << Var(Var::NUL); }, []() { return MV::arr() << MV::nul(); });
	addVal("['s']", [](Var& v) { v << "s"; }, []() { return MV::arr() << mS("s"); });
	addVal("[heap 's']", [](Var& v) { v[0] = "12345678"; v[0] = "s"; }, []() { return MV::arr() << mS("s"); });
	addVal("[1,2]", [](Var& v) { v << 1 << 2; }, []() { return MV::arr() << mI(1) << mI(2); });
	addVal("[2,1]", [](Var& v) { v << 2 << 1; }, []() { return MV::arr() << mI(2) << mI(1); });
	addVal("[1,2,3,4]", [](Var& v) { v << 1 << 2 << 3 << 4; }, []() { return MV::arr() << mI(1) << mI(2) << mI(3) << mI(4); });
	addVal("[[1]]", [](Var& v) { Var in; in << 1; v << in; }, []() { return MV::arr() << (MV::arr() << mI(1)); });
	addVal("[[1],2]", [](Var& v) { Var in; in << 1; v << in << 2; }, []() { return MV::arr() << (MV::arr() << mI(1)) << mI(2); });
	addVal("[[1],[1]] (one child twice)", [](Var& v) { Var in; in << 1; v << in << in; }, []() { MV in = MV::arr() << mI(1); return MV::arr() << in << in; });
	addVal("[[1.0],2.0f]", [](Var& v) { Var in; in << 1.0; v << in << 2.0f; }, []() { return MV::arr() << (MV::arr() << MV::num(1)) << MV::flt(2); });
	addVal("[['12345678']]", [](Var& v) { Var in; in << "12345678"; v << in; }, []() { return MV::arr() << (MV::arr() << mS("12345678")); });
	addVal("[{}]", [](Var& v) { v << Var(Var::OBJ); }, []() { return MV::arr() << MV::obj(); });
	addVal("[[]]", [](Var& v) { v << Var(Var::ARRAY); }, []() { return MV::arr() << MV::arr(); });
	addVal("{a:1}", [](Var& v) { v["a"] = 1; }, []() { return MV::obj()("a", mI(1)); });
	addVal("{a:1.0}", [](Var& v) { v["a"] = 1.0; }, []() { return MV::obj()("a", MV::num(1)); });
	addVal("{a:2}", [](Var& v) { v["a"] = 2; }, []() { return MV::obj()("a", mI(2)); });
	addVal("{b:1}", [](Var& v) { v["b"] = 1; }, []() { return MV::obj()("b", mI(1)); });
	addVal("{a:1,b:2}", [](Var& v) { v["a"] = 1; v["b"] = 2; }, []() { return MV::obj()("a", mI(1))("b", mI(2)); });
	addVal("{b:2,a:1} (other insertion order)", [](Var& v) { v["b"] = 2; v["a"] = 1; }, []() { return MV::obj()("a", mI(1))("b", mI(2)); });
	addVal("{a:1,b:2,c:3,d:4}", [](Var& v) { v["d"] = 4; v["a"] = 1; v["c"] = 3; v["b"] = 2; }, []() { return MV::obj()("a", mI(1))("b", mI(2))("c", mI(3))("d", mI(4)); });
	addVal("{a:[1]}", [](Var& v) { Var in; in << 1; v["a"] = in; }, []() { return MV::obj()("a", MV::arr() << mI(1)); });
	addVal("{a:{b:[1]}}", [](Var& v) { v["a"]["b"][0] = 1; }, []() { return MV::obj()("a", MV::obj()("b", MV::arr() << mI(1))); });
	addVal("{a:'12345678',b:{}}", [](Var& v) { v["a"] = "12345678"; v["b"] = Var(Var::OBJ); }, []() { return MV::obj()("a", mS("12345678"))("b", MV::obj()); });
}

// ---- eq: all ordered pairs of the value set, also as copies / clones and wrapped in an array and in an object
static bool eqCase(int i, int j, std::string& err, std::string& name) {
	name = "(" + VS[i].name + ") == (" + VS[j].name + ")";
	std::unique_ptr<Var> a(new Var), b(new Var);
	VS[i].build(*a); VS[j].build(*b);
	MV ma = VS[i].model(), mb = VS[j].model();
	if (!same(*a, ma, err, "left") || !same(*b, mb, err, "right")) return false;
	bool me = meq(ma, mb), e = *a == *b, ne = *a != *b;
	if (ma.isnum() && mb.isnum() && ma.t != mb.t && me) vf::add(W_EQ_NUM_XTYPE);
	if (ma.t == MV::BOOL && mb.t == MV::BOOL) vf::add(W_EQ_BOOLS);
	if (ma.t == MV::STR && me && a->_type != b->_type) vf::add(W_EQ_XREP);
	if ((ma.t == MV::ARR || ma.t == MV::OBJ) && ma.t == mb.t) vf::add(me ? W_EQ_CONT_TRUE : W_EQ_CONT_FALSE);
	if (e != me || ne == me) { err = fmt("== is %d, != is %d, reference equality %d", (int)e, (int)ne, (int)me); return false; }
	Var c(*a); Var d = b->clone();
	if ((c == d) != me || (d == c) != me) { err = fmt("copy == clone is %d / %d, reference %d", (int)(c == d), (int)(d == c), (int)me); return false; }
	Var wa, wb; wa << *a; wb << *b;
	if ((wa == wb) != me || (wa != wb) == me) { err = fmt("[left] == [right] is %d, reference %d", (int)(wa == wb), (int)me); return false; }
	Var oa, ob; oa["k"] = *a; ob["k"] = *b;
	if ((oa == ob) != me) { err = fmt("{k:left} == {k:right} is %d, reference %d", (int)(oa == ob), (int)me); return false; }
	return true;
}
// ---- eqt: value x typed constant through the typed overloads of == and !=
struct TC { std::string name; std::function<bool(const Var&)> eq, ne; MV m; };
static std::vector<TC> TCS;
#define TCONST(nm, expr, model) { TC t; t.name = nm; t.eq = [](const Var& v) { return v == (expr); }; t.ne = [](const Var& v) { return v != (expr); }; t.m = model; TCS.push_back(t); }
static void buildConsts() {
	TCONST("true", true, MV::boolean(true)); TCONST("false", false, MV::boolean(false));
	TCONST("0", 0, mI(0)); TCONST("1", 1, mI(1)); TCONST("-1", -1, mI(-1)); TCONST("2", 2, mI(2)); TCONST("16777217", 16777217, mI(16777217));
	TCONST("0.0", 0.0, MV::num(0)); TCONST("1.0", 1.0, MV::num(1)); TCONST("1.5", 1.5, MV::num(1.5)); TCONST("0.1", 0.1, MV::num(0.1)); TCONST("3e9", 3e9, MV::num(3e9));
	TCONST("0.0f", 0.0f, MV::flt(0)); TCONST("1.0f", 1.0f, MV::flt(1)); TCONST("1.5f", 1.5f, MV::flt(1.5f)); TCONST("2.5f", 2.5f, MV::flt(2.5f)); TCONST("0.1f", 0.1f, MV::flt(0.1f));
	TCONST("(const char*)''", "", mS("")); TCONST("(const char*)'s'", "s", mS("s")); TCONST("(const char*)'1'", "1", mS("1")); TCONST("(const char*)'1234567'", "1234567", mS("1234567")); TCONST("(const char*)'12345678'", "12345678", mS("12345678")); TCONST("(const char*)'true'", "true", mS("true"));
	TCONST("String('')", String(""), mS("")); TCONST("String('s')", String("s"), mS("s")); TCONST("String('1')", String("1"), mS("1")); TCONST("String('1234567')", String("1234567"), mS("1234567")); TCONST("String('12345678')", String("12345678"), mS("12345678")); TCONST("String('1234568')", String("1234568"), mS("1234568"));
}
static bool eqtCase(int i, int k, std::string& err, std::string& name) {
	name = "(" + VS[i].name + ") == " + TCS[k].name;
	std::unique_ptr<Var> a(new Var);
	VS[i].build(*a);
	MV ma = VS[i].model();
	if (ma.t == MV::INT && TCS[k].m.t == MV::FLT && (double)(float)ma.i != (double)ma.i) return true; // int not representable as float: outside "Var with Var"
	bool me = meq(ma, TCS[k].m), e = TCS[k].eq(*a), ne = TCS[k].ne(*a);
	if (e != me || ne == me) { err = fmt("== is %d, != is %d, reference equality %d", (int)e, (int)ne, (int)me); return false; }
	return true;
}

// ---- cln: clone, then mutate every node of one side in place; the other side must keep the value
static void mutateAll(Var& v) {
	switch (v.type()) {
	case Var::ARRAY: for (int i = 0; i < v.length(); i++) mutateAll(v[i]); v << 99; break;
	case Var::OBJ: { foreach2 (String & k, Var & x, v) { (void)k; mutateAll(x); } v["zz"] = 99; break; }
	case Var::STRING: { std::string s(v.length(), '#'); v = s.c_str(); break; } // same length: written into the existing buffer
	default: v = 77; break;
	}
}
static bool clnCase(int i, int dir, std::string& err, std::string& name) {
	name = "(" + VS[i].name + fmt(").clone(), then every node of the %s mutated", dir == 0 ? "original" : "clone");
	std::unique_ptr<Var> a(new Var), c(new Var);
	VS[i].build(*a);
	MV ma = VS[i].model();
	*c = a->clone();
	if (!same(*c, ma, err, "clone") || !same(*a, ma, err, "original")) return false;
	if (!hasNone(ma) && (!(*c == *a) || *c != *a)) { err = "clone != original"; return false; }
	mutateAll(dir == 0 ? *a : *c);
	if (!same(dir == 0 ? *c : *a, ma, err, dir == 0 ? "clone after mutating the original" : "original after mutating the clone")) return false;
	a.reset(); // the survivor must not depend on the other one's storage
	if (dir == 0 && !same(*c, ma, err, "clone after destroying the original")) return false;
	return true;
}

// ---- ctor: every constructor x boundary values
struct CT { std::string name; std::function<bool(std::string&)> run; };
static std::vector<CT> CTS;
// v was just built: accessors, copy, clone, assignment into an unset and into a heap-string Var, self equality
static bool chk(const Var& v, const MV& m, std::string& err) {
	if (!same(v, m, err, "v")) return false;
	(void)v.toString(); // text of containers: called, not compared (C05 covers encodings)
	Var c(v); if (!same(c, m, err, "copy")) return false;
	Var d = v.clone(); if (!same(d, m, err, "clone")) return false;
	Var e; e = v; if (!same(e, m, err, "assigned to an unset Var")) return false;
	Var f("a heap string"); f = v; if (!same(f, m, err, "assigned over a heap string")) return false;
	if (!hasNone(m) && (!(v == c) || !(c == v) || v != d || !(e == f))) { err = "a copy / clone / assigned Var is not equal to the original"; return false; }
	return true;
}
// an integer given in any C++ integer type must come back with that value, as INT or (when it does not fit an int) as NUMBER
static bool chkInt(const Var& v, long double val, std::string& err) {
	if (v.type() != Var::INT && v.type() != Var::NUMBER) { err = fmt("type %d for an integer", (int)v.type()); return false; }
	if ((long double)(double)v != val) { err = fmt("value %.0Lf reported back as %.17g (type %d)", val, (double)v, (int)v.type()); return false; }
	if (val > INT_MAX || val < INT_MIN) vf::add(W_CTOR_BIG);
	return chk(v, v.type() == Var::INT ? mI((int)val) : MV::num((double)val), err);
}
template <class T>
static void ctorInts(const char* tn, bool isSigned) {
	static const long long sv[] = { 0, 1, -1, 5, 127, -128, INT_MAX, INT_MIN, (long long)INT_MAX + 1, (long long)INT_MIN - 1, 3000000000LL, 4294967295LL, 4294967296LL, 5000000000LL, -5000000000LL, 1LL << 40, -(1LL << 40), 1LL << 53, -(1LL << 53) };
	static const unsigned long long uv[] = { 1ULL << 63 };
	for (size_t k = 0; k < sizeof sv / sizeof sv[0] + sizeof uv / sizeof uv[0]; k++) {
		bool big = k >= sizeof sv / sizeof sv[0];
		long double val = big ? (long double)uv[k - sizeof sv / sizeof sv[0]] : (long double)sv[k];
		T t = big ? (T)uv[k - sizeof sv / sizeof sv[0]] : (T)sv[k];
		if ((long double)t != val || (!isSigned && val < 0)) continue; // not a value of T
		CT c; c.name = fmt("Var((%s)%.0Lf)", tn, val); c.run = [t, val](std::string& err) { Var v(t); return chkInt(v, val, err); }; CTS.push_back(c);
		CT a; a.name = fmt("Var v; v = (%s)%.0Lf", tn, val); a.run = [t, val](std::string& err) { Var v; v = t; if (!chkInt(v, val, err)) return false; Var w("over a heap string"); w = t; return chkInt(w, val, err); }; CTS.push_back(a);
	}
}
#define CTOR(nm, expr, model) { CT c; c.name = nm; c.run = [](std::string& err) { Var v(expr); return chk(v, model, err); }; CTS.push_back(c); }
#define CTORB(nm, ...) { CT c; c.name = nm; c.run = [](std::string& err) -> bool { __VA_ARGS__ }; CTS.push_back(c); }
static void buildCtors() {
	ctorInts<int>("int", true); ctorInts<unsigned>("unsigned", false); ctorInts<long>("long", true); ctorInts<unsigned long>("unsigned long", false); ctorInts<Long>("Long", true); ctorInts<ULong>("ULong", false); ctorInts<char>("char", true);
	CTOR("Var(5) is INT", 5, mI(5)); CTOR("Var(INT_MIN)", INT_MIN, mI(INT_MIN)); CTOR("Var(3000000000u) is NUMBER", 3000000000u, MV::num(3e9)); CTOR("Var(2147483647u)", 2147483647u, mI(INT_MAX));
	CTOR("Var((Long)5) is NUMBER", (Long)5, MV::num(5)); CTOR("Var((ULong)5) is NUMBER", (ULong)5, MV::num(5));
	CTOR("Var(0.0)", 0.0, MV::num(0)); CTOR("Var(1.5)", 1.5, MV::num(1.5)); CTOR("Var(0.1)", 0.1, MV::num(0.1)); CTOR("Var(-2.5e-10)", -2.5e-10, MV::num(-2.5e-10)); CTOR("Var(1e300)", 1e300, MV::num(1e300)); CTOR("Var(9007199254740992.0)", 9007199254740992.0, MV::num(9007199254740992.0)); CTOR("Var(123456789.125)", 123456789.125, MV::num(123456789.125));
	CTOR("Var(0.0f)", 0.0f, MV::flt(0)); CTOR("Var(1.5f)", 1.5f, MV::flt(1.5f)); CTOR("Var(0.1f)", 0.1f, MV::flt(0.1f)); CTOR("Var(3.0e38f)", 3.0e38f, MV::flt(3.0e38f)); CTOR("Var(16777216.0f)", 16777216.0f, MV::flt(16777216.0f)); CTOR("Var(-7.0f)", -7.0f, MV::flt(-7));
	CTOR("Var(true)", true, MV::boolean(true)); CTOR("Var(false)", false, MV::boolean(false));
	CTOR("Var(Var::NUL)", Var::NUL, MV::nul()); CTOR("Var(Var::ARRAY)", Var::ARRAY, MV::arr()); CTOR("Var(Var::OBJ)", Var::OBJ, MV::obj()); CTOR("Var(Var::NONE)", Var::NONE, MV());
	static const int lens[] = { 0, 1, 6, 7, 8, 9, 15, 16, 17, 30 };
	for (size_t k = 0; k < sizeof lens / sizeof lens[0]; k++) for (int pat = 0; pat < 2; pat++) {
		std::string s((pat ? LETTERS : DIGITS), lens[k]);
		CT c; c.name = "Var((const char*)\"" + s + "\")"; c.run = [s](std::string& err) { vfx::FlushBuf fb(s); Var v((const char*)fb.p); if (s.size() == 7 || s.size() == 8) vf::add(W_CTOR_STR_EDGE); return chk(v, mS(s), err); }; CTS.push_back(c);
		CT d; d.name = "Var(String(\"" + s + "\"))"; d.run = [s](std::string& err) { String t = vfx::A(s); Var v(t); if (s.size() == 7 || s.size() == 8) vf::add(W_CTOR_STR_EDGE); return chk(v, mS(s), err); }; CTS.push_back(d);
	}
	// containers
	CTORB("Var(Array<Var>{1,'s',[2]})", Array<Var> a; Var in; in << 2; a << Var(1) << Var("s") << in; Var v(a); return chk(v, MV::arr() << mI(1) << mS("s") << (MV::arr() << mI(2)), err););
	CTORB("Var(Array<int>{})", Array<int> a; Var v(a); return chk(v, MV::arr(), err););
	CTORB("Var(Array<int>{1,2,3,4})", Array<int> a; a << 1 << 2 << 3 << 4; Var v(a); return chk(v, MV::arr() << mI(1) << mI(2) << mI(3) << mI(4), err););
	CTORB("Var(Array<double>{1.5,2})", Array<double> a; a << 1.5 << 2.0; Var v(a); return chk(v, MV::arr() << MV::num(1.5) << MV::num(2), err););
	CTORB("Var(Array<float>{1.5f})", Array<float> a; a << 1.5f; Var v(a); return chk(v, MV::arr() << MV::flt(1.5f), err););
	CTORB("Var(Array<bool>{true,false})", Array<bool> a; a << true << false; Var v(a); return chk(v, MV::arr() << MV::boolean(true) << MV::boolean(false), err););
	CTORB("Var(Array<String>{'','1234567','12345678'})", Array<String> a; a << String("") << String("1234567") << String("12345678"); Var v(a); return chk(v, MV::arr() << mS("") << mS("1234567") << mS("12345678"), err););
	CTORB("Var(Array<Array<int>>{{1},{}})", Array<Array<int> > a; Array<int> x; x << 1; a << x << Array<int>(); Var v(a); return chk(v, MV::arr() << (MV::arr() << mI(1)) << MV::arr(), err););
	CTORB("Var(Dic<Var>{a:1,b:'12345678'})", Dic<Var> d; d["b"] = "12345678"; d["a"] = 1; Var v(d); return chk(v, MV::obj()("a", mI(1))("b", mS("12345678")), err););
	CTORB("Var(Dic<int>{})", Dic<int> d; Var v(d); return chk(v, MV::obj(), err););
	CTORB("Var(Dic<int>{a:1,b:2,c:3,d:4})", Dic<int> d; d["d"] = 4; d["a"] = 1; d["c"] = 3; d["b"] = 2; Var v(d); return chk(v, MV::obj()("a", mI(1))("b", mI(2))("c", mI(3))("d", mI(4)), err););
	CTORB("Var(Dic<String>{k:'12345678'})", Dic<String> d; d["k"] = "12345678"; Var v(d); return chk(v, MV::obj()("k", mS("12345678")), err););
	CTORB("Var(Dic<double>{k:0.5})", Dic<double> d; d["k"] = 0.5; Var v(d); return chk(v, MV::obj()("k", MV::num(0.5)), err););
	CTORB("Var('x', 3)", Var v("x", 3); return chk(v, MV::obj()("x", mI(3)), err););
	CTORB("Var('name','particle1')('x',15.0)('visible',true)('color',[255,0])", Var col; col << 255 << 0; Var v = Var("name", "particle1")("x", 15.0)("visible", true)("color", col); return chk(v, MV::obj()("name", mS("particle1"))("x", MV::num(15))("visible", MV::boolean(true))("color", MV::arr() << mI(255) << mI(0)), err););
	CTORB("(Var(), 1, 3.5, 's')", Var v = (Var(), 1, 3.5, "s"); return chk(v, MV::arr() << mI(1) << MV::num(3.5) << mS("s"), err););
#ifdef ASL_HAVE_INITLIST
	CTORB("Var{1,3,9,-2}", Var v{ 1, 3, 9, -2 }; return chk(v, MV::arr() << mI(1) << mI(3) << mI(9) << mI(-2), err););
	CTORB("Var{1.5,2.5}", Var v{ 1.5, 2.5 }; return chk(v, MV::arr() << MV::num(1.5) << MV::num(2.5), err););
	CTORB("Var{'a','12345678'}", Var v{ "a", "12345678" }; return chk(v, MV::arr() << mS("a") << mS("12345678"), err););
	CTORB("Var{{1,2},{3}}", Var v{ { 1, 2 }, { 3 } }; return chk(v, MV::arr() << (MV::arr() << mI(1) << mI(2)) << (MV::arr() << mI(3)), err););
	CTORB("Var{{'a',1},{'b','x'}}", Var v{ { "a", 1 }, { "b", "x" } }; return chk(v, MV::obj()("a", mI(1))("b", mS("x")), err););
	CTORB("Var::array({1,'a',9.5,-2})", Var v = Var::array({ 1, "a", 9.5, -2 }); return chk(v, MV::arr() << mI(1) << mS("a") << MV::num(9.5) << mI(-2), err););
	CTORB("v = {1,2,3} over an object", Var v; v["k"] = "12345678"; v = { 1, 2, 3 }; return chk(v, MV::arr() << mI(1) << mI(2) << mI(3), err););
	CTORB("v = {{'a',1}} over an array", Var v; v << "12345678"; v = { { "a", 1 } }; return chk(v, MV::obj()("a", mI(1)), err););
#endif
	// conversions out of containers
	CTORB("Array<int> = [1,2,3]", Var v; v << 1 << 2 << 3; Array<int> a = v; if (a.length() != 3 || a[0] != 1 || a[1] != 2 || a[2] != 3) { err = "elements differ"; return false; } Array<int> b; b = v; if (b.length() != 3 || b[2] != 3) { err = "Array<int>::operator=(Var) differs"; return false; } return true;);
	CTORB("Array<double> = [1,2.5]", Var v; v << 1 << 2.5; Array<double> a = v; if (a.length() != 2 || a[0] != 1 || a[1] != 2.5) { err = "elements differ"; return false; } return true;);
	CTORB("Array<String> = ['s','12345678']", Var v; v << "s" << "12345678"; Array<String> a = v; if (a.length() != 2 || a[0] != "s" || a[1] != "12345678") { err = "elements differ"; return false; } Array<String> b; b = v; if (b.length() != 2 || b[1] != "12345678") { err = "Array<String>::operator=(Var) differs"; return false; } return true;);
	CTORB("Array<int> = {a:1} / 5 (not an array)", Var v; v["a"] = 1; Array<int> a = v; Var w(5); Array<int> b = w; if (a.length() != 0 || b.length() != 0) { err = "non-empty array from a non-array"; return false; } return true;);
	CTORB("Dic<int> = {a:1,b:2}", Var v; v["a"] = 1; v["b"] = 2; Dic<int> d = v; if (d.length() != 2 || d["a"] != 1 || d["b"] != 2) { err = "properties differ"; return false; } return true;);
	CTORB("Dic<String> = {k:'12345678'}", Var v; v["k"] = "12345678"; Dic<String> d = v; if (d.length() != 1 || d["k"] != "12345678") { err = "properties differ"; return false; } Dic<Var> e = v.object(); if (e.length() != 1 || !(e["k"] == "12345678")) { err = "object() differs"; return false; } return true;);
	CTORB("array() / object() handles", Var v; v << 1 << "12345678"; Array<Var> a = v.array(); if (a.length() != 2 || !(a[0] == 1) || !(a[1] == "12345678") || v.object().length() != 0) { err = "array() differs"; return false; } return true;);
}

// ---- tas: prior state x typed assignment (x typed assignment)
struct World { std::unique_ptr<Var> a, b; Var* t; MV ma, mb; int tk, ti; World() : a(new Var), b(new Var), t(0), tk(0), ti(0) {} };
struct Prior { std::string name; std::function<void(World&)> build; };
struct TA { std::string name; std::function<void(Var&)> assign; std::function<MV()> model; int slen; };
static std::vector<Prior> PRS; static std::vector<TA> TAS;
static void setTarget(World& w, const MV& e) { if (w.tk == 0) w.ma = e; else if (w.tk == 1) (*w.ma.a)[w.ti] = e; else (*w.ma.o)["k"] = e; }
#define PRIOR(nm, body) { Prior p; p.name = nm; p.build = [](World& w) { Var& a = *w.a; Var& b = *w.b; (void)a; (void)b; body }; PRS.push_back(p); }
#define TASG(nm, stmt, model_, slen_) { TA t; t.name = nm; t.assign = [](Var& x) { stmt; }; t.model = []() { return model_; }; t.slen = slen_; TAS.push_back(t); }
static void buildTas() {
	// roots
	PRIOR("unset", w.t = &a;);
	PRIOR("null", a = Var(Var::NUL); w.ma = MV::nul(); w.t = &a;);
	PRIOR("true", a = true; w.ma = MV::boolean(true); w.t = &a;);
	PRIOR("1", a = 1; w.ma = mI(1); w.t = &a;);
	PRIOR("1.5", a = 1.5; w.ma = MV::num(1.5); w.t = &a;);
	PRIOR("2.5f", a = 2.5f; w.ma = MV::flt(2.5f); w.t = &a;);
	PRIOR("''", a = ""; w.ma = mS(""); w.t = &a;);
	PRIOR("'s'", a = "s"; w.ma = mS("s"); w.t = &a;);
	PRIOR("'1234567'", a = "1234567"; w.ma = mS("1234567"); w.t = &a;);
	PRIOR("'12345678' (heap, capacity 9)", a = "12345678"; w.ma = mS("12345678"); w.t = &a;);
	PRIOR("30-char heap string", a = LETTERS; w.ma = mS(LETTERS); w.t = &a;);
	PRIOR("heap 's'", a = "12345678"; a = "s"; w.ma = mS("s"); w.t = &a;);
	PRIOR("heap ''", a = "12345678"; a = ""; w.ma = mS(""); w.t = &a;);
	PRIOR("[]", a = Var(Var::ARRAY); w.ma = MV::arr(); w.t = &a;);
	PRIOR("[1]", a << 1; w.ma = MV::arr() << mI(1); w.t = &a;);
	PRIOR("[[1],2]", Var in; in << 1; a << in << 2; w.ma = MV::arr() << (MV::arr() << mI(1)) << mI(2); w.t = &a;);
	PRIOR("['12345678',{a:1}]", Var o; o["a"] = 1; a << "12345678" << o; w.ma = MV::arr() << mS("12345678") << MV::obj()("a", mI(1)); w.t = &a;);
	PRIOR("{}", a = Var(Var::OBJ); w.ma = MV::obj(); w.t = &a;);
	PRIOR("{a:1}", a["a"] = 1; w.ma = MV::obj()("a", mI(1)); w.t = &a;);
	PRIOR("{a:[1]}", Var in; in << 1; a["a"] = in; w.ma = MV::obj()("a", MV::arr() << mI(1)); w.t = &a;);
	// roots sharing their container with b
	PRIOR("[1] shared with a second Var", a << 1; b = a; w.ma = MV::arr() << mI(1); w.mb = w.ma; w.t = &a;);
	PRIOR("{a:[1]} shared with a second Var", Var in; in << 1; a["a"] = in; b = a; w.ma = MV::obj()("a", MV::arr() << mI(1)); w.mb = w.ma; w.t = &a;);
	// elements and properties as the target
	PRIOR("element [0] of [[1],2]", Var in; in << 1; a << in << 2; w.ma = MV::arr() << (MV::arr() << mI(1)) << mI(2); w.tk = 1; w.ti = 0; w.t = &a[0];);
	PRIOR("element [0] of [[1],2], inner array also held by a second Var", Var in; in << 1; a << in << 2; b = a[0]; w.ma = MV::arr() << (MV::arr() << mI(1)) << mI(2); w.mb = (*w.ma.a)[0]; w.tk = 1; w.ti = 0; w.t = &a[0];);
	PRIOR("element [0] of ['12345678',2]", a << "12345678" << 2; w.ma = MV::arr() << mS("12345678") << mI(2); w.tk = 1; w.ti = 0; w.t = &a[0];);
	PRIOR("element [2] of [1,2,3] (last slot of the block)", a << 1 << 2 << 3; w.ma = MV::arr() << mI(1) << mI(2) << mI(3); w.tk = 1; w.ti = 2; w.t = &a[2];);
	PRIOR("property k of {k:{a:1}}", a["k"]["a"] = 1; w.ma = MV::obj()("k", MV::obj()("a", mI(1))); w.tk = 2; w.t = &a["k"];);
	PRIOR("property k of {k:'s'} shared with a second Var", a["k"] = "s"; b = a; w.ma = MV::obj()("k", mS("s")); w.mb = w.ma; w.tk = 2; w.t = &a["k"];);

	TASG("true", x = true, MV::boolean(true), -1); TASG("false", x = false, MV::boolean(false), -1);
	TASG("0", x = 0, mI(0), -1); TASG("5", x = 5, mI(5), -1); TASG("INT_MIN", x = INT_MIN, mI(INT_MIN), -1);
	TASG("0.25", x = 0.25, MV::num(0.25), -1); TASG("2.5f", x = 2.5f, MV::flt(2.5f), -1);
	TASG("(Long)1", x = (Long)1, MV::num(1), -1); TASG("(Long)2^40", x = (Long)1 << 40, MV::num(1099511627776.0), -1); TASG("(Long)-2^40", x = -((Long)1 << 40), MV::num(-1099511627776.0), -1); TASG("(ULong)2^40", x = (ULong)1 << 40, MV::num(1099511627776.0), -1);
	TASG("1u", x = 1u, mI(1), -1); TASG("2147483647u", x = 2147483647u, mI(INT_MAX), -1); TASG("2147483648u", x = 2147483648u, MV::num(2147483648.0), -1); TASG("4294967295u", x = 4294967295u, MV::num(4294967295.0), -1);
	TASG("(long)5", x = (long)5, mI(5), -1); TASG("(unsigned long)5", x = (unsigned long)5, mI(5), -1);
	TASG("Var::NUL", x = Var::NUL, MV::nul(), -1); TASG("Var::ARRAY", x = Var::ARRAY, MV::arr(), -1); TASG("Var::OBJ", x = Var::OBJ, MV::obj(), -1); TASG("Var::NONE", x = Var::NONE, MV(), -1);
	TASG("(const char*)''", x = "", mS(""), 0); TASG("(const char*)'1'", x = "1", mS("1"), 1); TASG("(const char*)'123456'", x = "123456", mS("123456"), 6); TASG("(const char*)'1234567'", x = "1234567", mS("1234567"), 7);
	TASG("(const char*)'12345678'", x = "12345678", mS("12345678"), 8); TASG("(const char*)'123456789'", x = "123456789", mS("123456789"), 9); TASG("(const char*) 30 chars", x = DIGITS, mS(DIGITS), 30);
	TASG("String('')", x = String(""), mS(""), 0); TASG("String('a')", x = String("a"), mS("a"), 1); TASG("String('abcdef')", x = String("abcdef"), mS("abcdef"), 6); TASG("String('abcdefg')", x = String("abcdefg"), mS("abcdefg"), 7);
	TASG("String('abcdefgh')", x = String("abcdefgh"), mS("abcdefgh"), 8); TASG("String('abcdefghi')", x = String("abcdefghi"), mS("abcdefghi"), 9); TASG("String 30 chars", x = String(LETTERS), mS(LETTERS), 30);
	TASG("Array<int>{}", x = Array<int>(), MV::arr(), -1);
	TASG("Array<int>{1,2}", Array<int> a; a << 1 << 2; x = a, MV::arr() << mI(1) << mI(2), -1);
	TASG("Array<int>{1,2,3,4}", Array<int> a; a << 1 << 2 << 3 << 4; x = a, MV::arr() << mI(1) << mI(2) << mI(3) << mI(4), -1);
	TASG("Array<String>{'s','12345678'}", Array<String> a; a << String("s") << String("12345678"); x = a, MV::arr() << mS("s") << mS("12345678"), -1);
	TASG("Array<Var>{1,'12345678'}", Array<Var> a; a << Var(1) << Var("12345678"); x = a, MV::arr() << mI(1) << mS("12345678"), -1);
	TASG("Dic<int>{a:1}", Dic<int> d; d["a"] = 1; x = d, MV::obj()("a", mI(1)), -1);
	TASG("Dic<String>{a:'12345678'}", Dic<String> d; d["a"] = "12345678"; x = d, MV::obj()("a", mS("12345678")), -1);
	TASG("Dic<Var>{}", x = Dic<Var>(), MV::obj(), -1);
#ifdef ASL_HAVE_INITLIST
	TASG("{1,2,3}", (x = { 1, 2, 3 }), MV::arr() << mI(1) << mI(2) << mI(3), -1);
	TASG("{{'a',1},{'b','x'}}", (x = { { "a", 1 }, { "b", "x" } }), MV::obj()("a", mI(1))("b", mS("x")), -1);
#endif
	TASG("Var('12345678')", Var y("12345678"); x = y, mS("12345678"), -1);
	TASG("Var [1]", Var y; y << 1; x = y, MV::arr() << mI(1), -1);
}
static bool tasCase(int p, int t1, int t2, std::string& err, std::string& name) {
	name = "target: " + PRS[p].name + "; target = " + TAS[t1].name + (t2 >= 0 ? "; target = " + TAS[t2].name : std::string());
	World w;
	PRS[p].build(w);
	if (!same(*w.a, w.ma, err, "a") || !same(*w.b, w.mb, err, "b")) { err = "prior state: " + err; return false; }
	if (w.tk) vf::add(W_TAS_ELEM_TARGET);
	if (w.mb.t != MV::NONE) vf::add(W_TAS_SHARED_TARGET);
	for (int s = 0; s < 2; s++) {
		int t = s == 0 ? t1 : t2;
		if (t < 0) break;
		if ((TAS[t].slen == 7 || TAS[t].slen == 8) && w.t->_type != Var::STRING) vf::add(W_TAS_SS_EDGE);
		TAS[t].assign(*w.t);
		setTarget(w, TAS[t].model());
		if (!same(*w.a, w.ma, err, "a") || !same(*w.b, w.mb, err, "b")) { err = fmt("after assignment %d: ", s + 1) + err; return false; }
	}
	return true;
}

// ---------------------------------------------------------------- main
static std::vector<int> parseIdx(const std::string& s) { std::vector<int> r; size_t p = 0; while (p <= s.size()) { size_t q = s.find('.', p); if (q == std::string::npos) q = s.size(); r.push_back(atoi(s.substr(p, q - p).c_str())); p = q + 1; } return r; }
static void runCtor(uint64_t i) { run_case(fmt("ctor:%d", (int)i), C_CTOR, [&](std::string& err, std::string& name) { name = CTS[i].name; return CTS[i].run(err); }); }
static void runEq(uint64_t k) { int n = (int)VS.size(), i = (int)(k / n), j = (int)(k % n); run_case(fmt("eq:%d.%d", i, j), C_EQ, [&](std::string& err, std::string& name) { return eqCase(i, j, err, name); }); }
static void runEqt(uint64_t k) { int n = (int)TCS.size(), i = (int)(k / n), j = (int)(k % n); run_case(fmt("eqt:%d.%d", i, j), C_EQT, [&](std::string& err, std::string& name) { return eqtCase(i, j, err, name); }); }
static void runCln(uint64_t k) { int i = (int)(k / 2), d = (int)(k % 2); run_case(fmt("cln:%d.%d", i, d), C_CLN, [&](std::string& err, std::string& name) { return clnCase(i, d, err, name); }); }
static void runTas(uint64_t k) { int T = (int)TAS.size(); int t2 = (int)(k % (T + 1)) - 1, t1 = (int)(k / (T + 1) % T), p = (int)(k / (T + 1) / T); run_case(fmt("tas:%d.%d.%d", p, t1, t2 + 1), C_TAS, [&](std::string& err, std::string& name) { return tasCase(p, t1, t2, err, name); }); }

int main(int argc, char** argv) {
	vf::init(argc, argv, "C04", "c04_var");
	int cS = vf::counter("states"), cT = vf::counter("transitions"), cTr = vf::counter("traces");
	W_STR_HEAP_SHORT = vf::counter("w.heap_represented_string_shorter_than_8"); W_TYPECHANGE = vf::counter("w.assign_type_changing_path"); W_SAMETYPE_FAST = vf::counter("w.assign_same_type_fast_path"); W_OWN_DESC = vf::counter("w.assign_own_descendant");
	W_AUTOVIV = vf::counter("w.auto_vivification"); W_AUTORESIZE = vf::counter("w.index_auto_resize"); W_SHARED_MUT = vf::counter("w.mutation_of_shared_container"); W_CLONE = vf::counter("w.clone");
	W_STR_INLINE_HEAP = vf::counter("w.strings_at_7_8_byte_boundary"); W_EXTEND = vf::counter("w.extend"); W_EQ_TRUE = vf::counter("w.equal_pairs_compared"); W_EQ_FALSE = vf::counter("w.unequal_pairs_compared"); W_SCALAR_OVER_SHARED = vf::counter("w.scalar_assigned_over_shared_container");
	W_FP_STR = vf::counter("w.fast_path_heap_string_over_heap_string"); W_FP_ARR = vf::counter("w.fast_path_array_over_array"); W_FP_OBJ = vf::counter("w.fast_path_object_over_object");
	W_OWN_SAME = vf::counter("w.own_descendant_same_type"); W_OWN_CHANGE = vf::counter("w.own_descendant_type_changing"); W_CLONE_MUT = vf::counter("w.one_side_of_a_held_clone_mutated");
	W_EQ_XREP = vf::counter("w.equal_strings_in_different_representations"); W_ARR_REALLOC = vf::counter("w.unshared_array_grows_past_capacity"); W_OBJ_REALLOC = vf::counter("w.unshared_object_grows_past_capacity");
	W_PRED_ARR = vf::counter("w.predicted_shared_growth_array"); W_PRED_OBJ = vf::counter("w.predicted_shared_growth_object"); W_PRED_ALIAS = vf::counter("w.predicted_autocreate_invalidates_source");
	W_TYPED_OVER_HEAPSTR = vf::counter("w.typed_assignment_over_heap_string"); W_TYPED_OVER_CONTAINER = vf::counter("w.typed_assignment_over_container"); W_CSTR_HEAP_ARM = vf::counter("w.cstr_assignment_heap_arm"); W_CSTR_GROW = vf::counter("w.cstr_assignment_grows_heap_string");
	W_HEAP_EMPTY = vf::counter("w.heap_represented_empty_string"); W_ALIAS_NOCREATE = vf::counter("w.own_sibling_assigned_to_existing_target"); W_ALIAS_CREATE_OK = vf::counter("w.own_sibling_assigned_to_created_target_in_place");
	W_ALIAS_APPEND_FULL = vf::counter("w.own_element_appended_at_capacity"); W_ALIAS_EXTEND = vf::counter("w.extend_with_own_property"); W_ALIAS_EXTEND_OVERWRITES_SRC = vf::counter("w.extend_with_own_property_overwriting_it");
	W_INDEX_HOLES = vf::counter("w.index_beyond_end_creates_holes"); W_OBJ_4KEYS = vf::counter("w.object_with_4_or_more_keys"); W_OBJ_INSERT_FRONT = vf::counter("w.property_inserted_before_existing_ones"); W_NEST_OWN = vf::counter("w.element_assigned_its_own_element");
	W_CONV_NUM = vf::counter("w.number_read_in_every_numeric_type"); W_CONV_NUMSTR = vf::counter("w.digit_string_read_as_number");
	C_CTOR = vf::counter("cases.ctor"); C_EQ = vf::counter("cases.eq"); C_EQT = vf::counter("cases.eqt"); C_TAS = vf::counter("cases.tas"); C_CLN = vf::counter("cases.cln");
	W_EQ_NUM_XTYPE = vf::counter("w.eq_numerically_equal_cross_type_pairs"); W_EQ_BOOLS = vf::counter("w.eq_bool_pairs"); W_EQ_CONT_TRUE = vf::counter("w.eq_equal_container_pairs"); W_EQ_CONT_FALSE = vf::counter("w.eq_unequal_container_pairs");
	W_TAS_SS_EDGE = vf::counter("w.tas_7_or_8_char_string_over_non_heap_string"); W_TAS_ELEM_TARGET = vf::counter("w.tas_target_inside_container"); W_TAS_SHARED_TARGET = vf::counter("w.tas_target_shared"); W_CTOR_BIG = vf::counter("w.ctor_integer_beyond_int_range"); W_CTOR_STR_EDGE = vf::counter("w.ctor_string_of_7_or_8_chars");
	buildValues(); buildConsts(); buildCtors(); buildTas();
	VarSys sys;
	if (vf::opt.replay) {
		size_t p = vf::opt.kase.find(':');
		std::string lbl = vf::opt.kase.substr(0, p); std::vector<int> ix = parseIdx(vf::opt.kase.substr(p + 1));
		int T = (int)TAS.size(), nV = (int)VS.size(), nC = (int)TCS.size();
		vf::parallel(1, [&](uint64_t) {
			if (lbl == "var") vf::Bfs<VarSys>(sys, "var").replay(vf::opt.kase);
			else if (lbl == "ctor" && ix.size() == 1 && ix[0] >= 0 && ix[0] < (int)CTS.size()) runCtor(ix[0]);
			else if (lbl == "eq" && ix.size() == 2 && ix[0] >= 0 && ix[0] < nV && ix[1] >= 0 && ix[1] < nV) runEq((uint64_t)ix[0] * nV + ix[1]);
			else if (lbl == "eqt" && ix.size() == 2 && ix[0] >= 0 && ix[0] < nV && ix[1] >= 0 && ix[1] < nC) runEqt((uint64_t)ix[0] * nC + ix[1]);
			else if (lbl == "cln" && ix.size() == 2 && ix[0] >= 0 && ix[0] < nV && ix[1] >= 0 && ix[1] < 2) runCln((uint64_t)ix[0] * 2 + ix[1]);
			else if (lbl == "tas" && ix.size() == 3 && ix[0] >= 0 && ix[0] < (int)PRS.size() && ix[1] >= 0 && ix[1] < T && ix[2] >= 0 && ix[2] <= T) runTas(((uint64_t)ix[0] * T + ix[1]) * (T + 1) + ix[2]);
			else fprintf(stderr, "c04_var: cannot parse case '%s'\n", vf::opt.kase.c_str());
		});
		return vf::finish();
	}
	vf::Bfs<VarSys> b(sys, "var");
	// pure input families (identical in both tiers)
	vf::parallel(CTS.size(), runCtor, 8);
	vf::parallel((uint64_t)VS.size() * VS.size(), runEq, 64);
	vf::parallel((uint64_t)VS.size() * TCS.size(), runEqt, 64);
	vf::parallel((uint64_t)VS.size() * 2, runCln, 8);
	vf::parallel((uint64_t)PRS.size() * TAS.size() * (TAS.size() + 1), runTas, 512);
	vf::setinfo("input_families", fmt("{\"ctor_cases\": %d, \"values\": %d, \"eq_pairs\": %d, \"typed_constants\": %d, \"eqt_cases\": %d, \"clone_cases\": %d, \"tas_priors\": %d, \"tas_assignments\": %d, \"tas_cases\": %llu}",
		(int)CTS.size(), (int)VS.size(), (int)(VS.size() * VS.size()), (int)TCS.size(), (int)(VS.size() * TCS.size()), (int)VS.size() * 2, (int)PRS.size(), (int)TAS.size(), (unsigned long long)(PRS.size() * TAS.size() * (TAS.size() + 1))));
	vf::BfsResult r = b.run(vf::opt.thorough() ? 5 : 4, 0);
	vf::add(cS, r.states); vf::add(cT, r.transitions); vf::add(cTr, r.traces);
	std::string pd; for (size_t i = 0; i < r.per_depth.size(); i++) pd += fmt(i ? ",%llu" : "%llu", (unsigned long long)r.per_depth[i]);
	vf::setinfo("var_histories", fmt("{\"depth_completed\": %d, \"states\": %llu, \"transitions\": %llu, \"new_states_per_depth\": [%s], \"op_alphabet\": %d}", r.depth_done, (unsigned long long)r.states, (unsigned long long)r.transitions, pd.c_str(), sys.nops()));
	return vf::finish();
}
