// C04 — Var: explicit-state BFS over histories of construction / assignment (incl. to own descendants) / indexing with
// auto-creation / append / remove / extend / clone on three real Var slots against a shared-node JSON tree model.
#include <asl/Var.h>
#include <memory>
#include <map>
#include <set>
#include "vf.h"
#include "aslx.h"
using namespace asl;
using vf::fmt;

static int W_STR_HEAP_SHORT, W_TYPECHANGE, W_SAMETYPE_FAST, W_OWN_DESC, W_AUTOVIV, W_AUTORESIZE, W_SHARED_MUT, W_CLONE, W_STR_INLINE_HEAP, W_EXTEND, W_EQ_TRUE, W_EQ_FALSE, W_SCALAR_OVER_SHARED;

// ---------------------------------------------------------------- model
struct MV;
typedef std::shared_ptr<std::vector<MV> > MArr;
typedef std::shared_ptr<std::map<std::string, MV> > MObj;
struct MV {
	enum T { NONE, NUL, BOOL, INT, NUM, FLT, STR, ARR, OBJ };
	T t; bool b; int i; double d; std::string s; MArr a; MObj o;
	MV() : t(NONE), b(false), i(0), d(0) {}
	static MV nul() { MV v; v.t = NUL; return v; }
	static MV boolean(bool x) { MV v; v.t = BOOL; v.b = x; return v; }
	static MV integer(int x) { MV v; v.t = INT; v.i = x; return v; }
	static MV num(double x) { MV v; v.t = NUM; v.d = x; return v; }
	static MV flt(float x) { MV v; v.t = FLT; v.d = x; return v; }
	static MV str(const std::string& x) { MV v; v.t = STR; v.s = x; return v; }
	static MV arr() { MV v; v.t = ARR; v.a = std::make_shared<std::vector<MV> >(); return v; }
	static MV obj() { MV v; v.t = OBJ; v.o = std::make_shared<std::map<std::string, MV> >(); return v; }
	bool isnum() const { return t == INT || t == NUM || t == FLT; }
	double numval() const { return t == INT ? i : d; }
};
static MV deepclone(const MV& v) {
	MV r = v;
	if (v.t == MV::ARR) { r.a = std::make_shared<std::vector<MV> >(); for (size_t i = 0; i < v.a->size(); i++) r.a->push_back(deepclone((*v.a)[i])); }
	if (v.t == MV::OBJ) { r.o = std::make_shared<std::map<std::string, MV> >(); for (std::map<std::string, MV>::iterator it = v.o->begin(); it != v.o->end(); ++it) (*r.o)[it->first] = deepclone(it->second); }
	return r;
}
static bool meq(const MV& x, const MV& y) {
	if (x.isnum() || y.isnum()) return x.isnum() && y.isnum() && x.numval() == y.numval();
	if (x.t != y.t) return false;
	switch (x.t) {
	case MV::NUL: return true; case MV::BOOL: return x.b == y.b; case MV::STR: return x.s == y.s;
	case MV::ARR: if (x.a->size() != y.a->size()) return false; for (size_t i = 0; i < x.a->size(); i++) if (!meq((*x.a)[i], (*y.a)[i])) return false; return true;
	case MV::OBJ: { if (x.o->size() != y.o->size()) return false; std::map<std::string, MV>::iterator i = x.o->begin(), j = y.o->begin(); for (; i != x.o->end(); ++i, ++j) if (i->first != j->first || !meq(i->second, j->second)) return false; return true; }
	default: return false;
	}
}
static const void* cid(const MV& v) { return v.t == MV::ARR ? (const void*)v.a.get() : v.t == MV::OBJ ? (const void*)v.o.get() : 0; }
// does value v (transitively) reference container c?
static bool reaches(const MV& v, const void* c) {
	if (!c) return false;
	if (cid(v) == c) return true;
	if (v.t == MV::ARR) { for (size_t i = 0; i < v.a->size(); i++) if (reaches((*v.a)[i], c)) return true; }
	if (v.t == MV::OBJ) { for (std::map<std::string, MV>::iterator it = v.o->begin(); it != v.o->end(); ++it) if (reaches(it->second, c)) return true; }
	return false;
}
static bool hasNone(const MV& v) {
	if (v.t == MV::NONE) return true;
	if (v.t == MV::ARR) { for (size_t i = 0; i < v.a->size(); i++) if (hasNone((*v.a)[i])) return true; }
	if (v.t == MV::OBJ) { for (std::map<std::string, MV>::iterator it = v.o->begin(); it != v.o->end(); ++it) if (hasNone(it->second)) return true; }
	return false;
}
static int msize(const MV& v) {
	int n = 1;
	if (v.t == MV::ARR) for (size_t i = 0; i < v.a->size(); i++) n += msize((*v.a)[i]);
	if (v.t == MV::OBJ) for (std::map<std::string, MV>::iterator it = v.o->begin(); it != v.o->end(); ++it) n += msize(it->second);
	return n;
}

// ---------------------------------------------------------------- comparison impl vs model
static bool same(const Var& v, const MV& m, std::string& err, const std::string& path, int depth = 0) {
	if (depth > 12) { err = path + ": nesting deeper than the reference"; return false; }
	switch (m.t) {
	case MV::NONE: if (v.type() != Var::NONE || v.ok()) { err = path + ": expected an unset Var"; return false; } return true;
	case MV::NUL: if (v.type() != Var::NUL || !v.is(Var::NUL)) { err = path + ": expected null"; return false; } return true;
	case MV::BOOL: if (v.type() != Var::BOOL || (bool)v != m.b || !(v == m.b)) { err = path + fmt(": expected bool %d", (int)m.b); return false; } return true;
	case MV::INT: if (v.type() != Var::INT || (int)v != m.i || (double)v != m.i || !v.is(Var::NUMBER) || !(v == m.i)) { err = path + fmt(": expected int %d, type %d value %d", m.i, (int)v.type(), (int)v); return false; } return true;
	case MV::NUM: if (v.type() != Var::NUMBER || (double)v != m.d || !(v == m.d)) { err = path + fmt(": expected number %g, type %d value %g", m.d, (int)v.type(), (double)v); return false; } return true;
	case MV::FLT: if (v.type() != Var::FLOAT || (float)v != (float)m.d || !v.is(Var::NUMBER)) { err = path + fmt(": expected float %g, type %d", m.d, (int)v.type()); return false; } return true;
	case MV::STR: {
		if (v.type() != Var::STRING || !v.is(Var::STRING)) { err = path + fmt(": expected string, type %d", (int)v.type()); return false; }
		String s = v;
		if (vfx::S(s) != m.s || v.length() != (int)m.s.size() || strcmp(*v, m.s.c_str()) != 0 || !(v == m.s.c_str()) || vfx::S(v.toString()) != m.s) { err = path + ": string value '" + vfx::S(s) + "', reference '" + m.s + "'"; return false; }
		return true;
	}
	case MV::ARR: {
		if (v.type() != Var::ARRAY || !v.is(Var::ARRAY)) { err = path + fmt(": expected array, type %d", (int)v.type()); return false; }
		if (v.length() != (int)m.a->size()) { err = path + fmt(": array length %d, reference %d", v.length(), (int)m.a->size()); return false; }
		const Var& cv = v;
		for (int i = 0; i < v.length(); i++) if (!same(cv[i], (*m.a)[i], err, path + fmt("[%d]", i), depth + 1)) return false;
		return true;
	}
	case MV::OBJ: {
		if (v.type() != Var::OBJ || !v.is(Var::OBJ)) { err = path + fmt(": expected object, type %d", (int)v.type()); return false; }
		if (v.length() != (int)m.o->size()) { err = path + fmt(": object has %d properties, reference %d", v.length(), (int)m.o->size()); return false; }
		const Var& cv = v;
		for (std::map<std::string, MV>::iterator it = m.o->begin(); it != m.o->end(); ++it) {
			if (!v.has(it->first.c_str())) { err = path + ": property '" + it->first + "' missing"; return false; }
			if (!same(cv[it->first.c_str()], it->second, err, path + "." + it->first, depth + 1)) return false;
		}
		int n = 0; std::map<std::string, MV>::iterator it = m.o->begin();
		foreach2 (String & k, const Var& x, cv) { (void)x; if (it == m.o->end() || vfx::S(k) != it->first) { err = path + ": property enumeration differs from the reference"; return false; } ++it; n++; }
		if (n != (int)m.o->size()) { err = path + ": property enumeration count"; return false; }
		return true;
	}
	}
	return false;
}

// ---------------------------------------------------------------- system
struct VarSys {
	enum Kind { GEN, ASSIGN, OWN_ELEM, OWN_PROP, OWN_DEEP, SET_ELEM, SET_PROP, SET_ELEM_SCALAR, SET_PROP_SCALAR, APPEND, APPEND_SCALAR, REMOVEAT, REMOVE, CLEAR, EXTEND, CLONE, TYPED, SELF };
	struct O { Kind k; int i, j, a; };
	enum { NSLOT = 3, NGEN = 14 };
	std::vector<O> ops;
	Var* v[NSLOT]; MV m[NSLOT];
	VarSys() {
		for (int i = 0; i < NSLOT; i++) v[i] = 0;
		for (int i = 0; i < NSLOT; i++) {
			for (int g = 0; g < NGEN; g++) add(GEN, i, 0, g);
			for (int j = 0; j < NSLOT; j++) if (j != i) { add(ASSIGN, i, j); add(SET_ELEM, i, j, 0); add(SET_ELEM, i, j, 1); add(SET_PROP, i, j, 0); add(SET_PROP, i, j, 1); add(APPEND, i, j); add(EXTEND, i, j); add(CLONE, i, j); }
			add(OWN_ELEM, i, 0, 0); add(OWN_ELEM, i, 0, 1); add(OWN_PROP, i); add(OWN_DEEP, i);
			add(SET_ELEM_SCALAR, i, 0, 0); add(SET_ELEM_SCALAR, i, 0, 1); add(SET_PROP_SCALAR, i, 0, 0); add(SET_PROP_SCALAR, i, 0, 1);
			add(APPEND_SCALAR, i); add(REMOVEAT, i); add(REMOVE, i); add(CLEAR, i);
			add(TYPED, i, 0, 0); add(TYPED, i, 0, 1); add(TYPED, i, 0, 2); add(TYPED, i, 0, 3); add(TYPED, i, 0, 4); add(TYPED, i, 0, 5); add(SELF, i);
		}
	}
	void add(Kind k, int i, int j = 0, int a = 0) { O o = { k, i, j, a }; ops.push_back(o); }
	int nops() { return (int)ops.size(); }
	void reset() { for (int i = 0; i < NSLOT; i++) { delete v[i]; v[i] = 0; m[i] = MV(); } for (int i = 0; i < NSLOT; i++) v[i] = new Var(); }
	static const char* genName(int g) { static const char* n[] = { "null", "true", "1", "1.5", "2.5f", "\"s\"", "\"1234567\"", "\"12345678\"", "[]", "[1]", "[[1],2]", "{}", "{a:1}", "{a:[1]}" }; return n[g]; }
	static Var genVar(int g) {
		switch (g) {
		case 0: return Var(Var::NUL); case 1: return Var(true); case 2: return Var(1); case 3: return Var(1.5); case 4: return Var(2.5f);
		case 5: return Var("s"); case 6: return Var("1234567"); case 7: return Var("12345678");
		case 8: return Var(Var::ARRAY); case 9: { Var a(Var::ARRAY); a << 1; return a; }
		case 10: { Var in(Var::ARRAY); in << 1; Var a(Var::ARRAY); a << in << 2; return a; }
		case 11: return Var(Var::OBJ); case 12: { Var o(Var::OBJ); o["a"] = 1; return o; }
		default: { Var in(Var::ARRAY); in << 1; Var o(Var::OBJ); o["a"] = in; return o; }
		}
	}
	static MV genModel(int g) {
		switch (g) {
		case 0: return MV::nul(); case 1: return MV::boolean(true); case 2: return MV::integer(1); case 3: return MV::num(1.5); case 4: return MV::flt(2.5f);
		case 5: return MV::str("s"); case 6: return MV::str("1234567"); case 7: return MV::str("12345678");
		case 8: return MV::arr(); case 9: { MV a = MV::arr(); a.a->push_back(MV::integer(1)); return a; }
		case 10: { MV in = MV::arr(); in.a->push_back(MV::integer(1)); MV a = MV::arr(); a.a->push_back(in); a.a->push_back(MV::integer(2)); return a; }
		case 11: return MV::obj(); case 12: { MV o = MV::obj(); (*o.o)["a"] = MV::integer(1); return o; }
		default: { MV in = MV::arr(); in.a->push_back(MV::integer(1)); MV o = MV::obj(); (*o.o)["a"] = in; return o; }
		}
	}
	static const char* key(int a) { return a == 0 ? "a" : "b"; }
	bool small() { int n = 0; for (int i = 0; i < NSLOT; i++) n += msize(m[i]); return n < 40; }
	bool enabled(int op) {
		const O& o = ops[op];
		const MV& x = m[o.i];
		for (int q = 0; q < o.i; q++) if (m[q].t == MV::NONE && (o.k == GEN || o.k == TYPED || o.k == CLONE || o.k == ASSIGN) && x.t == MV::NONE) return false; // fill slots in order (symmetry)
		switch (o.k) {
		case GEN: return true;
		case ASSIGN: return m[o.j].t != MV::NONE && !reaches(m[o.j], 0);
		case OWN_ELEM: return x.t == MV::ARR && (int)x.a->size() > o.a && (*x.a)[o.a].t != MV::NONE;
		case OWN_PROP: return x.t == MV::OBJ && x.o->count("a") && (*x.o)["a"].t != MV::NONE;
		case OWN_DEEP: return x.t == MV::ARR && x.a->size() >= 1 && (*x.a)[0].t == MV::ARR && (*x.a)[0].a->size() >= 1 && (*(*x.a)[0].a)[0].t != MV::NONE;
		case SET_ELEM: { if (!(x.t == MV::ARR || (x.t == MV::NONE && o.a == 0)) || m[o.j].t == MV::NONE || !small()) return false; if (x.t == MV::ARR && reaches(m[o.j], cid(x))) return false; int idx = o.a == 0 ? 0 : (int)x.a->size(); return x.t == MV::NONE || idx <= (int)x.a->size(); }
		case SET_PROP: { if (!(x.t == MV::OBJ || x.t == MV::NONE) || m[o.j].t == MV::NONE || !small()) return false; return !(x.t == MV::OBJ && reaches(m[o.j], cid(x))); }
		case SET_ELEM_SCALAR: return (x.t == MV::ARR || (x.t == MV::NONE && o.a == 0)) && small();
		case SET_PROP_SCALAR: return (x.t == MV::OBJ || x.t == MV::NONE) && small();
		case APPEND: return (x.t == MV::ARR || x.t == MV::NONE) && m[o.j].t != MV::NONE && small() && !(x.t == MV::ARR && reaches(m[o.j], cid(x)));
		case APPEND_SCALAR: return (x.t == MV::ARR || x.t == MV::NONE) && small();
		case REMOVEAT: return x.t == MV::ARR && x.a->size() >= 1;
		case REMOVE: return x.t == MV::OBJ && x.o->count("a");
		case CLEAR: return (x.t == MV::ARR && !x.a->empty()) || (x.t == MV::OBJ && !x.o->empty());
		case EXTEND: { if (!(x.t == MV::OBJ || x.t == MV::NONE) || m[o.j].t != MV::OBJ || !small()) return false; if (x.t == MV::OBJ) { if (cid(x) == cid(m[o.j])) return false; for (std::map<std::string, MV>::iterator it = m[o.j].o->begin(); it != m[o.j].o->end(); ++it) if (reaches(it->second, cid(x))) return false; } return true; }
		case CLONE: return m[o.j].t != MV::NONE;
		case TYPED: return true;
		case SELF: return x.t != MV::NONE;
		}
		return false;
	}
	// shared-container growth (same root cause as C01 grow_while_shared): container at capacity, referenced by >= 2 Vars, op adds an entry
	const char* predict(int op) {
		const O& o = ops[op];
		Var& x = *v[o.i];
		int grow = 0;
		switch (o.k) {
		case SET_ELEM: case SET_ELEM_SCALAR: if (x._type == Var::ARRAY && (o.a == 1 || x._a->length() == 0)) grow = 1; break;
		case APPEND: case APPEND_SCALAR: if (x._type == Var::ARRAY) grow = 1; break;
		case SET_PROP: case SET_PROP_SCALAR: if (x._type == Var::OBJ && !x.has(key(o.a))) grow = 1; break;
		case EXTEND: if (x._type == Var::OBJ) { grow = 0; for (std::map<std::string, MV>::iterator it = m[o.j].o->begin(); it != m[o.j].o->end(); ++it) if (it->second.t != MV::NONE && !m[o.i].o->count(it->first)) grow++; } break;
		default: break;
		}
		if (!grow) return 0;
		if (x._type == Var::ARRAY && x._a->rc() >= 2 && x._a->length() + grow > x._a->cap()) return "grow_while_shared";
		if (x._type == Var::OBJ && x._o->kv().rc() >= 2 && x._o->length() + grow > x._o->kv().cap()) return "grow_while_shared";
		return 0;
	}
	std::string opname(int op) {
		const O& o = ops[op];
		switch (o.k) {
		case GEN: return fmt("v%d = %s", o.i, genName(o.a)); case ASSIGN: return fmt("v%d = v%d", o.i, o.j);
		case OWN_ELEM: return fmt("v%d = v%d[%d]", o.i, o.i, o.a); case OWN_PROP: return fmt("v%d = v%d[\"a\"]", o.i, o.i); case OWN_DEEP: return fmt("v%d = v%d[0][0]", o.i, o.i);
		case SET_ELEM: return fmt("v%d[%s] = v%d", o.i, o.a == 0 ? "0" : "n", o.j); case SET_PROP: return fmt("v%d[\"%s\"] = v%d", o.i, key(o.a), o.j);
		case SET_ELEM_SCALAR: return fmt("v%d[%s] = 7", o.i, o.a == 0 ? "0" : "n"); case SET_PROP_SCALAR: return fmt("v%d[\"%s\"] = \"p\"", o.i, key(o.a));
		case APPEND: return fmt("v%d << v%d", o.i, o.j); case APPEND_SCALAR: return fmt("v%d << 3", o.i);
		case REMOVEAT: return fmt("v%d.removeAt(0)", o.i); case REMOVE: return fmt("v%d.remove(\"a\")", o.i); case CLEAR: return fmt("v%d.clear()", o.i);
		case EXTEND: return fmt("v%d.extend(v%d)", o.i, o.j); case CLONE: return fmt("v%d = v%d.clone()", o.i, o.j);
		case TYPED: return fmt("v%d = %s", o.i, o.a == 0 ? "5 (int)" : o.a == 1 ? "\"t\" (const char*)" : o.a == 2 ? "String(\"a-long-string\")" : o.a == 3 ? "0.25 (double)" : o.a == 4 ? "\"1234567\" (const char*)" : "String(\"12345678\")");
		case SELF: return fmt("v%d = v%d", o.i, o.i);
		}
		return "?";
	}
	static bool container(const MV& x) { return x.t == MV::ARR || x.t == MV::OBJ; }
	bool apply(int op, std::string& err) {
		const O& o = ops[op];
		Var& x = *v[o.i]; MV& mx = m[o.i];
		bool sharedC = container(mx) && (mx.t == MV::ARR ? mx.a.use_count() : mx.o.use_count()) >= 2;
		switch (o.k) {
		case GEN: { MV g = genModel(o.a); if (mx.t == g.t && mx.t != MV::NONE) vf::add(W_SAMETYPE_FAST); else if (mx.t != MV::NONE) vf::add(W_TYPECHANGE); if (sharedC && !container(g)) vf::add(W_SCALAR_OVER_SHARED); x = genVar(o.a); mx = g; if (o.a == 6 || o.a == 7) vf::add(W_STR_INLINE_HEAP); break; }
		case ASSIGN: if (mx.t == m[o.j].t) vf::add(W_SAMETYPE_FAST); else if (mx.t != MV::NONE) vf::add(W_TYPECHANGE); x = *v[o.j]; mx = m[o.j]; break;
		case OWN_ELEM: { vf::add(W_OWN_DESC); MV t = (*mx.a)[o.a]; x = x[o.a]; mx = t; break; }
		case OWN_PROP: { vf::add(W_OWN_DESC); MV t = (*mx.o)["a"]; x = x["a"]; mx = t; break; }
		case OWN_DEEP: { vf::add(W_OWN_DESC); MV t = (*(*mx.a)[0].a)[0]; x = x[0][0]; mx = t; break; }
		case SET_ELEM: case SET_ELEM_SCALAR: {
			if (mx.t == MV::NONE) { vf::add(W_AUTOVIV); mx = MV::arr(); }
			int idx = o.a == 0 ? 0 : (int)mx.a->size();
			if (idx >= (int)mx.a->size()) { vf::add(W_AUTORESIZE); mx.a->resize(idx + 1); }
			if (sharedC) vf::add(W_SHARED_MUT);
			if (o.k == SET_ELEM) { x[idx] = *v[o.j]; (*mx.a)[idx] = m[o.j]; } else { x[idx] = 7; (*mx.a)[idx] = MV::integer(7); }
			break;
		}
		case SET_PROP: case SET_PROP_SCALAR: {
			if (mx.t == MV::NONE) { vf::add(W_AUTOVIV); mx = MV::obj(); }
			if (sharedC) vf::add(W_SHARED_MUT);
			if (o.k == SET_PROP) { x[key(o.a)] = *v[o.j]; (*mx.o)[key(o.a)] = m[o.j]; } else { x[key(o.a)] = "p"; (*mx.o)[key(o.a)] = MV::str("p"); }
			break;
		}
		case APPEND: if (mx.t == MV::NONE) { vf::add(W_AUTOVIV); mx = MV::arr(); } if (sharedC) vf::add(W_SHARED_MUT); x << *v[o.j]; mx.a->push_back(m[o.j]); break;
		case APPEND_SCALAR: if (mx.t == MV::NONE) { vf::add(W_AUTOVIV); mx = MV::arr(); } if (sharedC) vf::add(W_SHARED_MUT); x << 3; mx.a->push_back(MV::integer(3)); break;
		case REMOVEAT: if (sharedC) vf::add(W_SHARED_MUT); x.removeAt(0); mx.a->erase(mx.a->begin()); break;
		case REMOVE: if (sharedC) vf::add(W_SHARED_MUT); x.remove("a"); mx.o->erase("a"); break;
		case CLEAR: if (sharedC) vf::add(W_SHARED_MUT); x.clear(); if (mx.t == MV::ARR) mx.a->clear(); else mx.o->clear(); break;
		case EXTEND: { vf::add(W_EXTEND); if (mx.t == MV::NONE) mx = MV::obj(); x.extend(*v[o.j]); std::map<std::string, MV> src(*m[o.j].o); for (std::map<std::string, MV>::iterator it = src.begin(); it != src.end(); ++it) if (it->second.t != MV::NONE) (*mx.o)[it->first] = it->second; break; }
		case CLONE: vf::add(W_CLONE); x = v[o.j]->clone(); mx = deepclone(m[o.j]); break;
		case TYPED:
			if (sharedC) vf::add(W_SCALAR_OVER_SHARED);
			if (o.a == 0) { x = 5; mx = MV::integer(5); } else if (o.a == 1) { x = "t"; mx = MV::str("t"); } else if (o.a == 2) { x = String("a-long-string"); mx = MV::str("a-long-string"); } else if (o.a == 3) { x = 0.25; mx = MV::num(0.25); }
			else if (o.a == 4) { x = "1234567"; mx = MV::str("1234567"); if (x._type == Var::STRING) vf::add(W_STR_HEAP_SHORT); } else { x = String("12345678"); mx = MV::str("12345678"); }
			break;
		case SELF: { Var& r = x; x = r; break; }
		}
		return observe(err);
	}
	bool observe(std::string& err) {
		for (int i = 0; i < NSLOT; i++) if (!same(*v[i], m[i], err, fmt("v%d", i))) return false;
		for (int i = 0; i < NSLOT; i++) for (int j = 0; j < NSLOT; j++) {
			if (hasNone(m[i]) || hasNone(m[j])) continue; // unset Vars are outside the statement's value list
			bool e = *v[i] == *v[j], me = meq(m[i], m[j]);
			if (me) vf::add(W_EQ_TRUE); else vf::add(W_EQ_FALSE);
			if (e != me || (*v[i] != *v[j]) == me) { err = fmt("v%d == v%d is %d, reference %d", i, j, (int)e, (int)me); return false; }
		}
		return true;
	}
	// canonical form: model structure with container identities + implementation shape (capacity, share count, string storage kind)
	void canonV(const Var& x, const MV& mv, std::map<const void*, int>& ids, std::string& s) {
		switch (mv.t) {
		case MV::NONE: s += "~"; break; case MV::NUL: s += "N"; break; case MV::BOOL: s += mv.b ? "T" : "F"; break;
		case MV::INT: s += fmt("i%d", mv.i); break; case MV::NUM: s += fmt("d%g", mv.d); break; case MV::FLT: s += fmt("f%g", mv.d); break;
		case MV::STR: s += (x._type == Var::SSTRING ? "s'" : "S'") + mv.s + "'"; if (x._type == Var::STRING) s += fmt("c%d", x._s->cap()); break;
		case MV::ARR: {
			std::map<const void*, int>::iterator it = ids.find(mv.a.get());
			if (it != ids.end()) { s += fmt("@%d", it->second); break; }
			int id = (int)ids.size(); ids[mv.a.get()] = id;
			s += fmt("[#%d c%d r%d:", id, x._a->cap(), x._a->rc());
			for (size_t i = 0; i < mv.a->size(); i++) { canonV((*x._a)[(int)i], (*mv.a)[i], ids, s); s += ","; }
			s += "]"; break;
		}
		case MV::OBJ: {
			std::map<const void*, int>::iterator it = ids.find(mv.o.get());
			if (it != ids.end()) { s += fmt("@%d", it->second); break; }
			int id = (int)ids.size(); ids[mv.o.get()] = id;
			s += fmt("{#%d c%d r%d:", id, x._o->kv().cap(), x._o->kv().rc());
			for (std::map<std::string, MV>::iterator p = mv.o->begin(); p != mv.o->end(); ++p) { s += p->first + "="; canonV((*x._o)[p->first.c_str()], p->second, ids, s); s += ","; }
			s += "}"; break;
		}
		}
	}
	std::string canon() {
		std::string s; std::map<const void*, int> ids;
		for (int i = 0; i < NSLOT; i++) { canonV(*v[i], m[i], ids, s); s += "|"; }
		return s;
	}
};

int main(int argc, char** argv) {
	vf::init(argc, argv, "C04", "c04_var");
	int cS = vf::counter("states"), cT = vf::counter("transitions"), cTr = vf::counter("traces");
	W_STR_HEAP_SHORT = vf::counter("w.heap_represented_string_shorter_than_8"); W_TYPECHANGE = vf::counter("w.assign_type_changing_path"); W_SAMETYPE_FAST = vf::counter("w.assign_same_type_fast_path"); W_OWN_DESC = vf::counter("w.assign_own_descendant");
	W_AUTOVIV = vf::counter("w.auto_vivification"); W_AUTORESIZE = vf::counter("w.index_auto_resize"); W_SHARED_MUT = vf::counter("w.mutation_of_shared_container"); W_CLONE = vf::counter("w.clone");
	W_STR_INLINE_HEAP = vf::counter("w.strings_at_7_8_byte_boundary"); W_EXTEND = vf::counter("w.extend"); W_EQ_TRUE = vf::counter("w.equal_pairs_compared"); W_EQ_FALSE = vf::counter("w.unequal_pairs_compared"); W_SCALAR_OVER_SHARED = vf::counter("w.scalar_assigned_over_shared_container");
	VarSys sys;
	if (vf::opt.replay) { vf::parallel(1, [&](uint64_t) { vf::Bfs<VarSys>(sys, "var").replay(vf::opt.kase); }); return vf::finish(); }
	vf::Bfs<VarSys> b(sys, "var");
	vf::BfsResult r = b.run(vf::opt.thorough() ? 5 : 4, 0);
	vf::add(cS, r.states); vf::add(cT, r.transitions); vf::add(cTr, r.traces);
	std::string pd; for (size_t i = 0; i < r.per_depth.size(); i++) pd += fmt(i ? ",%llu" : "%llu", (unsigned long long)r.per_depth[i]);
	vf::setinfo("var_histories", fmt("{\"depth_completed\": %d, \"states\": %llu, \"transitions\": %llu, \"new_states_per_depth\": [%s], \"op_alphabet\": %d}", r.depth_done, (unsigned long long)r.states, (unsigned long long)r.transitions, pd.c_str(), sys.nops()));
	return vf::finish();
}
