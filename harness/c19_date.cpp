// C19 — Date <-> calendar: complete enumeration of days / seconds / zone offsets / fractions,
// and bounded-exhaustive edit neighbourhoods of date strings for the parsers.
#include <asl/Date.h>
#include <time.h>
#include <unistd.h>
#include <math.h>
#include "vf.h"
#include "aslx.h"
using namespace asl;
using vf::fmt;

// ---- reference: days <-> civil (proleptic Gregorian), independent of asl; cross-checked against glibc below
static int64_t days_from_civil(int64_t y, unsigned m, unsigned d) {
	y -= m <= 2;
	const int64_t era = (y >= 0 ? y : y - 399) / 400;
	const unsigned yoe = (unsigned)(y - era * 400);
	const unsigned doy = (153 * (m + (m > 2 ? -3 : 9)) + 2) / 5 + d - 1;
	const unsigned doe = yoe * 365 + yoe / 4 - yoe / 100 + doy;
	return era * 146097 + (int64_t)doe - 719468;
}
static void civil_from_days(int64_t z, int& y, int& m, int& d) {
	z += 719468;
	const int64_t era = (z >= 0 ? z : z - 146096) / 146097;
	const unsigned doe = (unsigned)(z - era * 146097);
	const unsigned yoe = (doe - doe / 1460 + doe / 36524 - doe / 146096) / 365;
	const int64_t yy = (int64_t)yoe + era * 400;
	const unsigned doy = doe - (365 * yoe + yoe / 4 - yoe / 100);
	const unsigned mp = (5 * doy + 2) / 153;
	d = (int)(doy - (153 * mp + 2) / 5 + 1);
	m = (int)(mp < 10 ? mp + 3 : mp - 9);
	y = (int)(yy + (m <= 2));
}
static int weekday_from_days(int64_t z) { return (int)(z >= -4 ? (z + 4) % 7 : (z + 5) % 7 + 6); }

static const int64_t DAY0 = -719162; // 0001-01-01
static const int64_t DAYN = 2932896; // 9999-12-31

static int C_EVAL, C_DISTINCT, C_FASTPATH, C_SLOWPATH, C_LEAPDAY, C_PARSE_VALID, C_PARSE_INVALID, C_FMTPARSE;

static void bad(const char* sig, const std::string& desc, const std::string& kase) { vf::violation(sig, desc, kase); }

// all checks on one integer instant
static void check_instant(int64_t day, int sod, bool formats) {
	std::string kase = fmt("instant:%lld:%d", (long long)day, sod);
	vf::cur(kase);
	double t = (double)day * 86400.0 + sod;
	int y, m, d; civil_from_days(day, y, m, d);
	int hh = sod / 3600, mi = sod / 60 % 60, ss = sod % 60;
	int wd = weekday_from_days(day);
	vf::add(C_EVAL);
	if (sod == 0) {
		vf::add(C_DISTINCT);
		// reference vs glibc (independent implementation)
		time_t tt = (time_t)t; struct tm g; gmtime_r(&tt, &g);
		if (g.tm_year + 1900 != y || g.tm_mon + 1 != m || g.tm_mday != d || g.tm_wday != wd || days_from_civil(y, m, d) != day) {
			fprintf(stderr, "reference calendar disagrees with glibc on day %lld\n", (long long)day); _exit(2);
		}
		if (day > -24107 && day < 47482) vf::add(C_FASTPATH); else vf::add(C_SLOWPATH);
		if (m == 2 && d == 29) vf::add(C_LEAPDAY);
	}
	Date date(t);
	DateData p = date.splitUTC();
	if (p.year != y || p.month != m || p.day != d || p.hours != hh || p.minutes != mi || p.seconds != ss || p.weekDay != wd)
		bad("split", fmt("splitUTC(%.0f) = %d-%d-%d %d:%d:%d wd %d, expected %d-%d-%d %d:%d:%d wd %d", t, p.year, p.month, p.day, p.hours, p.minutes, p.seconds, p.weekDay, y, m, d, hh, mi, ss, wd), kase);
	Date back(Date::UTC, y, m, d, hh, mi, ss);
	if (!(back.time() == t)) bad("construct", fmt("Date(UTC,%d,%d,%d,%d,%d,%d).time() = %.3f, expected %.0f", y, m, d, hh, mi, ss, back.time(), t), kase);
	Date backl(y, m, d, hh, mi, ss); // local zone = UTC in this harness
	if (!(backl.time() == t)) bad("construct_local", fmt("Date(%d,%d,%d,%d,%d,%d).time() = %.3f (TZ=UTC), expected %.0f", y, m, d, hh, mi, ss, backl.time(), t), kase);
	if (!formats) return;
	static const char* wdn[] = { "Sun", "Mon", "Tue", "Wed", "Thu", "Fri", "Sat" };
	static const char* mnn[] = { "Jan", "Feb", "Mar", "Apr", "May", "Jun", "Jul", "Aug", "Sep", "Oct", "Nov", "Dec" };
	std::string exp[5];
	exp[Date::LONG] = fmt("%04d-%02d-%02dT%02d:%02d:%02dZ", y, m, d, hh, mi, ss);
	exp[Date::SHORT] = fmt("%04d%02d%02dT%02d%02d%02dZ", y, m, d, hh, mi, ss);
	exp[Date::HTTP] = fmt("%s, %02d %s %04d %02d:%02d:%02d GMT", wdn[wd], d, mnn[m - 1], y, hh, mi, ss);
	exp[Date::FULL] = fmt("%04d-%02d-%02dT%02d:%02d:%02d.000Z", y, m, d, hh, mi, ss);
	Date::Format fs[] = { Date::LONG, Date::SHORT, Date::HTTP, Date::FULL };
	for (int i = 0; i < 4; i++) {
		String s = date.toUTCString(fs[i]);
		vf::add(C_FMTPARSE);
		if (vfx::S(s) != exp[fs[i]]) bad("format", fmt("toUTCString(%d) of %.0f = '%s', expected '%s'", (int)fs[i], t, *s, exp[fs[i]].c_str()), kase);
		Date r;
		{ vfx::Flush fl(s); r = Date(s); }
		if (!(r.time() == t)) bad("format_parse", fmt("Date('%s').time() = %.3f, expected %.0f", *s, r.time(), t), kase);
		if (fs[i] != Date::HTTP) { // local rendering (TZ=UTC): same text without the Z, parsed as local time
			String l = date.toString(fs[i]);
			Date rl(l);
			if (vfx::S(l) + "Z" != exp[fs[i]] || !(rl.time() == t)) bad("format_parse_local", fmt("toString(%d) = '%s' -> %.3f, expected %.0f", (int)fs[i], *l, rl.time(), t), kase);
		}
	}
}

// FULL format with fractions: parse(format(t)) within a millisecond of t; the text is the calendar rendering of t rounded to ms
static void check_fraction(double t) {
	std::string kase = "frac:" + vf::hex(&t, sizeof t);
	vf::cur(kase);
	if (floor(t * 1000.0 + 0.5) >= ((double)DAYN + 1) * 86400000.0) return; // rounds into year 10000: outside the stated range
	vf::add(C_EVAL); vf::add(C_DISTINCT);
	Date date(t);
	String s = date.toUTCString(Date::FULL);
	Date r(s);
	if (!(fabs(r.time() - t) <= 0.001 + 1e-4)) bad("full_ms", fmt("Date(%.6f).toUTCString(FULL) = '%s' which parses to %.6f (off by %.4f s)", t, *s, r.time(), r.time() - t), kase);
	// expected text: round to nearest millisecond, then split
	double ms = floor(t * 1000.0 + 0.5);
	int64_t tot = (int64_t)ms;
	int64_t secs = tot >= 0 ? tot / 1000 : -((-tot + 999) / 1000);
	int msec = (int)(tot - secs * 1000);
	int64_t day = secs >= 0 ? secs / 86400 : -((-secs + 86399) / 86400);
	int sod = (int)(secs - day * 86400);
	int y, m, d; civil_from_days(day, y, m, d);
	std::string e = fmt("%04d-%02d-%02dT%02d:%02d:%02d.%03dZ", y, m, d, sod / 3600, sod / 60 % 60, sod % 60, msec);
	// an implementation may also truncate instead of rounding: tolerate the neighbouring millisecond only
	if (vfx::S(s) != e) {
		Date q(vfx::A(e));
		if (!(fabs(r.time() - q.time()) <= 0.001 + 1e-6)) bad("full_text", fmt("Date(%.6f) FULL = '%s', expected '%s'", t, *s, e.c_str()), kase);
	}
	// LONG (second resolution) must denote an instant within one second
	String l = date.toUTCString(Date::LONG);
	Date rl(l);
	if (!(fabs(rl.time() - t) <= 1.0)) bad("long_sec", fmt("Date(%.6f).toUTCString(LONG) = '%s' which parses to %.3f", t, *l, rl.time()), kase);
	DateData p = date.splitUTC();
	Date fromFields(Date::UTC, p.year, p.month, p.day, p.hours, p.minutes, p.seconds);
	if (!(fabs(fromFields.time() - t) <= 1.0)) bad("split_frac", fmt("splitUTC(%.6f) = %d-%d-%d %d:%d:%d which is %.0f", t, p.year, p.month, p.day, p.hours, p.minutes, p.seconds, fromFields.time()), kase);
}

static void check_zone(int offmin, int spelling, int64_t day, int sod) {
	std::string kase = fmt("zone:%d:%d:%lld:%d", offmin, spelling, (long long)day, sod);
	vf::cur(kase);
	vf::add(C_EVAL); vf::add(C_DISTINCT);
	int y, m, d; civil_from_days(day, y, m, d);
	int a = abs(offmin);
	char sg = offmin < 0 ? '-' : '+';
	std::string z = spelling == 0 ? fmt("%c%02d:%02d", sg, a / 60, a % 60) : spelling == 1 ? fmt("%c%02d%02d", sg, a / 60, a % 60) : fmt("%c%02d", sg, a / 60);
	if (spelling == 2) offmin = (offmin < 0 ? -1 : 1) * (a / 60) * 60;
	for (int basic = 0; basic < 2; basic++) {
		std::string txt = basic ? fmt("%04d%02d%02dT%02d%02d%02d", y, m, d, sod / 3600, sod / 60 % 60, sod % 60) : fmt("%04d-%02d-%02dT%02d:%02d:%02d", y, m, d, sod / 3600, sod / 60 % 60, sod % 60);
		String s = vfx::A(txt + z);
		Date r;
		{ vfx::Flush fl(s); r = Date(s); }
		double exp = (double)day * 86400.0 + sod - offmin * 60.0;
		if (!(r.time() == exp)) bad("zone", fmt("Date('%s').time() = %.3f, expected %.0f", *s, r.time(), exp), kase);
	}
}

static void check_fracdigits(int ndig, int pattern, int64_t day, int sod) {
	std::string kase = fmt("fracdigits:%d:%d:%lld:%d", ndig, pattern, (long long)day, sod);
	vf::cur(kase);
	vf::add(C_EVAL); vf::add(C_DISTINCT);
	static const char* pats[] = { "123456789", "999999999", "000000001", "500000000", "100000000", "049999999" };
	std::string digs = std::string(pats[pattern]).substr(0, ndig);
	double frac = atof(("0." + digs).c_str());
	int y, m, d; civil_from_days(day, y, m, d);
	const char* zs[] = { "Z", "+01:30", "" };
	for (int zi = 0; zi < 3; zi++)
		for (int basic = 0; basic < 2; basic++) {
			std::string txt = (basic ? fmt("%04d%02d%02dT%02d%02d%02d", y, m, d, sod / 3600, sod / 60 % 60, sod % 60) : fmt("%04d-%02d-%02dT%02d:%02d:%02d", y, m, d, sod / 3600, sod / 60 % 60, sod % 60)) + "." + digs + zs[zi];
			String s = vfx::A(txt);
			Date r;
			{ vfx::Flush fl(s); r = Date(s); }
			double exp = (double)day * 86400.0 + sod + frac - (zi == 1 ? 5400 : 0);
			if (!(fabs(r.time() - exp) < 1e-4)) bad("fracdigits", fmt("Date('%s').time() = %.9f, expected %.9f", *s, r.time(), exp), kase);
		}
}

// parse robustness: must terminate, stay in bounds (ASan + poisoned slack), give invalid or a value
static void parse_one(const std::string& txt, int mode) {
	vf::cur_sig("parse_crash");
	String s = vfx::A(txt);
	vf::asan_clear();
	double v;
	{
		vfx::Flush fl(s);
		if (mode == 0) v = Date(s).time();
		else {
			static const char* fmts[] = { "D/M/Y?h:m", "Y-M-D h:m:s", "??Y", "YMDhms" };
			String f = fmts[mode - 1];
			vfx::Flush fl2(f);
			v = Date(s, f).time();
		}
	}
	if (v != v) vf::add(C_PARSE_INVALID); else vf::add(C_PARSE_VALID);
	vf::add(C_EVAL);
	if (vf::asan_tripped()) {
		bad(mode == 0 ? "parse_oob" : "parsefmt_oob", "ASan " + vf::asan_what() + " while parsing '" + txt + "'" + (mode ? fmt(" with format #%d", mode) : std::string()), fmt("parse:%d:", mode) + vf::hex(txt));
		vf::asan_clear();
	}
}

static const char ALPHA[] = "019TZ:-+. aGM,";
static const int NALPHA = sizeof(ALPHA) - 1;

static std::vector<std::string> templates() {
	std::vector<std::string> t;
	t.push_back("2021-11-29T23:31:10.25+01:30");
	t.push_back("20211129T233110.5-0130");
	t.push_back("2021-11-29T23:31Z");
	t.push_back("20211129T2331");
	t.push_back("Tue, 30 Nov 2021 00:31:10 GMT");
	t.push_back("0001-01-01T00:00:00");
	t.push_back("1/05/2030 12:30");
	t.push_back("2030-05-01 12:30:59");
	return t;
}
// one edit applied at position pos: kind 0 = substitute c, 1 = delete, 2 = insert c before
static bool edit(std::string& s, int pos, int kind, char c) {
	if (kind == 1) { if (pos >= (int)s.size()) return false; s.erase(pos, 1); return true; }
	if (kind == 0) { if (pos >= (int)s.size()) return false; s[pos] = c; return true; }
	if (pos > (int)s.size()) return false;
	s.insert(pos, 1, c); return true;
}

static void run_case(const std::string& k) {
	if (k.compare(0, 8, "instant:") == 0) { long long d; int s; sscanf(k.c_str() + 8, "%lld:%d", &d, &s); check_instant(d, s, true); }
	else if (k.compare(0, 5, "frac:") == 0) { std::string b = vf::unhex(k.substr(5)); double t; memcpy(&t, b.data(), 8); check_fraction(t); }
	else if (k.compare(0, 5, "zone:") == 0) { int o, sp, s; long long d; sscanf(k.c_str() + 5, "%d:%d:%lld:%d", &o, &sp, &d, &s); check_zone(o, sp, d, s); }
	else if (k.compare(0, 11, "fracdigits:") == 0) { int n, p, s; long long d; sscanf(k.c_str() + 11, "%d:%d:%lld:%d", &n, &p, &d, &s); check_fracdigits(n, p, d, s); }
	else if (k.compare(0, 6, "parse:") == 0) { int mode = atoi(k.c_str() + 6); parse_one(vf::unhex(k.substr(k.find(':', 6) + 1)), mode); }
}

int main(int argc, char** argv) {
	vf::init(argc, argv, "C19", "c19_date");
	C_EVAL = vf::counter("evaluations"); C_DISTINCT = vf::counter("distinct_nontrivial");
	C_FASTPATH = vf::counter("w.days_in_1904_2099_fast_path"); C_SLOWPATH = vf::counter("w.days_in_400_100_4_block_path"); C_LEAPDAY = vf::counter("w.leap_days");
	C_PARSE_VALID = vf::counter("w.parse_gave_value"); C_PARSE_INVALID = vf::counter("w.parse_gave_invalid"); C_FMTPARSE = vf::counter("format_parse_roundtrips");
	if (vf::opt.replay) { vf::parallel(1, [&](uint64_t) { run_case(vf::opt.kase); }); return vf::finish(); }
	bool T = vf::opt.thorough();

	// (a) every day of years 1..9999 at 00:00:00, 12:00:00, 23:59:59 (+ more times of day in the thorough tier)
	uint64_t ndays = (uint64_t)(DAYN - DAY0 + 1);
	const uint64_t CH = 4096;
	vf::parallel((ndays + CH - 1) / CH, [&](uint64_t blk) {
		static const int sods_q[] = { 0, 43200, 86399 };
		static const int sods_t[] = { 0, 1, 59, 60, 3599, 3600, 43199, 43200, 86340, 86399 };
		const int* sods = T ? sods_t : sods_q; int ns = T ? 10 : 3;
		for (uint64_t i = blk * CH; i < (blk + 1) * CH && i < ndays; i++)
			for (int k = 0; k < ns; k++) check_instant(DAY0 + (int64_t)i, sods[k], true);
	});
	vf::setinfo("days_enumerated", fmt("%llu", (unsigned long long)ndays));

	// (b) every second of 200 fixed days (leap days, century / 400-year edges, fast-path limits, year ends)
	std::vector<int64_t> days;
	int ys[] = { 1, 4, 100, 400, 1600, 1700, 1900, 1903, 1904, 1970, 1972, 2000, 2038, 2099, 2100, 2400, 9996, 9999 };
	for (size_t i = 0; i < sizeof ys / sizeof *ys; i++) {
		int y = ys[i];
		days.push_back(days_from_civil(y, 1, 1)); days.push_back(days_from_civil(y, 2, 28)); days.push_back(days_from_civil(y, 3, 1));
		days.push_back(days_from_civil(y, 12, 31)); days.push_back(days_from_civil(y, 3, 1) - 1); days.push_back(days_from_civil(y, 7, 31));
	}
	for (int k = 0; days.size() < 200; k++) days.push_back(DAY0 + (int64_t)k * 18397 + 11);
	vf::parallel(days.size(), [&](uint64_t i) { for (int s = 0; s < 86400; s++) check_instant(days[i], s, T || s % 61 == 0); });

	// (c) FULL format around second/day/year boundaries with fractions
	std::vector<double> bases;
	int by[] = { 1, 1600, 1900, 1904, 1969, 1970, 1971, 2000, 2024, 2099, 2100, 9999 };
	for (size_t i = 0; i < sizeof by / sizeof *by; i++)
		for (int mo = 1; mo <= 12; mo += 11) {
			int64_t d = days_from_civil(by[i], mo, mo == 1 ? 1 : 31);
			int sods[] = { 0, 1, 59, 60, 3599, 3600, 43200, 86398, 86399 };
			for (size_t k = 0; k < sizeof sods / sizeof *sods; k++) bases.push_back((double)d * 86400.0 + sods[k]);
		}
	static const double fr[] = { 0, .0004, .0006, .001, .25, .4994, .4996, .5, .75, .999, .9994, .9996, .99996 };
	vf::parallel(bases.size(), [&](uint64_t i) { for (size_t k = 0; k < sizeof fr / sizeof *fr; k++) check_fraction(bases[i] + fr[k]); });

	// (d) every zone offset -23:59 .. +23:59, three spellings, on a few instants
	vf::parallel(2 * 1439 + 1, [&](uint64_t i) {
		int off = (int)i - 1439;
		int64_t ds[] = { days_from_civil(2021, 11, 29), days_from_civil(1970, 1, 1), days_from_civil(2000, 2, 29), days_from_civil(1, 1, 2), days_from_civil(9999, 12, 30) };
		for (int sp = 0; sp < 3; sp++) for (size_t k = 0; k < 5; k++) { check_zone(off, sp, ds[k], 0); check_zone(off, sp, ds[k], 84670); }
	}, 32);

	// (e) fractional seconds of 1..9 digits
	vf::parallel(9 * 6, [&](uint64_t i) { check_fracdigits((int)(i / 6) + 1, (int)(i % 6), days_from_civil(2021, 11, 29), 84670); check_fracdigits((int)(i / 6) + 1, (int)(i % 6), days_from_civil(1969, 12, 31), 86399); });

	// (f) parser robustness
	//   all strings of length <= 5 over the alphabet (both parsers)
	uint64_t n5 = 1; for (int i = 0; i < 5; i++) n5 *= NALPHA;
	vf::parallel(NALPHA * NALPHA, [&](uint64_t pre) {
		for (int len = 0; len <= 5; len++) {
			if (len < 2) { if (pre != 0) continue; }
			uint64_t rest = 1; for (int i = 2; i < len; i++) rest *= NALPHA;
			if (len < 2) { // lengths 0 and 1 handled once
				if (len == 0) { for (int md = 0; md <= 4; md++) parse_one("", md); }
				else for (int c = 0; c < NALPHA; c++) for (int md = 0; md <= 4; md++) parse_one(std::string(1, ALPHA[c]), md);
				continue;
			}
			for (uint64_t r = 0; r < rest; r++) {
				std::string s; s += ALPHA[pre / NALPHA]; s += ALPHA[pre % NALPHA];
				uint64_t x = r; for (int i = 2; i < len; i++) { s += ALPHA[x % NALPHA]; x /= NALPHA; }
				for (int md = 0; md <= 4; md++) parse_one(s, md);
			}
		}
	});
	//   templates: every truncation, every single edit, every pair of edits (thorough: all pairs; quick: pairs at distance <= 6)
	std::vector<std::string> tp = templates();
	struct Job { int t, pos; };
	std::vector<Job> jobs;
	for (size_t t = 0; t < tp.size(); t++) for (int p = 0; p <= (int)tp[t].size(); p++) { Job j = { (int)t, p }; jobs.push_back(j); }
	vf::parallel(jobs.size(), [&](uint64_t ji) {
		const std::string& base = tp[jobs[ji].t]; int p1 = jobs[ji].pos;
		for (int md = 0; md <= 4; md++) parse_one(base.substr(0, p1), md);
		for (int k1 = 0; k1 < 3; k1++) for (int c1 = 0; c1 < (k1 == 1 ? 1 : NALPHA); c1++) {
			std::string s1 = base;
			if (!edit(s1, p1, k1, ALPHA[c1])) continue;
			for (int md = 0; md <= 4; md++) parse_one(s1, md);
			int lim = T ? (int)s1.size() : std::min((int)s1.size(), p1 + 6);
			for (int p2 = p1; p2 <= lim; p2++)
				for (int k2 = 0; k2 < 3; k2++) for (int c2 = 0; c2 < (k2 == 1 ? 1 : NALPHA); c2++) {
					std::string s2 = s1;
					if (!edit(s2, p2, k2, ALPHA[c2])) continue;
					parse_one(s2, 0);
					if (T || (c2 & 3) == 0) for (int md = 1; md <= 4; md++) parse_one(s2, md);
				}
		}
	});
	vf::sample("instant 0001-01-01T00:00:00Z .. 9999-12-31T23:59:59Z: splitUTC, Date(UTC,fields), LONG/SHORT/HTTP/FULL format->parse");
	vf::sample("Date('2021-11-29T23:31:10-23:59'), Date('20211129T233110.049999999+01:30'), Date(86399.9996).toUTCString(FULL)");
	vf::sample("parse edits: 'Tue, 30 Nov 2021 00:31:10 GMT' with every 1- and 2-edit (substitute/delete/insert over \"" + std::string(ALPHA) + "\") and every truncation");
	return vf::finish();
}
