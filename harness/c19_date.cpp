// C19 — Date <-> calendar: complete enumeration of days / seconds / zone offsets / fractions / millisecond-rounding ties,
// the same families again under a fixed non-UTC zone, and bounded-exhaustive edit neighbourhoods and structure
// vectors of date strings for the parsers.
#include <asl/Date.h>
#include <time.h>
#include <unistd.h>
#include <math.h>
#include <sys/resource.h>
#include <sys/wait.h>
#include <fcntl.h>
#include <errno.h>
#include "vf.h"
#include "aslx.h"
using namespace asl;
using vf::fmt;

// ---- reference: days <-> civil (proleptic Gregorian), independent of asl; cross-checked against glibc below
static int64_t days_from_civil(int64_t y, unsigned m, unsigned d) {
	y -= m <= 2;
	const int64_t era = (y >= 0 ? y : y - 399) / 400;
	const unsigned yoe = (unsigned)(y - era * 400);
	const unsigned doy = (153 * (m + (m > 2 ? -3 : 9)) + 2) / 5 + d - 1;
	const unsigned doe = yoe * 365 + yoe / 4 - yoe / 100 + doy;
	return era * 146097 + (int64_t)doe - 719468;
}
static void civil_from_days(int64_t z, int& y, int& m, int& d) {
	z += 719468;
	const int64_t era = (z >= 0 ? z : z - 146096) / 146097;
	const unsigned doe = (unsigned)(z - era * 146097);
	const unsigned yoe = (doe - doe / 1460 + doe / 36524 - doe / 146096) / 365;
	const int64_t yy = (int64_t)yoe + era * 400;
	const unsigned doy = doe - (365 * yoe + yoe / 4 - yoe / 100);
	const unsigned mp = (5 * doy + 2) / 153;
	d = (int)(doy - (153 * mp + 2) / 5 + 1);
	m = (int)(mp < 10 ? mp + 3 : mp - 9);
	y = (int)(yy + (m <= 2));
}
static int weekday_from_days(int64_t z) { return (int)(z >= -4 ? (z + 4) % 7 : (z + 5) % 7 + 6); }
static int64_t fdiv(int64_t a, int64_t b) { int64_t q = a / b; if (a % b != 0 && ((a < 0) != (b < 0))) q--; return q; }

static const int64_t DAY0 = -719162; // 0001-01-01
static const int64_t DAYN = 2932896; // 9999-12-31

// calendar fields of a whole second since the epoch, and their renderings
struct Civ { int64_t day; int sod, y, m, d, hh, mi, ss, wd; };
static Civ civ_of(int64_t secs) {
	Civ c; c.day = fdiv(secs, 86400); c.sod = (int)(secs - c.day * 86400);
	civil_from_days(c.day, c.y, c.m, c.d);
	c.hh = c.sod / 3600; c.mi = c.sod / 60 % 60; c.ss = c.sod % 60; c.wd = weekday_from_days(c.day);
	return c;
}
static std::string text_of(const Civ& c, Date::Format f, int msec, bool z) {
	static const char* wdn[] = { "Sun", "Mon", "Tue", "Wed", "Thu", "Fri", "Sat" };
	static const char* mnn[] = { "Jan", "Feb", "Mar", "Apr", "May", "Jun", "Jul", "Aug", "Sep", "Oct", "Nov", "Dec" };
	std::string s;
	switch (f) {
	case Date::LONG: s = fmt("%04d-%02d-%02dT%02d:%02d:%02d", c.y, c.m, c.d, c.hh, c.mi, c.ss); break;
	case Date::SHORT: s = fmt("%04d%02d%02dT%02d%02d%02d", c.y, c.m, c.d, c.hh, c.mi, c.ss); break;
	case Date::FULL: s = fmt("%04d-%02d-%02dT%02d:%02d:%02d.%03d", c.y, c.m, c.d, c.hh, c.mi, c.ss, msec); break;
	case Date::HTTP: return fmt("%s, %02d %s %04d %02d:%02d:%02d GMT", wdn[c.wd], c.d, mnn[c.m - 1], c.y, c.hh, c.mi, c.ss);
	default: break;
	}
	return z ? s + "Z" : s;
}

// ---- independent reader of an ISO 8601 date-time text, complete in ONE layout (extended yyyy-mm-ddThh:mm[:ss[.f]] with Z / +hh /
// +hh:mm, or basic yyyymmddThhmm[ss[.f]] with Z / +hh / +hhmm, or without zone designator). The texts the library produces are
// compared through what they DENOTE (the statement demands that they parse back to the instant, not one spelling): any valid
// spelling of the named format passes - more or fewer fraction digits, a numeric offset instead of Z, an omitted zero seconds field.
struct Iso {
	int64_t sec;       // the fields read as a UTC calendar time, in seconds since the epoch
	int nfrac;         // number of fraction digits
	long double fms;   // the fraction in milliseconds (all digits)
	int zone, off;     // 0 = no designator (local time), 1 = Z, 2 = numeric; seconds east of UTC
};
static int num(const std::string& s, size_t p, int n) {
	if (p + n > s.size()) return -1;
	int x = 0;
	for (int i = 0; i < n; i++) { if (s[p + i] < '0' || s[p + i] > '9') return -1; x = x * 10 + (s[p + i] - '0'); }
	return x;
}
static bool read_iso(const std::string& s, bool basic, Iso& o) {
	size_t p = 0;
	int y = num(s, p, 4); p += 4;
	if (!basic) { if (p >= s.size() || s[p] != '-') return false; p++; }
	int m = num(s, p, 2); p += 2;
	if (!basic) { if (p >= s.size() || s[p] != '-') return false; p++; }
	int d = num(s, p, 2); p += 2;
	if (y < 0 || m < 1 || m > 12 || d < 1 || p >= s.size() || s[p] != 'T') return false;
	p++;
	static const int ml[] = { 31, 28, 31, 30, 31, 30, 31, 31, 30, 31, 30, 31 };
	if (d > ml[m - 1] + (m == 2 && y % 4 == 0 && (y % 100 != 0 || y % 400 == 0))) return false;
	int hh = num(s, p, 2); p += 2;
	if (!basic) { if (p >= s.size() || s[p] != ':') return false; p++; }
	int mi = num(s, p, 2); p += 2;
	int ss = 0;
	o.nfrac = 0; o.fms = 0;
	if (!basic ? (p < s.size() && s[p] == ':') : (p < s.size() && s[p] >= '0' && s[p] <= '9')) {
		if (!basic) p++;
		ss = num(s, p, 2); p += 2;
		if (ss < 0) return false;
		if (p < s.size() && (s[p] == '.' || s[p] == ',')) {
			p++;
			long double w = 100;
			while (p < s.size() && s[p] >= '0' && s[p] <= '9') { o.fms += (s[p] - '0') * w; w /= 10; o.nfrac++; p++; }
			if (!o.nfrac) return false;
		}
	}
	if (hh < 0 || hh > 23 || mi < 0 || mi > 59 || ss > 59) return false;
	o.sec = days_from_civil(y, (unsigned)m, (unsigned)d) * 86400 + hh * 3600 + mi * 60 + ss;
	o.zone = 0; o.off = 0;
	if (p == s.size()) return true;
	if (s[p] == 'Z') { o.zone = 1; return p + 1 == s.size(); }
	if (s[p] != '+' && s[p] != '-') return false;
	int sg = s[p] == '-' ? -1 : 1; p++;
	int zh = num(s, p, 2), zm = 0; p += 2;
	if (p < s.size()) {
		if (!basic) { if (s[p] != ':') return false; p++; }
		zm = num(s, p, 2); p += 2;
	}
	if (zh < 0 || zh > 23 || zm < 0 || zm > 59 || p != s.size()) return false;
	o.zone = 2; o.off = sg * (zh * 3600 + zm * 60);
	return true;
}

// ---- the zone the process runs in: UTC (first pass) or a fixed offset without DST (second pass). Switched in the
// coordinating process between vf::parallel calls (the workers are forked per call) and in a replay worker.
static int ZOFF = 0;       // seconds east of UTC
static std::string KP;     // case-string prefix of the pass
static void set_zone(bool z) {
	setenv("TZ", z ? "VRF-05" : "UTC", 1); tzset();
	ZOFF = z ? 18000 : 0; KP = z ? "tz:" : "";
	time_t x = 1000000000; struct tm l; localtime_r(&x, &l);
	if (l.tm_gmtoff != ZOFF) { fprintf(stderr, "c19_date: zone switch to %s did not take effect\n", z ? "VRF-05" : "UTC"); _exit(2); }
}

static int C_EVAL, C_DISTINCT, C_FASTPATH, C_SLOWPATH, C_LEAPDAY, C_PARSE_VALID, C_PARSE_INVALID, C_FMTPARSE;
static int C_ISO_VALID, C_ISO_INVALID, C_HTTP_VALID, C_TZPASS, C_TZ_OTHERDAY, C_TIE, C_TIE_SEC, C_TIE_DAY, C_TIE_YEAR, C_TIE_TZ,
	C_NOSEC, C_NOSEC_Z, C_SPELL[3], C_FRACNEG, C_FRACLOCAL, C_SHAPE, C_SHAPE_VALID, C_LONGSTR, C_MIXED_VALUE, C_MIXED_INVALID;

static void bad(const char* sig, const std::string& desc, const std::string& kase) { vf::violation(sig, desc, kase); }
// the instant a text denotes, in milliseconds since the epoch (a text without zone designator shows the local time of the process zone)
static long double denoted_ms(const Iso& o) { return (long double)(o.sec - (o.zone == 2 ? o.off : o.zone == 1 ? 0 : ZOFF)) * 1000.0L + o.fms; }
// an ISO text of a whole second t: a valid text of the layout of the format (SHORT: basic, else extended; FULL: with at least the
// milliseconds) that denotes exactly t. The HTTP text (IMF-fixdate of RFC 7231, fixed length) is determined completely by the RFC.
static bool iso_text_is(const String& s, Date::Format f, double t) {
	Iso o;
	if (!read_iso(vfx::S(s), f == Date::SHORT, o)) return false;
	if (f == Date::FULL && o.nfrac < 3) return false;
	return denoted_ms(o) == (long double)t * 1000.0L;
}
// ASan verdict of a value case (the robustness cases have their own in parse_one)
static void oob_check(const std::string& kase) {
	if (!vf::asan_tripped()) return;
	bad("oob", "ASan " + vf::asan_what() + " in case " + kase, kase);
	vf::asan_clear();
}

// all checks on one integer instant; formats: 0 = fields only, 1 = + the UTC texts, 2 = + the local texts
static void check_instant(int64_t day, int sod, int formats) {
	std::string kase = KP + fmt("instant:%lld:%d", (long long)day, sod);
	vf::cur(kase);
	double t = (double)day * 86400.0 + sod;
	int y, m, d; civil_from_days(day, y, m, d);
	int hh = sod / 3600, mi = sod / 60 % 60, ss = sod % 60;
	int wd = weekday_from_days(day);
	vf::add(C_EVAL);
	if (ZOFF) vf::add(C_TZPASS);
	if (sod == 0 && !ZOFF) {
		vf::add(C_DISTINCT);
		// reference vs glibc (independent implementation)
		time_t tt = (time_t)t; struct tm g; gmtime_r(&tt, &g);
		if (g.tm_year + 1900 != y || g.tm_mon + 1 != m || g.tm_mday != d || g.tm_wday != wd || days_from_civil(y, m, d) != day) {
			fprintf(stderr, "reference calendar disagrees with glibc on day %lld\n", (long long)day); _exit(2);
		}
		if (day > -24107 && day < 47482) vf::add(C_FASTPATH); else vf::add(C_SLOWPATH);
		if (m == 2 && d == 29) vf::add(C_LEAPDAY);
	}
	Date date(t);
	DateData p = date.splitUTC();
	if (p.year != y || p.month != m || p.day != d || p.hours != hh || p.minutes != mi || p.seconds != ss || p.weekDay != wd)
		bad("split", fmt("splitUTC(%.0f) = %d-%d-%d %d:%d:%d wd %d, expected %d-%d-%d %d:%d:%d wd %d", t, p.year, p.month, p.day, p.hours, p.minutes, p.seconds, p.weekDay, y, m, d, hh, mi, ss, wd), kase);
	Date back(Date::UTC, y, m, d, hh, mi, ss);
	if (!(back.time() == t)) bad("construct", fmt("Date(UTC,%d,%d,%d,%d,%d,%d).time() = %.3f, expected %.0f", y, m, d, hh, mi, ss, back.time(), t), kase);
	Date backl(y, m, d, hh, mi, ss); // the same fields read as local time denote the instant ZOFF earlier
	if (!(backl.time() == t - ZOFF)) bad("construct_local", fmt("Date(%d,%d,%d,%d,%d,%d).time() = %.3f (zone offset %+d s), expected %.0f", y, m, d, hh, mi, ss, backl.time(), ZOFF, t - ZOFF), kase);
	if (formats) {
		Civ cu = civ_of((int64_t)t), cl = civ_of((int64_t)t + ZOFF);
		if (ZOFF && cl.day != cu.day) vf::add(C_TZ_OTHERDAY);
		Date::Format fs[] = { Date::LONG, Date::SHORT, Date::HTTP, Date::FULL };
		for (int i = 0; i < 4; i++) {
			String s = date.toUTCString(fs[i]);
			std::string e = text_of(cu, fs[i], 0, true);
			vf::add(C_FMTPARSE);
			if (fs[i] == Date::HTTP ? vfx::S(s) != e : !iso_text_is(s, fs[i], t))
				bad("format", fmt("toUTCString(%d) of %.0f = '%s', expected '%s'%s", (int)fs[i], t, *s, e.c_str(), fs[i] == Date::HTTP ? "" : " or another ISO 8601 text of this layout that denotes the same instant"), kase);
			Date r;
			{ vfx::Flush fl(s); r = Date(s); }
			if (!(r.time() == t)) bad("format_parse", fmt("Date('%s').time() = %.3f, expected %.0f", *s, r.time(), t), kase);
			if (formats >= 2 && fs[i] != Date::HTTP && cl.y <= 9999) { // local rendering: without designator the fields of the instant shifted by the zone offset (or a text with a numeric offset), parsed back
				String l = date.toString(fs[i]);
				Date rl;
				{ vfx::Flush fl(l); rl = Date(l); }
				std::string el = text_of(cl, fs[i], 0, false);
				if (!iso_text_is(l, fs[i], t) || !(rl.time() == t)) bad("format_parse_local", fmt("toString(%d) = '%s' -> %.3f, expected '%s' (or another ISO 8601 text of this layout denoting the instant) -> %.0f (zone offset %+d s)", (int)fs[i], *l, rl.time(), el.c_str(), t, ZOFF), kase);
			}
		}
	}
	oob_check(kase);
}

// Instants with a fraction. "To the millisecond": the FULL text must be an ISO text with at least the milliseconds that denotes an
// instant within one millisecond of t (truncation, rounding to nearest and rounding up all qualify; 0.05 ms of slack for the
// implementation's own floating-point rounding); splitUTC and the texts without a fraction must show the second of a whole
// millisecond M within one millisecond of t; a LONG / SHORT text that shows a fraction is held to the precision it shows.
static void check_fraction(double t, bool light) {
	std::string kase = KP + "frac:" + vf::hex(&t, sizeof t);
	vf::cur(kase);
	long double x = (long double)t * 1000.0L;
	int64_t M0 = (int64_t)floorl(x + 0.5L);
	if (M0 - 1 < DAY0 * 86400000LL || M0 + 1 >= (DAYN + 1) * 86400000LL) return; // touches year 0 or 10000: outside the stated range
	int64_t cand[3]; int nc = 0;
	for (int64_t M = M0 - 1; M <= M0 + 1; M++)
		if (fabsl((long double)M - x) <= 1.05L) cand[nc++] = M;
	vf::add(C_EVAL); if (!ZOFF) vf::add(C_DISTINCT); else vf::add(C_TZPASS);
	if (fabsl(x - floorl(x) - 0.5L) < 0.01L) { // witnesses: the two milliseconds nearest to a rounding tie lie in different seconds / days / years
		vf::add(C_TIE);
		Civ a = civ_of(fdiv((int64_t)floorl(x), 1000)), b = civ_of(fdiv((int64_t)floorl(x) + 1, 1000));
		if (a.sod != b.sod) vf::add(C_TIE_SEC);
		if (a.day != b.day) vf::add(C_TIE_DAY);
		if (a.y != b.y) vf::add(C_TIE_YEAR);
		if (ZOFF) vf::add(C_TIE_TZ);
	}
	Date date(t);
	String s = date.toUTCString(Date::FULL);
	Date r(t);
	if (!light) { vfx::Flush fl(s); r = Date(s); } // light: the text is compared below, parsing it back is left to the other families
	if (!(fabs(r.time() - t) <= 0.001 + 1e-4)) bad("full_ms", fmt("Date(%.9f).toUTCString(FULL) = '%s' which parses to %.6f (off by %.4f s)", t, *s, r.time(), r.time() - t), kase);
	bool ok = false; std::string exps;
	for (int i = 0; i < nc; i++) exps += (i ? "' or '" : "") + text_of(civ_of(fdiv(cand[i], 1000)), Date::FULL, (int)(cand[i] - fdiv(cand[i], 1000) * 1000), true);
	{ Iso o; ok = read_iso(vfx::S(s), false, o) && o.nfrac >= 3 && fabsl(denoted_ms(o) - x) <= 1.05L; }
	if (!ok) bad("full_text", fmt("Date(%.9f) FULL = '%s', expected '%s' (or another ISO 8601 text with milliseconds that denotes an instant within 1 ms)", t, *s, exps.c_str()), kase);
	DateData p = date.splitUTC();
	ok = false;
	for (int i = 0; i < nc; i++) {
		Civ c = civ_of(fdiv(cand[i], 1000));
		if (p.year == c.y && p.month == c.m && p.day == c.d && p.hours == c.hh && p.minutes == c.mi && p.seconds == c.ss && p.weekDay == c.wd) ok = true;
	}
	if (!ok) { Civ c = civ_of(fdiv(M0, 1000)); bad("split_frac", fmt("splitUTC(%.9f) = %d-%d-%d %d:%d:%d wd %d, expected %d-%d-%d %d:%d:%d wd %d (or the neighbouring second)", t, p.year, p.month, p.day, p.hours, p.minutes, p.seconds, p.weekDay, c.y, c.m, c.d, c.hh, c.mi, c.ss, c.wd), kase); }
	if (!light) {
		Date::Format fs[] = { Date::LONG, Date::SHORT, Date::HTTP };
		for (int k = 0; k < 3; k++) {
			String l = date.toUTCString(fs[k]);
			ok = false;
			Iso o;
			if (fs[k] == Date::HTTP) { for (int i = 0; i < nc; i++) if (vfx::S(l) == text_of(civ_of(fdiv(cand[i], 1000)), fs[k], 0, true)) ok = true; }
			else if (!read_iso(vfx::S(l), fs[k] == Date::SHORT, o)) ok = false;
			else if (o.nfrac == 0) { for (int i = 0; i < nc; i++) if (denoted_ms(o) == (long double)fdiv(cand[i], 1000) * 1000.0L) ok = true; } // the second of a millisecond within 1 ms of t
			else ok = fabsl(denoted_ms(o) - x) <= (o.nfrac == 1 ? 100.0L : o.nfrac == 2 ? 10.0L : 1.0L) + 0.05L;            // a shown fraction: right to the precision shown
			Date rl;
			{ vfx::Flush fl(l); rl = Date(l); }
			if (!ok || !(fabs(rl.time() - t) <= 1.0)) bad("long_sec", fmt("Date(%.9f).toUTCString(%d) = '%s' which parses to %.3f", t, (int)fs[k], *l, rl.time()), kase);
		}
		Date fromFields(Date::UTC, p.year, p.month, p.day, p.hours, p.minutes, p.seconds);
		if (!(fabs(fromFields.time() - t) <= 1.0)) bad("split_frac", fmt("splitUTC(%.9f) = %d-%d-%d %d:%d:%d which is %.0f", t, p.year, p.month, p.day, p.hours, p.minutes, p.seconds, fromFields.time()), kase);
		if (civ_of(fdiv(M0, 1000) + ZOFF + 1).y <= 9999) { // local FULL text -> parse as local, to the millisecond
			String lf = date.toString(Date::FULL);
			Date rf;
			{ vfx::Flush fl(lf); rf = Date(lf); }
			if (!(fabs(rf.time() - t) <= 0.001 + 1e-4)) bad("full_ms_local", fmt("Date(%.9f).toString(FULL) = '%s' which parses to %.6f (zone offset %+d s)", t, *lf, rf.time(), ZOFF), kase);
		}
	}
	oob_check(kase);
}
// the doubles from `steps` below to `steps` above the double nearest to a decimal tie
static void ties(double base, int steps, bool light) {
	double x = base;
	for (int i = 0; i < steps; i++) x = nextafter(x, -INFINITY);
	for (int k = 0; k <= 2 * steps; k++) { check_fraction(x, light); x = nextafter(x, INFINITY); }
}

static void check_zone(int offmin, int spelling, int64_t day, int sod) {
	std::string kase = KP + fmt("zone:%d:%d:%lld:%d", offmin, spelling, (long long)day, sod);
	vf::cur(kase);
	vf::add(C_EVAL); if (!ZOFF) vf::add(C_DISTINCT); else vf::add(C_TZPASS);
	vf::add(C_SPELL[spelling]);
	int y, m, d; civil_from_days(day, y, m, d);
	int a = abs(offmin);
	char sg = offmin < 0 ? '-' : '+';
	std::string z = spelling == 0 ? fmt("%c%02d:%02d", sg, a / 60, a % 60) : spelling == 1 ? fmt("%c%02d%02d", sg, a / 60, a % 60) : fmt("%c%02d", sg, a / 60);
	if (spelling == 2) offmin = (offmin < 0 ? -1 : 1) * (a / 60) * 60;
	for (int basic = 0; basic < 2; basic++)
		for (int nosec = 0; nosec < (sod % 60 == 0 ? 2 : 1); nosec++) { // a time without seconds ("hh:mm", "hhmm") where the second is 0
			std::string txt = basic ? fmt("%04d%02d%02dT%02d%02d", y, m, d, sod / 3600, sod / 60 % 60) : fmt("%04d-%02d-%02dT%02d:%02d", y, m, d, sod / 3600, sod / 60 % 60);
			if (!nosec) txt += fmt(basic ? "%02d" : ":%02d", sod % 60); else vf::add(C_NOSEC);
			double base = (double)day * 86400.0 + sod;
			// numeric offset; for offset 0 in the first spelling also the "Z" and the zone-less (local time) forms
			for (int form = 0; form < (offmin == 0 && spelling == 0 && a == 0 ? 3 : 1); form++) {
				String s = vfx::A(txt + (form == 0 ? z : form == 1 ? "Z" : ""));
				double exp = form == 0 ? base - offmin * 60.0 : form == 1 ? base : base - ZOFF;
				if (nosec && form) vf::add(C_NOSEC_Z);
				Date r;
				{ vfx::Flush fl(s); r = Date(s); }
				// basic date-time with +hh:mm, or extended with +hhmm: not an ISO 8601 text ("any other string"): a stricter parser may call it invalid
				bool mixed = form == 0 && (basic ? spelling == 0 : spelling == 1);
				if (mixed) vf::add(r.time() != r.time() ? C_MIXED_INVALID : C_MIXED_VALUE);
				if (!(r.time() == exp) && !(mixed && r.time() != r.time())) bad("zone", fmt("Date('%s').time() = %.3f, expected %.0f (zone offset of the process %+d s)", *s, r.time(), exp, ZOFF), kase);
			}
		}
	oob_check(kase);
}

static void check_fracdigits(int ndig, int pattern, int64_t day, int sod) {
	std::string kase = KP + fmt("fracdigits:%d:%d:%lld:%d", ndig, pattern, (long long)day, sod);
	vf::cur(kase);
	vf::add(C_EVAL); if (!ZOFF) vf::add(C_DISTINCT); else vf::add(C_TZPASS);
	static const char* pats[] = { "123456789", "999999999", "000000001", "500000000", "100000000", "049999999" };
	std::string digs = std::string(pats[pattern]).substr(0, ndig);
	double frac = atof(("0." + digs).c_str());
	int y, m, d; civil_from_days(day, y, m, d);
	static const char* zs[] = { "Z", "+01:30", "", "-01:30", "+0130", "-01", "+00:00", "-2359" };
	const int east[] = { 0, 5400, ZOFF, -5400, 5400, -3600, 0, -86340 }; // the text shows the time of a zone that many seconds east of UTC
	for (int zi = 0; zi < 8; zi++)
		for (int basic = 0; basic < 2; basic++) {
			std::string txt = (basic ? fmt("%04d%02d%02dT%02d%02d%02d", y, m, d, sod / 3600, sod / 60 % 60, sod % 60) : fmt("%04d-%02d-%02dT%02d:%02d:%02d", y, m, d, sod / 3600, sod / 60 % 60, sod % 60)) + "." + digs + zs[zi];
			String s = vfx::A(txt);
			Date r;
			{ vfx::Flush fl(s); r = Date(s); }
			double exp = (double)day * 86400.0 + sod + frac - east[zi];
			if (zs[zi][0] == '-') vf::add(C_FRACNEG);
			if (!zs[zi][0]) vf::add(C_FRACLOCAL);
			// the statement promises the millisecond: a parser that keeps only three digits is accepted
			bool mixed = strlen(zs[zi]) == (basic ? 6u : 5u); // offset in the other layout: not ISO 8601, may be invalid
			if (mixed) vf::add(r.time() != r.time() ? C_MIXED_INVALID : C_MIXED_VALUE);
			if (!(fabs(r.time() - exp) < 0.001 + 1e-6) && !(mixed && r.time() != r.time())) bad("fracdigits", fmt("Date('%s').time() = %.9f, expected %.9f", *s, r.time(), exp), kase);
		}
	oob_check(kase);
}

// parse robustness: must terminate, stay in bounds (ASan + poisoned slack), give invalid or a value
static double parse_one(const std::string& txt, int mode) {
	vf::cur_sig("parse_crash");
	String s = vfx::A(txt);
	vf::asan_clear();
	double v;
	{
		vfx::Flush fl(s);
		if (mode == 0) v = Date(s).time();
		else {
			static const char* fmts[] = { "D/M/Y?h:m", "Y-M-D h:m:s", "??Y", "YMDhms" };
			String f = fmts[mode - 1];
			vfx::Flush fl2(f);
			v = Date(s, f).time();
		}
	}
	if (v != v) vf::add(C_PARSE_INVALID); else vf::add(C_PARSE_VALID);
	if (mode == 0) {
		if (v != v) vf::add(C_ISO_INVALID); else if (txt[0] > 'A' && txt[0] < 'Z') vf::add(C_HTTP_VALID); else vf::add(C_ISO_VALID);
		if (txt.size() >= 32) vf::add(C_LONGSTR);
	}
	vf::add(C_EVAL);
	if (vf::asan_tripped()) {
		bad(mode == 0 ? "parse_oob" : "parsefmt_oob", "ASan " + vf::asan_what() + " while parsing '" + txt + "'" + (mode ? fmt(" with format #%d", mode) : std::string()), fmt("parse:%d:", mode) + vf::hex(txt));
		vf::asan_clear();
	}
	return v;
}

static const char ALPHA[] = "019TZ:-+. aGM,";
static const int NALPHA = sizeof(ALPHA) - 1;

static std::vector<std::string> templates() {
	std::vector<std::string> t;
	t.push_back("2021-11-29T23:31:10.25+01:30");
	t.push_back("20211129T233110.5-0130");
	t.push_back("2021-11-29T23:31Z");
	t.push_back("20211129T2331");
	t.push_back("Tue, 30 Nov 2021 00:31:10 GMT");
	t.push_back("0001-01-01T00:00:00");
	t.push_back("1/05/2030 12:30");
	t.push_back("2030-05-01 12:30:59");
	return t;
}
// one edit applied at position pos: kind 0 = substitute c, 1 = delete, 2 = insert c before
static bool edit(std::string& s, int pos, int kind, char c) {
	if (kind == 1) { if (pos >= (int)s.size()) return false; s.erase(pos, 1); return true; }
	if (kind == 0) { if (pos >= (int)s.size()) return false; s[pos] = c; return true; }
	if (pos > (int)s.size()) return false;
	s.insert(pos, 1, c); return true;
}

// Structure vectors for the ISO parser: a body of '1' digits of length 8..22 in which the positions the parser inspects for
// structure (4, 7: '-' of the extended date; 8, 10: 'T'; 13, 15, 16, 19: ':' / seconds / '.' / zone of either layout) take
// every combination of classes, followed by every tail of a fixed list (zone forms, fractions, up to total length 40).
static const int SPOS[] = { 4, 7, 8, 10, 13, 15, 16, 19 };
static const int NSPOS = 8;
static const char* TAILS[] = { "", "Z", "+01:30", "-0130", "+01", ".25", ".1234567890123456Z", "a",
                               "+", "-01:3", ".", ".5+01:30", "Z1", " GMT", "+01:30:00", "T11:11:11Z" };
static void shape_family(int lb, uint64_t vec, const char* cls, int ncls, int ntails) {
	std::string body(lb, '1');
	for (int i = 0; i < NSPOS && SPOS[i] < lb; i++) { body[SPOS[i]] = cls[vec % ncls]; vec /= ncls; }
	for (int k = 0; k < ntails; k++) {
		vf::add(C_SHAPE);
		double v = parse_one(body + TAILS[k], 0);
		if (v == v) vf::add(C_SHAPE_VALID);
	}
}

// ---- determinism of the HTTP-date path. It works on Strings derived from the input (split parts), whose slack the Flush device
// cannot poison: a read beyond the NUL of such a part is invisible to ASan but makes the result depend on stale heap bytes.
// The HTTP-shaped strings of the template neighbourhoods are parsed again in child processes of this executable that run with a
// different ASan malloc fill byte (the default 0xbe, '0' and ':'); all three must give the same result for every string.
static void for_each_http_string(bool T, const std::string& only, const std::function<void(const std::string&)>& cb) {
	if (!only.empty()) { cb(only); return; }
	std::vector<std::string> tp = templates();
	auto emit = [&](const std::string& s) { if (!s.empty() && s[0] > 'A' && s[0] < 'Z') cb(s); };
	for (size_t t = 0; t < tp.size(); t++) {
		const std::string& base = tp[t];
		for (int k = 0; k < 16; k++) emit(base + TAILS[k]);
		for (int p1 = 0; p1 <= (int)base.size(); p1++) {
			emit(base.substr(0, p1));
			for (int k1 = 0; k1 < 3; k1++) for (int c1 = 0; c1 < (k1 == 1 ? 1 : NALPHA); c1++) {
				std::string s1 = base;
				if (!edit(s1, p1, k1, ALPHA[c1])) continue;
				emit(s1);
				int lim = T ? (int)s1.size() : std::min((int)s1.size(), p1 + 6);
				for (int p2 = p1; p2 <= lim; p2++)
					for (int k2 = 0; k2 < 3; k2++) for (int c2 = 0; c2 < (k2 == 1 ? 1 : NALPHA); c2++) {
						std::string s2 = s1;
						if (edit(s2, p2, k2, ALPHA[c2])) emit(s2);
					}
			}
		}
	}
}
static const int DETM_FILLS[] = { 0xbe, '0', ':' };
// child: argv = --detm-child <fill> <outfile> <tier> [<hex of a single string>]; writes the fill byte it observes, then one double per string
static int detm_child(int argc, char** argv) {
	if (argc < 5) return 2;
	FILE* f = fopen(argv[3], "wb");
	if (!f) return 2;
	volatile unsigned char* probe = (volatile unsigned char*)malloc(48);
	unsigned char seen = probe[40];
	free((void*)probe);
	fwrite(&seen, 1, 1, f);
	std::string only = argc > 5 ? vf::unhex(argv[5]) : std::string();
	for_each_http_string(std::string(argv[4]) == "thorough", only, [&](const std::string& s) { double v = Date(vfx::A(s)).time(); fwrite(&v, sizeof v, 1, f); });
	fclose(f);
	return 0;
}
struct Detm { pid_t pid[3]; std::string file[3]; };
static Detm detm_start(const std::string& only) {
	Detm d;
	for (int i = 0; i < 3; i++) {
		d.file[i] = vf::scratch_dir() + fmt("/detm.%d", i);
		fflush(stdout); fflush(stderr);
		d.pid[i] = fork();
		if (d.pid[i] == 0) {
			const char* old = getenv("ASAN_OPTIONS");
			std::string o = std::string(old ? old : "") + fmt("%smalloc_fill_byte=%d:max_malloc_fill_size=65536", old && *old ? ":" : "", DETM_FILLS[i]);
			setenv("ASAN_OPTIONS", o.c_str(), 1);
			int fd = open("/dev/null", O_WRONLY); if (fd >= 0) { dup2(fd, 2); close(fd); } // ASan reports of the children: the main run has the oracle for those
			std::string fill = fmt("%d", DETM_FILLS[i]), hx = vf::hex(only);
			execl("/proc/self/exe", "c19_date", "--detm-child", fill.c_str(), d.file[i].c_str(), vf::opt.tier.c_str(), only.empty() ? (char*)0 : hx.c_str(), (char*)0);
			_exit(3);
		}
	}
	return d;
}
static int C_DETM;
static void detm_finish(Detm& d, const std::string& only) {
	std::vector<double> v[3];
	for (int i = 0; i < 3; i++) {
		int st = 0;
		while (waitpid(d.pid[i], &st, 0) < 0 && errno == EINTR) {}
		FILE* f = fopen(d.file[i].c_str(), "rb");
		unsigned char seen = 0;
		if (!f || fread(&seen, 1, 1, f) != 1 || !(WIFEXITED(st) && WEXITSTATUS(st) == 0)) { fprintf(stderr, "c19_date: determinism child %d failed (status %d)\n", i, st); _exit(2); }
		if (vf::have_asan() && seen != DETM_FILLS[i]) { fprintf(stderr, "c19_date: determinism child %d: malloc fill byte is %02x, wanted %02x\n", i, seen, DETM_FILLS[i]); _exit(2); }
		double x;
		while (fread(&x, sizeof x, 1, f) == 1) v[i].push_back(x);
		fclose(f); remove(d.file[i].c_str());
	}
	size_t idx = 0; int reported = 0;
	for_each_http_string(vf::opt.thorough(), only, [&](const std::string& s) {
		size_t i = idx++;
		if (i >= v[0].size() || i >= v[1].size() || i >= v[2].size()) return;
		vf::add(C_DETM); vf::add(C_EVAL);
		bool same = true;
		for (int k = 1; k < 3; k++) if (memcmp(&v[0][i], &v[k][i], sizeof(double)) != 0 && !(v[0][i] != v[0][i] && v[k][i] != v[k][i])) same = false;
		if (!same && reported++ < 20)
			bad("parse_nondeterministic", fmt("Date('%s').time() depends on uninitialised heap bytes: %.3f / %.3f / %.3f with malloc fill 0xbe / '0' / ':' (a part of the string is read beyond its end)", s.c_str(), v[0][i], v[1][i], v[2][i]), "detm:" + vf::hex(s));
	});
	if (idx != v[0].size() || idx != v[1].size() || idx != v[2].size()) { fprintf(stderr, "c19_date: determinism children returned %zu/%zu/%zu results for %zu strings\n", v[0].size(), v[1].size(), v[2].size(), idx); _exit(2); }
}

static void run_case(std::string k) {
	if (k.compare(0, 3, "tz:") == 0) { set_zone(true); k = k.substr(3); }
	if (k.compare(0, 8, "instant:") == 0) { long long d; int s; sscanf(k.c_str() + 8, "%lld:%d", &d, &s); check_instant(d, s, 2); }
	else if (k.compare(0, 5, "frac:") == 0) { std::string b = vf::unhex(k.substr(5)); double t; memcpy(&t, b.data(), 8); check_fraction(t, false); }
	else if (k.compare(0, 5, "zone:") == 0) { int o, sp, s; long long d; sscanf(k.c_str() + 5, "%d:%d:%lld:%d", &o, &sp, &d, &s); check_zone(o, sp, d, s); }
	else if (k.compare(0, 11, "fracdigits:") == 0) { int n, p, s; long long d; sscanf(k.c_str() + 11, "%d:%d:%lld:%d", &n, &p, &d, &s); check_fracdigits(n, p, d, s); }
	else if (k.compare(0, 6, "parse:") == 0) { int mode = atoi(k.c_str() + 6); parse_one(vf::unhex(k.substr(k.find(':', 6) + 1)), mode); }
}

int main(int argc, char** argv) {
	if (argc > 1 && strcmp(argv[1], "--detm-child") == 0) return detm_child(argc, argv);
	vf::init(argc, argv, "C19", "c19_date");
	C_EVAL = vf::counter("evaluations"); C_DISTINCT = vf::counter("distinct_nontrivial");
	C_FASTPATH = vf::counter("w.days_in_1904_2099_fast_path"); C_SLOWPATH = vf::counter("w.days_in_400_100_4_block_path"); C_LEAPDAY = vf::counter("w.leap_days");
	C_PARSE_VALID = vf::counter("w.parse_gave_value"); C_PARSE_INVALID = vf::counter("w.parse_gave_invalid"); C_FMTPARSE = vf::counter("format_parse_roundtrips");
	C_ISO_VALID = vf::counter("w.iso_parser_gave_value"); C_ISO_INVALID = vf::counter("w.iso_parser_gave_invalid"); C_HTTP_VALID = vf::counter("w.http_shape_gave_value");
	C_TZPASS = vf::counter("w.cases_under_fixed_offset_zone"); C_TZ_OTHERDAY = vf::counter("w.zone_local_date_differs_from_utc_date");
	C_TIE = vf::counter("w.instants_at_ms_rounding_tie"); C_TIE_SEC = vf::counter("w.tie_between_two_seconds"); C_TIE_DAY = vf::counter("w.tie_between_two_days");
	C_TIE_YEAR = vf::counter("w.tie_between_two_years"); C_TIE_TZ = vf::counter("w.tie_under_fixed_offset_zone");
	C_NOSEC = vf::counter("w.iso_time_without_seconds"); C_NOSEC_Z = vf::counter("w.iso_time_without_seconds_Z_or_local");
	C_SPELL[0] = vf::counter("w.offset_spelled_hh_colon_mm"); C_SPELL[1] = vf::counter("w.offset_spelled_hhmm"); C_SPELL[2] = vf::counter("w.offset_spelled_hh");
	C_FRACNEG = vf::counter("w.fraction_with_negative_offset"); C_FRACLOCAL = vf::counter("w.fraction_without_zone");
	C_SHAPE = vf::counter("w.structure_vector_strings"); C_SHAPE_VALID = vf::counter("w.structure_vector_gave_value"); C_LONGSTR = vf::counter("w.strings_of_length_32_to_40");
	C_DETM = vf::counter("w.http_strings_compared_under_three_heap_fills");
	C_MIXED_VALUE = vf::counter("mixed_layout_offset_gave_value"); C_MIXED_INVALID = vf::counter("mixed_layout_offset_gave_invalid"); // either may be 0: not w.*
	if (vf::opt.replay && vf::opt.kase.compare(0, 5, "detm:") == 0) { std::string one = vf::unhex(vf::opt.kase.substr(5)); Detm d = detm_start(one); detm_finish(d, one); return vf::finish(); }
	if (vf::opt.replay) { vf::parallel(1, [&](uint64_t) { run_case(vf::opt.kase); }); return vf::finish(); }
	bool T = vf::opt.thorough();

	// the fixed days of (b): leap days, century / 400-year edges, fast-path limits, year ends; 200 DISTINCT days
	std::vector<int64_t> days;
	int ys[] = { 1, 4, 100, 400, 1600, 1700, 1900, 1903, 1904, 1970, 1972, 2000, 2038, 2099, 2100, 2400, 9996, 9999 };
	for (size_t i = 0; i < sizeof ys / sizeof *ys; i++) {
		int y = ys[i];
		days.push_back(days_from_civil(y, 1, 1)); days.push_back(days_from_civil(y, 2, 28)); days.push_back(days_from_civil(y, 3, 1));
		days.push_back(days_from_civil(y, 12, 31)); days.push_back(days_from_civil(y, 3, 1) - 1); days.push_back(days_from_civil(y, 7, 31));
	}
	std::sort(days.begin(), days.end()); days.erase(std::unique(days.begin(), days.end()), days.end());
	for (int k = 0; days.size() < 200; k++) { int64_t d = DAY0 + (int64_t)k * 18397 + 11; if (std::find(days.begin(), days.end(), d) == days.end()) days.push_back(d); }
	// the bases of (c): second / day / year boundaries
	std::vector<double> bases;
	int by[] = { 1, 1600, 1900, 1904, 1969, 1970, 1971, 2000, 2024, 2099, 2100, 9999 };
	for (size_t i = 0; i < sizeof by / sizeof *by; i++)
		for (int mo = 1; mo <= 12; mo += 11) {
			int64_t d = days_from_civil(by[i], mo, mo == 1 ? 1 : 31);
			int sods[] = { 0, 1, 59, 60, 3599, 3600, 43200, 86398, 86399 };
			for (size_t k = 0; k < sizeof sods / sizeof *sods; k++) bases.push_back((double)d * 86400.0 + sods[k]);
		}
	uint64_t ndays = (uint64_t)(DAYN - DAY0 + 1);
	const uint64_t CH = 4096;
	vf::setinfo("days_enumerated", fmt("%llu", (unsigned long long)ndays));
	vf::setinfo("distinct_fixed_days", fmt("%llu", (unsigned long long)days.size()));

	Detm detm = detm_start(""); // runs beside the families below; collected at the end
	double tph = vf::now_s(), cph = 0; std::string phases; // wall / CPU seconds per family (evidence only)
	auto phase = [&](const char* name) {
		struct rusage ru; getrusage(RUSAGE_CHILDREN, &ru);
		double n = vf::now_s(), c = ru.ru_utime.tv_sec + ru.ru_stime.tv_sec + 1e-6 * (ru.ru_utime.tv_usec + ru.ru_stime.tv_usec);
		phases += fmt("%s%s=%.0f/%.0f", phases.empty() ? "" : " ", name, n - tph, c - cph); tph = n; cph = c;
	};
	for (int pass = 0; pass < 2; pass++) {
		// pass 0: TZ=UTC. pass 1: the same value families under TZ=VRF-05 (UTC+05:00, no DST), where UTC and local time differ:
		// a UTC path that consults the local zone, or a local path that does not, gives a wrong instant or text here.
		set_zone(pass == 1);
		bool Z = pass == 1;

		// (a) every day of years 1..9999 at 00:00:00, 12:00:00, 23:59:59 (+ more times of day in the thorough tier); quick renders the
		//     local texts at 12:00:00 only. Zone pass: every day at 20:00:00 UTC (= 01:00 of the next local day); quick without the texts
		vf::parallel((ndays + CH - 1) / CH, [&](uint64_t blk) {
			static const int sods_q[] = { 0, 43200, 86399 };
			static const int sods_t[] = { 0, 1, 59, 60, 3599, 3600, 43199, 43200, 86340, 86399 };
			static const int sods_z[] = { 72000 };
			const int* sods = Z ? sods_z : T ? sods_t : sods_q; int ns = Z ? 1 : T ? 10 : 3;
			for (uint64_t i = blk * CH; i < (blk + 1) * CH && i < ndays; i++)
				for (int k = 0; k < ns; k++) check_instant(DAY0 + (int64_t)i, sods[k], Z ? (T ? 2 : 0) : (T || sods[k] == 43200) ? 2 : 1);
		});
		//     zone pass, both tiers: every day of the boundary years with all texts, at three times of day
		if (Z) vf::parallel(sizeof ys / sizeof *ys, [&](uint64_t i) {
			for (int64_t d = days_from_civil(ys[i], 1, 1); d <= days_from_civil(ys[i], 12, 31); d++) { check_instant(d, 0, 2); check_instant(d, 68399, 2); check_instant(d, 72000, 2); }
		});

		phase(Z ? "a_tz" : "a");
		// (b) every second of the 200 fixed days, all texts on every 61st second (thorough, UTC pass: on every second); zone pass, quick: only every 61st second
		vf::parallel(days.size(), [&](uint64_t i) { for (int s = 0; s < 86400; s++) { bool f = (T && !Z) || s % 61 == 0; if (Z && !T && !f) continue; check_instant(days[i], s, f ? 2 : 0); } });
		phase(Z ? "b_tz" : "b");

		// (c) instants with fractions around second/day/year boundaries: a grid of fractions, and the doubles within 3 steps of the
		//     millisecond-rounding ties x.0005, x.4995, x.9995
		static const double fr[] = { 0, .0004, .0006, .001, .25, .4994, .4996, .5, .75, .999, .9994, .9996, .99996 };
		vf::parallel(bases.size(), [&](uint64_t i) {
			for (size_t k = 0; k < sizeof fr / sizeof *fr; k++) check_fraction(bases[i] + fr[k], false);
			ties(bases[i] + 0.0005, 3, false); ties(bases[i] + 0.4995, 3, false); ties(bases[i] + 0.9995, 3, false);
		});
		//     the ties half a millisecond before every year start and at the end of its first second (zone pass: quick skips)
		if (!Z || T) vf::parallel(9999, [&](uint64_t i) {
			double t0 = (double)days_from_civil((int64_t)i + 1, 1, 1) * 86400.0;
			ties(t0 - 0.0005, 3, false); ties(t0 + 0.9995, 3, false);
		}, 16);
		//     thorough: the tie before every day start, and the tie before every second of the 200 fixed days
		if (T && !Z) {
			vf::parallel((ndays + CH - 1) / CH, [&](uint64_t blk) {
				for (uint64_t i = blk * CH; i < (blk + 1) * CH && i < ndays; i++) ties((double)(DAY0 + (int64_t)i) * 86400.0 - 0.0005, 3, true);
			});
			vf::parallel(days.size() * 24, [&](uint64_t j) {
				int64_t d = days[j / 24]; int h = (int)(j % 24);
				for (int s = h * 3600; s < (h + 1) * 3600; s++) ties((double)d * 86400.0 + s - 0.0005, 1, true);
			});
		}

		phase(Z ? "c_tz" : "c");
		// (d) every zone offset -23:59 .. +23:59 in the spellings +hh:mm and +hhmm, every whole hour as +hh, on a few instants;
		//     with and without seconds; offset 0 also as "Z" and without zone (local time)
		vf::parallel(2 * 1439 + 1, [&](uint64_t i) {
			int off = (int)i - 1439;
			int64_t ds[] = { days_from_civil(2021, 11, 29), days_from_civil(1970, 1, 1), days_from_civil(2000, 2, 29), days_from_civil(1, 1, 2), days_from_civil(9999, 12, 30) };
			for (int sp = 0; sp < 3; sp++) {
				if (sp == 2 && off % 60 != 0) continue;
				for (size_t k = 0; k < 5; k++) { check_zone(off, sp, ds[k], 0); check_zone(off, sp, ds[k], 84670); check_zone(off, sp, ds[k], 84660); }
			}
		}, 32);

		// (e) fractional seconds of 1..9 digits with every zone form
		vf::parallel(9 * 6, [&](uint64_t i) { check_fracdigits((int)(i / 6) + 1, (int)(i % 6), days_from_civil(2021, 11, 29), 84670); check_fracdigits((int)(i / 6) + 1, (int)(i % 6), days_from_civil(1969, 12, 31), 86399); });
		phase(Z ? "de_tz" : "de");
	}
	set_zone(false);

	// (f) parser robustness
	//   all strings of length <= 5 over the alphabet (both parsers)
	vf::parallel(NALPHA * NALPHA, [&](uint64_t pre) {
		for (int len = 0; len <= 5; len++) {
			if (len < 2) { if (pre != 0) continue; }
			uint64_t rest = 1; for (int i = 2; i < len; i++) rest *= NALPHA;
			if (len < 2) { // lengths 0 and 1 handled once
				if (len == 0) { for (int md = 0; md <= 4; md++) parse_one("", md); }
				else for (int c = 0; c < NALPHA; c++) for (int md = 0; md <= 4; md++) parse_one(std::string(1, ALPHA[c]), md);
				continue;
			}
			for (uint64_t r = 0; r < rest; r++) {
				std::string s; s += ALPHA[pre / NALPHA]; s += ALPHA[pre % NALPHA];
				uint64_t x = r; for (int i = 2; i < len; i++) { s += ALPHA[x % NALPHA]; x /= NALPHA; }
				for (int md = 0; md <= 4; md++) parse_one(s, md);
			}
		}
	});
	//   templates: every truncation, every single edit, every pair of edits (thorough: all pairs; quick: pairs at distance <= 6)
	std::vector<std::string> tp = templates();
	struct Job { int t, pos; };
	std::vector<Job> jobs;
	for (size_t t = 0; t < tp.size(); t++) for (int p = 0; p <= (int)tp[t].size(); p++) { Job j = { (int)t, p }; jobs.push_back(j); }
	vf::parallel(jobs.size(), [&](uint64_t ji) {
		const std::string& base = tp[jobs[ji].t]; int p1 = jobs[ji].pos;
		for (int md = 0; md <= 4; md++) parse_one(base.substr(0, p1), md);
		for (int k1 = 0; k1 < 3; k1++) for (int c1 = 0; c1 < (k1 == 1 ? 1 : NALPHA); c1++) {
			std::string s1 = base;
			if (!edit(s1, p1, k1, ALPHA[c1])) continue;
			for (int md = 0; md <= 4; md++) parse_one(s1, md);
			int lim = T ? (int)s1.size() : std::min((int)s1.size(), p1 + 6);
			for (int p2 = p1; p2 <= lim; p2++)
				for (int k2 = 0; k2 < 3; k2++) for (int c2 = 0; c2 < (k2 == 1 ? 1 : NALPHA); c2++) {
					std::string s2 = s1;
					if (!edit(s2, p2, k2, ALPHA[c2])) continue;
					parse_one(s2, 0);
					if (T || (c2 & 3) == 0) for (int md = 1; md <= 4; md++) parse_one(s2, md);
				}
		}
	});
	phase("f_edits");
	//   structure vectors, body lengths 8..22 (quick: 4 classes x 8 tails; thorough: 6 classes x 16 tails), total lengths 8..40;
	//   the templates with every tail (the HTTP form reaches lengths 32..47)
	{
		const char* cls = T ? "1-:T.+" : "1-:T"; int ncls = T ? 6 : 4, ntails = T ? 16 : 8;
		struct SJ { int lb; uint64_t v0, v1; };
		std::vector<SJ> sj;
		for (int lb = 8; lb <= 22; lb++) {
			uint64_t n = 1; for (int i = 0; i < NSPOS && SPOS[i] < lb; i++) n *= ncls;
			for (uint64_t v = 0; v < n; v += 4096) { SJ j = { lb, v, std::min(n, v + 4096) }; sj.push_back(j); }
		}
		vf::parallel(sj.size(), [&](uint64_t i) { for (uint64_t v = sj[i].v0; v < sj[i].v1; v++) shape_family(sj[i].lb, v, cls, ncls, ntails); });
		vf::parallel(tp.size(), [&](uint64_t i) { for (int k = 0; k < 16; k++) for (int md = 0; md <= 4; md++) parse_one(tp[i] + TAILS[k], md); });
	}
	phase("f_vectors");
	detm_finish(detm, "");
	phase("determinism");
	vf::setinfo("phase_wall_cpu_s", vf::jstr(phases));
	vf::sample("instant 0001-01-01T00:00:00Z .. 9999-12-31T23:59:59Z: splitUTC, Date(UTC,fields), LONG/SHORT/HTTP/FULL format->parse; again under TZ=VRF-05 (UTC+5) with local texts and Date(fields) shifted by 18000 s");
	vf::sample("Date('2021-11-29T23:31-23:59'), Date('20211129T233110.049999999-01'), Date(1000000000.9995 -3..+3 ulp).toUTCString(FULL), tie before every year start e.g. Date(-62104060800.00051)");
	vf::sample("parse edits: 'Tue, 30 Nov 2021 00:31:10 GMT' with every 1- and 2-edit (substitute/delete/insert over \"" + std::string(ALPHA) + "\") and every truncation; structure vectors e.g. '1111-11T11:11:11:111+01:30'");
	return vf::finish();
}
