// C03 — String vs a byte-string model: (1) explicit-state BFS over in-place mutation histories (incl. self-aliasing
// arguments), (2) complete enumeration of small-alphabet inputs for the pure functions, (3) integer round trips,
// (4) printf-style constructors over every argument length, (5) text of float/double/bool, the remaining text constructors,
// template operator= / operator<<, fix(n), every operator+ form over boundary length pairs.
#include <asl/String.h>
#include <asl/Array.h>
#include <asl/Map.h>
#include <limits.h>
#include <float.h>
#include <math.h>
#include <new>
#include <map>
#include "vf.h"
#include "aslx.h"
using namespace asl;
using vf::fmt;
using vfx::S; using vfx::A;

static int C_EVAL, C_DIST, W_INLINE2HEAP, W_HEAP_DOUBLE, W_REALLOC, W_SELF_APPEND, W_SELF_ASSIGN, W_INLINE_RESULT, W_HEAP_RESULT, W_F_RETRY, W_CTOR_RETRY;
static int W_CTORBLK_GROW, W_CTORBLK_FULL_APPCHAR, W_CTORBLK_SELFAPP, W_SELFAPP_GROW, W_SELFAPP_NOGROW, W_SELFAPP_REALLOC_MOVED;
static int W_DOUBLE_HEAP, W_DOUBLE_INLINE, W_FLOAT, W_BOOL, W_HIGHBYTE_TRIMCASES, W_HIGHBYTE_EDGE, W_SPLIT_REUSED_NONEMPTY, W_DIC_PAIRS, W_DIC_SKIPPED, W_DIC_OVERWRITE,
	W_SUBSTR_START_BEYOND, W_SUBSTR_NEG_START, W_SUBSTR_COUNT_CLAMPED, W_CHAR_OVERLOADS, W_EMPTY_HEAP_SEARCH, W_SIGNED_ORDER, W_CONCAT, W_CONCAT_HEAP_RHS, W_CONCAT_AT_BOUNDARY,
	W_TEXT_CTORS, W_REPEAT_NEG, W_TMPL_ASSIGN, W_SHL_FORMS, W_FIX_N;

// ================================================================ (1) mutation histories
struct StrSys {
	enum Kind { ASSIGN_LIT, ASSIGN_STR, APP_CHAR, APP_LIT, APP_SELF, APP_SELF_SUB, SELF_ASSIGN, ASSIGN_TAIL, APPEND_PTR, RESIZE, TRIM, REPLACEME, CLEAR, FIX_SHORT, APP_1000, APP_AUX, AUX_FROM_S, SHL_INT, PAD_SPACES, NEW_CTOR };
	struct O { Kind k; int a, b; };
	std::vector<O> ops;
	String* s; String* t; std::string ms, mt;
	bool ctorLive; // s still lives in the block its constructor (alloc(): max(n+1, 20) bytes) made
	int first;     // >= 0: every history starts with this op (applied by reset()); used to split the depth-6 search into one search per first step
	StrSys() : s(0), t(0), ctorLive(false), first(-1) {
		int lens[] = { 0, 1, 7, 15, 16, 19, 20, 23, 24, 47 };
		for (int i = 0; i < 10; i++) { add(ASSIGN_LIT, lens[i]); }
		add(ASSIGN_STR, 15); add(ASSIGN_STR, 16); add(ASSIGN_STR, 30);
		add(APP_CHAR); add(APP_LIT, 2); add(APP_LIT, 9);
		add(APP_SELF); add(APP_SELF_SUB, 0); add(APP_SELF_SUB, 1); add(APP_SELF_SUB, 2);
		add(SELF_ASSIGN); add(ASSIGN_TAIL, 1); add(ASSIGN_TAIL, 2); add(APPEND_PTR, 1);
		add(RESIZE, 0); add(RESIZE, 1); add(RESIZE, 2); add(RESIZE, 3);
		add(TRIM); add(REPLACEME); add(CLEAR); add(FIX_SHORT); add(APP_1000); add(APP_AUX); add(AUX_FROM_S); add(SHL_INT); add(PAD_SPACES);
		// appended last so that op numbers in old case strings keep their meaning
		add(NEW_CTOR, 16); add(NEW_CTOR, 19); add(NEW_CTOR, 20); add(NEW_CTOR, 33);
	}
	void add(Kind k, int a = 0, int b = 0) { O o = { k, a, b }; ops.push_back(o); }
	int nops() { return (int)ops.size(); }
	void reset() { ctorLive = false; delete s; delete t; s = new String(); t = new String("aux-string-that-lives-on-the-heap"); ms = ""; std::string("aux-string-that-lives-on-the-heap").swap(mt); std::string().swap(ms); if (first >= 0) { std::string e; apply(first, e); } }
	static std::string lit(int n) { std::string r; for (int i = 0; i < n; i++) r += char('a' + i % 26); return r; }
	bool enabled(int op) {
		const O& o = ops[op];
		size_t n = ms.size();
		switch (o.k) {
		case APP_SELF: return n >= 1 && n <= 1100;
		case APP_SELF_SUB: return n >= 3 && n < 1100;
		case ASSIGN_TAIL: return (int)n >= o.a; case APPEND_PTR: return n >= 3 && n < 1100;
		case RESIZE: return o.a == 0 ? n >= 1 : n < 1100;
		case APP_1000: return n < 100;
		case FIX_SHORT: return n >= 2;
		case APP_CHAR: case APP_LIT: case APP_AUX: case SHL_INT: case PAD_SPACES: return n < 1100;
		default: return true;
		}
	}
	const char* predict(int) { return 0; }
	std::string opname(int op) {
		const O& o = ops[op];
		switch (o.k) {
		case ASSIGN_LIT: return fmt("s = \"<%d chars>\"", o.a); case ASSIGN_STR: return fmt("s = String(<%d chars>)", o.a);
		case APP_CHAR: return "s += 'x'"; case APP_LIT: return fmt("s += \"<%d chars>\"", o.a); case APP_SELF: return "s += s";
		case APP_SELF_SUB: return o.a == 0 ? "s += s.substring(0, n/2)" : o.a == 1 ? "s += s.substring(n/2, n)" : "s += s.substring(1, n-1)";
		case SELF_ASSIGN: return "s = s"; case ASSIGN_TAIL: return fmt("s = *s + %d", o.a); case APPEND_PTR: return "s.append(*s + 1, n - 2)";
		case RESIZE: return o.a == 0 ? "s.resize(n-1)" : o.a == 1 ? "s.resize(n+1); fill" : o.a == 2 ? "s.resize(cap); fill" : "s.resize(2n+3); fill";
		case TRIM: return "s.trim()"; case REPLACEME: return "s.replaceme('a','A')"; case CLEAR: return "s.clear()"; case FIX_SHORT: return "s[n/2] = 0; s.fix()";
		case APP_1000: return "s += <1000 chars>"; case APP_AUX: return "s += aux"; case AUX_FROM_S: return "aux = s"; case SHL_INT: return "s << 12345"; case PAD_SPACES: return "s = \" \" + s + \"\\t \"";
		case NEW_CTOR: return fmt("s = new String(<%d chars>, %d)", o.a, o.a);
		}
		return "?";
	}
	bool apply(int op, std::string& err) {
		const O& o = ops[op];
		int n = (int)ms.size();
		int size0 = s->_size;
		const char* p0 = size0 ? s->_str : 0;
		bool onCtor = ctorLive;
		switch (o.k) {
		case NEW_CTOR: { std::string l = lit(o.a); delete s; s = 0; s = new String(l.data(), (int)l.size()); ms = l; ctorLive = s->_size != 0; return observe(err); }
		case ASSIGN_LIT: { std::string l = lit(o.a); *s = l.c_str(); ms = l; break; }
		case ASSIGN_STR: { std::string l = lit(o.a); String x = A(l); *s = x; ms = l; break; }
		case APP_CHAR: *s += 'x'; ms += 'x'; break;
		case APP_LIT: { std::string l = lit(o.a); *s += l.c_str(); ms += l; break; }
		case APP_SELF: vf::add(W_SELF_APPEND); *s += *s; ms += std::string(ms); break;
		case APP_SELF_SUB: { int i = o.a == 0 ? 0 : o.a == 1 ? n / 2 : 1, j = o.a == 0 ? n / 2 : o.a == 1 ? n : n - 1; *s += s->substring(i, j); ms += ms.substr(i, j - i); break; }
		case SELF_ASSIGN: { String& r = *s; *s = r; vf::add(W_SELF_ASSIGN); break; }
		case ASSIGN_TAIL: vf::add(W_SELF_ASSIGN); *s = **s + o.a; ms = ms.substr(o.a); break;
		case APPEND_PTR: vf::add(W_SELF_APPEND); s->append(**s + 1, n - 2); ms += ms.substr(1, n - 2); break;
		case RESIZE: { int m = o.a == 0 ? n - 1 : o.a == 1 ? n + 1 : o.a == 2 ? s->cap() : 2 * n + 3; s->resize(m); for (int i = n; i < m; i++) (*s)[i] = 'r'; ms.resize(m, 'r'); if (m == s->cap()) { /* resize(cap) must still leave room for the terminator */ } break; }
		case TRIM: s->trim(); { size_t b = ms.find_first_not_of(" \t\n\r"); size_t e = ms.find_last_not_of(" \t\n\r"); ms = b == std::string::npos ? "" : ms.substr(b, e - b + 1); } break;
		case REPLACEME: s->replaceme('a', 'A'); std::replace(ms.begin(), ms.end(), 'a', 'A'); break;
		case CLEAR: s->clear(); ms.clear(); break;
		case FIX_SHORT: (*s)[n / 2] = '\0'; s->fix(); ms.resize(n / 2); break;
		case APP_1000: { std::string l = lit(1000); *s += l.c_str(); ms += l; break; }
		case APP_AUX: *s += *t; ms += mt; break;
		case AUX_FROM_S: *t = *s; mt = ms; break;
		case SHL_INT: *s << 12345; ms += "12345"; break;
		case PAD_SPACES: *s = " " + *s + "\t "; ms = " " + ms + "\t "; break;
		}
		if (size0 == 0 && s->_size != 0) vf::add(W_INLINE2HEAP);
		else if (size0 != 0 && s->_size > size0) { if (size0 < 1024) vf::add(W_HEAP_DOUBLE); else vf::add(W_REALLOC); }
		bool alias = o.k == APP_SELF || o.k == APPEND_PTR; // the argument really points into s's own buffer
		if (alias) {
			if (s->_size != size0) vf::add(W_SELFAPP_GROW); else vf::add(W_SELFAPP_NOGROW);
			if (size0 >= 1024 && s->_size != size0) { if (s->_str != p0) vf::add(W_SELFAPP_REALLOC_MOVED); } // (under ASan realloc always moves the block)
		}
		if (onCtor) {
			if (s->_size != size0) { vf::add(W_CTORBLK_GROW); ctorLive = false; }
			if (o.k == APP_CHAR && n == size0 - 1) vf::add(W_CTORBLK_FULL_APPCHAR);
			if (alias) vf::add(W_CTORBLK_SELFAPP);
		}
		return observe(err);
	}
	bool one(const String& x, const std::string& m, const char* nm, std::string& err) {
		if (x.length() != (int)m.size()) { err = fmt("%s.length() = %d, reference %d", nm, x.length(), (int)m.size()); return false; }
		if ((int)strlen(*x) != x.length()) { err = fmt("%s: strlen = %d but length() = %d", nm, (int)strlen(*x), x.length()); return false; }
		if (memcmp(*x, m.data(), m.size()) != 0) { err = fmt("%s = '%.60s', reference '%.60s'", nm, *x, m.c_str()); return false; }
		if (!(x.cap() > x.length())) { err = fmt("%s: capacity %d does not exceed length %d", nm, x.cap(), x.length()); return false; }
		return true;
	}
	bool observe(std::string& err) { return one(*s, ms, "s", err) && one(*t, mt, "aux", err); }
	std::string canon() {
		// contents matter only through length, inline/heap shape and where spaces / 'a' / NUL-able positions are; keep exact for short, summarised for long
		std::string c = fmt("z%d|", s->_size);
		if (ms.size() <= 64) c += ms; else c += fmt("n%d:", (int)ms.size()) + ms.substr(0, 8) + ".." + ms.substr(ms.size() - 8);
		c += fmt("|z%d|", t->_size);
		if (mt.size() <= 64) c += mt; else c += fmt("n%d:", (int)mt.size()) + mt.substr(0, 8) + ".." + mt.substr(mt.size() - 8);
		return c;
	}
};

// ================================================================ (2) pure functions
static void bad(const char* sig, const std::string& d, const std::string& k) { vf::violation(sig, d, k); }
static bool asanChk(const char* what, const std::string& k) {
	if (vf::asan_tripped()) { bad("asan", std::string("ASan ") + vf::asan_what() + " in " + what, k); vf::asan_clear(); return true; }
	return false;
}
static void noteShape(const String& r) { if (r._size == 0) vf::add(W_INLINE_RESULT); else vf::add(W_HEAP_RESULT); }
static bool sane(const String& r) { return (int)strlen(*r) == r.length() && r.cap() > r.length(); }

static std::vector<std::string> refSplit(const std::string& s, const std::string& sep) {
	std::vector<std::string> out; size_t i = 0;
	for (;;) { size_t j = s.find(sep, i); if (j == std::string::npos) { out.push_back(s.substr(i)); break; } out.push_back(s.substr(i, j - i)); i = j + sep.size(); }
	return out;
}
static std::string refReplace(const std::string& s, const std::string& a, const std::string& b) {
	std::string out; size_t i = 0;
	for (;;) { size_t j = s.find(a, i); if (j == std::string::npos) { out += s.substr(i); break; } out += s.substr(i, j - i) + b; i = j + a.size(); }
	return out;
}
static std::string nth(const char* alpha, int na, int len, uint64_t idx) { std::string s; for (int i = 0; i < len; i++) { s += alpha[idx % na]; idx /= na; } return s; }
static uint64_t ipow(uint64_t b, int e) { uint64_t r = 1; while (e--) r *= b; return r; }

static void pure_substring(int len, int pad) {
	std::string m = std::string(pad, 'z') + StrSys::lit(len);
	String s = A(m);
	int L = (int)m.size();
	for (int i = 0; i <= L; i++) for (int j = i; j <= L; j++) {
		std::string k = fmt("substring:%d:%d:%d:%d", len, pad, i, j);
		vf::cur(k); vf::add(C_EVAL);
		String r = s.substring(i, j); noteShape(r);
		if (S(r) != m.substr(i, j - i) || !sane(r)) bad("substring", fmt("substring(%d,%d) of a %d-char string = '%s'", i, j, L, *r), k);
		String q = s.substr(i, j - i);
		if (S(q) != m.substr(i, j - i) || !sane(q)) bad("substr", fmt("substr(%d,%d) of a %d-char string = '%s'", i, j - i, L, *q), k);
		if (j == L) { String t = s.substring(i), u = s.substr(i); if (S(t) != m.substr(i) || S(u) != m.substr(i)) bad("substring", fmt("substring(%d) / substr(%d)", i, i), k); }
		asanChk("substring/substr", k);
	}
	// substr(i, n) over every start in [-L, L+2] (negative counts from the end, a start beyond the end is clamped to it) and every count in [0, L+2] (clamped)
	for (int i = -L; i <= L + 2; i++) {
		std::string k = fmt("substring:%d:%d:substr:%d", len, pad, i);
		vf::cur(k);
		int ii = i < 0 ? i + L : i; if (ii > L) ii = L;
		for (int n = 0; n <= L + 2; n++) {
			vf::add(C_EVAL);
			int jj = std::min(ii + n, L);
			String q = s.substr(i, n);
			if (i > L) vf::add(W_SUBSTR_START_BEYOND); else if (i < 0) vf::add(W_SUBSTR_NEG_START);
			if (ii + n > L) vf::add(W_SUBSTR_COUNT_CLAMPED);
			if (S(q) != m.substr(ii, jj - ii) || !sane(q)) bad("substr", fmt("substr(%d,%d) of a %d-char string = '%s', reference '%s'", i, n, L, *q, m.substr(ii, jj - ii).c_str()), k);
		}
		String u = s.substr(i);
		if (S(u) != m.substr(ii) || !sane(u)) bad("substr", fmt("substr(%d) of a %d-char string = '%s'", i, L, *u), k);
		asanChk("substr", k);
	}
	for (int i = 1; i <= L; i++) { String r = s.substr(-i, L + 5); if (S(r) != m.substr(L - i)) bad("substr", fmt("substr(-%d, n+5)", i), fmt("substring:%d:%d:%d:%d", len, pad, 0, 0)); }
}
static int sgn(int x) { return x < 0 ? -1 : x > 0 ? 1 : 0; }
// alpha 0: {a, b}; alpha 1: {a, 0xE9} (a byte that is negative as a signed char: order and equality must be those of unsigned bytes).
// pad > 0: that many 'b' in front (heap); pad 0: as is (inline); pad -1: as is, but living in a 25-byte heap block (the empty string too)
static void pure_search(uint64_t sidx, int slen, int pad, int alpha = 0) {
	const char* al = alpha ? "a\xE9" : "ab";
	std::string m = std::string(pad > 0 ? pad : 0, 'b') + nth(al, 2, slen, sidx);
	String s = A(pad < 0 ? std::string(24, 'b') : m);
	if (pad < 0) { s = m.c_str(); if (s._size != 25) bad("harness", "heap-with-slack placement not obtained", "search"); if (m.empty()) vf::add(W_EMPTY_HEAP_SEARCH); }
	for (int plen = 0; plen <= 3; plen++) for (uint64_t pi = 0; pi < ipow(2, plen); pi++) {
		std::string p = nth(al, 2, plen, pi);
		std::string k = alpha ? fmt("searchE:%d:%llu:%d:%d.%llu", slen, (unsigned long long)sidx, pad, plen, (unsigned long long)pi) : fmt("search:%d:%llu:%d:%s", slen, (unsigned long long)sidx, pad, p.c_str());
		vf::cur(k); vf::add(C_EVAL);
		String P = A(p);
		vfx::Flush f1(s), f2(P);
		size_t e = m.find(p); int ei = e == std::string::npos ? -1 : (int)e;
		if (s.indexOf(P) != ei || s.indexOf(p.c_str()) != ei || s.contains(P) != (ei >= 0)) bad("indexOf", fmt("'%s'.indexOf('%s') = %d, reference %d", m.c_str(), p.c_str(), s.indexOf(P), ei), k);
		for (int i0 = 0; i0 <= (int)m.size(); i0++) { size_t e2 = m.find(p, i0); int r = s.indexOf(P, i0); if (r != (e2 == std::string::npos ? -1 : (int)e2)) bad("indexOf", fmt("'%s'.indexOf('%s', %d) = %d", m.c_str(), p.c_str(), i0, r), k); }
		if (plen) { size_t l = m.rfind(p); int li = l == std::string::npos ? -1 : (int)l; if (s.lastIndexOf(p.c_str()) != li) bad("lastIndexOf", fmt("'%s'.lastIndexOf('%s') = %d, reference %d", m.c_str(), p.c_str(), s.lastIndexOf(p.c_str()), li), k); }
		if (plen == 1) {
			char c = p[0];
			size_t l = m.rfind(c); if (s.lastIndexOf(c) != (l == std::string::npos ? -1 : (int)l) || s.indexOf(c) != ei) bad("indexOf", "char overloads", k);
			for (int i0 = 0; i0 <= (int)m.size(); i0++) { size_t e2 = m.find(c, i0); int r = s.indexOf(c, i0); if (r != (e2 == std::string::npos ? -1 : (int)e2)) bad("indexOf", fmt("%s.indexOf(char 0x%02x, %d) = %d", vf::hex(m).c_str(), (unsigned char)c, i0, r), k); }
			bool sw1 = !m.empty() && m[0] == c, ew1 = !m.empty() && m[m.size() - 1] == c, eq1 = m.size() == 1 && m[0] == c;
			if (s.contains(c) != (ei >= 0)) bad("contains", fmt("%s.contains(char 0x%02x)", vf::hex(m).c_str(), (unsigned char)c), k);
			if (s.startsWith(c) != sw1) bad("startsWith", fmt("%s.startsWith(char 0x%02x)", vf::hex(m).c_str(), (unsigned char)c), k);
			if (s.endsWith(c) != ew1) bad("endsWith", fmt("%s.endsWith(char 0x%02x)", vf::hex(m).c_str(), (unsigned char)c), k);
			if ((s == c) != eq1 || (s != c) != !eq1) bad("compare", fmt("%s ==/!= char 0x%02x", vf::hex(m).c_str(), (unsigned char)c), k);
			vf::add(W_CHAR_OVERLOADS);
		}
		if (s.contains(p.c_str()) != (ei >= 0)) bad("contains", fmt("%s.contains(const char* %s)", vf::hex(m).c_str(), vf::hex(p).c_str()), k);
		bool sw = m.size() >= p.size() && m.compare(0, p.size(), p) == 0, ew = m.size() >= p.size() && m.compare(m.size() - p.size(), p.size(), p) == 0;
		if (s.startsWith(P) != sw || s.startsWith(p.c_str()) != sw) bad("startsWith", fmt("'%s'.startsWith('%s')", m.c_str(), p.c_str()), k);
		if (s.endsWith(P) != ew || s.endsWith(p.c_str()) != ew) bad("endsWith", fmt("'%s'.endsWith('%s')", m.c_str(), p.c_str()), k);
		int c = m.compare(p); int ac = s.compare(P);
		if ((c < 0) != (ac < 0) || (c > 0) != (ac > 0) || (s == P) != (c == 0) || (s != P) != (c != 0) || (s < P) != (c < 0) || (s == p.c_str()) != (c == 0)
			|| (s != p.c_str()) != (c != 0) || sgn(s.compare(p.c_str())) != sgn(c) || (P < s) != (c > 0)) bad("compare", fmt("compare(%s, %s): model %d, compare() %d", vf::hex(m).c_str(), vf::hex(p).c_str(), sgn(c), sgn(ac)), k);
		if (c != 0) { size_t d = 0; while (d < m.size() && d < p.size() && m[d] == p[d]) d++; if (d < m.size() && d < p.size() && ((signed char)m[d] < (signed char)p[d]) != ((unsigned char)m[d] < (unsigned char)p[d])) vf::add(W_SIGNED_ORDER); }
		asanChk("search/compare", k);
	}
}
static void pure_split(uint64_t sidx, int slen, int pad) {
	static const char al[] = "ab,";
	static const char* seps[] = { ",", "ab", ",,", "a" };
	std::string m = std::string(pad, 'z') + nth(al, 3, slen, sidx);
	String s = A(m);
	Array<String> reused; // split(sep, out) into an array that still holds the previous result
	for (int si = 0; si < 4; si++) {
		std::string k = fmt("split:%d:%llu:%d:%d", slen, (unsigned long long)sidx, pad, si);
		vf::cur(k); vf::add(C_EVAL);
		std::vector<std::string> e = refSplit(m, seps[si]);
		Array<String> r = s.split(seps[si]);
		bool ok = r.length() == (int)e.size();
		for (int i = 0; ok && i < r.length(); i++) ok = S(r[i]) == e[i] && sane(r[i]);
		if (!ok) bad("split", fmt("'%s'.split('%s') gives %d parts, reference %d", m.c_str(), seps[si], r.length(), (int)e.size()), k);
		String j = r.join(seps[si]);
		if (S(j) != m || !sane(j)) bad("split_join", fmt("'%s'.split('%s').join('%s') = '%s'", m.c_str(), seps[si], seps[si], *j), k);
		if (reused.length() > 0) vf::add(W_SPLIT_REUSED_NONEMPTY);
		s.split(String(seps[si]), reused);
		ok = reused.length() == (int)e.size();
		for (int i = 0; ok && i < reused.length(); i++) ok = S(reused[i]) == e[i] && sane(reused[i]);
		if (!ok) bad("split_into", fmt("'%s'.split('%s', out) with a non-empty out gives %d parts, reference %d", m.c_str(), seps[si], reused.length(), (int)e.size()), k);
		asanChk("split/join", k);
	}
}
static void pure_split2(uint64_t sidx, int slen, int pad) {
	static const char al[] = "ab,=";
	static const char* s1[] = { ",", ",,", "ab" };
	static const char* s2[] = { "=", "==", "=" };
	std::string m = std::string(pad, 'z') + nth(al, 4, slen, sidx);
	String s = A(m);
	for (int si = 0; si < 3; si++) {
		std::string k = fmt("split2:%d:%llu:%d:%d", slen, (unsigned long long)sidx, pad, si);
		vf::cur(k); vf::add(C_EVAL);
		// reference: pairs are the pieces between sep1; a pair contributes key -> value when sep2 occurs in it after a non-empty key; a later pair with the same key wins
		std::map<std::string, std::string> ref;
		std::vector<std::string> parts = refSplit(m, s1[si]);
		for (size_t i = 0; i < parts.size(); i++) {
			size_t j = parts[i].find(s2[si]);
			if (j == std::string::npos || j == 0) { vf::add(W_DIC_SKIPPED); continue; }
			std::string key = parts[i].substr(0, j);
			if (ref.count(key)) vf::add(W_DIC_OVERWRITE);
			ref[key] = parts[i].substr(j + strlen(s2[si])); vf::add(W_DIC_PAIRS);
		}
		Dic<String> d = s.split(s1[si], s2[si]);
		bool ok = d.length() == (int)ref.size();
		std::map<std::string, std::string>::iterator it = ref.begin();
		for (int i = 0; ok && i < d.length(); i++, ++it) ok = S(d.a[i].key) == it->first && S(d.a[i].value) == it->second && sane(d.a[i].key) && sane(d.a[i].value); // both are ordered by unsigned bytes
		for (it = ref.begin(); ok && it != ref.end(); ++it) ok = d.has(A(it->first)) && S(d[A(it->first)]) == it->second;
		if (!ok) bad("split_dic", fmt("'%s'.split('%s','%s') has %d entries, reference %d (or a key/value differs)", m.c_str(), s1[si], s2[si], d.length(), (int)ref.size()), k);
		asanChk("split(sep1, sep2)", k);
	}
}
static void pure_replace(uint64_t sidx, int slen, int pad) {
	static const char al[] = "ab";
	static const char* pats[] = { "a", "ab", "aa", "b" };
	static const char* reps[] = { "", "x", "aa", "ab", "a-replacement-longer-than-16" };
	std::string m = std::string(pad, 'z') + nth(al, 2, slen, sidx);
	String s = A(m);
	for (int pi = 0; pi < 4; pi++) for (int ri = 0; ri < 5; ri++) {
		std::string k = fmt("replace:%d:%llu:%d:%d:%d", slen, (unsigned long long)sidx, pad, pi, ri);
		vf::cur(k); vf::add(C_EVAL);
		String r = s.replace(pats[pi], reps[ri]); noteShape(r);
		std::string e = refReplace(m, pats[pi], reps[ri]);
		if (S(r) != e || !sane(r)) bad("replace", fmt("'%s'.replace('%s','%s') = '%s', reference '%s'", m.c_str(), pats[pi], reps[ri], *r, e.c_str()), k);
		asanChk("replace", k);
	}
}
// na = 5: alphabet { ' ', \t, \n, 'a', \r } (old case strings "trim:"); na = 7: plus a control byte 0x01 and a byte >= 0x80 (0xC3), neither of which is whitespace
static void pure_trim(uint64_t sidx, int slen, int pad, int na = 5) {
	static const char al[] = " \t\na\r\x01\xC3";
	std::string m = nth(al, na, slen, sidx);
	if (pad) m = m + std::string(pad, 'q') + m;
	std::string k = fmt(na == 7 ? "trim7:%d:%llu:%d" : "trim:%d:%llu:%d", slen, (unsigned long long)sidx, pad);
	if (m.find_first_of("\x01\xC3") != std::string::npos) { vf::add(W_HIGHBYTE_TRIMCASES); if (strchr("\x01\xC3", m[0]) || strchr("\x01\xC3", m[m.size() - 1])) vf::add(W_HIGHBYTE_EDGE); }
	vf::cur(k); vf::add(C_EVAL);
	size_t b = m.find_first_not_of(" \t\n\r"), e = m.find_last_not_of(" \t\n\r");
	std::string exp = b == std::string::npos ? "" : m.substr(b, e - b + 1);
	String s = A(m);
	String t = s.trimmed();
	if (S(t) != exp || !sane(t)) bad("trimmed", fmt("trimmed(%s) = '%s'", vf::hex(m).c_str(), *t), k);
	String u = s; u.trim();
	if (S(u) != exp || !sane(u)) bad("trim", fmt("trim(%s) = '%s'", vf::hex(m).c_str(), *u), k);
	// whitespace split
	std::vector<std::string> ws; { size_t i = 0; while (i < m.size()) { while (i < m.size() && strchr(" \t\n\r", m[i])) i++; size_t j = i; while (j < m.size() && !strchr(" \t\n\r", m[j])) j++; if (j > i) ws.push_back(m.substr(i, j - i)); i = j; } }
	Array<String> r = s.split();
	bool ok = r.length() == (int)ws.size();
	for (int i = 0; ok && i < r.length(); i++) ok = S(r[i]) == ws[i];
	if (!ok) bad("split_ws", fmt("split() of %s gives %d words, reference %d", vf::hex(m).c_str(), r.length(), (int)ws.size()), k);
	Array<String> out; out << String("left over") << String("from an earlier call, long enough for the heap");
	s.split(out);
	ok = out.length() == (int)ws.size();
	for (int i = 0; ok && i < out.length(); i++) ok = S(out[i]) == ws[i] && sane(out[i]);
	if (!ok) bad("split_ws_into", fmt("split(out) of %s with a non-empty out gives %d words, reference %d", vf::hex(m).c_str(), out.length(), (int)ws.size()), k);
	Array<String> tw = s.split_<String>();
	ok = tw.length() == (int)ws.size();
	for (int i = 0; ok && i < tw.length(); i++) ok = S(tw[i]) == ws[i] && sane(tw[i]);
	if (!ok) bad("split_ws_T", fmt("split_<String>() of %s gives %d words, reference %d", vf::hex(m).c_str(), tw.length(), (int)ws.size()), k);
	asanChk("trim/split()", k);
}

// ================================================================ (3) integers
static void chk_int(int x) {
	vf::add(C_EVAL);
	String s(x); char e[16]; int n = snprintf(e, sizeof e, "%d", x);
	if (s.length() != n || memcmp(*s, e, n + 1) != 0 || (int)s != x || s.toInt() != x) { std::string k = fmt("int:%d", x); vf::cur(k); bad("int_roundtrip", fmt("String(%d) = '%s' -> %d", x, *s, (int)s), k); }
}
static void chk_uint(unsigned x) {
	vf::add(C_EVAL);
	String s(x); char e[16]; int n = snprintf(e, sizeof e, "%u", x);
	if (s.length() != n || memcmp(*s, e, n + 1) != 0 || (unsigned)s != x) { std::string k = fmt("uint:%u", x); vf::cur(k); bad("uint_roundtrip", fmt("String(%uu) = '%s' -> %u", x, *s, (unsigned)s), k); }
}
static void chk_long(Long x) {
	vf::add(C_EVAL); vf::add(C_DIST);
	std::string k = fmt("long:%lld", (long long)x); vf::cur(k);
	String s(x); char e[32]; int n = snprintf(e, sizeof e, "%lld", (long long)x);
	if (s.length() != n || memcmp(*s, e, n + 1) != 0 || (Long)s != x || s.toLong() != x || !sane(s)) bad("long_roundtrip", fmt("String((Long)%lld) = '%s' -> %lld", (long long)x, *s, (long long)s.toLong()), k);
	asanChk("String(Long)", k);
}
static void chk_ulong(ULong x) {
	vf::add(C_EVAL); vf::add(C_DIST);
	std::string k = fmt("ulong:%llu", (unsigned long long)x); vf::cur(k);
	String s(x); char e[32]; int n = snprintf(e, sizeof e, "%llu", (unsigned long long)x);
	if (s.length() != n || memcmp(*s, e, n + 1) != 0 || (ULong)s.toLong() != x || !sane(s)) bad("ulong_roundtrip", fmt("String((ULong)%llu) = '%s' -> %llu", (unsigned long long)x, *s, (unsigned long long)(ULong)s.toLong()), k);
	asanChk("String(ULong)", k);
}

// ================================================================ (4) printf-style constructors
static void chk_printf(int la, int lb) {
	std::string a = StrSys::lit(la), b = StrSys::lit(lb);
	std::string k = fmt("printf:%d:%d", la, lb); vf::cur(k);
	std::string e1 = a, e2 = a + "-" + b, e3 = fmt("%i", la * 1000003 - lb), e4 = fmt("%5.2f", la * 1.25 + lb / 7.0);
	vf::add(C_EVAL); vf::add(C_DIST);
	if (la >= 255) vf::add(W_F_RETRY);
	String r1 = String::f("%s", a.c_str()), r2 = String::f("%s-%s", a.c_str(), b.c_str()), r3 = String::f("%i", la * 1000003 - lb), r4 = String::f("%5.2f", la * 1.25 + lb / 7.0);
	if (S(r1) != e1 || !sane(r1)) bad("printf_f", fmt("String::f(\"%%s\", <%d chars>) has length %d, strlen %d", la, r1.length(), (int)strlen(*r1)), k);
	if (S(r2) != e2 || !sane(r2)) bad("printf_f", fmt("String::f(\"%%s-%%s\", <%d>, <%d>) has length %d, strlen %d", la, lb, r2.length(), (int)strlen(*r2)), k);
	if (S(r3) != e3 || S(r4) != e4) bad("printf_f", "String::f numeric formats", k);
	int caps[] = { 0, 5, 15, 16, 40 };
	for (int c = 0; c < 5; c++) {
		if (la + lb + 1 >= (caps[c] ? std::max(caps[c] + 1, 20) : 101)) vf::add(W_CTOR_RETRY);
		String q1(caps[c], "%s", a.c_str()), q2(caps[c], "%s-%s", a.c_str(), b.c_str()), q3(caps[c], "%i", la * 1000003 - lb);
		if (S(q1) != e1 || !sane(q1)) bad("printf_ctor", fmt("String(%d, \"%%s\", <%d chars>) has length %d, strlen %d", caps[c], la, q1.length(), (int)strlen(*q1)), k);
		if (S(q2) != e2 || !sane(q2)) bad("printf_ctor", fmt("String(%d, \"%%s-%%s\", <%d>, <%d>) has length %d, strlen %d", caps[c], la, lb, q2.length(), (int)strlen(*q2)), k);
		if (S(q3) != e3) bad("printf_ctor", "String(n, \"%i\")", k);
	}
	asanChk("printf constructors", k);
}

// ================================================================ (5) numbers as text, remaining text constructors, operator forms
// A String constructed in place over 0x55 bytes followed by a zero guard: a constructor that forgets the terminator gives strlen != length()
// (inline: runs on into the 0x55 bytes up to the guard; heap: ASan's malloc fill, reported by ASan or as a length mismatch).
struct Slot {
	union { char b[sizeof(String)]; long long align_; };
	char guard[16];
	String* p;
	Slot() : p(0) { memset(b, 0x55, sizeof b); memset(guard, 0, sizeof guard); }
	~Slot() { if (p) p->~String(); }
	template<class T1> String& make(const T1& a) { p = new (b) String(a); return *p; }
	template<class T1, class T2> String& make(const T1& a, const T2& c) { p = new (b) String(a, c); return *p; }
};
static bool is(const String& r, const std::string& e) { return r.length() == (int)e.size() && memcmp(*r, e.c_str(), e.size() + 1) == 0 && sane(r); }
static std::string show(const String& r) { return fmt("'%.40s' (length %d, strlen %d, cap %d)", *r, r.length(), (int)strlen(*r), r.cap()); }

template<class F> static void number_forms(F x, const std::string& e, const char* sig, const char* what, const std::string& k) {
	{ Slot sl; String& r = sl.make(x); if (!is(r, e)) bad(sig, fmt("String(%s) = %s, reference '%s'", what, show(r).c_str(), e.c_str()), k); if (r._size) vf::add(W_HEAP_RESULT); else vf::add(W_INLINE_RESULT); }
	int pre[] = { 0, 13, 15, 20 };
	for (int i = 0; i < 4; i++) {
		std::string l = StrSys::lit(pre[i]);
		String a = A(l); a << x; vf::add(W_SHL_FORMS);
		if (!is(a, l + e)) bad(sig, fmt("<%d chars> << %s = %s, reference '%s'", pre[i], what, show(a).c_str(), (l + e).c_str()), k);
		String b = A(l); b = x; vf::add(W_TMPL_ASSIGN);
		if (!is(b, e)) bad(sig, fmt("(<%d chars>) = %s gives %s, reference '%s'", pre[i], what, show(b).c_str(), e.c_str()), k);
	}
	vf::add(C_EVAL, 9);
}
static void chk_double(double x) {
	unsigned long long bits; memcpy(&bits, &x, 8);
	std::string k = fmt("double:%016llx", bits); vf::cur(k); vf::add(C_DIST);
	char e[64]; int n = snprintf(e, sizeof e, "%.15g", x);
	if (n >= ASL_STR_SPACE) vf::add(W_DOUBLE_HEAP); else vf::add(W_DOUBLE_INLINE);
	number_forms(x, e, "double_text", fmt("(double)%.17g", x).c_str(), k);
	asanChk("String(double)", k);
}
static void chk_float(float x) {
	unsigned bits; memcpy(&bits, &x, 4);
	std::string k = fmt("float:%08x", bits); vf::cur(k); vf::add(C_DIST); vf::add(W_FLOAT);
	char e[64]; snprintf(e, sizeof e, "%.7g", x);
	number_forms(x, e, "float_text", fmt("(float)%.9g", x).c_str(), k);
	asanChk("String(float)", k);
}
static void chk_misc() {
	std::string k = "misc:0"; vf::cur(k); vf::add(C_DIST);
	number_forms(true, "true", "bool_text", "true", k); number_forms(false, "false", "bool_text", "false", k); vf::add(W_BOOL, 2);
	Array<String> none; String j = none.join(","); vf::add(C_EVAL);
	if (!is(j, "")) bad("join", "Array<String>().join(\",\") = " + show(j), k);
	Array<String> one; one << String("only"); j = one.join(", a separator longer than the inline space"); vf::add(C_EVAL);
	if (!is(j, "only")) bad("join", "['only'].join(sep) = " + show(j), k);
	asanChk("bool / join on an empty array", k);
}
static void gen_doubles(std::vector<double>& out, bool all) {
	static const int ex10[] = { -300, -100, -5, -4, 0, 14, 15, 16, 100, 300 };
	std::vector<int> ex(ex10, ex10 + 10);
	if (all) { ex.clear(); for (int e = -324; e <= 308; e++) ex.push_back(e); } // every decimal exponent a double can have (subnormals included; e-324 rounds to 0 or the smallest subnormal)
	static const char dig[] = "12345678901234567";
	for (int sg = 0; sg < 2; sg++) for (int nd = 1; nd <= 17; nd++) for (size_t ei = 0; ei < ex.size(); ei++) {
		std::string t = sg ? "-" : ""; t += dig[0]; if (nd > 1) { t += '.'; t.append(dig + 1, nd - 1); } t += fmt("e%d", ex[ei]);
		out.push_back(strtod(t.c_str(), 0));
	}
	double sp[] = { 0.0, -0.0, HUGE_VAL, -HUGE_VAL, NAN, -NAN, DBL_MAX, -DBL_MAX, DBL_MIN, -DBL_MIN, 4.9406564584124654e-324, -4.9406564584124654e-324, DBL_EPSILON, 0.1, -0.1, 0.5, 1.5, 3.5,
		999999999999999.0, 9999999999999995.0, 99999999999999.95, -999999999999999.4, 0.0001, 0.00009999999999999995, -0.000123456789012345, -1.23456789012345e-5, 123456789012345.0, -123456789012345.0, 1234567890123456.0, 1e15, 1e16, -1e15, 4294967296.0, 9007199254740993.0, 9223372036854775808.0, -9223372036854775808.0 };
	for (size_t i = 0; i < sizeof sp / sizeof *sp; i++) out.push_back(sp[i]);
}
static void gen_floats(std::vector<float>& out, bool all) {
	static const int ex8[] = { -38, -5, -4, 0, 6, 7, 8, 38 };
	std::vector<int> ex(ex8, ex8 + 8);
	if (all) { ex.clear(); for (int e = -46; e <= 38; e++) ex.push_back(e); }
	static const char dig[] = "123456789";
	for (int sg = 0; sg < 2; sg++) for (int nd = 1; nd <= 9; nd++) for (size_t ei = 0; ei < ex.size(); ei++) {
		std::string t = sg ? "-" : ""; t += dig[0]; if (nd > 1) { t += '.'; t.append(dig + 1, nd - 1); } t += fmt("e%d", ex[ei]);
		out.push_back(strtof(t.c_str(), 0));
	}
	float sp[] = { 0.0f, -0.0f, HUGE_VALF, -HUGE_VALF, NAN, FLT_MAX, -FLT_MAX, FLT_MIN, -FLT_MIN, 1.4e-45f, -1.4e-45f, FLT_EPSILON, 0.1f, 0.5f, 1.5f, 3.5f, 9999999.5f, 16777216.0f, -0.0001234567f, -1.234567e-5f };
	for (size_t i = 0; i < sizeof sp / sizeof *sp; i++) out.push_back(sp[i]);
}

// every remaining way to make a String from text, at length n (n < 0: only the forms that clamp a negative count)
static void chk_text(int n) {
	std::string k = fmt("text:%d", n); vf::cur(k); vf::add(C_DIST);
	static const char cs[] = { 'x', '\x01', '\xC3' };
	int nn = n < 0 ? 0 : n;
	for (int ci = 0; ci < 3; ci++) {
		char c = cs[ci]; std::string e(nn, c);
		{ Slot sl; String& r = sl.make(c, n); if (!is(r, e)) bad("text_ctor", fmt("String(char 0x%02x, %d) = %s", (unsigned char)c, n, show(r).c_str()), k); }
		{ String r = String::repeat(c, n); if (!is(r, e)) bad("text_ctor", fmt("String::repeat(char 0x%02x, %d) = %s", (unsigned char)c, n, show(r).c_str()), k); }
		vf::add(C_EVAL, 2); vf::add(W_TEXT_CTORS, 2); if (n < 0) vf::add(W_REPEAT_NEG, 2);
		if (n < 0) continue;
		{ Slot sl; String& r = sl.make(c); if (!is(r, std::string(1, c))) bad("text_ctor", fmt("String(char 0x%02x) = %s", (unsigned char)c, show(r).c_str()), k); }
		std::string l = StrSys::lit(n);
		{ String a = A(l); a = c; if (!is(a, std::string(1, c))) bad("assign_T", fmt("(<%d chars>) = char 0x%02x gives %s", n, (unsigned char)c, show(a).c_str()), k); vf::add(W_TMPL_ASSIGN); }
		{ String a = A(l); a << c; if (!is(a, l + c)) bad("shl", fmt("<%d chars> << char 0x%02x = %s", n, (unsigned char)c, show(a).c_str()), k); vf::add(W_SHL_FORMS); }
		{ String a = A(l); String r = a + c; if (!is(r, l + c) || !is(a, l)) bad("concat", fmt("<%d chars> + char 0x%02x = %s", n, (unsigned char)c, show(r).c_str()), k);
		  String q = c + a; if (!is(q, c + l) || !is(a, l)) bad("concat", fmt("char 0x%02x + <%d chars> = %s", (unsigned char)c, n, show(q).c_str()), k); vf::add(W_CONCAT, 2); }
		vf::add(C_EVAL, 5);
	}
	if (n < 0) { asanChk("text constructors (negative count)", k); return; }
	std::string l = StrSys::lit(n);
	{ Array<char> a(n); if (n) memcpy(a.data(), l.data(), n); Slot sl; String& r = sl.make(a); if (!is(r, l)) bad("text_ctor", fmt("String(Array<char> of %d) = %s", n, show(r).c_str()), k); }
	{ ByteArray a(n); if (n) memcpy(a.data(), l.data(), n); Slot sl; String& r = sl.make(a); if (!is(r, l)) bad("text_ctor", fmt("String(ByteArray of %d) = %s", n, show(r).c_str()), k); }
	{ Slot sl; String& r = sl.make(l.c_str()); if (!is(r, l)) bad("text_ctor", fmt("String(const char* of %d) = %s", n, show(r).c_str()), k); }
	{ std::string l2 = l + "tail-not-to-be-copied"; Slot sl; String& r = sl.make(l2.c_str(), n); if (!is(r, l)) bad("text_ctor", fmt("String(const char*, %d) = %s", n, show(r).c_str()), k); }
	{ String src = A(l); Slot sl; String& r = sl.make(src); if (!is(r, l)) bad("text_ctor", fmt("String(const String& of %d) = %s", n, show(r).c_str()), k); }
	vf::add(C_EVAL, 5); vf::add(W_TEXT_CTORS, 5);
	// operator<< with text and integer arguments, template operator= with integers
	{ String a = A(l); a << "lit"; if (!is(a, l + "lit")) bad("shl", fmt("<%d chars> << \"lit\" = %s", n, show(a).c_str()), k); }
	{ String a = A(l), b2 = A(l); a << b2; if (!is(a, l + l)) bad("shl", fmt("<%d chars> << String(<%d chars>) = %s", n, n, show(a).c_str()), k); }
	{ String a = A(l); a << a; if (!is(a, l + l)) bad("shl", fmt("s << s with %d chars = %s", n, show(a).c_str()), k); }
	{ String a = A(l); a << 4000000000u; if (!is(a, l + "4000000000")) bad("shl", fmt("<%d chars> << 4000000000u = %s", n, show(a).c_str()), k); }
	{ String a = A(l); a << (Long)-1234567890123456789LL; if (!is(a, l + "-1234567890123456789")) bad("shl", fmt("<%d chars> << (Long)-1234567890123456789 = %s", n, show(a).c_str()), k); }
	{ String a = A(l); a << (ULong)18446744073709551615ULL; if (!is(a, l + "18446744073709551615")) bad("shl", fmt("<%d chars> << ULLONG_MAX = %s", n, show(a).c_str()), k); }
	{ String a = A(l); a << -7 << 'c' << "d" << 0.5 << true; if (!is(a, l + "-7cd0.5true")) bad("shl", fmt("<%d chars> << -7 << 'c' << \"d\" << 0.5 << true = %s", n, show(a).c_str()), k); }
	vf::add(W_SHL_FORMS, 7);
	{ String a = A(l); a = n * 1000003 - 7; if (!is(a, fmt("%d", n * 1000003 - 7))) bad("assign_T", fmt("(<%d chars>) = int gives %s", n, show(a).c_str()), k); }
	{ String a = A(l); a = 4000000000u; if (!is(a, "4000000000")) bad("assign_T", fmt("(<%d chars>) = 4000000000u gives %s", n, show(a).c_str()), k); }
	{ String a = A(l); a = (Long)-1234567890123456789LL; if (!is(a, "-1234567890123456789")) bad("assign_T", fmt("(<%d chars>) = (Long)-1234567890123456789 gives %s", n, show(a).c_str()), k); }
	{ String a = A(l); a = (ULong)18446744073709551615ULL; if (!is(a, "18446744073709551615")) bad("assign_T", fmt("(<%d chars>) = ULLONG_MAX gives %s", n, show(a).c_str()), k); }
	vf::add(W_TMPL_ASSIGN, 4); vf::add(C_EVAL, 11);
	// fix(k): the caller has put a terminator at k and tells the String so
	if (n <= 64) { String a = A(l);
	  for (int q = n; q >= 0; q--) { char save = a[q]; a[q] = '\0'; a.fix(q); if (!is(a, l.substr(0, q))) bad("fix_n", fmt("<%d chars>: s[%d] = 0; s.fix(%d) gives %s", n, q, q, show(a).c_str()), k); a[q] = save; a.fix(n); vf::add(W_FIX_N); vf::add(C_EVAL); }
	  if (!is(a, l)) bad("fix_n", fmt("<%d chars> after fix(k) and back: %s", n, show(a).c_str()), k); }
	asanChk("text constructors / operator<< / operator= / fix(n)", k);
}

// every operator+ form at the length pair (la, lb); placement 0: operands as constructed; 1: both operands in heap blocks with slack
static void chk_concat(int la, int lb, int placement) {
	std::string k = fmt("concat:%d:%d:%d", la, lb, placement); vf::cur(k); vf::add(C_DIST);
	std::string ma = StrSys::lit(la), mb; for (int i = 0; i < lb; i++) mb += char('A' + i % 26);
	String a = A(placement ? std::string(60, 'q') : ma), b = A(placement ? std::string(60, 'q') : mb);
	if (placement) { a = ma.c_str(); b = mb.c_str(); }
	if (b._size) vf::add(W_CONCAT_HEAP_RHS);
	int t = la + lb; if (t == 15 || t == 16 || t == 19 || t == 20) vf::add(W_CONCAT_AT_BOUNDARY);
	{ vfx::Flush f1(a), f2(b);
	  String r = a + b; if (!is(r, ma + mb)) bad("concat", fmt("String<%d> + String<%d> = %s", la, lb, show(r).c_str()), k);
	  String q = a + mb.c_str(); if (!is(q, ma + mb)) bad("concat", fmt("String<%d> + const char*<%d> = %s", la, lb, show(q).c_str()), k);
	  String u = ma.c_str() + b; if (!is(u, ma + mb)) bad("concat", fmt("const char*<%d> + String<%d> = %s", la, lb, show(u).c_str()), k);
	  String v = a + b + a; if (!is(v, ma + mb + ma)) bad("concat", fmt("String<%d> + String<%d> + String<%d> = %s", la, lb, la, show(v).c_str()), k);
	  if (la == lb) { String w = a + a; if (!is(w, ma + ma)) bad("concat", fmt("s + s with %d chars = %s", la, show(w).c_str()), k); String x = a + *a; if (!is(x, ma + ma)) bad("concat", fmt("s + *s with %d chars = %s", la, show(x).c_str()), k); vf::add(W_CONCAT, 2); vf::add(C_EVAL, 2); }
	}
	if (!is(a, ma) || !is(b, mb)) bad("concat", fmt("operands of + changed (%d, %d)", la, lb), k);
	vf::add(W_CONCAT, 4); vf::add(C_EVAL, 4);
	asanChk("operator+", k);
}

static void run_case(const std::string& k) {
	long a, b, c, d; unsigned long long u; char buf[64];
	unsigned long long u2;
	if (sscanf(k.c_str(), "substring:%ld:%ld", &a, &b) == 2) pure_substring((int)a, (int)b);
	else if (sscanf(k.c_str(), "search:%ld:%llu:%ld", &a, &u, &b) == 3) pure_search(u, (int)a, (int)b, 0);
	else if (sscanf(k.c_str(), "searchE:%ld:%llu:%ld", &a, &u, &b) == 3) pure_search(u, (int)a, (int)b, 1);
	else if (sscanf(k.c_str(), "split2:%ld:%llu:%ld", &a, &u, &b) == 3) pure_split2(u, (int)a, (int)b);
	else if (sscanf(k.c_str(), "trim7:%ld:%llu:%ld", &a, &u, &b) == 3) pure_trim(u, (int)a, (int)b, 7);
	else if (sscanf(k.c_str(), "double:%llx", &u2) == 1) { double x; memcpy(&x, &u2, 8); chk_double(x); }
	else if (sscanf(k.c_str(), "float:%llx", &u2) == 1) { unsigned v = (unsigned)u2; float x; memcpy(&x, &v, 4); chk_float(x); }
	else if (k.compare(0, 5, "misc:") == 0) chk_misc();
	else if (sscanf(k.c_str(), "text:%ld", &a) == 1) chk_text((int)a);
	else if (sscanf(k.c_str(), "concat:%ld:%ld:%ld", &a, &b, &c) == 3) chk_concat((int)a, (int)b, (int)c);
	else if (sscanf(k.c_str(), "split:%ld:%llu:%ld", &a, &u, &b) == 3) pure_split(u, (int)a, (int)b);
	else if (sscanf(k.c_str(), "replace:%ld:%llu:%ld", &a, &u, &b) == 3) pure_replace(u, (int)a, (int)b);
	else if (sscanf(k.c_str(), "trim:%ld:%llu:%ld", &a, &u, &b) == 3) pure_trim(u, (int)a, (int)b);
	else if (sscanf(k.c_str(), "int:%ld", &a) == 1) chk_int((int)a);
	else if (sscanf(k.c_str(), "uint:%llu", &u) == 1) chk_uint((unsigned)u);
	else if (sscanf(k.c_str(), "long:%63s", buf) == 1) chk_long(strtoll(buf, 0, 10));
	else if (sscanf(k.c_str(), "ulong:%63s", buf) == 1) chk_ulong(strtoull(buf, 0, 10));
	else if (sscanf(k.c_str(), "printf:%ld:%ld", &a, &b) == 2) chk_printf((int)a, (int)b);
	else vf::violation("harness", "case string not understood", k);
	(void)c; (void)d;
}

int main(int argc, char** argv) {
	vf::init(argc, argv, "C03", "c03_string");
	int cS = vf::counter("states"), cT = vf::counter("transitions"), cTr = vf::counter("traces");
	C_EVAL = vf::counter("evaluations"); C_DIST = vf::counter("distinct_nontrivial");
	W_INLINE2HEAP = vf::counter("w.inline_to_heap"); W_HEAP_DOUBLE = vf::counter("w.heap_growth_malloc_below_1KiB"); W_REALLOC = vf::counter("w.heap_growth_realloc_above_1KiB");
	W_SELF_APPEND = vf::counter("w.self_append_ops"); W_SELF_ASSIGN = vf::counter("w.self_assign_ops"); W_INLINE_RESULT = vf::counter("w.results_inline"); W_HEAP_RESULT = vf::counter("w.results_heap");
	W_F_RETRY = vf::counter("w.String_f_beyond_255_retry"); W_CTOR_RETRY = vf::counter("w.printf_ctor_retry");
	W_CTORBLK_GROW = vf::counter("w.ctor_block_outgrown"); W_CTORBLK_FULL_APPCHAR = vf::counter("w.ctor_block_full_append_char"); W_CTORBLK_SELFAPP = vf::counter("w.ctor_block_self_append");
	W_SELFAPP_GROW = vf::counter("w.self_append_with_growth"); W_SELFAPP_NOGROW = vf::counter("w.self_append_without_growth");
	W_SELFAPP_REALLOC_MOVED = vf::counter("w.self_append_realloc_moved_block");
	W_DOUBLE_HEAP = vf::counter("w.double_text_16_or_more"); W_DOUBLE_INLINE = vf::counter("w.double_text_below_16"); W_FLOAT = vf::counter("w.float_values"); W_BOOL = vf::counter("w.bool_values");
	W_HIGHBYTE_TRIMCASES = vf::counter("w.trim_inputs_with_0x01_or_0xC3"); W_HIGHBYTE_EDGE = vf::counter("w.trim_inputs_with_0x01_or_0xC3_at_an_end");
	W_SPLIT_REUSED_NONEMPTY = vf::counter("w.split_into_nonempty_array"); W_DIC_PAIRS = vf::counter("w.split_dic_pairs"); W_DIC_SKIPPED = vf::counter("w.split_dic_pieces_skipped"); W_DIC_OVERWRITE = vf::counter("w.split_dic_key_repeated");
	W_SUBSTR_START_BEYOND = vf::counter("w.substr_start_beyond_end"); W_SUBSTR_NEG_START = vf::counter("w.substr_negative_start"); W_SUBSTR_COUNT_CLAMPED = vf::counter("w.substr_count_clamped");
	W_CHAR_OVERLOADS = vf::counter("w.char_overload_cases"); W_EMPTY_HEAP_SEARCH = vf::counter("w.search_on_empty_heap_string"); W_SIGNED_ORDER = vf::counter("w.compare_pairs_where_signed_order_differs");
	W_CONCAT = vf::counter("w.operator_plus_calls"); W_CONCAT_HEAP_RHS = vf::counter("w.operator_plus_heap_rhs"); W_CONCAT_AT_BOUNDARY = vf::counter("w.operator_plus_result_15_16_19_20");
	W_TEXT_CTORS = vf::counter("w.text_ctor_calls"); W_REPEAT_NEG = vf::counter("w.repeat_negative_count"); W_TMPL_ASSIGN = vf::counter("w.template_assign_calls"); W_SHL_FORMS = vf::counter("w.operator_shl_calls"); W_FIX_N = vf::counter("w.fix_n_calls");
	bool T = vf::opt.thorough();
	StrSys sys;
	if (vf::opt.replay) {
		const std::string& k = vf::opt.kase;
		vf::parallel(1, [&](uint64_t) { if (k.compare(0, 7, "string:") == 0) vf::Bfs<StrSys>(sys, "string").replay(k); else run_case(k); });
		return vf::finish();
	}
	{ // (1) all histories of up to 5 ops
		vf::Bfs<StrSys> b(sys, "string");
		vf::BfsResult r = b.run(5, 0);
		vf::add(cS, r.states); vf::add(cT, r.transitions); vf::add(cTr, r.traces);
		std::string pd; for (size_t i = 0; i < r.per_depth.size(); i++) pd += fmt(i ? ",%llu" : "%llu", (unsigned long long)r.per_depth[i]);
		vf::setinfo("string_histories", fmt("{\"depth_completed\": %d, \"states\": %llu, \"transitions\": %llu, \"new_states_per_depth\": [%s], \"op_alphabet\": %d}", r.depth_done, (unsigned long long)r.states, (unsigned long long)r.transitions, pd.c_str(), sys.nops()));
		// thorough: all histories of up to 6 ops, as one depth-5 search from every distinct state that is one op away from the start (a first op that
		// leaves the start state unchanged is covered by the search above). One search over depth 6 would need > 4 GB for the merge of its last level.
		// Case strings are "string:<first op>:<rest>", which replays as the plain history first.rest.
		if (T && vf::nviolations() == 0) {
			std::vector<int> firsts; std::set<std::string> seen1;
			sys.reset(); seen1.insert(sys.canon());
			for (int op = 0; op < sys.nops(); op++) { sys.reset(); if (!sys.enabled(op)) continue; std::string e; if (sys.apply(op, e) && seen1.insert(sys.canon()).second) firsts.push_back(op); }
			sys.reset(); vf::asan_clear();
			uint64_t st = 0, tr = 0; int done = 0; std::string per;
			for (size_t f = 0; f < firsts.size(); f++) {
				sys.first = firsts[f];
				vf::Bfs<StrSys> bd(sys, fmt("string:%d", firsts[f]));
				vf::BfsResult rd = bd.run(5, 0);
				vf::add(cS, rd.states); vf::add(cT, rd.transitions); vf::add(cTr, rd.traces);
				st += rd.states; tr += rd.transitions; if (rd.depth_done == 5 || rd.fixed_point) done++;
				per += fmt(f ? ",[%d,%llu]" : "[%d,%llu]", firsts[f], (unsigned long long)rd.transitions);
			}
			sys.first = -1;
			if (done != (int)firsts.size()) vf::cap_hit("string: a depth-6 partition did not complete");
			vf::setinfo("string_histories_depth6", fmt("{\"searches_of_depth_5_from_first_level_states\": %d, \"completed\": %d, \"states_summed_over_searches\": %llu, \"transitions\": %llu, \"first_op_and_transitions\": [%s]}", (int)firsts.size(), done, (unsigned long long)st, (unsigned long long)tr, per.c_str()));
		} else if (T) vf::cap_hit("string: depth-6 histories not searched because shallower ones already violate the property");
	}
	// (2)
	vf::parallel(2 * 41, [&](uint64_t i) { pure_substring((int)(i % 41), i / 41 ? 20 : 0); });
	for (int alpha = 0; alpha < 2; alpha++) for (int pi = 0; pi < 3; pi++) { int pad = pi == 0 ? 0 : pi == 1 ? 20 : -1; for (int len = 0; len <= (T ? 7 : 5); len++) vf::parallel(ipow(2, len), [&](uint64_t i) { pure_search(i, len, pad, alpha); }, 8); }
	for (int pad = 0; pad <= 20; pad += 20) {
		for (int len = 0; len <= (T ? 8 : 7); len++) vf::parallel(ipow(3, len), [&](uint64_t i) { pure_split(i, len, pad); }, 32);
		for (int len = 0; len <= (T ? 9 : 7); len++) vf::parallel(ipow(2, len), [&](uint64_t i) { pure_replace(i, len, pad); }, 8);
		for (int len = 0; len <= (T ? 7 : 6); len++) vf::parallel(ipow(7, len), [&](uint64_t i) { pure_trim(i, len, pad, 7); }, 64);
		for (int len = 0; len <= (T ? 7 : 6); len++) vf::parallel(ipow(4, len), [&](uint64_t i) { pure_split2(i, len, pad); }, 64);
	}
	vf::add(C_DIST, vf::get(C_EVAL)); // every pure-function case above is a distinct (input, arguments) tuple
	// (3) integers
	if (T) {
		vf::parallel(1 << 16, [&](uint64_t hi) { for (uint64_t lo = 0; lo < (1 << 16); lo++) { unsigned x = (unsigned)((hi << 16) | lo); chk_int((int)x); chk_uint(x); } vf::add(C_DIST, 2 << 16); }, 16);
		vf::setinfo("int_sweep", "\"all 2^32 int and unsigned values\"");
	} else {
		vf::parallel(2001, [&](uint64_t b) { for (int i = 0; i < 1000; i++) { int x = (int)b * 1000 - 1000000 + i; chk_int(x); if (x >= 0) chk_uint((unsigned)x); } vf::add(C_DIST, 1500); });
		vf::parallel(1, [&](uint64_t) {
			for (int k = 0; k <= 9; k++) { int64_t p = 1; for (int i = 0; i < k; i++) p *= 10; for (int d = 1; d <= 9; d++) for (int dl = -1; dl <= 1; dl++) { int64_t v = d * p + dl; if (v <= INT_MAX) { chk_int((int)v); chk_int((int)-v); } if (v <= UINT_MAX) chk_uint((unsigned)v); vf::add(C_DIST, 3); } }
			int ex[] = { INT_MAX, INT_MIN, INT_MAX - 1, INT_MIN + 1, 0, -1 }; for (int i = 0; i < 6; i++) chk_int(ex[i]);
			unsigned ux[] = { 0u, UINT_MAX, UINT_MAX - 1, 2147483648u, 2147483647u }; for (int i = 0; i < 5; i++) chk_uint(ux[i]);
		});
		vf::setinfo("int_sweep", "\"all |x| <= 10^6, every d*10^k +-1, extremes (thorough: all 2^32)\"");
	}
	vf::parallel(1, [&](uint64_t) {
		for (int k = 0; k <= 19; k++) { ULong p = 1; for (int i = 0; i < k; i++) p *= 10; for (int d = 1; d <= 9; d++) for (int dl = -2; dl <= 2; dl++) { if (k == 19 && d > 1) continue; ULong v = d * p + dl; chk_ulong(v); if (v <= (ULong)LLONG_MAX) { chk_long((Long)v); chk_long(-(Long)v); } } }
		for (int k = 0; k <= 63; k++) for (int dl = -2; dl <= 2; dl++) { ULong v = ((ULong)1 << k) + dl; chk_ulong(v); if (v <= (ULong)LLONG_MAX) { chk_long((Long)v); chk_long(-(Long)v); } }
		chk_long(LLONG_MAX); chk_long(LLONG_MIN); chk_long(LLONG_MIN + 1); chk_ulong(ULLONG_MAX); chk_ulong(0); chk_long(0);
	});
	// (4) printf-style constructors: every argument length 0..300
	vf::parallel(301, [&](uint64_t la) { int lbs[] = { 0, 1, 14, 15, 16, 99, 100, 253, 254, 255, 256, 300 }; for (int j = 0; j < 12; j++) chk_printf((int)la, lbs[j]); });
	// (5) float / double / bool text, remaining text constructors and operator forms, operator+ over boundary length pairs
	{
		std::vector<double> ds; gen_doubles(ds, T); std::vector<float> fs; gen_floats(fs, T);
		vf::parallel(ds.size(), [&](uint64_t i) { chk_double(ds[i]); }, 16);
		vf::parallel(fs.size(), [&](uint64_t i) { chk_float(fs[i]); }, 16);
		vf::parallel(1, [&](uint64_t) { chk_misc(); });
		vf::parallel((T ? 300 : 48) + 4, [&](uint64_t i) { chk_text((int)i - 3); }, 4);
		static const int cl[] = { 0, 1, 7, 8, 14, 15, 16, 19, 20, 23, 24, 40 };
		if (T) vf::parallel(2 * 49 * 49, [&](uint64_t i) { chk_concat((int)(i % 49), (int)(i / 49 % 49), (int)(i / 2401)); }, 64);
		else vf::parallel(2 * 144, [&](uint64_t i) { chk_concat(cl[i % 12], cl[i / 12 % 12], (int)(i / 144)); }, 16);
		vf::setinfo("number_text", fmt("{\"doubles\": %d, \"floats\": %d}", (int)ds.size(), (int)fs.size()));
	}
	vf::sample("string history: s = \"<15 chars>\" ; s += s ; s = *s + 2 ; s.append(*s + 1, n - 2) ; s.resize(2n+3)");
	vf::sample("'ab,,a'.split(',,').join(',,'); 'aab'.replace('aa','ab'); String((Long)LLONG_MIN); String::f(\"%s-%s\", <254 chars>, <16 chars>)");
	return vf::finish();
}
