// C03 — String vs a byte-string model: (1) explicit-state BFS over in-place mutation histories (incl. self-aliasing
// arguments), (2) complete enumeration of small-alphabet inputs for the pure functions, (3) integer round trips,
// (4) printf-style constructors over every argument length.
#include <asl/String.h>
#include <asl/Array.h>
#include <limits.h>
#include "vf.h"
#include "aslx.h"
using namespace asl;
using vf::fmt;
using vfx::S; using vfx::A;

static int C_EVAL, C_DIST, W_INLINE2HEAP, W_HEAP_DOUBLE, W_REALLOC, W_SELF_APPEND, W_SELF_ASSIGN, W_INLINE_RESULT, W_HEAP_RESULT, W_F_RETRY, W_CTOR_RETRY;

// ================================================================ (1) mutation histories
struct StrSys {
	enum Kind { ASSIGN_LIT, ASSIGN_STR, APP_CHAR, APP_LIT, APP_SELF, APP_SELF_SUB, SELF_ASSIGN, ASSIGN_TAIL, APPEND_PTR, RESIZE, TRIM, REPLACEME, CLEAR, FIX_SHORT, APP_1000, APP_AUX, AUX_FROM_S, SHL_INT, PAD_SPACES };
	struct O { Kind k; int a, b; };
	std::vector<O> ops;
	String* s; String* t; std::string ms, mt;
	StrSys() : s(0), t(0) {
		int lens[] = { 0, 1, 7, 15, 16, 19, 20, 23, 24, 47 };
		for (int i = 0; i < 10; i++) { add(ASSIGN_LIT, lens[i]); }
		add(ASSIGN_STR, 15); add(ASSIGN_STR, 16); add(ASSIGN_STR, 30);
		add(APP_CHAR); add(APP_LIT, 2); add(APP_LIT, 9);
		add(APP_SELF); add(APP_SELF_SUB, 0); add(APP_SELF_SUB, 1); add(APP_SELF_SUB, 2);
		add(SELF_ASSIGN); add(ASSIGN_TAIL, 1); add(ASSIGN_TAIL, 2); add(APPEND_PTR, 1);
		add(RESIZE, 0); add(RESIZE, 1); add(RESIZE, 2); add(RESIZE, 3);
		add(TRIM); add(REPLACEME); add(CLEAR); add(FIX_SHORT); add(APP_1000); add(APP_AUX); add(AUX_FROM_S); add(SHL_INT); add(PAD_SPACES);
	}
	void add(Kind k, int a = 0, int b = 0) { O o = { k, a, b }; ops.push_back(o); }
	int nops() { return (int)ops.size(); }
	void reset() { delete s; delete t; s = new String(); t = new String("aux-string-that-lives-on-the-heap"); ms = ""; std::string("aux-string-that-lives-on-the-heap").swap(mt); std::string().swap(ms); }
	static std::string lit(int n) { std::string r; for (int i = 0; i < n; i++) r += char('a' + i % 26); return r; }
	bool enabled(int op) {
		const O& o = ops[op];
		size_t n = ms.size();
		switch (o.k) {
		case APP_SELF: return n >= 1 && n <= 1100;
		case APP_SELF_SUB: return n >= 3 && n < 1100;
		case ASSIGN_TAIL: return (int)n >= o.a; case APPEND_PTR: return n >= 3 && n < 1100;
		case RESIZE: return o.a == 0 ? n >= 1 : n < 1100;
		case APP_1000: return n < 100;
		case FIX_SHORT: return n >= 2;
		case APP_CHAR: case APP_LIT: case APP_AUX: case SHL_INT: case PAD_SPACES: return n < 1100;
		default: return true;
		}
	}
	const char* predict(int) { return 0; }
	std::string opname(int op) {
		const O& o = ops[op];
		switch (o.k) {
		case ASSIGN_LIT: return fmt("s = \"<%d chars>\"", o.a); case ASSIGN_STR: return fmt("s = String(<%d chars>)", o.a);
		case APP_CHAR: return "s += 'x'"; case APP_LIT: return fmt("s += \"<%d chars>\"", o.a); case APP_SELF: return "s += s";
		case APP_SELF_SUB: return o.a == 0 ? "s += s.substring(0, n/2)" : o.a == 1 ? "s += s.substring(n/2, n)" : "s += s.substring(1, n-1)";
		case SELF_ASSIGN: return "s = s"; case ASSIGN_TAIL: return fmt("s = *s + %d", o.a); case APPEND_PTR: return "s.append(*s + 1, n - 2)";
		case RESIZE: return o.a == 0 ? "s.resize(n-1)" : o.a == 1 ? "s.resize(n+1); fill" : o.a == 2 ? "s.resize(cap); fill" : "s.resize(2n+3); fill";
		case TRIM: return "s.trim()"; case REPLACEME: return "s.replaceme('a','A')"; case CLEAR: return "s.clear()"; case FIX_SHORT: return "s[n/2] = 0; s.fix()";
		case APP_1000: return "s += <1000 chars>"; case APP_AUX: return "s += aux"; case AUX_FROM_S: return "aux = s"; case SHL_INT: return "s << 12345"; case PAD_SPACES: return "s = \" \" + s + \"\\t \"";
		}
		return "?";
	}
	bool apply(int op, std::string& err) {
		const O& o = ops[op];
		int n = (int)ms.size();
		int size0 = s->_size;
		switch (o.k) {
		case ASSIGN_LIT: { std::string l = lit(o.a); *s = l.c_str(); ms = l; break; }
		case ASSIGN_STR: { std::string l = lit(o.a); String x = A(l); *s = x; ms = l; break; }
		case APP_CHAR: *s += 'x'; ms += 'x'; break;
		case APP_LIT: { std::string l = lit(o.a); *s += l.c_str(); ms += l; break; }
		case APP_SELF: vf::add(W_SELF_APPEND); *s += *s; ms += std::string(ms); break;
		case APP_SELF_SUB: { int i = o.a == 0 ? 0 : o.a == 1 ? n / 2 : 1, j = o.a == 0 ? n / 2 : o.a == 1 ? n : n - 1; *s += s->substring(i, j); ms += ms.substr(i, j - i); break; }
		case SELF_ASSIGN: { String& r = *s; *s = r; vf::add(W_SELF_ASSIGN); break; }
		case ASSIGN_TAIL: vf::add(W_SELF_ASSIGN); *s = **s + o.a; ms = ms.substr(o.a); break;
		case APPEND_PTR: vf::add(W_SELF_APPEND); s->append(**s + 1, n - 2); ms += ms.substr(1, n - 2); break;
		case RESIZE: { int m = o.a == 0 ? n - 1 : o.a == 1 ? n + 1 : o.a == 2 ? s->cap() : 2 * n + 3; s->resize(m); for (int i = n; i < m; i++) (*s)[i] = 'r'; ms.resize(m, 'r'); if (m == s->cap()) { /* resize(cap) must still leave room for the terminator */ } break; }
		case TRIM: s->trim(); { size_t b = ms.find_first_not_of(" \t\n\r"); size_t e = ms.find_last_not_of(" \t\n\r"); ms = b == std::string::npos ? "" : ms.substr(b, e - b + 1); } break;
		case REPLACEME: s->replaceme('a', 'A'); std::replace(ms.begin(), ms.end(), 'a', 'A'); break;
		case CLEAR: s->clear(); ms.clear(); break;
		case FIX_SHORT: (*s)[n / 2] = '\0'; s->fix(); ms.resize(n / 2); break;
		case APP_1000: { std::string l = lit(1000); *s += l.c_str(); ms += l; break; }
		case APP_AUX: *s += *t; ms += mt; break;
		case AUX_FROM_S: *t = *s; mt = ms; break;
		case SHL_INT: *s << 12345; ms += "12345"; break;
		case PAD_SPACES: *s = " " + *s + "\t "; ms = " " + ms + "\t "; break;
		}
		if (size0 == 0 && s->_size != 0) vf::add(W_INLINE2HEAP);
		else if (size0 != 0 && s->_size > size0) { if (size0 < 1024) vf::add(W_HEAP_DOUBLE); else vf::add(W_REALLOC); }
		return observe(err);
	}
	bool one(const String& x, const std::string& m, const char* nm, std::string& err) {
		if (x.length() != (int)m.size()) { err = fmt("%s.length() = %d, reference %d", nm, x.length(), (int)m.size()); return false; }
		if ((int)strlen(*x) != x.length()) { err = fmt("%s: strlen = %d but length() = %d", nm, (int)strlen(*x), x.length()); return false; }
		if (memcmp(*x, m.data(), m.size()) != 0) { err = fmt("%s = '%.60s', reference '%.60s'", nm, *x, m.c_str()); return false; }
		if (!(x.cap() > x.length())) { err = fmt("%s: capacity %d does not exceed length %d", nm, x.cap(), x.length()); return false; }
		return true;
	}
	bool observe(std::string& err) { return one(*s, ms, "s", err) && one(*t, mt, "aux", err); }
	std::string canon() {
		// contents matter only through length, inline/heap shape and where spaces / 'a' / NUL-able positions are; keep exact for short, summarised for long
		std::string c = fmt("z%d|", s->_size);
		if (ms.size() <= 64) c += ms; else c += fmt("n%d:", (int)ms.size()) + ms.substr(0, 8) + ".." + ms.substr(ms.size() - 8);
		c += fmt("|z%d|", t->_size);
		if (mt.size() <= 64) c += mt; else c += fmt("n%d:", (int)mt.size()) + mt.substr(0, 8) + ".." + mt.substr(mt.size() - 8);
		return c;
	}
};

// ================================================================ (2) pure functions
static void bad(const char* sig, const std::string& d, const std::string& k) { vf::violation(sig, d, k); }
static bool asanChk(const char* what, const std::string& k) {
	if (vf::asan_tripped()) { bad("asan", std::string("ASan ") + vf::asan_what() + " in " + what, k); vf::asan_clear(); return true; }
	return false;
}
static void noteShape(const String& r) { if (r._size == 0) vf::add(W_INLINE_RESULT); else vf::add(W_HEAP_RESULT); }
static bool sane(const String& r) { return (int)strlen(*r) == r.length() && r.cap() > r.length(); }

static std::vector<std::string> refSplit(const std::string& s, const std::string& sep) {
	std::vector<std::string> out; size_t i = 0;
	for (;;) { size_t j = s.find(sep, i); if (j == std::string::npos) { out.push_back(s.substr(i)); break; } out.push_back(s.substr(i, j - i)); i = j + sep.size(); }
	return out;
}
static std::string refReplace(const std::string& s, const std::string& a, const std::string& b) {
	std::string out; size_t i = 0;
	for (;;) { size_t j = s.find(a, i); if (j == std::string::npos) { out += s.substr(i); break; } out += s.substr(i, j - i) + b; i = j + a.size(); }
	return out;
}
static std::string nth(const char* alpha, int na, int len, uint64_t idx) { std::string s; for (int i = 0; i < len; i++) { s += alpha[idx % na]; idx /= na; } return s; }
static uint64_t ipow(uint64_t b, int e) { uint64_t r = 1; while (e--) r *= b; return r; }

static void pure_substring(int len, int pad) {
	std::string m = std::string(pad, 'z') + StrSys::lit(len);
	String s = A(m);
	int L = (int)m.size();
	for (int i = 0; i <= L; i++) for (int j = i; j <= L; j++) {
		std::string k = fmt("substring:%d:%d:%d:%d", len, pad, i, j);
		vf::cur(k); vf::add(C_EVAL);
		String r = s.substring(i, j); noteShape(r);
		if (S(r) != m.substr(i, j - i) || !sane(r)) bad("substring", fmt("substring(%d,%d) of a %d-char string = '%s'", i, j, L, *r), k);
		String q = s.substr(i, j - i);
		if (S(q) != m.substr(i, j - i) || !sane(q)) bad("substr", fmt("substr(%d,%d) of a %d-char string = '%s'", i, j - i, L, *q), k);
		if (j == L) { String t = s.substring(i), u = s.substr(i); if (S(t) != m.substr(i) || S(u) != m.substr(i)) bad("substring", fmt("substring(%d) / substr(%d)", i, i), k); }
		asanChk("substring/substr", k);
	}
	// substr with negative start (counts from the end) and over-long count (clamped), as documented in the code
	for (int i = 1; i <= L; i++) { String r = s.substr(-i, L + 5); if (S(r) != m.substr(L - i)) bad("substr", fmt("substr(-%d, n+5)", i), fmt("substring:%d:%d:%d:%d", len, pad, 0, 0)); }
}
static void pure_search(uint64_t sidx, int slen, int pad) {
	static const char al[] = "ab";
	std::string m = std::string(pad, 'b') + nth(al, 2, slen, sidx);
	String s = A(m);
	for (int plen = 0; plen <= 3; plen++) for (uint64_t pi = 0; pi < ipow(2, plen); pi++) {
		std::string p = nth(al, 2, plen, pi);
		std::string k = fmt("search:%d:%llu:%d:%s", slen, (unsigned long long)sidx, pad, p.c_str());
		vf::cur(k); vf::add(C_EVAL);
		String P = A(p);
		vfx::Flush f1(s), f2(P);
		size_t e = m.find(p); int ei = e == std::string::npos ? -1 : (int)e;
		if (s.indexOf(P) != ei || s.indexOf(p.c_str()) != ei || s.contains(P) != (ei >= 0)) bad("indexOf", fmt("'%s'.indexOf('%s') = %d, reference %d", m.c_str(), p.c_str(), s.indexOf(P), ei), k);
		for (int i0 = 0; i0 <= (int)m.size(); i0++) { size_t e2 = m.find(p, i0); int r = s.indexOf(P, i0); if (r != (e2 == std::string::npos ? -1 : (int)e2)) bad("indexOf", fmt("'%s'.indexOf('%s', %d) = %d", m.c_str(), p.c_str(), i0, r), k); }
		if (plen) { size_t l = m.rfind(p); int li = l == std::string::npos ? -1 : (int)l; if (s.lastIndexOf(p.c_str()) != li) bad("lastIndexOf", fmt("'%s'.lastIndexOf('%s') = %d, reference %d", m.c_str(), p.c_str(), s.lastIndexOf(p.c_str()), li), k); }
		if (plen == 1) { size_t l = m.rfind(p[0]); if (s.lastIndexOf(p[0]) != (l == std::string::npos ? -1 : (int)l) || s.indexOf(p[0]) != ei) bad("indexOf", "char overloads", k); }
		bool sw = m.size() >= p.size() && m.compare(0, p.size(), p) == 0, ew = m.size() >= p.size() && m.compare(m.size() - p.size(), p.size(), p) == 0;
		if (s.startsWith(P) != sw || s.startsWith(p.c_str()) != sw) bad("startsWith", fmt("'%s'.startsWith('%s')", m.c_str(), p.c_str()), k);
		if (s.endsWith(P) != ew || s.endsWith(p.c_str()) != ew) bad("endsWith", fmt("'%s'.endsWith('%s')", m.c_str(), p.c_str()), k);
		int c = m.compare(p); int ac = s.compare(P);
		if ((c < 0) != (ac < 0) || (c > 0) != (ac > 0) || (s == P) != (c == 0) || (s != P) != (c != 0) || (s < P) != (c < 0) || (s == p.c_str()) != (c == 0)) bad("compare", fmt("compare('%s','%s')", m.c_str(), p.c_str()), k);
		asanChk("search/compare", k);
	}
}
static void pure_split(uint64_t sidx, int slen, int pad) {
	static const char al[] = "ab,";
	static const char* seps[] = { ",", "ab", ",,", "a" };
	std::string m = std::string(pad, 'z') + nth(al, 3, slen, sidx);
	String s = A(m);
	for (int si = 0; si < 4; si++) {
		std::string k = fmt("split:%d:%llu:%d:%d", slen, (unsigned long long)sidx, pad, si);
		vf::cur(k); vf::add(C_EVAL);
		std::vector<std::string> e = refSplit(m, seps[si]);
		Array<String> r = s.split(seps[si]);
		bool ok = r.length() == (int)e.size();
		for (int i = 0; ok && i < r.length(); i++) ok = S(r[i]) == e[i] && sane(r[i]);
		if (!ok) bad("split", fmt("'%s'.split('%s') gives %d parts, reference %d", m.c_str(), seps[si], r.length(), (int)e.size()), k);
		String j = r.join(seps[si]);
		if (S(j) != m || !sane(j)) bad("split_join", fmt("'%s'.split('%s').join('%s') = '%s'", m.c_str(), seps[si], seps[si], *j), k);
		asanChk("split/join", k);
	}
}
static void pure_replace(uint64_t sidx, int slen, int pad) {
	static const char al[] = "ab";
	static const char* pats[] = { "a", "ab", "aa", "b" };
	static const char* reps[] = { "", "x", "aa", "ab", "a-replacement-longer-than-16" };
	std::string m = std::string(pad, 'z') + nth(al, 2, slen, sidx);
	String s = A(m);
	for (int pi = 0; pi < 4; pi++) for (int ri = 0; ri < 5; ri++) {
		std::string k = fmt("replace:%d:%llu:%d:%d:%d", slen, (unsigned long long)sidx, pad, pi, ri);
		vf::cur(k); vf::add(C_EVAL);
		String r = s.replace(pats[pi], reps[ri]); noteShape(r);
		std::string e = refReplace(m, pats[pi], reps[ri]);
		if (S(r) != e || !sane(r)) bad("replace", fmt("'%s'.replace('%s','%s') = '%s', reference '%s'", m.c_str(), pats[pi], reps[ri], *r, e.c_str()), k);
		asanChk("replace", k);
	}
}
static void pure_trim(uint64_t sidx, int slen, int pad) {
	static const char al[] = " \t\na\r";
	std::string m = nth(al, 5, slen, sidx);
	if (pad) m = m + std::string(pad, 'q') + m;
	std::string k = fmt("trim:%d:%llu:%d", slen, (unsigned long long)sidx, pad);
	vf::cur(k); vf::add(C_EVAL);
	size_t b = m.find_first_not_of(" \t\n\r"), e = m.find_last_not_of(" \t\n\r");
	std::string exp = b == std::string::npos ? "" : m.substr(b, e - b + 1);
	String s = A(m);
	String t = s.trimmed();
	if (S(t) != exp || !sane(t)) bad("trimmed", fmt("trimmed(%s) = '%s'", vf::hex(m).c_str(), *t), k);
	String u = s; u.trim();
	if (S(u) != exp || !sane(u)) bad("trim", fmt("trim(%s) = '%s'", vf::hex(m).c_str(), *u), k);
	// whitespace split
	std::vector<std::string> ws; { size_t i = 0; while (i < m.size()) { while (i < m.size() && strchr(" \t\n\r", m[i])) i++; size_t j = i; while (j < m.size() && !strchr(" \t\n\r", m[j])) j++; if (j > i) ws.push_back(m.substr(i, j - i)); i = j; } }
	Array<String> r = s.split();
	bool ok = r.length() == (int)ws.size();
	for (int i = 0; ok && i < r.length(); i++) ok = S(r[i]) == ws[i];
	if (!ok) bad("split_ws", fmt("split() of %s gives %d words, reference %d", vf::hex(m).c_str(), r.length(), (int)ws.size()), k);
	asanChk("trim/split()", k);
}

// ================================================================ (3) integers
static void chk_int(int x) {
	vf::add(C_EVAL);
	String s(x); char e[16]; int n = snprintf(e, sizeof e, "%d", x);
	if (s.length() != n || memcmp(*s, e, n + 1) != 0 || (int)s != x || s.toInt() != x) { std::string k = fmt("int:%d", x); vf::cur(k); bad("int_roundtrip", fmt("String(%d) = '%s' -> %d", x, *s, (int)s), k); }
}
static void chk_uint(unsigned x) {
	vf::add(C_EVAL);
	String s(x); char e[16]; int n = snprintf(e, sizeof e, "%u", x);
	if (s.length() != n || memcmp(*s, e, n + 1) != 0 || (unsigned)s != x) { std::string k = fmt("uint:%u", x); vf::cur(k); bad("uint_roundtrip", fmt("String(%uu) = '%s' -> %u", x, *s, (unsigned)s), k); }
}
static void chk_long(Long x) {
	vf::add(C_EVAL); vf::add(C_DIST);
	std::string k = fmt("long:%lld", (long long)x); vf::cur(k);
	String s(x); char e[32]; int n = snprintf(e, sizeof e, "%lld", (long long)x);
	if (s.length() != n || memcmp(*s, e, n + 1) != 0 || (Long)s != x || s.toLong() != x || !sane(s)) bad("long_roundtrip", fmt("String((Long)%lld) = '%s' -> %lld", (long long)x, *s, (long long)s.toLong()), k);
	asanChk("String(Long)", k);
}
static void chk_ulong(ULong x) {
	vf::add(C_EVAL); vf::add(C_DIST);
	std::string k = fmt("ulong:%llu", (unsigned long long)x); vf::cur(k);
	String s(x); char e[32]; int n = snprintf(e, sizeof e, "%llu", (unsigned long long)x);
	if (s.length() != n || memcmp(*s, e, n + 1) != 0 || (ULong)s.toLong() != x || !sane(s)) bad("ulong_roundtrip", fmt("String((ULong)%llu) = '%s' -> %llu", (unsigned long long)x, *s, (unsigned long long)(ULong)s.toLong()), k);
	asanChk("String(ULong)", k);
}

// ================================================================ (4) printf-style constructors
static void chk_printf(int la, int lb) {
	std::string a = StrSys::lit(la), b = StrSys::lit(lb);
	std::string k = fmt("printf:%d:%d", la, lb); vf::cur(k);
	std::string e1 = a, e2 = a + "-" + b, e3 = fmt("%i", la * 1000003 - lb), e4 = fmt("%5.2f", la * 1.25 + lb / 7.0);
	vf::add(C_EVAL); vf::add(C_DIST);
	if (la >= 255) vf::add(W_F_RETRY);
	String r1 = String::f("%s", a.c_str()), r2 = String::f("%s-%s", a.c_str(), b.c_str()), r3 = String::f("%i", la * 1000003 - lb), r4 = String::f("%5.2f", la * 1.25 + lb / 7.0);
	if (S(r1) != e1 || !sane(r1)) bad("printf_f", fmt("String::f(\"%%s\", <%d chars>) has length %d, strlen %d", la, r1.length(), (int)strlen(*r1)), k);
	if (S(r2) != e2 || !sane(r2)) bad("printf_f", fmt("String::f(\"%%s-%%s\", <%d>, <%d>) has length %d, strlen %d", la, lb, r2.length(), (int)strlen(*r2)), k);
	if (S(r3) != e3 || S(r4) != e4) bad("printf_f", "String::f numeric formats", k);
	int caps[] = { 0, 5, 15, 16, 40 };
	for (int c = 0; c < 5; c++) {
		if (la + lb + 1 >= (caps[c] ? std::max(caps[c] + 1, 20) : 101)) vf::add(W_CTOR_RETRY);
		String q1(caps[c], "%s", a.c_str()), q2(caps[c], "%s-%s", a.c_str(), b.c_str()), q3(caps[c], "%i", la * 1000003 - lb);
		if (S(q1) != e1 || !sane(q1)) bad("printf_ctor", fmt("String(%d, \"%%s\", <%d chars>) has length %d, strlen %d", caps[c], la, q1.length(), (int)strlen(*q1)), k);
		if (S(q2) != e2 || !sane(q2)) bad("printf_ctor", fmt("String(%d, \"%%s-%%s\", <%d>, <%d>) has length %d, strlen %d", caps[c], la, lb, q2.length(), (int)strlen(*q2)), k);
		if (S(q3) != e3) bad("printf_ctor", "String(n, \"%i\")", k);
	}
	asanChk("printf constructors", k);
}

static void run_case(const std::string& k) {
	long a, b, c, d; unsigned long long u; char buf[64];
	if (sscanf(k.c_str(), "substring:%ld:%ld", &a, &b) == 2) pure_substring((int)a, (int)b);
	else if (sscanf(k.c_str(), "search:%ld:%llu:%ld", &a, &u, &b) == 3) pure_search(u, (int)a, (int)b);
	else if (sscanf(k.c_str(), "split:%ld:%llu:%ld", &a, &u, &b) == 3) pure_split(u, (int)a, (int)b);
	else if (sscanf(k.c_str(), "replace:%ld:%llu:%ld", &a, &u, &b) == 3) pure_replace(u, (int)a, (int)b);
	else if (sscanf(k.c_str(), "trim:%ld:%llu:%ld", &a, &u, &b) == 3) pure_trim(u, (int)a, (int)b);
	else if (sscanf(k.c_str(), "int:%ld", &a) == 1) chk_int((int)a);
	else if (sscanf(k.c_str(), "uint:%llu", &u) == 1) chk_uint((unsigned)u);
	else if (sscanf(k.c_str(), "long:%63s", buf) == 1) chk_long(strtoll(buf, 0, 10));
	else if (sscanf(k.c_str(), "ulong:%63s", buf) == 1) chk_ulong(strtoull(buf, 0, 10));
	else if (sscanf(k.c_str(), "printf:%ld:%ld", &a, &b) == 2) chk_printf((int)a, (int)b);
	(void)c; (void)d;
}

int main(int argc, char** argv) {
	vf::init(argc, argv, "C03", "c03_string");
	int cS = vf::counter("states"), cT = vf::counter("transitions"), cTr = vf::counter("traces");
	C_EVAL = vf::counter("evaluations"); C_DIST = vf::counter("distinct_nontrivial");
	W_INLINE2HEAP = vf::counter("w.inline_to_heap"); W_HEAP_DOUBLE = vf::counter("w.heap_growth_malloc_below_1KiB"); W_REALLOC = vf::counter("w.heap_growth_realloc_above_1KiB");
	W_SELF_APPEND = vf::counter("w.self_append_ops"); W_SELF_ASSIGN = vf::counter("w.self_assign_ops"); W_INLINE_RESULT = vf::counter("w.results_inline"); W_HEAP_RESULT = vf::counter("w.results_heap");
	W_F_RETRY = vf::counter("w.String_f_beyond_255_retry"); W_CTOR_RETRY = vf::counter("w.printf_ctor_retry");
	bool T = vf::opt.thorough();
	StrSys sys;
	if (vf::opt.replay) {
		const std::string& k = vf::opt.kase;
		vf::parallel(1, [&](uint64_t) { if (k.compare(0, 7, "string:") == 0) vf::Bfs<StrSys>(sys, "string").replay(k); else run_case(k); });
		return vf::finish();
	}
	{ // (1)
		vf::Bfs<StrSys> b(sys, "string");
		vf::BfsResult r = b.run(T ? 6 : 5, 0);
		vf::add(cS, r.states); vf::add(cT, r.transitions); vf::add(cTr, r.traces);
		std::string pd; for (size_t i = 0; i < r.per_depth.size(); i++) pd += fmt(i ? ",%llu" : "%llu", (unsigned long long)r.per_depth[i]);
		vf::setinfo("string_histories", fmt("{\"depth_completed\": %d, \"states\": %llu, \"transitions\": %llu, \"new_states_per_depth\": [%s], \"op_alphabet\": %d}", r.depth_done, (unsigned long long)r.states, (unsigned long long)r.transitions, pd.c_str(), sys.nops()));
	}
	// (2)
	vf::parallel(2 * 41, [&](uint64_t i) { pure_substring((int)(i % 41), i / 41 ? 20 : 0); });
	for (int pad = 0; pad <= 20; pad += 20) {
		for (int len = 0; len <= (T ? 7 : 5); len++) vf::parallel(ipow(2, len), [&](uint64_t i) { pure_search(i, len, pad); }, 8);
		for (int len = 0; len <= (T ? 8 : 7); len++) vf::parallel(ipow(3, len), [&](uint64_t i) { pure_split(i, len, pad); }, 32);
		for (int len = 0; len <= (T ? 9 : 7); len++) vf::parallel(ipow(2, len), [&](uint64_t i) { pure_replace(i, len, pad); }, 8);
		for (int len = 0; len <= (T ? 7 : 6); len++) vf::parallel(ipow(5, len), [&](uint64_t i) { pure_trim(i, len, pad); }, 64);
	}
	vf::add(C_DIST, vf::get(C_EVAL)); // every pure-function case above is a distinct (input, arguments) tuple
	// (3) integers
	if (T) {
		vf::parallel(1 << 16, [&](uint64_t hi) { for (uint64_t lo = 0; lo < (1 << 16); lo++) { unsigned x = (unsigned)((hi << 16) | lo); chk_int((int)x); chk_uint(x); } vf::add(C_DIST, 2 << 16); }, 16);
		vf::setinfo("int_sweep", "\"all 2^32 int and unsigned values\"");
	} else {
		vf::parallel(2001, [&](uint64_t b) { for (int i = 0; i < 1000; i++) { int x = (int)b * 1000 - 1000000 + i; chk_int(x); if (x >= 0) chk_uint((unsigned)x); } vf::add(C_DIST, 1500); });
		vf::parallel(1, [&](uint64_t) {
			for (int k = 0; k <= 9; k++) { int64_t p = 1; for (int i = 0; i < k; i++) p *= 10; for (int d = 1; d <= 9; d++) for (int dl = -1; dl <= 1; dl++) { int64_t v = d * p + dl; if (v <= INT_MAX) { chk_int((int)v); chk_int((int)-v); } if (v <= UINT_MAX) chk_uint((unsigned)v); vf::add(C_DIST, 3); } }
			int ex[] = { INT_MAX, INT_MIN, INT_MAX - 1, INT_MIN + 1, 0, -1 }; for (int i = 0; i < 6; i++) chk_int(ex[i]);
			unsigned ux[] = { 0u, UINT_MAX, UINT_MAX - 1, 2147483648u, 2147483647u }; for (int i = 0; i < 5; i++) chk_uint(ux[i]);
		});
		vf::setinfo("int_sweep", "\"all |x| <= 10^6, every d*10^k +-1, extremes (thorough: all 2^32)\"");
	}
	vf::parallel(1, [&](uint64_t) {
		for (int k = 0; k <= 19; k++) { ULong p = 1; for (int i = 0; i < k; i++) p *= 10; for (int d = 1; d <= 9; d++) for (int dl = -2; dl <= 2; dl++) { if (k == 19 && d > 1) continue; ULong v = d * p + dl; chk_ulong(v); if (v <= (ULong)LLONG_MAX) { chk_long((Long)v); chk_long(-(Long)v); } } }
		for (int k = 0; k <= 63; k++) for (int dl = -2; dl <= 2; dl++) { ULong v = ((ULong)1 << k) + dl; chk_ulong(v); if (v <= (ULong)LLONG_MAX) { chk_long((Long)v); chk_long(-(Long)v); } }
		chk_long(LLONG_MAX); chk_long(LLONG_MIN); chk_long(LLONG_MIN + 1); chk_ulong(ULLONG_MAX); chk_ulong(0); chk_long(0);
	});
	// (4) printf-style constructors: every argument length 0..300
	vf::parallel(301, [&](uint64_t la) { int lbs[] = { 0, 1, 14, 15, 16, 99, 100, 253, 254, 255, 256, 300 }; for (int j = 0; j < 12; j++) chk_printf((int)la, lbs[j]); });
	vf::sample("string history: s = \"<15 chars>\" ; s += s ; s = *s + 2 ; s.append(*s + 1, n - 2) ; s.resize(2n+3)");
	vf::sample("'ab,,a'.split(',,').join(',,'); 'aab'.replace('aa','ab'); String((Long)LLONG_MIN); String::f(\"%s-%s\", <254 chars>, <16 chars>)");
	return vf::finish();
}
