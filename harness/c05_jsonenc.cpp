// C05 — JSON/XDL encode -> decode fidelity: complete enumeration of small Var trees / scalar sweeps / key and string
// alphabets, every encoder mode, python json as the independent strict parser, file round trips across the chunk sizes.
#include <asl/Xdl.h>
#include <asl/JSON.h>
#include <asl/Var.h>
#include <asl/File.h>
#include <asl/TextFile.h>
#include <float.h>
#include <limits.h>
#include <math.h>
#include "vf.h"
#include "aslx.h"
#include "refjson.h"
using namespace asl;
using vf::fmt;

static int C_EVAL, C_DIST, W_FILE_CHUNK, W_FILE_FLUSH, W_TINYFILE, C_PY;

// ---------------------------------------------------------------- model
struct M {
	enum T { NUL, BOOL, INT, DBL, FLT, STR, ARR, OBJ } t;
	bool b; int i; double d; float f; std::string s;
	std::vector<M> a; std::vector<std::pair<std::string, M> > o; // distinct keys
	M() : t(NUL), b(false), i(0), d(0), f(0) {}
	static M nul() { return M(); }
	static M boolean(bool x) { M m; m.t = BOOL; m.b = x; return m; }
	static M integer(int x) { M m; m.t = INT; m.i = x; return m; }
	static M dbl(double x) { M m; m.t = DBL; m.d = x; return m; }
	static M flt(float x) { M m; m.t = FLT; m.f = x; return m; }
	static M str(const std::string& x) { M m; m.t = STR; m.s = x; return m; }
	static M arr() { M m; m.t = ARR; return m; }
	static M obj() { M m; m.t = OBJ; return m; }
};
static Var toVar(const M& m) {
	switch (m.t) {
	case M::NUL: return Var(Var::NUL); case M::BOOL: return Var(m.b); case M::INT: return Var(m.i); case M::DBL: return Var(m.d); case M::FLT: return Var(m.f);
	case M::STR: return Var(vfx::A(m.s));
	case M::ARR: { Var v(Var::ARRAY); for (size_t i = 0; i < m.a.size(); i++) v << toVar(m.a[i]); return v; }
	case M::OBJ: { Var v(Var::OBJ); for (size_t i = 0; i < m.o.size(); i++) v[vfx::A(m.o[i].first)] = toVar(m.o[i].second); return v; }
	}
	return Var();
}
static uint64_t bits(double d) { uint64_t u; memcpy(&u, &d, 8); return u; }
// pattern handed to python: like rj::dump, floats as F<bits>
static std::string pattern(const M& m) {
	switch (m.t) {
	case M::NUL: return "n"; case M::BOOL: return m.b ? "t" : "f"; case M::INT: return "#" + rj::numstr(m.i); case M::DBL: return "#" + rj::numstr(m.d);
	case M::FLT: { uint32_t u; memcpy(&u, &m.f, 4); return fmt("F%08x", u); }
	case M::STR: return "s" + vf::hex(m.s);
	case M::ARR: { std::string s = "["; for (size_t i = 0; i < m.a.size(); i++) s += (i ? "," : "") + pattern(m.a[i]); return s + "]"; }
	case M::OBJ: { std::map<std::string, std::string> mm; for (size_t i = 0; i < m.o.size(); i++) mm[m.o[i].first] = pattern(m.o[i].second); std::string s = "{"; bool f = true; for (std::map<std::string, std::string>::iterator it = mm.begin(); it != mm.end(); ++it) { s += (f ? "" : ",") + vf::hex(it->first) + ":" + it->second; f = false; } return s + "}"; }
	}
	return "?";
}
static std::string show(const M& m) { return pattern(m); }
// exact: doubles bit for bit when non-zero, floats exactly as float; otherwise numbers to 15 significant digits (SIMPLE modes)
static bool same(const Var& v, const M& m, bool exact, std::string& why, const std::string& path) {
	switch (m.t) {
	case M::NUL: if (!v.is(Var::NUL)) { why = path + ": expected null"; return false; } return true;
	case M::BOOL: if (v.type() != Var::BOOL || (bool)v != m.b) { why = path + ": expected bool"; return false; } return true;
	case M::INT: if (!v.is(Var::NUMBER) || (double)v != (double)m.i) { why = path + fmt(": expected %d, got %.17g", m.i, (double)v); return false; } return true;
	case M::DBL: {
		if (!v.is(Var::NUMBER)) { why = path + ": expected a number"; return false; }
		double x = v;
		if (exact) { if (m.d == 0 ? x != 0 : bits(x) != bits(m.d)) { why = path + fmt(": double %.17g recovered as %.17g", m.d, x); return false; } }
		else { double e15 = strtod(fmt("%.15g", m.d).c_str(), 0); if (x != e15) { why = path + fmt(": double %.17g recovered as %.17g, its 15-digit rounding is %.17g", m.d, x, e15); return false; } }
		return true;
	}
	case M::FLT: {
		if (!v.is(Var::NUMBER)) { why = path + ": expected a number"; return false; }
		float x = (float)(double)v;
		if (exact) { if (x != m.f) { why = path + fmt(": float %.9g recovered as %.9g", m.f, x); return false; } }
		else { float e7 = (float)strtod(fmt("%.7g", m.f).c_str(), 0); if (x != e7) { why = path + fmt(": float %.9g recovered as %.9g, its 7-digit rounding is %.9g", m.f, x, e7); return false; } }
		return true;
	}
	case M::STR: { if (!v.is(Var::STRING)) { why = path + ": expected a string"; return false; } String s = v; if (vfx::S(s) != m.s) { why = path + ": string " + vf::hex(m.s) + " recovered as " + vf::hex(vfx::S(s)); return false; } return true; }
	case M::ARR: { if (!v.is(Var::ARRAY) || v.length() != (int)m.a.size()) { why = path + fmt(": expected array of %d", (int)m.a.size()); return false; } for (int i = 0; i < v.length(); i++) if (!same(v[i], m.a[i], exact, why, path + fmt("[%d]", i))) return false; return true; }
	case M::OBJ: { if (!v.is(Var::OBJ) || v.length() != (int)m.o.size()) { why = path + fmt(": expected object with %d properties, got type %d length %d", (int)m.o.size(), (int)v.type(), v.length()); return false; }
		for (size_t i = 0; i < m.o.size(); i++) { String k = vfx::A(m.o[i].first); if (!v.has(k)) { why = path + ": key " + vf::hex(m.o[i].first) + " missing"; return false; } if (!same(v[k], m.o[i].second, exact, why, path + "." + vf::hex(m.o[i].first))) return false; } return true; }
	}
	return false;
}

static FILE* pyf = 0; static char pybuf[1 << 16];
static void pyline(const std::string& text, const M& m) {
	if (!pyf) { pyf = fopen((vf::scratch_dir() + fmt("/py5.%d.%d", vf::worker_id(), (int)getpid())).c_str(), "a"); if (pyf) setvbuf(pyf, pybuf, _IOFBF, sizeof pybuf); }
	if (pyf) { fprintf(pyf, "%s\t%s\n", vf::hex(text).c_str(), pattern(m).c_str()); vf::add(C_PY); }
}

static bool identKeys(const M& m) {
	if (m.t == M::ARR) { for (size_t i = 0; i < m.a.size(); i++) if (!identKeys(m.a[i])) return false; }
	if (m.t == M::OBJ) for (size_t i = 0; i < m.o.size(); i++) {
		const std::string& k = m.o[i].first;
		if (k.empty()) return false;
		for (size_t j = 0; j < k.size(); j++) if (!(isalnum((unsigned char)k[j]) || k[j] == '_')) return false;
		if (!identKeys(m.o[i].second)) return false;
	}
	return true;
}
static bool validUtf8(const std::string& s) { rj::Ref r; r.feed('"'); r.feed(s); return !r.excluded; }
static bool allUtf8(const M& m) {
	if (m.t == M::STR) return validUtf8(m.s);
	if (m.t == M::ARR) { for (size_t i = 0; i < m.a.size(); i++) if (!allUtf8(m.a[i])) return false; }
	if (m.t == M::OBJ) for (size_t i = 0; i < m.o.size(); i++) if (!validUtf8(m.o[i].first) || !allUtf8(m.o[i].second)) return false;
	return true;
}

static void checkOne(const M& m, const std::string& kase) {
	vf::cur(kase);
	vf::add(C_EVAL);
	Var v = toVar(m);
	std::string why;
	struct { Json::Mode mode; bool json, exact; const char* name; } modes[] = {
		{ Json::NONE, true, true, "Json NONE" }, { Json::PRETTY, true, true, "Json PRETTY" }, { Json::SIMPLE, true, false, "Json SIMPLE" }, { Json::NICE, true, false, "Json NICE" },
		{ Json::NONE, false, true, "Xdl NONE" }, { Json::PRETTY, false, true, "Xdl PRETTY" }, { Json::SIMPLE, false, false, "Xdl SIMPLE (default)" } };
	bool ident = identKeys(m), utf8 = allUtf8(m);
	for (size_t k = 0; k < sizeof modes / sizeof *modes; k++) {
		if (!modes[k].json && !ident) continue;
		String text = modes[k].json ? Json::encode(v, modes[k].mode) : Xdl::encode(v, modes[k].mode);
		Var back = modes[k].json ? Json::decode(text) : Xdl::decode(text);
		if (!back.ok()) vf::violation("roundtrip_reject", fmt("%s: own decoder rejects the encoder output %s of %s", modes[k].name, vf::hex(vfx::S(text)).c_str(), show(m).c_str()), kase);
		else if (!same(back, m, modes[k].exact, why, "$")) vf::violation(modes[k].json ? "roundtrip_value" : "roundtrip_value_xdl", fmt("%s: %s  (text %s)", modes[k].name, why.c_str(), vf::hex(vfx::S(text)).substr(0, 300).c_str()), kase);
		if (modes[k].json && modes[k].exact && utf8) pyline(vfx::S(text), m);
		if (vf::asan_tripped()) { vf::violation("asan", std::string("ASan ") + vf::asan_what() + " in " + modes[k].name, kase); vf::asan_clear(); }
	}
}

// ---------------------------------------------------------------- enumerations
static const char* SALPHA[] = { "a", "\"", "\\", "/", "\n", "\r", "\t", "\b", "\f", "\x01", "\x1f", "\x7f", "\xc3\xa9", "\xe2\x82\xac", "\xf0\x9f\x98\x80" };
static const int NSA = 15;
static std::string strOf(int len, uint64_t idx) { std::string s; for (int i = 0; i < len; i++) { s += SALPHA[idx % NSA]; idx /= NSA; } return s; }

static std::vector<M> leaves() {
	std::vector<M> l;
	l.push_back(M::nul()); l.push_back(M::boolean(true)); l.push_back(M::integer(-1)); l.push_back(M::dbl(0.1)); l.push_back(M::flt(2.7f)); l.push_back(M::str("")); l.push_back(M::str("a\"\\/\n\x01")); l.push_back(M::str("\xc3\xa9\xe2\x82\xac\xf0\x9f\x98\x80x"));
	return l;
}
static const char* KEYS[] = { "a", "b_2", "k/\"\\", "\xc3\xa9\x01", "" };
// all trees with exactly n nodes (n <= 5), depth <= 3, fan-out <= 2
static void trees(int n, int depth, bool xdlKeysOnly, std::vector<M>& out) {
	static std::vector<M> L = leaves();
	if (n == 1) { for (size_t i = 0; i < L.size(); i++) out.push_back(L[i]); out.push_back(M::arr()); out.push_back(M::obj()); return; }
	if (depth <= 1) return;
	// one child
	{ std::vector<M> c; trees(n - 1, depth - 1, xdlKeysOnly, c);
	  for (size_t i = 0; i < c.size(); i++) { M a = M::arr(); a.a.push_back(c[i]); out.push_back(a); for (int k = 0; k < 5; k++) { M o = M::obj(); o.o.push_back(std::make_pair(std::string(KEYS[k]), c[i])); out.push_back(o); } } }
	// two children
	for (int n1 = 1; n1 <= n - 2; n1++) {
		std::vector<M> c1, c2; trees(n1, depth - 1, xdlKeysOnly, c1); trees(n - 1 - n1, depth - 1, xdlKeysOnly, c2);
		for (size_t i = 0; i < c1.size(); i++) for (size_t j = 0; j < c2.size(); j++) {
			M a = M::arr(); a.a.push_back(c1[i]); a.a.push_back(c2[j]); out.push_back(a);
			static const int kp[][2] = { { 0, 1 }, { 1, 2 }, { 2, 3 }, { 4, 0 } };
			for (int k = 0; k < 4; k++) { M o = M::obj(); o.o.push_back(std::make_pair(std::string(KEYS[kp[k][0]]), c1[i])); o.o.push_back(std::make_pair(std::string(KEYS[kp[k][1]]), c2[j])); out.push_back(o); }
		}
	}
}

static double mkdouble(int sign, int expo, int mant) {
	uint64_t m = mant == 0 ? 0 : mant == 1 ? 1 : mant == 2 ? 0xfffffffffffffULL : 0xaaaaaaaaaaaaaULL;
	uint64_t u = ((uint64_t)sign << 63) | ((uint64_t)expo << 52) | m; double d; memcpy(&d, &u, 8); return d;
}
static float mkfloat(int sign, int expo, int mant) {
	uint32_t m = mant == 0 ? 0 : mant == 1 ? 1 : mant == 2 ? 0x7fffff : 0x2aaaaa;
	uint32_t u = ((uint32_t)sign << 31) | ((uint32_t)expo << 23) | m; float f; memcpy(&f, &u, 4); return f;
}

// ---------------------------------------------------------------- file round trips
static void fileCase(const std::string& doc, const M& m, bool xdl, const std::string& kase) {
	vf::cur(kase); vf::add(C_EVAL); vf::add(C_DIST);
	std::string path = vf::scratch_dir() + fmt("/f5.%d.json", (int)getpid());
	{ FILE* f = fopen(path.c_str(), "wb"); fwrite(doc.data(), 1, doc.size(), f); fclose(f); }
	Var v = xdl ? Xdl::read(path.c_str()) : Json::read(path.c_str());
	std::string why;
	if (!v.ok()) vf::violation("file_read_reject", fmt("%s::read of a %d-byte document '%s' returned an invalid Var", xdl ? "Xdl" : "Json", (int)doc.size(), doc.size() < 40 ? doc.c_str() : (doc.substr(0, 16) + "..." + doc.substr(doc.size() - 16)).c_str()), kase);
	else if (!same(v, m, true, why, "$")) vf::violation("file_read_value", fmt("read of a %d-byte document: %s", (int)doc.size(), why.c_str()), kase);
	remove(path.c_str());
}
static void writeReadCase(const M& m, int mode, bool xdl, const std::string& kase) {
	vf::cur(kase); vf::add(C_EVAL); vf::add(C_DIST);
	std::string path = vf::scratch_dir() + fmt("/w5.%d.json", (int)getpid());
	Var v = toVar(m);
	bool ok = xdl ? Xdl::write(v, path.c_str(), mode) : Json::write(v, path.c_str(), Json::Mode(mode));
	Var back = xdl ? Xdl::read(path.c_str()) : Json::read(path.c_str());
	std::string why;
	FILE* f = fopen(path.c_str(), "rb"); long sz = 0; if (f) { fseek(f, 0, SEEK_END); sz = ftell(f); fclose(f); }
	if (sz > 16000) vf::add(W_FILE_FLUSH);
	if (sz > 16382) vf::add(W_FILE_CHUNK);
	if (!ok || !back.ok()) vf::violation("file_roundtrip_reject", fmt("write/read through a %ld-byte file failed (mode %d, %s)", sz, mode, xdl ? "Xdl" : "Json"), kase);
	else if (!same(back, m, (mode & Json::SIMPLE) == 0, why, "$")) vf::violation("file_roundtrip_value", fmt("write/read through a %ld-byte file (mode %d): %s", sz, mode, why.c_str()), kase);
	remove(path.c_str());
}
// token-rich tail preceded by padding inside a string so that the tail meets every alignment against the read chunk / writer flush
static M paddedDoc(int pad, bool identKey = false) {
	M root = M::arr();
	root.a.push_back(M::str(std::string(pad, 'p')));
	M o = M::obj(); o.o.push_back(std::make_pair(std::string(identKey ? "k_y" : "k\"\\/y"), M::dbl(-1.5e-7))); o.o.push_back(std::make_pair(std::string("u"), M::str("q\"\\\n\xf0\x9f\x98\x80\xc3\xa9")));
	root.a.push_back(o); root.a.push_back(M::integer(INT_MIN)); root.a.push_back(M::boolean(false)); root.a.push_back(M::nul()); root.a.push_back(M::flt(0.1f));
	M in = M::arr(); in.a.push_back(M::dbl(1e22)); in.a.push_back(M::str("")); root.a.push_back(in);
	return root;
}

static std::vector<M> gTrees;
static void run_case(const std::string& k) {
	unsigned long long a, b; int i, j;
	if (sscanf(k.c_str(), "tree:%llu", &a) == 1) { if (gTrees.empty()) for (int n = 1; n <= (vf::opt.thorough() ? 6 : 5); n++) trees(n, vf::opt.thorough() ? 4 : 3, false, gTrees); if (a < gTrees.size()) checkOne(gTrees[a], k); }
	else if (sscanf(k.c_str(), "str:%d:%llu:%d", &i, &a, &j) == 3) { std::string s = strOf(i, a); M m; if (j == 0) m = M::str(s); else if (j == 1) { m = M::obj(); m.o.push_back(std::make_pair(s, M::integer(1))); } else { m = M::arr(); m.a.push_back(M::str(s + "1234567")); m.a.push_back(M::str("123456" + s)); } checkOne(m, k); }
	else if (sscanf(k.c_str(), "dbl:%d:%d:%d", &i, &j, (int*)&a) == 3) checkOne(M::dbl(mkdouble(i, j, (int)a)), k);
	else if (sscanf(k.c_str(), "flt:%d:%d:%d", &i, &j, (int*)&a) == 3) checkOne(M::flt(mkfloat(i, j, (int)a)), k);
	else if (sscanf(k.c_str(), "dec:%llu:%d", &a, &i) == 2) { checkOne(M::dbl((double)a / pow(10.0, i)), k); }
	else if (sscanf(k.c_str(), "int:%d", &i) == 1) checkOne(M::integer(i), k);
	else if (sscanf(k.c_str(), "pad:%d:%d:%d", &i, &j, (int*)&a) == 3) writeReadCase(paddedDoc(i, a != 0), j, a != 0, k);
	(void)b;
}

int main(int argc, char** argv) {
	vf::init(argc, argv, "C05", "c05_jsonenc");
	C_EVAL = vf::counter("evaluations"); C_DIST = vf::counter("distinct_nontrivial"); C_PY = vf::counter("encoder_outputs_checked_by_python_json");
	W_FILE_CHUNK = vf::counter("w.files_beyond_16382_read_chunk"); W_FILE_FLUSH = vf::counter("w.files_beyond_16000_writer_flush"); W_TINYFILE = vf::counter("w.files_of_1_to_3_bytes");
	if (vf::opt.replay) { vf::parallel(1, [&](uint64_t) { run_case(vf::opt.kase); }); return vf::finish(); }
	bool T = vf::opt.thorough();
	// (1) all trees with <= 5 nodes (quick: <= 4)
	for (int n = 1; n <= (T ? 6 : 5); n++) trees(n, T ? 4 : 3, false, gTrees);
	size_t ntrees = gTrees.size();
	size_t lim = ntrees;
	vf::parallel(lim, [&](uint64_t i) { checkOne(gTrees[i], fmt("tree:%llu", (unsigned long long)i)); vf::add(C_DIST); }, 64);
	vf::setinfo("trees", fmt("{\"enumerated\": %llu, \"run\": %llu}", (unsigned long long)ntrees, (unsigned long long)lim));
	// (2) every string of length <= 2 over the 15-symbol alphabet as value, as key, and at the 7/8-byte inline boundary
	for (int len = 0; len <= (T ? 4 : 3); len++) { uint64_t n = 1; for (int i = 0; i < len; i++) n *= NSA; vf::parallel(n, [&](uint64_t i) { for (int j = 0; j < 3; j++) { run_case(fmt("str:%d:%llu:%d", len, (unsigned long long)i, j)); vf::add(C_DIST); } }, 16); }
	// (3) doubles: every exponent x 4 mantissas x sign; k/10^n; floats likewise; ints
	vf::parallel(2047, [&](uint64_t e) { for (int s = 0; s < 2; s++) for (int m = 0; m < 4; m++) { run_case(fmt("dbl:%d:%d:%d", s, (int)e, m)); vf::add(C_DIST); } }, 8);
	vf::parallel(255, [&](uint64_t e) { for (int s = 0; s < 2; s++) for (int m = 0; m < 4; m++) { run_case(fmt("flt:%d:%d:%d", s, (int)e, m)); vf::add(C_DIST); } }, 8);
	vf::parallel(1000, [&](uint64_t k) { for (int n = 0; n <= 20; n++) { run_case(fmt("dec:%llu:%d", (unsigned long long)k, n)); vf::add(C_DIST); } }, 8);
	vf::parallel(1, [&](uint64_t) {
		int is[] = { 0, -1, 1, 9, 10, 999999999, 1000000000, -999999999, -1000000000, INT_MAX, INT_MIN, INT_MAX - 1, INT_MIN + 1, 123456789, -123456789 };
		for (size_t i = 0; i < sizeof is / sizeof *is; i++) { run_case(fmt("int:%d", is[i])); vf::add(C_DIST); }
		double ds[] = { 0.1, 1.0 / 3, 1e22, 1e-7, 123456789012.0, 5e-324, DBL_MIN, DBL_MAX, -DBL_MAX, -0.0, 0.0, 1e21, 1e15, 123456789.5, 4294967296.0, 2147483648.0, -2147483649.0 };
		for (size_t i = 0; i < sizeof ds / sizeof *ds; i++) { checkOne(M::dbl(ds[i]), fmt("dblv:%d", (int)i)); vf::add(C_DIST); }
		// shapes that reach the pretty-printer branches
		int ns[] = { 11, 17, 33 };
		for (int q = 0; q < 3; q++) { M a = M::arr(); for (int i = 0; i < ns[q]; i++) a.a.push_back(M::integer(i)); checkOne(a, fmt("shape:ints%d", ns[q])); M s = M::arr(); for (int i = 0; i < ns[q]; i++) s.a.push_back(M::str("string-of-some-length-" + fmt("%d", i))); checkOne(s, fmt("shape:strs%d", ns[q])); vf::add(C_DIST, 2); }
		M aa = M::arr(); for (int i = 0; i < 3; i++) { M in = M::arr(); in.a.push_back(M::integer(i)); in.a.push_back(M::dbl(i + 0.5)); aa.a.push_back(in); } checkOne(aa, "shape:arrays"); vf::add(C_DIST);
		M ao = M::arr(); for (int i = 0; i < 3; i++) { M in = M::obj(); in.o.push_back(std::make_pair(std::string("x"), M::integer(i))); ao.a.push_back(in); } checkOne(ao, "shape:objects"); vf::add(C_DIST);
	});
	// (4) files: documents of 1..3 bytes, and the padded document at every alignment against the 16382-byte read chunk and the 16000-byte flush
	vf::parallel(1, [&](uint64_t) {
		fileCase("1", M::integer(1), false, "file:1"); fileCase("[]", M::arr(), false, "file:[]"); fileCase("{}", M::obj(), false, "file:{}"); fileCase("12", M::integer(12), false, "file:12"); fileCase("\"\"", M::str(""), false, "file:emptystr");
	});
	vf::parallel(1, [&](uint64_t) { vf::add(W_TINYFILE, 5); M a = M::arr(); a.a.push_back(M::integer(1)); fileCase("[1]", a, false, "file:[1]"); fileCase("[1]", a, true, "file:x[1]"); fileCase("7", M::integer(7), true, "file:x7"); fileCase("\xef\xbb\xbf[1]", a, false, "file:bom[1]"); });
	{
		String tailText = Json::encode(toVar(paddedDoc(0)), Json::NONE);
		int tail = tailText.length() + 8;
		std::vector<int> pads;
		for (int base = 15990 - tail; base <= 16390; base++) if (base > 0) pads.push_back(base);
		for (int base = 32764 - tail; base <= 32770; base++) pads.push_back(base);
		for (int d = -2; d <= 2; d++) pads.push_back(100000 + d - tail / 2);
		vf::parallel(pads.size(), [&](uint64_t i) { int modes[] = { Json::NONE, Json::PRETTY }; for (int mi = 0; mi < 2; mi++) for (int x = 0; x < 2; x++) if (!(x && mi)) run_case(fmt("pad:%d:%d:%d", pads[i], modes[mi], x)); }, 4);
		vf::setinfo("file_alignments", fmt("%d", (int)pads.size()));
	}
	// python: every JSON encoder output (exact modes, valid UTF-8 content) must be accepted by python json and denote the same value
	std::vector<std::string> files = vf::list_scratch("py5.");
	if (!files.empty()) {
		std::string cmd = "python3 /verif/tools/ref_c05.py";
		for (size_t i = 0; i < files.size(); i++) cmd += " '" + files[i] + "'";
		cmd += " > '" + vf::scratch_dir() + "/py5.out' 2>&1";
		int rc = system(cmd.c_str());
		FILE* f = fopen((vf::scratch_dir() + "/py5.out").c_str(), "r");
		std::string out, first; char line[4000];
		while (f && fgets(line, sizeof line, f)) { out += line; if (first.empty() && strncmp(line, "BAD", 3) == 0) first = line; }
		if (f) fclose(f);
		vf::setinfo("python_strict_parser", vf::jstr(out.size() > 800 ? out.substr(out.size() - 800) : out));
		if (rc != 0) {
			// each BAD line: BAD <hex text> <reason>
			f = fopen((vf::scratch_dir() + "/py5.out").c_str(), "r"); int n = 0;
			while (f && fgets(line, sizeof line, f)) if (strncmp(line, "BAD", 3) == 0 && n++ < 30) { std::string l = line; while (!l.empty() && l[l.size() - 1] == '\n') l.resize(l.size() - 1); vf::violation("python_rejects_or_differs", "independent strict JSON parser: " + l.substr(4), "pytext:" + l.substr(4, l.find(' ', 4) - 4)); }
			if (f) fclose(f);
		}
	}
	vf::sample("tree [\"a\\\"\\\\/\\n\\x01\", {\"k/\\\"\\\\\": 0.1, \"\": 2.7f}] in Json NONE/PRETTY/SIMPLE/NICE and Xdl modes");
	vf::sample("double 0x1.fffffffffffffp-1022, 5e-324, -DBL_MAX, every exponent x {0,1,all-ones,alternating} mantissa; k/10^n for k<1000, n<=20");
	vf::sample("Json::write/read with a token-rich tail placed at every offset around byte 16000 and 16382; files \"1\", \"[]\", \"{}\"");
	return vf::finish();
}
