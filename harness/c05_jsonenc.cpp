// C05 — JSON/XDL encode -> decode fidelity: complete enumeration of small Var trees / scalar sweeps / key and string
// alphabets, every encoder mode incl. the default-argument forms, python json as the independent strict parser (texts and
// written files), file round trips across the chunk sizes with a classifier of what the read-chunk boundary splits,
// the number grids once more under a decimal-comma locale.
#include <asl/Xdl.h>
#include <asl/JSON.h>
#include <asl/Var.h>
#include <asl/File.h>
#include <asl/TextFile.h>
#include <float.h>
#include <limits.h>
#include <math.h>
#include <locale.h>
#include "vf.h"
#include "aslx.h"
#include "refjson.h"
using namespace asl;
using vf::fmt;

static int C_EVAL, C_DIST, W_FILE_CHUNK, W_FILE_FLUSH, W_TINYFILE, C_PY;
static int W_DEFAULT_ARG, W_DEFAULT_ARG_FILE, W_NON_UTF8, C_SKIP_XDL, C_PY_SAME, W_PY_SIMPLE, W_PY_FILE, C_PY_OPENFAIL, W_CTRL, W_BYTES, W_CLASS, W_LOCALE, W_INTS,
	W_SPLIT_UNI, W_SPLIT_ESC, W_SPLIT_NUM, W_SPLIT_UTF8, W_SPLIT_IDENT, W_SPLIT_STR, W_BIG, W_BIG_BOUNDARIES, W_PY_CHECKED;

// ---------------------------------------------------------------- model
struct M {
	enum T { NUL, BOOL, INT, DBL, FLT, STR, ARR, OBJ } t;
	bool b; int i; double d; float f; std::string s;
	std::vector<M> a; std::vector<std::pair<std::string, M> > o; // distinct keys
	M() : t(NUL), b(false), i(0), d(0), f(0) {}
	static M nul() { return M(); }
	static M boolean(bool x) { M m; m.t = BOOL; m.b = x; return m; }
	static M integer(int x) { M m; m.t = INT; m.i = x; return m; }
	static M dbl(double x) { M m; m.t = DBL; m.d = x; return m; }
	static M flt(float x) { M m; m.t = FLT; m.f = x; return m; }
	static M str(const std::string& x) { M m; m.t = STR; m.s = x; return m; }
	static M arr() { M m; m.t = ARR; return m; }
	static M obj() { M m; m.t = OBJ; return m; }
	M& add(const M& x) { a.push_back(x); return *this; }
	M& set(const std::string& k, const M& x) { o.push_back(std::make_pair(k, x)); return *this; }
};
static Var toVar(const M& m) {
	switch (m.t) {
	case M::NUL: return Var(Var::NUL); case M::BOOL: return Var(m.b); case M::INT: return Var(m.i); case M::DBL: return Var(m.d); case M::FLT: return Var(m.f);
	case M::STR: return Var(vfx::A(m.s));
	case M::ARR: { Var v(Var::ARRAY); for (size_t i = 0; i < m.a.size(); i++) v << toVar(m.a[i]); return v; }
	case M::OBJ: { Var v(Var::OBJ); for (size_t i = 0; i < m.o.size(); i++) v[vfx::A(m.o[i].first)] = toVar(m.o[i].second); return v; }
	}
	return Var();
}
static uint64_t bits(double d) { uint64_t u; memcpy(&u, &d, 8); return u; }
// pattern handed to python (locale independent): n t f  #<int>  D<double bits>  F<float bits>  s<hex>  [..]  {<hexkey>:..}
static std::string pattern(const M& m) {
	switch (m.t) {
	case M::NUL: return "n"; case M::BOOL: return m.b ? "t" : "f"; case M::INT: return fmt("#%d", m.i); case M::DBL: return fmt("D%016llx", (unsigned long long)bits(m.d));
	case M::FLT: { uint32_t u; memcpy(&u, &m.f, 4); return fmt("F%08x", u); }
	case M::STR: return "s" + vf::hex(m.s);
	case M::ARR: { std::string s = "["; for (size_t i = 0; i < m.a.size(); i++) s += (i ? "," : "") + pattern(m.a[i]); return s + "]"; }
	case M::OBJ: { std::map<std::string, std::string> mm; for (size_t i = 0; i < m.o.size(); i++) mm[m.o[i].first] = pattern(m.o[i].second); std::string s = "{"; bool f = true; for (std::map<std::string, std::string>::iterator it = mm.begin(); it != mm.end(); ++it) { s += (f ? "" : ",") + vf::hex(it->first) + ":" + it->second; f = false; } return s + "}"; }
	}
	return "?";
}
static std::string show(const M& m) { std::string p = pattern(m); return p.size() > 400 ? p.substr(0, 400) + "..." : p; }

// SIMPLE modes ("reduced precision", %.15g / %.7g): the recovered number must agree with the original to `digits` significant
// decimal digits, i.e. differ by at most half a unit of the last kept digit (plus one ulp for the decimal->binary conversion).
// Nothing more is promised for these modes, so a different but at least as precise format is not an error.
static bool withinDigits(double x, double orig, int digits) {
	if (orig == 0) return x == 0;
	if (x == orig) return true;
	long double a = fabsl((long double)orig);
	int E = (int)floorl(log10l(a) + 1e-9L); // never smaller than the true decimal exponent
	long double bound = 0.5L * powl(10.0L, (long double)(E - (digits - 1))) + a * (long double)DBL_EPSILON;
	// the k-digit rounding of the largest doubles lies above DBL_MAX: a correct decimal->binary conversion of it is +-infinity
	if (isinf(x)) return (x < 0) == (orig < 0) && a + bound > (long double)DBL_MAX;
	return fabsl((long double)x - (long double)orig) <= bound;
}
// exact: doubles bit for bit when non-zero, floats exactly as float; otherwise numbers to 15 / 7 significant digits (SIMPLE modes)
static bool same(const Var& v, const M& m, bool exact, std::string& why, const std::string& path) {
	switch (m.t) {
	case M::NUL: if (!v.is(Var::NUL)) { why = path + ": expected null"; return false; } return true;
	case M::BOOL: if (v.type() != Var::BOOL || (bool)v != m.b) { why = path + ": expected bool"; return false; } return true;
	case M::INT: if (!v.is(Var::NUMBER) || (double)v != (double)m.i) { why = path + fmt(": expected %d, got %.17g", m.i, (double)v); return false; } return true;
	case M::DBL: {
		if (!v.is(Var::NUMBER)) { why = path + ": expected a number"; return false; }
		double x = v;
		if (exact) { if (m.d == 0 ? x != 0 : bits(x) != bits(m.d)) { why = path + fmt(": double %.17g recovered as %.17g", m.d, x); return false; } }
		else if (!withinDigits(x, m.d, 15)) { why = path + fmt(": double %.17g recovered as %.17g, which differs in the first 15 significant digits", m.d, x); return false; }
		return true;
	}
	case M::FLT: {
		if (!v.is(Var::NUMBER)) { why = path + ": expected a number"; return false; }
		double xd = v; float x = (float)xd;
		if (exact) { if (x != m.f) { why = path + fmt(": float %.9g recovered as %.9g", m.f, x); return false; } }
		else if (!withinDigits(xd, (double)m.f, 7)) { why = path + fmt(": float %.9g recovered as %.9g, which differs in the first 7 significant digits", m.f, xd); return false; }
		return true;
	}
	case M::STR: { if (!v.is(Var::STRING)) { why = path + ": expected a string"; return false; } String s = v; if (vfx::S(s) != m.s) { why = path + ": string " + vf::hex(m.s) + " recovered as " + vf::hex(vfx::S(s)); return false; } return true; }
	case M::ARR: { if (!v.is(Var::ARRAY) || v.length() != (int)m.a.size()) { why = path + fmt(": expected array of %d", (int)m.a.size()); return false; } for (int i = 0; i < v.length(); i++) if (!same(v[i], m.a[i], exact, why, path + fmt("[%d]", i))) return false; return true; }
	case M::OBJ: { if (!v.is(Var::OBJ) || v.length() != (int)m.o.size()) { why = path + fmt(": expected object with %d properties, got type %d length %d", (int)m.o.size(), (int)v.type(), v.length()); return false; }
		for (size_t i = 0; i < m.o.size(); i++) { String k = vfx::A(m.o[i].first); if (!v.has(k)) { why = path + ": key " + vf::hex(m.o[i].first) + " missing"; return false; } if (!same(v[k], m.o[i].second, exact, why, path + "." + vf::hex(m.o[i].first))) return false; } return true; }
	}
	return false;
}

// one line per text for python: <hex text> TAB <pattern> TAB <E|S> TAB <case>|<what>
static FILE* pyf = 0; static char pybuf[1 << 16];
static void pyline(const std::string& text, const M& m, bool exact, const std::string& kase, const char* what) {
	if (!pyf) { pyf = fopen((vf::scratch_dir() + fmt("/py5.%d.%d", vf::worker_id(), (int)getpid())).c_str(), "a"); if (pyf) setvbuf(pyf, pybuf, _IOFBF, sizeof pybuf); }
	if (!pyf) { vf::add(C_PY_OPENFAIL); return; }
	fprintf(pyf, "%s\t%s\t%c\t%s|%s\n", vf::hex(text).c_str(), pattern(m).c_str(), exact ? 'E' : 'S', kase.c_str(), what);
	vf::add(C_PY); if (!exact) vf::add(W_PY_SIMPLE);
}

static bool isIdent(const std::string& k) {
	if (k.empty()) return false;
	for (size_t j = 0; j < k.size(); j++) if (!(isalnum((unsigned char)k[j]) || k[j] == '_')) return false;
	return true;
}
// Xdl: keys are identifiers; "$type" (ASL_XDLCLASS, accepted by the parser as a property name and written as the class prefix
// of the object) is admitted with a string value that is an identifier other than the literals
static bool identKeys(const M& m) {
	if (m.t == M::ARR) { for (size_t i = 0; i < m.a.size(); i++) if (!identKeys(m.a[i])) return false; }
	if (m.t == M::OBJ) for (size_t i = 0; i < m.o.size(); i++) {
		const std::string& k = m.o[i].first; const M& c = m.o[i].second;
		if (k == "$type") { if (c.t != M::STR || !isIdent(c.s) || isdigit((unsigned char)c.s[0]) || c.s == "Y" || c.s == "N" || c.s == "true" || c.s == "false" || c.s == "null") return false; continue; }
		if (!isIdent(k)) return false;
		if (!identKeys(c)) return false;
	}
	return true;
}
static bool hasClass(const M& m) {
	if (m.t == M::ARR) { for (size_t i = 0; i < m.a.size(); i++) if (hasClass(m.a[i])) return true; }
	if (m.t == M::OBJ) for (size_t i = 0; i < m.o.size(); i++) if (m.o[i].first == "$type" || hasClass(m.o[i].second)) return true;
	return false;
}
// strict UTF-8 (what python's decoder accepts): no overlong forms, no surrogates, nothing above U+10FFFF, no truncated sequence
static bool validUtf8(const std::string& s) {
	size_t i = 0, n = s.size();
	while (i < n) {
		unsigned char c = s[i];
		int need; unsigned lo = 0x80, hi = 0xbf;
		if (c < 0x80) { i++; continue; }
		else if (c >= 0xc2 && c <= 0xdf) need = 1;
		else if (c >= 0xe0 && c <= 0xef) { need = 2; if (c == 0xe0) lo = 0xa0; if (c == 0xed) hi = 0x9f; }
		else if (c >= 0xf0 && c <= 0xf4) { need = 3; if (c == 0xf0) lo = 0x90; if (c == 0xf4) hi = 0x8f; }
		else return false;
		if (i + need >= n) return false; // truncated
		for (int k = 1; k <= need; k++) { unsigned char d = s[i + k]; if (d < (k == 1 ? lo : 0x80u) || d > (k == 1 ? hi : 0xbfu)) return false; }
		i += need + 1;
	}
	return true;
}
static bool allUtf8(const M& m) {
	if (m.t == M::STR) return validUtf8(m.s);
	if (m.t == M::ARR) { for (size_t i = 0; i < m.a.size(); i++) if (!allUtf8(m.a[i])) return false; }
	if (m.t == M::OBJ) for (size_t i = 0; i < m.o.size(); i++) if (!validUtf8(m.o[i].first) || !allUtf8(m.o[i].second)) return false;
	return true;
}

// defaults: also the default-argument forms Json::encode(v) (= NONE, exact) and Xdl::encode(v) (= SIMPLE)
static void checkOne(const M& m, const std::string& kase, bool defaults = false) {
	vf::cur(kase);
	vf::add(C_EVAL);
	Var v = toVar(m);
	std::string why;
	enum { DEFAULT_ARG = -1 };
	struct { int mode; bool json, exact; const char* name; int sameTextAs; } modes[] = {
		{ Json::NONE, true, true, "Json NONE", -1 }, { Json::PRETTY, true, true, "Json PRETTY", -1 }, { Json::SIMPLE, true, false, "Json SIMPLE", 0 }, { Json::NICE, true, false, "Json NICE", 1 },
		{ Json::NONE, false, true, "Xdl NONE", -1 }, { Json::PRETTY, false, true, "Xdl PRETTY", -1 }, { Json::SIMPLE, false, false, "Xdl SIMPLE", -1 },
		{ DEFAULT_ARG, true, true, "Json::encode(v) default mode", 0 }, { DEFAULT_ARG, false, false, "Xdl::encode(v) default mode", -1 } };
	bool ident = identKeys(m), utf8 = allUtf8(m);
	if (!ident) vf::add(C_SKIP_XDL);
	if (!utf8) vf::add(W_NON_UTF8);
	std::string texts[2];
	for (size_t k = 0; k < sizeof modes / sizeof *modes; k++) {
		if (modes[k].mode == DEFAULT_ARG && !defaults) continue;
		if (!modes[k].json && !ident) continue;
		String text = modes[k].mode == DEFAULT_ARG ? (modes[k].json ? Json::encode(v) : Xdl::encode(v)) : modes[k].json ? Json::encode(v, Json::Mode(modes[k].mode)) : Xdl::encode(v, modes[k].mode);
		if (modes[k].mode == DEFAULT_ARG) vf::add(W_DEFAULT_ARG);
		Var back = modes[k].json ? Json::decode(text) : Xdl::decode(text);
		if (!back.ok()) vf::violation("roundtrip_reject", fmt("%s: own decoder rejects the encoder output %s of %s", modes[k].name, vf::hex(vfx::S(text)).substr(0, 600).c_str(), show(m).c_str()), kase);
		else if (!same(back, m, modes[k].exact, why, "$")) vf::violation(modes[k].json ? "roundtrip_value" : "roundtrip_value_xdl", fmt("%s: %s  (text %s)", modes[k].name, why.c_str(), vf::hex(vfx::S(text)).substr(0, 300).c_str()), kase);
		if (modes[k].json && utf8) {
			std::string t = vfx::S(text);
			if (k < 2) texts[k] = t;
			if (modes[k].sameTextAs >= 0 && t == texts[modes[k].sameTextAs]) vf::add(C_PY_SAME); // byte-identical to a text python already gets
			else pyline(t, m, modes[k].exact, kase, modes[k].name);
		}
		if (vf::asan_tripped()) { vf::violation("asan", std::string("ASan ") + vf::asan_what() + " in " + modes[k].name, kase); vf::asan_clear(); }
	}
}

// ---------------------------------------------------------------- enumerations
// the first 15 symbols are the alphabet of the old "str:" cases; "st2:" cases use all 18 (3 invalid UTF-8 fragments added)
static const char* SALPHA[] = { "a", "\"", "\\", "/", "\n", "\r", "\t", "\b", "\f", "\x01", "\x1f", "\x7f", "\xc3\xa9", "\xe2\x82\xac", "\xf0\x9f\x98\x80", "\x80", "\xc3", "\xff" };
static const int NSA_OLD = 15, NSA = 18;
static std::string strOf(int len, uint64_t idx, int nsa) { std::string s; for (int i = 0; i < len; i++) { s += SALPHA[idx % nsa]; idx /= nsa; } return s; }
// a string as value, as key, and at the 7/8-byte inline boundary of asl::String
static M strShape(const std::string& s, int j) {
	M m;
	if (j == 0) m = M::str(s); else if (j == 1) { m = M::obj(); m.set(s, M::integer(1)); } else { m = M::arr(); m.add(M::str(s + "1234567")); m.add(M::str("123456" + s)); }
	return m;
}

static std::vector<M> leaves() {
	std::vector<M> l;
	l.push_back(M::nul()); l.push_back(M::boolean(true)); l.push_back(M::integer(-1)); l.push_back(M::dbl(0.1)); l.push_back(M::flt(2.7f)); l.push_back(M::str("")); l.push_back(M::str("a\"\\/\n\x01")); l.push_back(M::str("\xc3\xa9\xe2\x82\xac\xf0\x9f\x98\x80x"));
	return l;
}
static const char* KEYS[] = { "a", "b_2", "k/\"\\", "\xc3\xa9\x01", "" };
// all trees with exactly n nodes, depth <= depth, fan-out <= 2. cls: also objects carrying the class property "$type": "T"
// (the string "T" counts as a node but occurs nowhere else)
static void trees(int n, int depth, bool cls, std::vector<M>& out) {
	static std::vector<M> L = leaves();
	if (n == 1) { for (size_t i = 0; i < L.size(); i++) out.push_back(L[i]); out.push_back(M::arr()); out.push_back(M::obj()); return; }
	if (depth <= 1) return;
	if (cls && n == 2) { M o = M::obj(); o.set("$type", M::str("T")); out.push_back(o); }
	// one child
	{ std::vector<M> c; trees(n - 1, depth - 1, cls, c);
	  for (size_t i = 0; i < c.size(); i++) { M a = M::arr(); a.a.push_back(c[i]); out.push_back(a); for (int k = 0; k < 5; k++) { M o = M::obj(); o.o.push_back(std::make_pair(std::string(KEYS[k]), c[i])); out.push_back(o); } } }
	// two children
	for (int n1 = 1; n1 <= n - 2; n1++) {
		std::vector<M> c1, c2; trees(n1, depth - 1, cls, c1); trees(n - 1 - n1, depth - 1, cls, c2);
		for (size_t i = 0; i < c1.size(); i++) for (size_t j = 0; j < c2.size(); j++) {
			M a = M::arr(); a.a.push_back(c1[i]); a.a.push_back(c2[j]); out.push_back(a);
			static const int kp[][2] = { { 0, 1 }, { 1, 2 }, { 2, 3 }, { 4, 0 } };
			for (int k = 0; k < 4; k++) { M o = M::obj(); o.o.push_back(std::make_pair(std::string(KEYS[kp[k][0]]), c1[i])); o.o.push_back(std::make_pair(std::string(KEYS[kp[k][1]]), c2[j])); out.push_back(o); }
		}
		if (cls && n1 == 1) for (size_t j = 0; j < c2.size(); j++) { M o = M::obj(); o.set("$type", M::str("T")); o.set("a", c2[j]); out.push_back(o); }
	}
}
// "tree:<i>" keeps its meaning: the class-free trees first, then the trees that contain a class object
static std::vector<M> gTrees; static size_t gPlainTrees = 0;
static void buildTrees() {
	if (!gTrees.empty()) return;
	bool T = vf::opt.thorough();
	for (int n = 1; n <= (T ? 6 : 5); n++) trees(n, T ? 4 : 3, false, gTrees);
	gPlainTrees = gTrees.size();
	std::vector<M> c; for (int n = 1; n <= (T ? 6 : 5); n++) trees(n, T ? 4 : 3, true, c);
	for (size_t i = 0; i < c.size(); i++) if (hasClass(c[i])) gTrees.push_back(c[i]);
}

static double mkdouble(int sign, int expo, int mant) {
	uint64_t m = mant == 0 ? 0 : mant == 1 ? 1 : mant == 2 ? 0xfffffffffffffULL : 0xaaaaaaaaaaaaaULL;
	uint64_t u = ((uint64_t)sign << 63) | ((uint64_t)expo << 52) | m; double d; memcpy(&d, &u, 8); return d;
}
static float mkfloat(int sign, int expo, int mant) {
	uint32_t m = mant == 0 ? 0 : mant == 1 ? 1 : mant == 2 ? 0x7fffff : 0x2aaaaa;
	uint32_t u = ((uint32_t)sign << 31) | ((uint32_t)expo << 23) | m; float f; memcpy(&f, &u, 4); return f;
}
// ints: the decimal and binary digit-count boundaries, repdigit-free runs of every length, d*10^k +-1
static std::vector<int> intGrid() {
	std::set<long long> s;
	long long base[] = { 0, -1, 1, 9, 10, 999999999, 1000000000, -999999999, -1000000000, INT_MAX, INT_MIN, INT_MAX - 1, (long long)INT_MIN + 1, 123456789, -123456789 };
	for (size_t i = 0; i < sizeof base / sizeof *base; i++) s.insert(base[i]);
	for (int i = 0; i <= 32; i++) s.insert(i);
	long long p = 1;
	for (int k = 0; k <= 9; k++, p *= 10) for (int d = 1; d <= 9; d++) for (int e = -1; e <= 1; e++) { s.insert(d * p + e); s.insert(-(d * p + e)); }
	for (int k = 0; k <= 31; k++) for (int e = -1; e <= 1; e++) { s.insert((1LL << k) + e); s.insert(-((1LL << k) + e)); }
	long long up = 0, down = 0;
	for (int k = 1; k <= 10; k++) { up = up * 10 + k % 10; down = down * 10 + (10 - k); s.insert(up); s.insert(-up); s.insert(down); s.insert(-down); }
	std::vector<int> r;
	for (std::set<long long>::iterator it = s.begin(); it != s.end(); ++it) if (*it >= INT_MIN && *it <= INT_MAX) r.push_back((int)*it);
	return r;
}

// ---------------------------------------------------------------- decimal-comma locale
// An installed comma locale is used when there is one; otherwise a minimal locale (LC_NUMERIC with decimal_point ",") is
// compiled with localedef into the scratch directory and found through LOCPATH.
static std::string gLocale; static bool gLocaleTried = false;
static bool commaNow() { lconv* lc = localeconv(); return lc && lc->decimal_point && lc->decimal_point[0] == ','; }
static bool enterCommaLocale() {
	if (!gLocale.empty()) return setlocale(LC_NUMERIC, gLocale.c_str()) && commaNow();
	if (gLocaleTried) return false;
	gLocaleTried = true;
	const char* names[] = { "de_DE.UTF-8", "de_DE.utf8", "de_DE", "fr_FR.UTF-8", "fr_FR.utf8", "es_ES.UTF-8", "es_ES.utf8", "it_IT.UTF-8", "it_IT.utf8", "pt_BR.UTF-8", "nl_NL.UTF-8", "ru_RU.UTF-8", "pl_PL.UTF-8" };
	for (size_t i = 0; i < sizeof names / sizeof *names; i++) if (setlocale(LC_NUMERIC, names[i]) && commaNow()) { gLocale = names[i]; return true; }
	std::string dir = vf::scratch_dir() + "/loc";
	std::string cmd = "mkdir -p '" + dir + "'"; if (system(cmd.c_str())) return false;
	{ FILE* f = fopen((dir + "/VFASCII").c_str(), "w"); if (!f) return false;
	  fprintf(f, "<code_set_name> VFASCII\n<comment_char> %%\n<escape_char> /\n<mb_cur_min> 1\n<mb_cur_max> 1\nCHARMAP\n"); for (int i = 0; i < 128; i++) fprintf(f, "<U%04X> /x%02x\n", i, i); fprintf(f, "END CHARMAP\n"); fclose(f); }
	{ FILE* f = fopen((dir + "/vf_comma.src").c_str(), "w"); if (!f) return false;
	  fprintf(f, "LC_NUMERIC\ndecimal_point \"<U002C>\"\nthousands_sep \"<U002E>\"\ngrouping 3;3\nEND LC_NUMERIC\n"); fclose(f); }
	cmd = "localedef -c -f '" + dir + "/VFASCII' -i '" + dir + "/vf_comma.src' '" + dir + "/vf_comma' >/dev/null 2>&1";
	if (system(cmd.c_str())) {}
	setenv("LOCPATH", dir.c_str(), 1);
	if (setlocale(LC_NUMERIC, "vf_comma") && commaNow()) { gLocale = "vf_comma"; return true; }
	setlocale(LC_NUMERIC, "C");
	return false;
}
static void leaveCommaLocale() { setlocale(LC_NUMERIC, "C"); }

// ---------------------------------------------------------------- file round trips
static std::string slurp(const std::string& path) {
	std::string s; FILE* f = fopen(path.c_str(), "rb"); if (!f) return s;
	char b[65536]; size_t n; while ((n = fread(b, 1, sizeof b, f)) > 0) s.append(b, n);
	fclose(f); return s;
}
// What does each boundary between two parse() calls of Xdl::read (every 16382 bytes) split? A token [s,e) is split by a
// boundary b when s < b < e. Light tokenizer of encoder output (JSON or XDL, no comments).
enum { CHUNK = 16382 };
static void classifyBoundaries(const std::string& t) {
	if (t.size() <= CHUNK) return;
	size_t nextb = CHUNK, n = t.size();
	size_t i = 0; bool inStr = false;
	while (i < n && nextb < n) {
		size_t s = i, e = i + 1; int w = -1;
		unsigned char c = t[i];
		if (inStr) {
			if (c == '\\') { if (i + 1 < n && t[i + 1] == 'u') { e = i + 6; w = W_SPLIT_UNI; } else { e = i + 2; w = W_SPLIT_ESC; } }
			else if (c == '"') inStr = false;
			else if (c >= 0xc0) { e = i + (c >= 0xf0 ? 4 : c >= 0xe0 ? 3 : 2); w = W_SPLIT_UTF8; }
			else { while (e < n && t[e] != '"' && t[e] != '\\' && (unsigned char)t[e] < 0x80) e++; w = W_SPLIT_STR; }
		}
		else if (c == '"') inStr = true;
		else if (c == '-' || (c >= '0' && c <= '9')) { while (e < n && (isdigit((unsigned char)t[e]) || t[e] == '.' || t[e] == 'e' || t[e] == 'E' || t[e] == '+' || t[e] == '-')) e++; w = W_SPLIT_NUM; }
		else if (isalpha(c) || c == '_' || c == '$') { while (e < n && (isalnum((unsigned char)t[e]) || t[e] == '_' || t[e] == '$')) e++; w = W_SPLIT_IDENT; }
		while (nextb < n && nextb < e) { if (nextb > s && w >= 0) { vf::add(w); if (w == W_SPLIT_UNI) vf::note(fmt("read_chunk_splits_unicode_escape_after_%d_chars", (int)(nextb - s))); } nextb += CHUNK; }
		while (nextb <= s) nextb += CHUNK;
		i = e;
	}
}

static void fileCase(const std::string& doc, const M& m, bool xdl, const std::string& kase) {
	vf::cur(kase); vf::add(C_EVAL); vf::add(C_DIST);
	std::string path = vf::scratch_dir() + fmt("/f5.%d.json", (int)getpid());
	{ FILE* f = fopen(path.c_str(), "wb"); fwrite(doc.data(), 1, doc.size(), f); fclose(f); }
	Var v = xdl ? Xdl::read(path.c_str()) : Json::read(path.c_str());
	std::string why;
	if (!v.ok()) vf::violation("file_read_reject", fmt("%s::read of a %d-byte document '%s' returned an invalid Var", xdl ? "Xdl" : "Json", (int)doc.size(), doc.size() < 40 ? doc.c_str() : (doc.substr(0, 16) + "..." + doc.substr(doc.size() - 16)).c_str()), kase);
	else if (!same(v, m, true, why, "$")) vf::violation("file_read_value", fmt("read of a %d-byte document: %s", (int)doc.size(), why.c_str()), kase);
	else if (doc.size() <= 3) vf::add(W_TINYFILE);
	remove(path.c_str());
}
// mode < 0: the default-argument forms Json::write(v, file) (= PRETTY, exact) and Xdl::write(v, file) (= NICE)
static void writeReadCase(const M& m, int mode, bool xdl, const std::string& kase, bool big = false, bool py = true) {
	vf::cur(kase); vf::add(C_EVAL); vf::add(C_DIST);
	std::string path = vf::scratch_dir() + fmt("/w5.%d.json", (int)getpid());
	Var v = toVar(m);
	bool ok = mode < 0 ? (xdl ? Xdl::write(v, path.c_str()) : Json::write(v, path.c_str())) : xdl ? Xdl::write(v, path.c_str(), mode) : Json::write(v, path.c_str(), Json::Mode(mode));
	Var back = xdl ? Xdl::read(path.c_str()) : Json::read(path.c_str());
	bool exact = mode < 0 ? !xdl : (mode & Json::SIMPLE) == 0;
	std::string why;
	std::string bytes = slurp(path);
	long sz = (long)bytes.size();
	if (!ok || !back.ok()) vf::violation("file_roundtrip_reject", fmt("write/read through a %ld-byte file failed (mode %d, %s)", sz, mode, xdl ? "Xdl" : "Json"), kase);
	else if (!same(back, m, exact, why, "$")) vf::violation("file_roundtrip_value", fmt("write/read through a %ld-byte file (mode %d): %s", sz, mode, why.c_str()), kase);
	else {
		if (sz > 16000) vf::add(W_FILE_FLUSH);
		if (sz > CHUNK) vf::add(W_FILE_CHUNK);
		if (mode < 0) vf::add(W_DEFAULT_ARG_FILE);
		if (big) { vf::add(W_BIG); vf::add(W_BIG_BOUNDARIES, sz / CHUNK); }
		classifyBoundaries(bytes);
	}
	// the bytes on disk go to the independent parser as well (asl's own reader is lenient: BOM, newline as comma, Y/N, comments)
	if (!xdl && py && ok && allUtf8(m)) { pyline(bytes, m, exact, kase, "file"); vf::add(W_PY_FILE); }
	if (vf::asan_tripped()) { vf::violation("asan", std::string("ASan ") + vf::asan_what() + " in file write/read", kase); vf::asan_clear(); }
	remove(path.c_str());
}
// token-rich tail preceded by padding inside a string so that the tail meets every alignment against the read chunk / writer flush
static M paddedDoc(int pad, bool identKey = false) {
	M root = M::arr();
	root.a.push_back(M::str(std::string(pad, 'p')));
	M o = M::obj(); o.o.push_back(std::make_pair(std::string(identKey ? "k_y" : "k\"\\/y\x01"), M::dbl(-1.5e-7))); o.o.push_back(std::make_pair(std::string("u"), M::str("q\"\\\n\x01\x1f\xf0\x9f\x98\x80\xc3\xa9")));
	root.a.push_back(o); root.a.push_back(M::integer(INT_MIN)); root.a.push_back(M::boolean(false)); root.a.push_back(M::nul()); root.a.push_back(M::flt(0.1f));
	M in = M::arr(); in.a.push_back(M::dbl(1e22)); in.a.push_back(M::str("")); in.a.push_back(M::dbl(0.1 + 0.2)); root.a.push_back(in);
	M c = M::obj(); c.set("$type", M::str("Cls_1")); c.set("v", M::integer(12345)); root.a.push_back(c);
	return root;
}
// several-MB documents: an array of ntok small tokens of every kind in a fixed cycle, shifted by a leading string of `shift` bytes
static std::vector<M> bigCycle() {
	std::vector<M> c;
	c.push_back(M::integer(0)); c.push_back(M::str("a")); c.push_back(M::dbl(0.5)); c.push_back(M::boolean(true)); c.push_back(M::integer(-7)); c.push_back(M::str("q\"\\/\n")); c.push_back(M::nul());
	c.push_back(M::dbl(-1.5e-7)); c.push_back(M::integer(1234)); c.push_back(M::str("\x01\x1f")); c.push_back(M::arr()); c.push_back(M::integer(-56789)); c.push_back(M::dbl(0.1 + 0.2)); c.push_back(M::boolean(false));
	c.push_back(M::str("\xc3\xa9\xe2\x82\xac")); c.push_back(M::integer(1234567)); c.push_back(M::flt(0.1f)); c.push_back(M::obj()); c.push_back(M::str("")); c.push_back(M::integer(INT_MAX)); c.push_back(M::dbl(1e22));
	{ M a = M::arr(); a.add(M::integer(1)); a.add(M::str("x")); c.push_back(a); }
	c.push_back(M::str("\xf0\x9f\x98\x80")); c.push_back(M::integer(INT_MIN)); c.push_back(M::dbl(5e-324));
	{ M o = M::obj(); M a = M::arr(); a.add(M::nul()); o.set("k", a); c.push_back(o); }
	c.push_back(M::integer(42));
	{ M o = M::obj(); M z = M::obj(); z.set("z", M::dbl(-0.25)); o.set("k_2", z); o.set("$type", M::str("P")); c.push_back(o); }
	c.push_back(M::dbl(-DBL_MAX));
	return c;
}
static M bigDoc(int ntok, int shift) {
	static std::vector<M> cyc = bigCycle();
	M root = M::arr(); root.a.reserve(ntok + 1);
	root.a.push_back(M::str(std::string(shift, 's')));
	for (int i = 0; i < ntok; i++) root.a.push_back(cyc[i % cyc.size()]);
	return root;
}

static void run_case(const std::string& k) {
	unsigned long long a, b; int i, j, x, y;
	if (k.compare(0, 4, "loc:") == 0) {
		if (!enterCommaLocale()) { vf::note("comma_locale_unavailable"); return; }
		vf::add(W_LOCALE);
		std::string inner = k.substr(4);
		if (sscanf(inner.c_str(), "dbl:%d:%d:%d", &i, &j, &x) == 3) checkOne(M::dbl(mkdouble(i, j, x)), k, true);
		else if (sscanf(inner.c_str(), "flt:%d:%d:%d", &i, &j, &x) == 3) checkOne(M::flt(mkfloat(i, j, x)), k, true);
		else if (sscanf(inner.c_str(), "dec:%llu:%d", &a, &i) == 2) checkOne(M::dbl((double)a / pow(10.0, i)), k, true);
		else if (sscanf(inner.c_str(), "pad:%d:%d:%d", &i, &j, &x) == 3) writeReadCase(paddedDoc(i, x != 0), j, x != 0, k);
		leaveCommaLocale();
	}
	else if (sscanf(k.c_str(), "tree:%llu", &a) == 1) { buildTrees(); if (a < gTrees.size()) { if (a >= gPlainTrees) vf::add(W_CLASS); checkOne(gTrees[a], k); } }
	else if (sscanf(k.c_str(), "str:%d:%llu:%d", &i, &a, &j) == 3) checkOne(strShape(strOf(i, a, NSA_OLD), j), k);
	else if (sscanf(k.c_str(), "st2:%d:%llu:%d", &i, &a, &j) == 3) checkOne(strShape(strOf(i, a, NSA), j), k);
	// ctl:<byte>:<shape>:<j>  one byte alone, after 'a', before 'a'
	else if (sscanf(k.c_str(), "ctl:%d:%d:%d", &i, &x, &j) == 3) { std::string s(1, (char)i); if (x == 1) s = "a" + s; else if (x == 2) s += "a"; if (i < 0x20) vf::add(W_CTRL); vf::add(W_BYTES); checkOne(strShape(s, j), k); }
	// by2:<b1>:<b2>:<j>  every two-byte string
	else if (sscanf(k.c_str(), "by2:%d:%d:%d", &i, &x, &j) == 3) { std::string s; s += (char)i; s += (char)x; vf::add(W_BYTES); checkOne(strShape(s, j), k); }
	else if (sscanf(k.c_str(), "dbl:%d:%d:%d", &i, &j, &x) == 3) checkOne(M::dbl(mkdouble(i, j, x)), k, true);
	else if (sscanf(k.c_str(), "flt:%d:%d:%d", &i, &j, &x) == 3) checkOne(M::flt(mkfloat(i, j, x)), k, true);
	else if (sscanf(k.c_str(), "dec:%llu:%d", &a, &i) == 2) { checkOne(M::dbl((double)a / pow(10.0, i)), k, true); }
	else if (sscanf(k.c_str(), "int:%d", &i) == 1) { vf::add(W_INTS); checkOne(M::integer(i), k, true); }
	else if (sscanf(k.c_str(), "pad:%d:%d:%d", &i, &j, &x) == 3) writeReadCase(paddedDoc(i, x != 0), j, x != 0, k);
	// big:<tokens>:<shift>:<mode>:<xdl>
	else if (sscanf(k.c_str(), "big:%d:%d:%d:%d", &i, &j, &x, &y) == 4) writeReadCase(bigDoc(i, j), x, y != 0, k, true, j % 16 == 0 && i <= 30000);
	(void)b;
}

// python: every JSON encoder output with valid UTF-8 content (texts and written files, all modes) must be accepted by python
// json and denote the same value. Returns false when the cross-check itself did not run to completion (harness error).
static bool pythonStep() {
	std::vector<std::string> files = vf::list_scratch("py5.");
	uint64_t emitted = vf::get(C_PY);
	std::string listfn = vf::scratch_dir() + "/py5list", outfn = vf::scratch_dir() + "/py5.out";
	{ FILE* lf = fopen(listfn.c_str(), "w"); if (!lf) { fprintf(stderr, "[C05] cannot write %s\n", listfn.c_str()); return false; } for (size_t i = 0; i < files.size(); i++) fprintf(lf, "%s\n", files[i].c_str()); fclose(lf); }
	std::string cmd = "python3 /verif/tools/ref_c05.py --list '" + listfn + "' > '" + outfn + "' 2>&1";
	int rc = system(cmd.c_str());
	FILE* f = fopen(outfn.c_str(), "r");
	std::string out; long long checked = -1, bad = -1; int nbad = 0;
	char* line = 0; size_t cap = 0;
	while (f && getline(&line, &cap, f) > 0) {
		std::string l = line; while (!l.empty() && l[l.size() - 1] == '\n') l.resize(l.size() - 1);
		if (out.size() < 4000) out += l.substr(0, 400) + "\n";
		if (l.compare(0, 4, "BAD ") == 0) {
			// BAD <case>|<what> TAB <reason and text>
			size_t tab = l.find('\t'); std::string kw = l.substr(4, tab == std::string::npos ? std::string::npos : tab - 4), why = tab == std::string::npos ? "" : l.substr(tab + 1);
			size_t bar = kw.rfind('|'); std::string kase = kw.substr(0, bar), what = bar == std::string::npos ? "" : kw.substr(bar + 1);
			if (nbad++ < 30) vf::violation("python_rejects_or_differs", "independent strict JSON parser, " + what + ": " + why.substr(0, 900), kase);
		}
		else if (sscanf(l.c_str(), "checked %lld bad %lld", &checked, &bad) == 2) {}
	}
	free(line); if (f) fclose(f);
	vf::setinfo("python_strict_parser", vf::jstr(out.size() > 800 ? out.substr(out.size() - 800) : out));
	vf::setinfo("python_lines_emitted", fmt("%llu", (unsigned long long)emitted));
	if (vf::get(C_PY_OPENFAIL)) { fprintf(stderr, "[C05] %llu texts could not be handed to python (cannot open the py5.* scratch file)\n", (unsigned long long)vf::get(C_PY_OPENFAIL)); return false; }
	if (checked < 0) { fprintf(stderr, "[C05] python cross-check did not complete (exit status %d): %s\n", rc, out.substr(0, 600).c_str()); return false; }
	if ((uint64_t)checked != emitted) {
		// lines still buffered in a worker that died are lost with it; the crash itself is already a violation
		if (vf::nviolations() == 0) { fprintf(stderr, "[C05] python checked %lld texts but %llu were emitted\n", checked, (unsigned long long)emitted); return false; }
		return true;
	}
	if (bad != nbad && !(bad > 200 && nbad == 200)) { fprintf(stderr, "[C05] python reports %lld bad texts but %d BAD lines were read\n", bad, nbad); return false; }
	if ((bad != 0) != (rc != 0)) { fprintf(stderr, "[C05] python exit status %d does not match its report (%lld bad)\n", rc, bad); return false; }
	if (checked > 0) vf::add(W_PY_CHECKED, (uint64_t)checked);
	return true;
}

int main(int argc, char** argv) {
	vf::init(argc, argv, "C05", "c05_jsonenc");
	C_EVAL = vf::counter("evaluations"); C_DIST = vf::counter("distinct_nontrivial"); C_PY = vf::counter("encoder_outputs_checked_by_python_json");
	W_FILE_CHUNK = vf::counter("w.files_beyond_16382_read_chunk"); W_FILE_FLUSH = vf::counter("w.files_beyond_16000_writer_flush"); W_TINYFILE = vf::counter("w.files_of_1_to_3_bytes");
	W_DEFAULT_ARG = vf::counter("w.default_argument_encodes"); W_DEFAULT_ARG_FILE = vf::counter("w.default_argument_file_writes");
	W_NON_UTF8 = vf::counter("w.non_utf8_cases"); C_SKIP_XDL = vf::counter("cases_without_xdl_modes_non_identifier_keys"); C_PY_SAME = vf::counter("python_skipped_text_identical_to_exact_mode_text");
	W_PY_SIMPLE = vf::counter("w.python_simple_mode_texts"); W_PY_FILE = vf::counter("w.python_written_files"); C_PY_OPENFAIL = vf::counter("python_line_open_failures"); W_PY_CHECKED = vf::counter("w.python_checked_equals_emitted");
	W_CTRL = vf::counter("w.control_byte_cases"); W_BYTES = vf::counter("w.single_and_double_byte_string_cases"); W_CLASS = vf::counter("w.trees_with_xdl_class"); W_LOCALE = vf::counter("w.comma_locale_cases"); W_INTS = vf::counter("w.int_grid_cases");
	W_SPLIT_UNI = vf::counter("w.read_chunk_splits_unicode_escape"); W_SPLIT_ESC = vf::counter("w.read_chunk_splits_two_char_escape"); W_SPLIT_NUM = vf::counter("w.read_chunk_splits_number"); W_SPLIT_UTF8 = vf::counter("w.read_chunk_splits_utf8_sequence");
	W_SPLIT_IDENT = vf::counter("w.read_chunk_splits_literal_or_identifier"); W_SPLIT_STR = vf::counter("w.read_chunk_splits_plain_string_run"); W_BIG = vf::counter("w.big_files"); W_BIG_BOUNDARIES = vf::counter("w.big_file_chunk_boundaries");
	if (vf::opt.replay) { vf::parallel(1, [&](uint64_t) { run_case(vf::opt.kase); }); bool pyok = pythonStep(); int rc = vf::finish(); return pyok ? rc : 2; }
	bool T = vf::opt.thorough();
	// (1) all trees with <= 5 nodes (thorough: <= 6), then those with class objects
	buildTrees();
	size_t ntrees = gTrees.size();
	vf::parallel(ntrees, [&](uint64_t i) { run_case(fmt("tree:%llu", (unsigned long long)i)); vf::add(C_DIST); }, 64);
	vf::setinfo("trees", fmt("{\"enumerated\": %llu, \"with_class\": %llu}", (unsigned long long)ntrees, (unsigned long long)(ntrees - gPlainTrees)));
	// (2) every string of length <= 3 (thorough 4) over the 18-symbol alphabet as value, as key, and at the 7/8-byte inline boundary;
	//     every single byte 1..255 alone / after 'a' / before 'a'; thorough: every two-byte string
	for (int len = 0; len <= (T ? 4 : 3); len++) { uint64_t n = 1; for (int i = 0; i < len; i++) n *= NSA; vf::parallel(n, [&](uint64_t i) { for (int j = 0; j < 3; j++) { run_case(fmt("st2:%d:%llu:%d", len, (unsigned long long)i, j)); vf::add(C_DIST); } }, 16); }
	vf::parallel(255, [&](uint64_t b) { for (int sh = 0; sh < 3; sh++) for (int j = 0; j < 3; j++) { run_case(fmt("ctl:%d:%d:%d", (int)b + 1, sh, j)); vf::add(C_DIST); } }, 4);
	if (T) vf::parallel(255 * 255, [&](uint64_t q) { for (int j = 0; j < 2; j++) { run_case(fmt("by2:%d:%d:%d", (int)(q / 255) + 1, (int)(q % 255) + 1, j)); vf::add(C_DIST); } }, 64);
	// (3) doubles: every exponent x 4 mantissas x sign; k/10^n; floats likewise; ints
	vf::parallel(2047, [&](uint64_t e) { for (int s = 0; s < 2; s++) for (int m = 0; m < 4; m++) { run_case(fmt("dbl:%d:%d:%d", s, (int)e, m)); vf::add(C_DIST); } }, 8);
	vf::parallel(255, [&](uint64_t e) { for (int s = 0; s < 2; s++) for (int m = 0; m < 4; m++) { run_case(fmt("flt:%d:%d:%d", s, (int)e, m)); vf::add(C_DIST); } }, 8);
	vf::parallel(1000, [&](uint64_t k) { for (int n = 0; n <= 20; n++) { run_case(fmt("dec:%llu:%d", (unsigned long long)k, n)); vf::add(C_DIST); } }, 8);
	{ std::vector<int> is = intGrid(); vf::parallel(is.size(), [&](uint64_t i) { run_case(fmt("int:%d", is[i])); vf::add(C_DIST); }, 16); vf::setinfo("int_grid", fmt("%d", (int)is.size())); }
	vf::parallel(1, [&](uint64_t) {
		double ds[] = { 0.1, 1.0 / 3, 1e22, 1e-7, 123456789012.0, 5e-324, DBL_MIN, DBL_MAX, -DBL_MAX, -0.0, 0.0, 1e21, 1e15, 123456789.5, 4294967296.0, 2147483648.0, -2147483649.0 };
		for (size_t i = 0; i < sizeof ds / sizeof *ds; i++) { checkOne(M::dbl(ds[i]), fmt("dblv:%d", (int)i), true); vf::add(C_DIST); }
		// shapes that reach the pretty-printer branches
		int ns[] = { 11, 17, 33 };
		for (int q = 0; q < 3; q++) { M a = M::arr(); for (int i = 0; i < ns[q]; i++) a.a.push_back(M::integer(i)); checkOne(a, fmt("shape:ints%d", ns[q])); M s = M::arr(); for (int i = 0; i < ns[q]; i++) s.a.push_back(M::str("string-of-some-length-" + fmt("%d", i))); checkOne(s, fmt("shape:strs%d", ns[q])); vf::add(C_DIST, 2); }
		M aa = M::arr(); for (int i = 0; i < 3; i++) { M in = M::arr(); in.a.push_back(M::integer(i)); in.a.push_back(M::dbl(i + 0.5)); aa.a.push_back(in); } checkOne(aa, "shape:arrays"); vf::add(C_DIST);
		M ao = M::arr(); for (int i = 0; i < 3; i++) { M in = M::obj(); in.o.push_back(std::make_pair(std::string("x"), M::integer(i))); ao.a.push_back(in); } checkOne(ao, "shape:objects"); vf::add(C_DIST);
	});
	// (4) files: documents of 1..3 bytes, and the padded document at every alignment against the 16382-byte read chunk and the 16000-byte flush
	vf::parallel(1, [&](uint64_t) {
		fileCase("1", M::integer(1), false, "file:1"); fileCase("[]", M::arr(), false, "file:[]"); fileCase("{}", M::obj(), false, "file:{}"); fileCase("12", M::integer(12), false, "file:12"); fileCase("\"\"", M::str(""), false, "file:emptystr");
	});
	vf::parallel(1, [&](uint64_t) { M a = M::arr(); a.a.push_back(M::integer(1)); fileCase("[1]", a, false, "file:[1]"); fileCase("[1]", a, true, "file:x[1]"); fileCase("7", M::integer(7), true, "file:x7"); fileCase("\xef\xbb\xbf[1]", a, false, "file:bom[1]"); });
	std::vector<int> pads;
	{
		String tailText = Json::encode(toVar(paddedDoc(0)), Json::NONE);
		int tail = tailText.length() + 8;
		for (int base = 15990 - tail; base <= 16390; base++) if (base > 0) pads.push_back(base);
		for (int base = 32764 - tail; base <= 32770; base++) pads.push_back(base);
		for (int d = -2; d <= 2; d++) pads.push_back(100000 + d - tail / 2);
		// Json NONE / PRETTY / default argument; Xdl NONE / default argument
		vf::parallel(pads.size(), [&](uint64_t i) { int modes[] = { Json::NONE, Json::PRETTY, -1 }; for (int mi = 0; mi < 3; mi++) for (int x = 0; x < 2; x++) if (!(x && mi == 1)) run_case(fmt("pad:%d:%d:%d", pads[i], modes[mi], x)); }, 4);
		vf::setinfo("file_alignments", fmt("%d", (int)pads.size()));
	}
	// (5) big documents: ~200 KB (12 read chunks, 12 writer flushes) at consecutive shifts; thorough: one full token cycle of shifts and ~3 MB documents
	{
		int cycleBytes = Json::encode(toVar(bigDoc((int)bigCycle().size(), 0)), Json::NONE).length();
		int ntok = 22000, nshift = T ? cycleBytes : 64;
		vf::parallel(nshift, [&](uint64_t s) { run_case(fmt("big:%d:%d:%d:0", ntok, (int)s, (int)Json::NONE)); run_case(fmt("big:%d:%d:-1:1", ntok, (int)s)); if (T) { run_case(fmt("big:%d:%d:-1:0", ntok, (int)s)); run_case(fmt("big:%d:%d:%d:1", ntok, (int)s, (int)Json::NONE)); } }, 1);
		if (T) vf::parallel(8, [&](uint64_t s) { run_case(fmt("big:%d:%d:%d:%d", 330000, (int)(s / 2) * 5, s % 2 ? -1 : (int)Json::NONE, (int)(s % 2))); }, 1);
		vf::setinfo("big_documents", fmt("{\"tokens\": %d, \"shifts\": %d, \"token_cycle_bytes\": %d}", ntok, nshift, cycleBytes));
	}
	// (6) decimal-comma locale: the number grids and the file alignments around the read chunk once more with LC_NUMERIC decimal_point ","
	if (enterCommaLocale()) {
		leaveCommaLocale();
		vf::setinfo("comma_locale", vf::jstr(gLocale));
		vf::parallel(2047, [&](uint64_t e) { for (int s = 0; s < 2; s++) for (int m = 0; m < 4; m++) { run_case(fmt("loc:dbl:%d:%d:%d", s, (int)e, m)); vf::add(C_DIST); } }, 8);
		vf::parallel(255, [&](uint64_t e) { for (int s = 0; s < 2; s++) for (int m = 0; m < 4; m++) { run_case(fmt("loc:flt:%d:%d:%d", s, (int)e, m)); vf::add(C_DIST); } }, 8);
		vf::parallel(1000, [&](uint64_t k) { for (int n = 0; n <= 20; n++) { run_case(fmt("loc:dec:%llu:%d", (unsigned long long)k, n)); vf::add(C_DIST); } }, 8);
		vf::parallel(pads.size(), [&](uint64_t i) { if (pads[i] < 16300 || pads[i] > 16390) return; run_case(fmt("loc:pad:%d:%d:0", pads[i], (int)Json::NONE)); run_case(fmt("loc:pad:%d:-1:1", pads[i])); }, 4);
	}
	else vf::setinfo("comma_locale", "\"none installed and localedef could not build one: the locale fix is NOT exercised\"");
	bool pyok = pythonStep();
	vf::sample("tree [\"a\\\"\\\\/\\n\\x01\", {\"k/\\\"\\\\\": 0.1, \"\": 2.7f}] in Json NONE/PRETTY/SIMPLE/NICE and Xdl modes; T{a=[null]} with class");
	vf::sample("double 0x1.fffffffffffffp-1022, 5e-324, -DBL_MAX, every exponent x {0,1,all-ones,alternating} mantissa; k/10^n for k<1000, n<=20; the same under decimal_point ','");
	vf::sample("Json::write/read with a token-rich tail (\\u0001 escapes, 17-digit double, class object) placed at every offset around byte 16000 and 16382; files \"1\", \"[]\", \"{}\"; 200 KB arrays at 64 shifts");
	int rc = vf::finish();
	return pyok ? rc : 2;
}
