// C06 — JSON/XDL decoding: explicit-state exploration of the real incremental XdlParser driven one symbol at a time,
// in product with an independent strict RFC 8259 recogniser (common/refjson.h, itself cross-checked against python json).
// Pass A: exact key (every private field incl. partial trees). Pass B: abstracted key (control-relevant summary), deeper.
#include <asl/Xdl.h>
#include <asl/JSON.h>
#include <asl/Var.h>
#include "vf.h"
#include "aslx.h"
#include "refjson.h"
#include <set>
using namespace asl;
using vf::fmt;

struct Sym { const char* text; const char* name; };
static const Sym SYMS[] = {
	{ "{", "{" }, { "}", "}" }, { "[", "[" }, { "]", "]" }, { ",", "," }, { ":", ":" }, { "\"", "\"" }, { "\\", "\\" }, { "/", "/" }, { "*", "*" }, { "=", "=" },
	{ " ", "SP" }, { "\n", "LF" }, { "0", "0" }, { "1", "1" }, { "-", "-" }, { ".", "." }, { "e", "e" }, { "a", "a" }, { "_", "_" }, { "true", "true" }, { "null", "null" },
	{ "\xc3\xa9", "e-acute" }, { "\\ud83d", "\\ud83d" }, { "\\ude00", "\\ude00" }, { "\x01", "0x01" }, { "\x80", "0x80" }, { "\xff", "0xff" }, { "u", "u" }
};
static const int NSYM = sizeof SYMS / sizeof *SYMS;
enum { S_NUMBER, S_INT, S_STRING, S_PROPERTY, S_IDENTIFIER, S_NUMBER_E, S_NUMBER_ES, S_NUMBER_EV, S_NUMBER_DOT, S_MINUS, S_WAIT_SEP, S_WAIT_EQUAL, S_WAIT_VALUE, S_WAIT_PROPERTY, S_WAIT_OBJ, S_QPROPERTY, S_ESCAPE, S_ERR, S_UNICODECHAR, S_WAIT_COMMA_OR_PROPERTY, S_WAIT_COMMA_OR_VALUE, NSTATES };
enum { X_ROOT, X_ARRAY, X_OBJECT, X_COMMENT1, X_COMMENT, X_LINECOMMENT, X_ENDCOMMENT, NCTX };

static int W_STATE[NSTATES], W_CTX[NCTX], W_PUSHBACK, W_ACCEPT, W_REJECT_OPEN, W_LENIENT, W_EXCLUDED, W_DUPKEY, W_SURROGATE_PAIR, C_PYLINES, W_DEEP;

// canonical dump of a Var in the format of rj::dump
static std::string dumpVar(const Var& v) {
	switch (v.type()) {
	case Var::NUL: return "n";
	case Var::BOOL: return (bool)v ? "t" : "f";
	case Var::INT: case Var::NUMBER: case Var::FLOAT: return "#" + rj::numstr((double)v);
	case Var::STRING: { String s = v; return "s" + vf::hex(*s, s.length()); }
	case Var::ARRAY: { std::string s = "["; for (int i = 0; i < v.length(); i++) s += (i ? "," : "") + dumpVar(v[i]); return s + "]"; }
	case Var::OBJ: { std::map<std::string, std::string> m; foreach2 (String & k, const Var& x, v) m[vfx::S(k)] = dumpVar(x); std::string s = "{"; bool f = true; for (std::map<std::string, std::string>::iterator it = m.begin(); it != m.end(); ++it) { s += (f ? "" : ",") + vf::hex(it->first) + ":" + it->second; f = false; } return s + "}"; }
	default: return "~";
	}
}

static std::string exactKey(XdlParser& p) {
	if (p._state == S_ERR) return "ERR"; // absorbing: parse() returns at once and value() is invalid whatever else the parser holds
	std::string s = fmt("s%d p%d c%d u%d|", (int)p._state, (p._state == S_ESCAPE || p._state == S_UNICODECHAR) ? (int)p._prevState : -1, (int)p._inComment, p._unicodeCount);
	for (int i = 0; i < p._context.length(); i++) s += char('0' + p._context[i]);
	s += "|" + vfx::S(p._buffer) + "|";
	if (p._unicodeCount % 4) s += std::string(p._unicode, p._unicodeCount % 4);
	if (p._unicodeCount == 4) s += fmt("w%x", (unsigned)p._wchar);
	s += "|";
	for (int i = 0; i < p._lists.length(); i++) s += dumpVar(p._lists[i]) + ";";
	s += "|";
	for (int i = 0; i < p._props.length(); i++) s += vf::hex(*p._props[i], p._props[i].length()) + ";";
	return s;
}
static char lenClass(int n) { return n <= 17 ? (char)('A' + n) : 'z'; } // exact up to the last inline/heap boundary (Var 7/8, String 15/16), one class beyond
static std::string abstractKey(XdlParser& p, const rj::Ref& r) {
	int st = p._state;
	if (st == S_ERR) return r.mode == rj::Ref::DEAD ? "ERR" : "ERR|R" + r.stateKey(); // a rejection while the reference is still alive keeps the reference's future
	std::string s = fmt("s%d p%d c%d u%d|", st, (st == S_ESCAPE || st == S_UNICODECHAR) ? (int)p._prevState : -1, (int)p._inComment, p._unicodeCount);
	for (int i = 0; i < p._context.length(); i++) s += char('0' + p._context[i]);
	s += "|";
	if (st == S_ERR) return s; // nothing else can influence the future
	std::string b = vfx::S(p._buffer);
	int eff = (st == S_ESCAPE || st == S_UNICODECHAR) ? p._prevState : st;
	switch (eff) {
	case S_IDENTIFIER: { static const char* kw[] = { "Y", "N", "true", "false", "null" }; bool pre = false; for (int k = 0; k < 5; k++) if (strncmp(kw[k], b.c_str(), b.size()) == 0 && b.size() <= strlen(kw[k])) pre = true; s += pre ? b : std::string("id") + lenClass((int)b.size()); break; }
	case S_MINUS: case S_INT: s += fmt("%c%c%d", b[0] == '-' ? '-' : '+', (b[0] == '-' ? b[1] : b[0]) == '0' ? 'z' : 'n', (int)std::min<size_t>(b.size(), 11)); break;
	default: s += lenClass((int)b.size()); if (eff == S_WAIT_OBJ || eff == S_WAIT_VALUE) s += b.empty() ? 'e' : 'c'; break;
	}
	s += "|";
	if (p._unicodeCount % 4) s += std::string(p._unicode, p._unicodeCount % 4);
	s += "|";
	for (int i = 0; i < p._lists.length(); i++) { const Var& l = p._lists[i]; s += l.type() == Var::ARRAY ? fmt("a%d", std::min(l.length(), 7)) : fmt("o%d", std::min(l.length(), 4)); }
	s += fmt("|n%d", p._props.length());
	if (p._props.length()) { const String& t = p._props.top(); s += lenClass(t.length()); const Var& top = p._lists.top(); s += (top.type() == Var::OBJ && top.has(t)) ? 'x' : '-'; }
	// reference side: only what its future depends on
	s += "|R";
	if (r.mode == rj::Ref::DEAD) s += "dead";
	else { s += fmt("%d k%d x%d u%d h%d 8%d j%d ", (int)r.mode, (int)r.inKey, (int)r.excluded, r.ucount, r.hi ? 1 : 0, r.utf8need, (int)r.arrayJustOpened); if (r.mode == rj::Ref::LIT) s += fmt("%s%d", r.lit, r.litpos); if (r.mode == rj::Ref::UHEX) s += fmt("c%x", r.ucode); for (size_t i = 0; i < r.st.size(); i++) s += r.st[i].isObj ? 'o' : 'a'; }
	return s;
}

static void feedSyms(XdlParser& p, const std::string& text, int mode, size_t cut = 0) {
	if (mode == 0) p.parse(text.c_str());
	else if (mode == 1) { char c[2] = { 0, 0 }; for (size_t i = 0; i < text.size(); i++) { c[0] = text[i]; p.parse(c); } }
	else { std::string a = text.substr(0, cut), b = text.substr(cut); p.parse(a.c_str()); p.parse(b.c_str()); }
}

struct JsonSys {
	bool abstract; int maxNest, collectMaxLen; std::string label;
	XdlParser* p; rj::Ref ref; std::string text; int nsym;
	FILE* pyf; char iobuf[1 << 16];
	FILE* absf; char iobuf2[1 << 16]; int absDepth; // abstraction check: abstract keys of all states up to absDepth, from both passes
	JsonSys(bool a, int nest, int collect, const std::string& l) : abstract(a), maxNest(nest), collectMaxLen(collect), label(l), p(0), nsym(0), pyf(0), absf(0), absDepth(0) {}
	int nops() { return NSYM; }
	void reset() {
		delete p; p = new XdlParser(); ref.reset(); std::string().swap(text); nsym = 0;
		if (!absf && absDepth && vf::in_worker()) { absf = fopen((vf::scratch_dir() + fmt("/abs.%s.%d.%d", label.c_str(), vf::worker_id(), (int)getpid())).c_str(), "a"); if (absf) setvbuf(absf, iobuf2, _IOFBF, sizeof iobuf2); }
		if (!pyf && vf::in_worker()) { pyf = fopen((vf::scratch_dir() + fmt("/py.%s.%d.%d", label.c_str(), vf::worker_id(), (int)getpid())).c_str(), "a"); if (pyf) setvbuf(pyf, iobuf, _IOFBF, sizeof iobuf); }
	}
	bool enabled(int op) {
		if (p->_state == S_ERR && ref.dead()) return false; // both dead: every extension stays dead (absorbing), nothing new to see
		if ((op == 0 || op == 2)) { int n = 0; for (int i = 0; i < p->_context.length(); i++) if (p->_context[i] == X_ARRAY || p->_context[i] == X_OBJECT) n++; if (n >= maxNest) return false; }
		return true;
	}
	const char* predict(int) { return 0; }
	std::string opname(int op) { return SYMS[op].name; }
	bool apply(int op, std::string& err) {
		int st0 = p->_state;
		p->parse(SYMS[op].text); ref.feed(std::string(SYMS[op].text)); text += SYMS[op].text; nsym++;
		if (p->_context.length() < 1) { err = "context stack empty"; return false; }
		if (p->_lists.length() < 1) { err = "container stack empty"; return false; }
		if (p->_state != S_ERR) {
			int n = 0; for (int i = 0; i < p->_context.length(); i++) if (p->_context[i] == X_ARRAY || p->_context[i] == X_OBJECT) n++;
			if (n != p->_lists.length() - 1) { err = fmt("context stack (%d open containers) out of step with container stack (%d)", n, p->_lists.length() - 1); return false; }
		}
		if (p->_state >= 0 && p->_state < NSTATES) vf::add(W_STATE[(int)p->_state]);
		vf::add(W_CTX[(int)p->_context.top() < NCTX ? (int)p->_context.top() : 0]);
		if ((st0 == S_INT || st0 == S_NUMBER || st0 == S_NUMBER_EV || st0 == S_IDENTIFIER || st0 == S_PROPERTY) && p->_state != st0 && p->_state != S_ERR && strlen(SYMS[op].text) == 1) vf::add(W_PUSHBACK);
		return true;
	}
	void fail(const char* sig, const std::string& d) { vf::violation(sig, d + "  input: " + vf::hex(text) + " '" + printable() + "'", label + ":" + histOfText()); }
	std::string printable() { std::string r; for (size_t i = 0; i < text.size(); i++) { unsigned char c = text[i]; if (c >= 0x20 && c < 0x7f) r += (char)c; else r += fmt("\\x%02x", c); } return r; }
	std::vector<int> hist;
	std::string histOfText() { return vf::hist_str(vf::Hist(hist.begin(), hist.end())); }
	// called once per new transition: expensive end-of-history checks, then the key
	std::string canon() {
		std::string E = exactKey(*p);
		{ XdlParser q; feedSyms(q, text, 0); if (exactKey(q) != E) fail("chunk_dependence", "feeding the text in one chunk gives a different parser state than symbol by symbol"); }
		{ XdlParser q; feedSyms(q, text, 1); if (exactKey(q) != E) fail("chunk_dependence", "feeding the text byte by byte gives a different parser state than symbol by symbol"); }
		if (!abstract) for (size_t c = 1; c < text.size(); c++) { XdlParser q; feedSyms(q, text, 2, c); if (exactKey(q) != E) { fail("chunk_dependence", fmt("cutting the text at byte %d gives a different parser state", (int)c)); break; } }
		Var v = Json::decode(vfx::A(text));
		{ XdlParser q; q.parse(text.c_str()); q.parse(" "); Var w = q.value(); if (dumpVar(w) != dumpVar(v) || w.ok() != v.ok()) fail("chunk_dependence", "Json::decode differs from parse(text)+parse(\" \")+value()"); }
		std::string verdict;
		// rejection is final (ERR absorbs), so it may only happen once no RFC 8259 document starts with this text
		if (p->_state == S_ERR && !ref.dead() && !ref.excluded) fail("reject_viable_prefix", "the parser has rejected a text that is a proper prefix of valid RFC 8259 documents");
		if (ref.excluded) { vf::add(W_EXCLUDED); verdict = "X"; }
		else if (ref.complete()) {
			std::string want = rj::dump(ref.value());
			verdict = "V" + want;
			vf::add(W_ACCEPT);
			if (!v.ok()) fail("reject_valid", "valid RFC 8259 document rejected (reference value " + want + ")");
			else if (dumpVar(v) != want) fail("wrong_value", "decoded value " + dumpVar(v) + " differs from reference " + want);
		}
		else {
			verdict = "I";
			if (ref.openTopLevel()) { vf::add(W_REJECT_OPEN); if (v.ok()) fail("accept_truncated", "text stops inside an unterminated top-level array/object/string but decode returned " + dumpVar(v)); }
			else if (v.ok()) vf::add(W_LENIENT);
		}
		if ((int)text.size() <= collectMaxLen) {
			if (pyf) { fprintf(pyf, "%s\t%s\n", vf::hex(text).c_str(), verdict.c_str()); vf::add(C_PYLINES); }
		}
		if (absf && nsym <= absDepth) {
			int nest = 0; for (int i = 0; i < p->_context.length(); i++) if (p->_context[i] == X_ARRAY || p->_context[i] == X_OBJECT) nest++;
			if (nest <= 3) { vf::H128 h = vf::hash128(abstractKey(*p, ref)); fprintf(absf, "%d %016llx%016llx\n", nsym, (unsigned long long)h.a, (unsigned long long)h.b); if (getenv("C06_ABSDEBUG")) { FILE* df = fopen(getenv("C06_ABSDEBUG"), "a"); if (df) { fprintf(df, "%s\t%016llx%016llx\t%s\t%s\n", label.c_str(), (unsigned long long)h.a, (unsigned long long)h.b, vf::hex(text).c_str(), abstractKey(*p, ref).c_str()); fclose(df); } } }
		}
		return abstract ? abstractKey(*p, ref) : E + "|R" + ref.stateKey();
	}
};
// the BFS engine does not tell the system the history; keep it from apply()
struct JsonSysH : JsonSys {
	JsonSysH(bool a, int nest, int collect, const std::string& l) : JsonSys(a, nest, collect, l) {}
	void reset() { JsonSys::reset(); hist.clear(); std::vector<int>().swap(hist); }
	bool apply(int op, std::string& err) { hist.push_back(op); return JsonSys::apply(op, err); }
};

// ---- deterministic deep / long cases
static void deepCases() {
	int depths[] = { 1, 2, 3, 64, 511, 512 };
	for (size_t di = 0; di < sizeof depths / sizeof *depths; di++) for (int kind = 0; kind < 3; kind++) {
		int d = depths[di];
		std::string t, k = fmt("deep:%d:%d", d, kind);
		vf::cur(k);
		for (int i = 0; i < d; i++) t += kind == 0 ? "[" : kind == 1 ? "{\"k\":" : (i % 2 ? "[" : "{\"a\":");
		t += "1";
		for (int i = d - 1; i >= 0; i--) t += kind == 0 ? "]" : kind == 1 ? "}" : (i % 2 ? "]" : "}");
		rj::RV rv; bool ex; bool ok = rj::parse(t, rv, &ex);
		Var v = Json::decode(vfx::A(t));
		vf::add(W_DEEP);
		if (!ok) { fprintf(stderr, "reference rejects its own deep document\n"); _exit(2); }
		if (!v.ok() || dumpVar(v) != rj::dump(rv)) vf::violation("reject_valid", fmt("nesting depth %d (kind %d) not decoded to the reference value", d, kind), k);
		for (size_t cut = 1; cut < t.size(); cut += (t.size() > 200 ? 37 : 1)) { Var w = Json::decode(vfx::A(t.substr(0, cut))); if (w.ok()) { vf::violation("accept_truncated", fmt("prefix of length %d of a depth-%d document accepted", (int)cut, d), k); break; } }
		if (vf::asan_tripped()) { vf::violation("asan", "ASan " + vf::asan_what() + " on deep document", k); vf::asan_clear(); }
	}
	// unterminated and unbalanced deep inputs: safety only
	for (int kind = 0; kind < 4; kind++) {
		std::string k = fmt("deepjunk:%d", kind); vf::cur(k);
		std::string t; for (int i = 0; i < 20000; i++) t += kind == 0 ? "[" : kind == 1 ? "{\"a\":" : kind == 2 ? "]" : "[{";
		Var v = Json::decode(vfx::A(t)); (void)v;
		if (vf::asan_tripped()) { vf::violation("asan", "ASan " + vf::asan_what() + " on deep junk", k); vf::asan_clear(); }
	}
}

// ---- documents with snippets (comments, separators, stray comment openers) inserted at every position, singly and in pairs
static const char* DOCS[] = { "{\"a\":1,\"b\":[true,null,\"x\"],\"c\":{\"d\":-1.5e3}}", "[1,2,{\"k\":\"v\"}]", "{\"a\":1}", "\"str\"", "[[],{}]", "{\"a\":{\"b\":{\"c\":[1]}}}", "{\"a\":1 \"b\":2}",
	"{a=1,b=[Y,N],c=x{d=1}}", "{a=1\nb=2}", "[1\n2]", "cls{x=1}", "{a=\"s\"\nb=[1\n2]}", "-12.5e-3", "[1 , 2]" };
static const char* SNIPS[] = { "//c\n", "//\n", "/*c*/", "/**/", "/* * */", "//c\r", "/", "/*", "//", " ", "\n", ",", "*/", "\"", "}" };
enum { NDOCS = sizeof DOCS / sizeof *DOCS, NSNIPS = sizeof SNIPS / sizeof *SNIPS };
static int W_SNIP, W_SNIP_VALID;
static void snippetText(const std::string& t, const std::string& kase) {
	vf::cur(kase); vf::add(W_SNIP);
	vf::asan_clear();
	XdlParser a, b; a.parse(t.c_str()); { char c[2] = { 0, 0 }; for (size_t i = 0; i < t.size(); i++) { c[0] = t[i]; b.parse(c); } }
	if (exactKey(a) != exactKey(b)) vf::violation("chunk_dependence", "feeding '" + t + "' whole and byte by byte gives different parser states", kase);
	for (size_t cut = 1; cut < t.size(); cut++) { XdlParser q; feedSyms(q, t, 2, cut); if (exactKey(q) != exactKey(a)) { vf::violation("chunk_dependence", fmt("cutting '%s' at byte %d gives a different parser state", t.c_str(), (int)cut), kase); break; } }
	Var v = Json::decode(vfx::A(t));
	rj::Ref r; r.feed(t);
	if (!r.excluded && r.complete()) { vf::add(W_SNIP_VALID); std::string want = rj::dump(r.value()); if (!v.ok()) vf::violation("reject_valid", "valid RFC 8259 document rejected: '" + t + "'", kase); else if (dumpVar(v) != want) vf::violation("wrong_value", "'" + t + "' decoded to " + dumpVar(v) + ", reference " + want, kase); }
	else if (!r.excluded && r.openTopLevel() && v.ok()) vf::violation("accept_truncated", "'" + t + "' stops inside an open top-level value but was accepted", kase);
	if (vf::asan_tripped()) { vf::violation("asan", "ASan " + vf::asan_what() + " decoding '" + t + "'", kase); vf::asan_clear(); }
}
static std::string snippetCaseText(int d, int p, int s1, int q, int s2) { std::string t = DOCS[d]; if (q >= 0) t.insert(q, SNIPS[s2]); t.insert(p, SNIPS[s1]); return t; } // q >= p: inserted first so that p stays valid
static void snippetItem(int d, int p, bool pairs) {
	int L = (int)strlen(DOCS[d]);
	for (int s1 = 0; s1 < NSNIPS; s1++) {
		snippetText(snippetCaseText(d, p, s1, -1, 0), fmt("snip:%d:%d:%d:-1:0", d, p, s1));
		if (pairs && L <= 26) for (int q = p; q <= L; q++) for (int s2 = 0; s2 < 9; s2++) snippetText(snippetCaseText(d, p, s1, q, s2), fmt("snip:%d:%d:%d:%d:%d", d, p, s1, q, s2));
	}
}

template <class S>
static vf::BfsResult runPass(S& sys, int depth, const char* infoKey) {
	vf::Bfs<S> b(sys, sys.label);
	vf::BfsResult r = b.run(depth, 0);
	std::string pd; for (size_t i = 0; i < r.per_depth.size(); i++) pd += fmt(i ? ",%llu" : "%llu", (unsigned long long)r.per_depth[i]);
	vf::setinfo(infoKey, fmt("{\"depth_completed\": %d, \"states\": %llu, \"transitions\": %llu, \"new_states_per_depth\": [%s], \"alphabet\": %d, \"key\": \"%s\"}", r.depth_done, (unsigned long long)r.states, (unsigned long long)r.transitions, pd.c_str(), NSYM, sys.abstract ? "abstracted" : "exact"));
	return r;
}

int main(int argc, char** argv) {
	vf::init(argc, argv, "C06", "c06_jsonparse");
	int cS = vf::counter("states"), cT = vf::counter("transitions"), cTr = vf::counter("traces");
	static const char* sn[] = { "NUMBER", "INT", "STRING", "PROPERTY", "IDENTIFIER", "NUMBER_E", "NUMBER_ES", "NUMBER_EV", "NUMBER_DOT", "MINUS", "WAIT_SEP", "WAIT_EQUAL", "WAIT_VALUE", "WAIT_PROPERTY", "WAIT_OBJ", "QPROPERTY", "ESCAPE", "ERR", "UNICODECHAR", "WAIT_COMMA_OR_PROPERTY", "WAIT_COMMA_OR_VALUE" };
	static const char* cn[] = { "ROOT", "ARRAY", "OBJECT", "COMMENT1", "COMMENT", "LINECOMMENT", "ENDCOMMENT" };
	for (int i = 0; i < NSTATES; i++) W_STATE[i] = vf::counter(fmt("w.state_%s", sn[i]).c_str());
	for (int i = 0; i < NCTX; i++) W_CTX[i] = vf::counter(fmt("w.context_%s", cn[i]).c_str());
	W_PUSHBACK = vf::counter("w.one_char_push_back_taken"); W_ACCEPT = vf::counter("w.valid_documents_compared"); W_REJECT_OPEN = vf::counter("w.open_top_level_prefixes_checked"); W_LENIENT = vf::counter("w.non_json_accepted_leniently");
	W_EXCLUDED = vf::counter("w.outside_statement_nul_or_lone_surrogate_or_bad_utf8"); C_PYLINES = vf::counter("texts_cross_checked_with_python"); W_DEEP = vf::counter("w.deep_documents"); W_SNIP = vf::counter("w.documents_with_inserted_snippets"); W_SNIP_VALID = vf::counter("w.snippet_documents_that_are_valid_json");
	bool T = vf::opt.thorough();
	JsonSysH A(false, 99, 64, "exact"), B(true, 3, T ? 14 : 40, "abstract");
	if (vf::opt.replay) {
		const std::string& k = vf::opt.kase;
		vf::parallel(1, [&](uint64_t) {
			if (k.compare(0, 5, "exact") == 0) { vf::Bfs<JsonSysH> b(A, "exact"); vf::Hist h = vf::hist_parse(k.substr(6)); b.run_one(vf::Hist(), -1, 0, false); vf::H128 key; b.run_one(h, -1, &key); }
			else if (k.compare(0, 8, "abstract") == 0) { vf::Bfs<JsonSysH> b(B, "abstract"); vf::Hist h = vf::hist_parse(k.substr(9)); b.run_one(vf::Hist(), -1, 0, false); vf::H128 key; b.run_one(h, -1, &key); }
			else if (k.compare(0, 5, "snip:") == 0) { int d, p2, s1, q, s2; if (sscanf(k.c_str(), "snip:%d:%d:%d:%d:%d", &d, &p2, &s1, &q, &s2) == 5) snippetText(snippetCaseText(d, p2, s1, q, s2), k); }
			else deepCases();
		});
		return vf::finish();
	}
	A.absDepth = T ? 5 : 4; B.absDepth = 99; // every abstract state the exact search reaches must be reached by the abstracted search at some depth
	vf::BfsResult ra = runPass(A, T ? 5 : 4, "pass_A_exact");
	vf::BfsResult rb = runPass(B, T ? 10 : 8, "pass_B_abstract");
	vf::add(cS, ra.states + rb.states); vf::add(cT, ra.transitions + rb.transitions); vf::add(cTr, ra.traces + rb.traces);
	vf::parallel(1, [&](uint64_t) { deepCases(); });
	{ std::vector<std::pair<int, int> > items; for (int d = 0; d < NDOCS; d++) for (int q = 0; q <= (int)strlen(DOCS[d]); q++) items.push_back(std::make_pair(d, q)); vf::parallel(items.size(), [&](uint64_t i) { snippetItem(items[i].first, items[i].second, true); }); }
	// abstraction check: up to pass A's depth, the abstract states reached through the exact search and through the abstracted search must coincide
	{
		std::set<std::string> sa, sb; char line[128];
		std::vector<std::string> fa = vf::list_scratch("abs.exact."), fb = vf::list_scratch("abs.abstract.");
		for (size_t i = 0; i < fa.size(); i++) { FILE* f = fopen(fa[i].c_str(), "r"); while (f && fgets(line, sizeof line, f)) sa.insert(strchr(line, ' ') ? strchr(line, ' ') + 1 : line); if (f) fclose(f); }
		for (size_t i = 0; i < fb.size(); i++) { FILE* f = fopen(fb[i].c_str(), "r"); while (f && fgets(line, sizeof line, f)) sb.insert(strchr(line, ' ') ? strchr(line, ' ') + 1 : line); if (f) fclose(f); }
		size_t onlyA = 0, onlyB = 0; for (std::set<std::string>::iterator it = sa.begin(); it != sa.end(); ++it) if (!sb.count(*it)) onlyA++; for (std::set<std::string>::iterator it = sb.begin(); it != sb.end(); ++it) if (!sa.count(*it)) onlyB++;
		vf::setinfo("abstraction_check", fmt("{\"depth\": %d, \"abstract_states_via_exact_search\": %llu, \"abstract_states_via_abstracted_search\": %llu, \"only_exact\": %llu, \"only_abstracted\": %llu}", A.absDepth, (unsigned long long)sa.size(), (unsigned long long)sb.size(), (unsigned long long)onlyA, (unsigned long long)onlyB));
		if (vf::nviolations() == 0 && onlyA) { fprintf(stderr, "HARNESS ERROR: abstraction of pass B is not reachability-preserving up to depth %d (%llu abstract states reached by the exact search are never reached by the abstracted search)\n", A.absDepth, (unsigned long long)onlyA); vf::finish(); return 2; }
	}
	// cross-check of the reference recogniser against python's json on every collected text
	std::vector<std::string> files = vf::list_scratch("py.");
	if (!files.empty()) {
		std::string cmd = "python3 /verif/tools/ref_json.py";
		for (size_t i = 0; i < files.size(); i++) cmd += " '" + files[i] + "'";
		cmd += " > '" + vf::scratch_dir() + "/py.out' 2>&1";
		int rc = system(cmd.c_str());
		FILE* f = fopen((vf::scratch_dir() + "/py.out").c_str(), "r");
		std::string out; char line[1000]; while (f && fgets(line, sizeof line, f)) out += line; if (f) fclose(f);
		vf::setinfo("python_cross_check", vf::jstr(out.size() > 1500 ? out.substr(out.size() - 1500) : out));
		if (rc != 0) { fprintf(stderr, "HARNESS ERROR: reference recogniser disagrees with python json:\n%s\n", out.c_str()); vf::finish(); return 2; }
	}
	vf::sample("exact pass: every symbol sequence over the 29-symbol alphabet { } [ ] , : \" \\ / * = SP LF 0 1 - . e a _ true null e-acute \\ud83d \\ude00 0x01 0x80 0xff u");
	vf::sample("{\"a/\\ud83d\\ude00\":[1e1,-0.0,true,null]} cut at every byte; [[1 ; {\"a\":\"x ; 01 ; 1 2");
	return vf::finish();
}
