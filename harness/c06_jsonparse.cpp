// C06 — JSON/XDL decoding: explicit-state exploration of the real incremental XdlParser driven one symbol at a time,
// in product with an independent strict RFC 8259 recogniser (common/refjson.h, itself cross-checked against python json).
// Pass A: exact key (every private field incl. partial trees). Pass B: abstracted key (control-relevant summary), deeper.
// Passes AX/BX: the same over an alphabet extended by false E + \b \f \r TAB CR 9, shallower.
// Finite families, each text fed whole, byte-wise (with empty chunks) and cut at every byte, both decode entry points against the reference:
// deep nesting, snippet insertion (C), token table x contexts x white space (D), objects with repeated names (E), token lengths and
// container widths (F), files through the library's own block reader Xdl::read / Json::read (G).
#include <asl/Xdl.h>
#include <asl/JSON.h>
#include <asl/Var.h>
#include "vf.h"
#include "aslx.h"
#include "refjson.h"
#include <set>
#include <sys/resource.h>
using namespace asl;
using vf::fmt;

struct Sym { const char* text; const char* name; };
static const Sym SYMS[] = {
	{ "{", "{" }, { "}", "}" }, { "[", "[" }, { "]", "]" }, { ",", "," }, { ":", ":" }, { "\"", "\"" }, { "\\", "\\" }, { "/", "/" }, { "*", "*" }, { "=", "=" },
	{ " ", "SP" }, { "\n", "LF" }, { "0", "0" }, { "1", "1" }, { "-", "-" }, { ".", "." }, { "e", "e" }, { "a", "a" }, { "_", "_" }, { "true", "true" }, { "null", "null" },
	{ "\xc3\xa9", "e-acute" }, { "\\ud83d", "\\ud83d" }, { "\\ude00", "\\ude00" }, { "\x01", "0x01" }, { "\x80", "0x80" }, { "\xff", "0xff" }, { "u", "u" },
	// extended alphabet of the passes "exactx"/"abstractx" only (appended, so that histories of the 29-symbol alphabet keep their numbering)
	{ "false", "false" }, { "E", "E" }, { "+", "+" }, { "\\b", "\\b" }, { "\\f", "\\f" }, { "\\r", "\\r" }, { "\t", "TAB" }, { "\r", "CR" }, { "9", "9" }
};
enum { NSYM_BASE = 29, NSYM_ALL = sizeof SYMS / sizeof *SYMS };
enum { S_NUMBER, S_INT, S_STRING, S_PROPERTY, S_IDENTIFIER, S_NUMBER_E, S_NUMBER_ES, S_NUMBER_EV, S_NUMBER_DOT, S_MINUS, S_WAIT_SEP, S_WAIT_EQUAL, S_WAIT_VALUE, S_WAIT_PROPERTY, S_WAIT_OBJ, S_QPROPERTY, S_ESCAPE, S_ERR, S_UNICODECHAR, S_WAIT_COMMA_OR_PROPERTY, S_WAIT_COMMA_OR_VALUE, NSTATES };
enum { X_ROOT, X_ARRAY, X_OBJECT, X_COMMENT1, X_COMMENT, X_LINECOMMENT, X_ENDCOMMENT, NCTX };

static int W_STATE[NSTATES], W_CTX[NCTX], W_PUSHBACK, W_ACCEPT, W_REJECT_OPEN, W_LENIENT, W_EXCLUDED, W_DUPKEY, W_DUPKEY_PENDING, W_SURROGATE_PAIR, C_PYLINES, W_DEEP;

// canonical dump of a Var in the format of rj::dump
static std::string dumpVar(const Var& v) {
	switch (v.type()) {
	case Var::NUL: return "n";
	case Var::BOOL: return (bool)v ? "t" : "f";
	case Var::INT: case Var::NUMBER: case Var::FLOAT: return "#" + rj::numstr((double)v);
	case Var::STRING: { String s = v; return "s" + vf::hex(*s, s.length()); }
	case Var::ARRAY: { std::string s = "["; for (int i = 0; i < v.length(); i++) s += (i ? "," : "") + dumpVar(v[i]); return s + "]"; }
	case Var::OBJ: { std::map<std::string, std::string> m; foreach2 (String & k, const Var& x, v) m[vfx::S(k)] = dumpVar(x); std::string s = "{"; bool f = true; for (std::map<std::string, std::string>::iterator it = m.begin(); it != m.end(); ++it) { s += (f ? "" : ",") + vf::hex(it->first) + ":" + it->second; f = false; } return s + "}"; }
	default: return "~";
	}
}

static std::string exactKey(XdlParser& p) {
	if (p._state == S_ERR) return "ERR"; // absorbing: parse() returns at once and value() is invalid whatever else the parser holds
	std::string s = fmt("s%d p%d c%d u%d|", (int)p._state, (p._state == S_ESCAPE || p._state == S_UNICODECHAR) ? (int)p._prevState : -1, (int)p._inComment, p._unicodeCount);
	for (int i = 0; i < p._context.length(); i++) s += char('0' + p._context[i]);
	s += "|" + vfx::S(p._buffer) + "|";
	if (p._unicodeCount % 4) s += std::string(p._unicode, p._unicodeCount % 4);
	if (p._unicodeCount == 4) s += fmt("w%x", (unsigned)p._wchar);
	s += "|";
	for (int i = 0; i < p._lists.length(); i++) s += dumpVar(p._lists[i]) + ";";
	s += "|";
	for (int i = 0; i < p._props.length(); i++) s += vf::hex(*p._props[i], p._props[i].length()) + ";";
	return s;
}
static char lenClass(int n) { return n <= 17 ? (char)('A' + n) : 'z'; } // exact up to the last inline/heap boundary (Var 7/8, String 15/16), one class beyond
static std::string abstractKey(XdlParser& p, const rj::Ref& r) {
	int st = p._state;
	if (st == S_ERR) return r.mode == rj::Ref::DEAD ? "ERR" : "ERR|R" + r.stateKey(); // a rejection while the reference is still alive keeps the reference's future
	std::string s = fmt("s%d p%d c%d u%d|", st, (st == S_ESCAPE || st == S_UNICODECHAR) ? (int)p._prevState : -1, (int)p._inComment, p._unicodeCount);
	for (int i = 0; i < p._context.length(); i++) s += char('0' + p._context[i]);
	s += "|";
	if (st == S_ERR) return s; // nothing else can influence the future
	std::string b = vfx::S(p._buffer);
	int eff = (st == S_ESCAPE || st == S_UNICODECHAR) ? p._prevState : st;
	switch (eff) {
	case S_IDENTIFIER: { static const char* kw[] = { "Y", "N", "true", "false", "null" }; bool pre = false; for (int k = 0; k < 5; k++) if (strncmp(kw[k], b.c_str(), b.size()) == 0 && b.size() <= strlen(kw[k])) pre = true; s += pre ? b : std::string("id") + lenClass((int)b.size()); break; }
	case S_MINUS: case S_INT: s += fmt("%c%c%d", b[0] == '-' ? '-' : '+', (b[0] == '-' ? b[1] : b[0]) == '0' ? 'z' : 'n', (int)std::min<size_t>(b.size(), 11)); break;
	default: s += lenClass((int)b.size()); if (eff == S_WAIT_OBJ || eff == S_WAIT_VALUE) s += b.empty() ? 'e' : 'c'; break;
	}
	s += "|";
	if (p._unicodeCount % 4) s += std::string(p._unicode, p._unicodeCount % 4);
	s += "|";
	for (int i = 0; i < p._lists.length(); i++) { const Var& l = p._lists[i]; s += l.type() == Var::ARRAY ? fmt("a%d", std::min(l.length(), 7)) : fmt("o%d", std::min(l.length(), 4)); }
	s += fmt("|n%d", p._props.length());
	if (p._props.length()) { const String& t = p._props.top(); s += lenClass(t.length()); const Var& top = p._lists.top(); s += (top.type() == Var::OBJ && top.has(t)) ? 'x' : '-'; }
	// reference side: only what its future depends on
	s += "|R";
	if (r.mode == rj::Ref::DEAD) s += "dead";
	else { s += fmt("%d k%d x%d u%d h%d 8%d j%d ", (int)r.mode, (int)r.inKey, (int)r.excluded, r.ucount, r.hi ? 1 : 0, r.utf8need, (int)r.arrayJustOpened); if (r.mode == rj::Ref::LIT) s += fmt("%s%d", r.lit, r.litpos); if (r.mode == rj::Ref::UHEX) s += fmt("c%x", r.ucode); for (size_t i = 0; i < r.st.size(); i++) s += r.st[i].isObj ? 'o' : 'a'; }
	return s;
}

static void feedSyms(XdlParser& p, const std::string& text, int mode, size_t cut = 0) {
	if (mode == 0) p.parse(text.c_str());
	else if (mode == 1) { char c[2] = { 0, 0 }; for (size_t i = 0; i < text.size(); i++) { p.parse(""); c[0] = text[i]; p.parse(c); } p.parse(""); } // byte by byte, with an empty chunk before every byte and at the end
	else { std::string a = text.substr(0, cut), b = text.substr(cut); p.parse(a.c_str()); p.parse(b.c_str()); }
}

struct JsonSys {
	bool abstract; int maxNest, collectMaxLen; std::string label; int nsym;
	XdlParser* p; rj::Ref ref; std::string text; int nsteps;
	FILE* pyf; char iobuf[1 << 16];
	FILE* absf; char iobuf2[1 << 16]; int absDepth; // abstraction check: abstract keys of all states up to absDepth, from both passes
	JsonSys(bool a, int nest, int collect, const std::string& l, int ns) : abstract(a), maxNest(nest), collectMaxLen(collect), label(l), nsym(ns), p(0), nsteps(0), pyf(0), absf(0), absDepth(0) {}
	int nops() { return nsym; }
	void reset() {
		delete p; p = new XdlParser(); ref.reset(); std::string().swap(text); nsteps = 0;
		if (!absf && absDepth && vf::in_worker()) { absf = fopen((vf::scratch_dir() + fmt("/abs.%s.%d.%d", label.c_str(), vf::worker_id(), (int)getpid())).c_str(), "a"); if (absf) setvbuf(absf, iobuf2, _IOFBF, sizeof iobuf2); }
		if (!pyf && vf::in_worker()) { pyf = fopen((vf::scratch_dir() + fmt("/py.%s.%d.%d", label.c_str(), vf::worker_id(), (int)getpid())).c_str(), "a"); if (pyf) setvbuf(pyf, iobuf, _IOFBF, sizeof iobuf); }
	}
	bool enabled(int op) {
		if (p->_state == S_ERR && ref.dead()) return false; // both dead: every extension stays dead (absorbing), nothing new to see
		if ((op == 0 || op == 2)) { int n = 0; for (int i = 0; i < p->_context.length(); i++) if (p->_context[i] == X_ARRAY || p->_context[i] == X_OBJECT) n++; if (n >= maxNest) return false; }
		return true;
	}
	const char* predict(int) { return 0; }
	std::string opname(int op) { return SYMS[op].name; }
	bool apply(int op, std::string& err) {
		int st0 = p->_state, uc0 = p->_unicodeCount;
		p->parse(SYMS[op].text); ref.feed(std::string(SYMS[op].text)); text += SYMS[op].text; nsteps++;
		if (p->_context.length() < 1) { err = "context stack empty"; return false; }
		if (p->_lists.length() < 1) { err = "container stack empty"; return false; }
		if (p->_state != S_ERR) {
			int n = 0; for (int i = 0; i < p->_context.length(); i++) if (p->_context[i] == X_ARRAY || p->_context[i] == X_OBJECT) n++;
			if (n != p->_lists.length() - 1) { err = fmt("context stack (%d open containers) out of step with container stack (%d)", n, p->_lists.length() - 1); return false; }
		}
		if (p->_state >= 0 && p->_state < NSTATES) vf::add(W_STATE[(int)p->_state]);
		vf::add(W_CTX[(int)p->_context.top() < NCTX ? (int)p->_context.top() : 0]);
		if ((st0 == S_INT || st0 == S_NUMBER || st0 == S_NUMBER_EV || st0 == S_IDENTIFIER || st0 == S_PROPERTY) && p->_state != st0 && p->_state != S_ERR && strlen(SYMS[op].text) == 1) vf::add(W_PUSHBACK);
		if (uc0 == 4 && p->_unicodeCount == 0 && p->_state != S_ERR && SYMS[op].text[0] == '\\' && SYMS[op].text[1] == 'u') vf::add(W_SURROGATE_PAIR);
		if (p->_state != S_ERR && p->_props.length() && p->_lists.top().type() == Var::OBJ && p->_lists.top().has(p->_props.top())) vf::add(W_DUPKEY_PENDING);
		return true;
	}
	void fail(const char* sig, const std::string& d) { vf::violation(sig, d + "  input: " + vf::hex(text) + " '" + printable() + "'", label + ":" + histOfText()); }
	std::string printable() { std::string r; for (size_t i = 0; i < text.size(); i++) { unsigned char c = text[i]; if (c >= 0x20 && c < 0x7f) r += (char)c; else r += fmt("\\x%02x", c); } return r; }
	std::vector<int> hist;
	std::string histOfText() { return vf::hist_str(vf::Hist(hist.begin(), hist.end())); }
	// called once per new transition: expensive end-of-history checks, then the key
	std::string canon() {
		std::string E = exactKey(*p);
		{ XdlParser q; feedSyms(q, text, 0); if (exactKey(q) != E) fail("chunk_dependence", "feeding the text in one chunk gives a different parser state than symbol by symbol"); }
		{ XdlParser q; feedSyms(q, text, 1); if (exactKey(q) != E) fail("chunk_dependence", "feeding the text byte by byte gives a different parser state than symbol by symbol"); }
		if (!abstract) for (size_t c = 1; c < text.size(); c++) { XdlParser q; feedSyms(q, text, 2, c); if (exactKey(q) != E) { fail("chunk_dependence", fmt("cutting the text at byte %d gives a different parser state", (int)c)); break; } }
		Var v = Json::decode(vfx::A(text)), x = Xdl::decode(vfx::A(text));
		{ XdlParser q; q.parse(text.c_str()); q.parse(" "); Var w = q.value(); if (dumpVar(w) != dumpVar(v) || w.ok() != v.ok()) fail("chunk_dependence", "Json::decode differs from parse(text)+parse(\" \")+value()"); }
		std::string verdict;
		// rejection is final (ERR absorbs), so it may only happen once no RFC 8259 document starts with this text
		if (p->_state == S_ERR && !ref.dead() && !ref.excluded) fail("reject_viable_prefix", "the parser has rejected a text that is a proper prefix of valid RFC 8259 documents");
		if (ref.excluded) { vf::add(W_EXCLUDED); verdict = "X"; }
		else if (ref.complete()) {
			std::string want = rj::dump(ref.value());
			verdict = "V" + want;
			vf::add(W_ACCEPT);
			for (int api = 0; api < 2; api++) { // the statement names both entry points
				const Var& d = api ? x : v; const std::string an = api ? "Xdl::decode: " : "";
				if (!d.ok()) fail("reject_valid", an + "valid RFC 8259 document rejected (reference value " + want + ")");
				else if (dumpVar(d) != want) fail("wrong_value", an + "decoded value " + dumpVar(d) + " differs from reference " + want);
			}
		}
		else {
			verdict = "I";
			if (ref.openTopLevel()) { vf::add(W_REJECT_OPEN); if (v.ok()) fail("accept_truncated", "text stops inside an unterminated top-level array/object/string but decode returned " + dumpVar(v)); if (x.ok()) fail("accept_truncated", "Xdl::decode: text stops inside an unterminated top-level array/object/string but decode returned " + dumpVar(x)); }
			else if (v.ok()) vf::add(W_LENIENT);
		}
		if ((int)text.size() <= collectMaxLen) {
			if (pyf) { fprintf(pyf, "%s\t%s\n", vf::hex(text).c_str(), verdict.c_str()); vf::add(C_PYLINES); }
		}
		if (absf && nsteps <= absDepth) {
			int nest = 0; for (int i = 0; i < p->_context.length(); i++) if (p->_context[i] == X_ARRAY || p->_context[i] == X_OBJECT) nest++;
			if (nest <= 3) { vf::H128 h = vf::hash128(abstractKey(*p, ref)); fprintf(absf, "%d %016llx%016llx\n", nsteps, (unsigned long long)h.a, (unsigned long long)h.b); if (getenv("C06_ABSDEBUG")) { FILE* df = fopen(getenv("C06_ABSDEBUG"), "a"); if (df) { fprintf(df, "%s\t%016llx%016llx\t%s\t%s\n", label.c_str(), (unsigned long long)h.a, (unsigned long long)h.b, vf::hex(text).c_str(), abstractKey(*p, ref).c_str()); fclose(df); } } }
		}
		return abstract ? abstractKey(*p, ref) : E + "|R" + ref.stateKey();
	}
};
// the BFS engine does not tell the system the history; keep it from apply()
struct JsonSysH : JsonSys {
	JsonSysH(bool a, int nest, int collect, const std::string& l, int ns = NSYM_BASE) : JsonSys(a, nest, collect, l, ns) {}
	void reset() { JsonSys::reset(); hist.clear(); std::vector<int>().swap(hist); }
	bool apply(int op, std::string& err) { hist.push_back(op); return JsonSys::apply(op, err); }
};

// ---- single-text check shared by the finite families (deep, snippets, token table, objects, long/wide tokens, files)
static int W_ESC[9], W_HEXU, W_HEXL, W_LIT[3], W_ATOF, W_ATOIZ, W_BEYOND32, W_EXPU, W_EXPPLUS, W_TAB, W_CR, W_BUFHEAP, W_PB_CUT, W_MULTI, W_EMPTY, W_CUTS, C_FAMPY;
static int W_SNIP, W_SNIP_VALID, W_TOK, W_TOK_VALID, W_OBJDOC, W_LONG, W_LONG_VALID, W_DEEPCUT, W_READ, W_READ_SPLIT;
static const char ESCCH[] = "\"\\/bfnrtu";
enum { F_CUTS = 1, F_PY = 2 };

// byte by byte with an empty chunk after every byte, recording which parser branches the text takes
static void feedObserved(XdlParser& b, const std::string& t, bool cuts) {
	char c[2] = { 0, 0 }; bool heap = false;
	b.parse("");
	for (size_t i = 0; i < t.size(); i++) {
		int st0 = b._state, uc0 = b._unicodeCount; bool com0 = b._inComment; char ch = t[i];
		std::string buf0 = (st0 == S_INT || st0 == S_IDENTIFIER) ? vfx::S(b._buffer) : std::string();
		c[0] = ch; b.parse(c); b.parse(""); vf::add(W_EMPTY);
		int st1 = b._state;
		if (b._buffer._size != 0) heap = true;
		if (st1 == S_ERR || com0) continue;
		if (st0 == S_ESCAPE) { const char* e = strchr(ESCCH, ch); if (e && ch) vf::add(W_ESC[e - ESCCH]); }
		if (st0 == S_UNICODECHAR) { if (ch >= 'A' && ch <= 'F') vf::add(W_HEXU); if (ch >= 'a' && ch <= 'f') vf::add(W_HEXL); if (uc0 == 7 && b._unicodeCount == 0) vf::add(W_SURROGATE_PAIR); }
		if (st0 == S_IDENTIFIER && st1 != S_IDENTIFIER && st1 != S_WAIT_OBJ) { if (buf0 == "true") vf::add(W_LIT[0]); else if (buf0 == "false") vf::add(W_LIT[1]); else if (buf0 == "null") vf::add(W_LIT[2]); }
		bool pushback = false;
		if (st0 == S_INT && st1 != S_INT && st1 != S_NUMBER_DOT && st1 != S_NUMBER_E) {
			pushback = true; vf::add(buf0.size() > 9 ? W_ATOF : W_ATOIZ);
			double d = strtod(buf0.c_str(), 0); if (d > 2147483647.0 || d < -2147483648.0) vf::add(W_BEYOND32);
		}
		if ((st0 == S_NUMBER && st1 != S_NUMBER && st1 != S_NUMBER_E) || (st0 == S_NUMBER_EV && st1 != S_NUMBER_EV) || (st0 == S_IDENTIFIER && st1 != S_IDENTIFIER) || (st0 == S_PROPERTY && st1 != S_PROPERTY)) pushback = true;
		if (pushback && cuts && i >= 1) vf::add(W_PB_CUT); // the 2-cut at i starts the second chunk with the pushed-back byte
		if ((st0 == S_INT || st0 == S_NUMBER) && ch == 'E' && st1 == S_NUMBER_E) vf::add(W_EXPU);
		if (st0 == S_NUMBER_E && ch == '+' && st1 == S_NUMBER_ES) vf::add(W_EXPPLUS);
		if (st0 != S_STRING && st0 != S_QPROPERTY && st0 != S_ESCAPE && st0 != S_UNICODECHAR && st0 != S_PROPERTY) { if (ch == '\t') vf::add(W_TAB); if (ch == '\r') vf::add(W_CR); }
	}
	if (heap) vf::add(W_BUFHEAP);
}
static bool hasDup(const rj::RV& v, bool* multi) {
	bool d = false;
	if (v.t == rj::RV::OBJ) { if (v.obj.size() >= 2) *multi = true; std::set<std::string> k; for (size_t i = 0; i < v.obj.size(); i++) { if (!k.insert(v.obj[i].first).second) d = true; if (hasDup(v.obj[i].second, multi)) d = true; } }
	if (v.t == rj::RV::ARR) for (size_t i = 0; i < v.arr.size(); i++) if (hasDup(v.arr[i], multi)) d = true;
	return d;
}
static FILE* famPy() { static FILE* f = 0; static int pid = 0; if (!f || pid != (int)getpid()) { pid = (int)getpid(); f = fopen((vf::scratch_dir() + fmt("/py.fam.%d.%d", vf::worker_id(), pid)).c_str(), "a"); } return f; }
static std::string shortText(const std::string& t) { std::string r; for (size_t i = 0; i < t.size() && i < 120; i++) { unsigned char c = t[i]; if (c >= 0x20 && c < 0x7f) r += (char)c; else r += fmt("\\x%02x", c); } if (t.size() > 120) r += fmt("...(%d bytes)", (int)t.size()); return r; }
// returns true when the text is a valid RFC 8259 document inside the statement
static bool checkText(const std::string& t, const std::string& kase, int flags, size_t cutStep = 1) {
	vf::cur(kase);
	vf::asan_clear();
	std::string T = shortText(t);
	XdlParser a, b; a.parse(t.c_str()); feedObserved(b, t, (flags & F_CUTS) != 0);
	std::string E = exactKey(a);
	if (E != exactKey(b)) vf::violation("chunk_dependence", "feeding '" + T + "' whole and byte by byte gives different parser states", kase);
	if (flags & F_CUTS) for (size_t cut = 1; cut < t.size(); cut += cutStep) { vf::add(W_CUTS); XdlParser q; feedSyms(q, t, 2, cut); if (exactKey(q) != E) { vf::violation("chunk_dependence", fmt("cutting '%s' at byte %d gives a different parser state", T.c_str(), (int)cut), kase); break; } }
	Var v = Json::decode(vfx::A(t)), x = Xdl::decode(vfx::A(t));
	{ b.parse(" "); Var w = b.value(); if (w.ok() != v.ok() || dumpVar(w) != dumpVar(v)) vf::violation("chunk_dependence", "Json::decode of '" + T + "' differs from the value after feeding it byte by byte", kase); }
	rj::Ref r; r.feed(t);
	bool valid = !r.excluded && r.complete();
	std::string verdict = r.excluded ? "X" : "I";
	if (valid) {
		rj::RV rv = r.value(); std::string want = rj::dump(rv); verdict = "V" + want;
		bool multi = false; if (hasDup(rv, &multi)) vf::add(W_DUPKEY); if (multi) vf::add(W_MULTI);
		for (int api = 0; api < 2; api++) {
			const Var& d = api ? x : v; const std::string an = api ? "Xdl::decode: " : "";
			if (!d.ok()) vf::violation("reject_valid", an + "valid RFC 8259 document rejected: '" + T + "'", kase);
			else if (dumpVar(d) != want) vf::violation("wrong_value", an + "'" + T + "' decoded to " + dumpVar(d).substr(0, 300) + ", reference " + want.substr(0, 300), kase);
		}
	}
	else if (!r.excluded && r.openTopLevel() && (v.ok() || x.ok())) vf::violation("accept_truncated", "'" + T + "' stops inside an open top-level value but was accepted", kase);
	if (flags & F_PY) { FILE* f = famPy(); if (f) { fprintf(f, "%s\t%s\n", vf::hex(t).c_str(), verdict.c_str()); vf::add(C_FAMPY); } }
	if (vf::asan_tripped()) { vf::violation("asan", "ASan " + vf::asan_what() + " decoding '" + T + "'", kase); vf::asan_clear(); }
	return valid;
}

// ---- deterministic deep cases: nesting 1..512 (whole, byte-wise and cut at every byte), prefixes, and unbalanced junk
static const int DEPTHS[] = { 1, 2, 3, 64, 511, 512 };
enum { NDEPTHS = sizeof DEPTHS / sizeof *DEPTHS };
static void deepCase(int d, int kind) {
	std::string t, k = fmt("deep:%d:%d", d, kind);
	vf::cur(k);
	for (int i = 0; i < d; i++) t += kind == 0 ? "[" : kind == 1 ? "{\"k\":" : (i % 2 ? "[" : "{\"a\":");
	t += "1";
	for (int i = d - 1; i >= 0; i--) t += kind == 0 ? "]" : kind == 1 ? "}" : (i % 2 ? "]" : "}");
	rj::RV rv; bool ex; bool ok = rj::parse(t, rv, &ex);
	vf::add(W_DEEP);
	if (!ok) { fprintf(stderr, "reference rejects its own deep document\n"); _exit(2); }
	size_t step = (d > 64 && !vf::opt.thorough()) ? 11 : 1; // quick tier: the 511/512-deep documents are cut at every 11th byte (11 is coprime to the period of every kind), thorough at every byte
	if (!checkText(t, k, F_CUTS, step)) vf::violation("harness_deep_not_valid", "deep document not classified as valid", k);
	vf::add(W_DEEPCUT, (t.size() - 2) / step + 1);
	for (size_t cut = 1; cut < t.size(); cut += (t.size() > 200 ? 37 : 1)) { Var w = Json::decode(vfx::A(t.substr(0, cut))); if (w.ok()) { vf::violation("accept_truncated", fmt("prefix of length %d of a depth-%d document accepted", (int)cut, d), k); break; } }
	if (vf::asan_tripped()) { vf::violation("asan", "ASan " + vf::asan_what() + " on deep document", k); vf::asan_clear(); }
}
static void deepJunk(int kind) { // unterminated and unbalanced deep inputs: safety only
	std::string k = fmt("deepjunk:%d", kind); vf::cur(k);
	std::string t; for (int i = 0; i < 20000; i++) t += kind == 0 ? "[" : kind == 1 ? "{\"a\":" : kind == 2 ? "]" : "[{";
	Var v = Json::decode(vfx::A(t)); (void)v;
	if (vf::asan_tripped()) { vf::violation("asan", "ASan " + vf::asan_what() + " on deep junk", k); vf::asan_clear(); }
}
static void deepItem(int i) { if (i < NDEPTHS * 3) deepCase(DEPTHS[i / 3], i % 3); else deepJunk(i - NDEPTHS * 3); }
enum { NDEEPITEMS = NDEPTHS * 3 + 4 };

// ---- family C: documents with snippets (comments, separators, white space, stray comment openers) inserted at every position, singly and in pairs
static const char* DOCS[] = { "{\"a\":1,\"b\":[true,null,\"x\"],\"c\":{\"d\":-1.5e3}}", "[1,2,{\"k\":\"v\"}]", "{\"a\":1}", "\"str\"", "[[],{}]", "{\"a\":{\"b\":{\"c\":[1]}}}", "{\"a\":1 \"b\":2}",
	"{a=1,b=[Y,N],c=x{d=1}}", "{a=1\nb=2}", "[1\n2]", "cls{x=1}", "{a=\"s\"\nb=[1\n2]}", "-12.5e-3", "[1 , 2]",
	"{\"a\":1,\"a\":2}", "{\"a\":1,\"b\":2,\"a\":[]}", "[false,\"\\b\\f\\r\\u00E9\",1.5E+3]" };
static const char* SNIPS[] = { "//c\n", "//\n", "/*c*/", "/**/", "/* * */", "//c\r", "/", "/*", "//", " ", "\n", ",", "*/", "\"", "}", "\t", "\r", "\r\n" };
enum { NDOCS = sizeof DOCS / sizeof *DOCS, NSNIPS = sizeof SNIPS / sizeof *SNIPS, NDOCS_PAIRS = 14 }; // documents from index 14 on take single snippets only (repeated names are enumerated with family E)
static void snippetText(const std::string& t, const std::string& kase) { vf::add(W_SNIP); if (checkText(t, kase, F_CUTS | F_PY)) vf::add(W_SNIP_VALID); }
static std::string snippetCaseText(int d, int p, int s1, int q, int s2) { std::string t = DOCS[d]; if (q >= 0) t.insert(q, SNIPS[s2]); t.insert(p, SNIPS[s1]); return t; } // q >= p: inserted first so that p stays valid
static void snippetItem(int d, int p, bool pairs) {
	int L = (int)strlen(DOCS[d]);
	for (int s1 = 0; s1 < NSNIPS; s1++) {
		snippetText(snippetCaseText(d, p, s1, -1, 0), fmt("snip:%d:%d:%d:-1:0", d, p, s1));
		if (pairs && L <= 26 && d < NDOCS_PAIRS) for (int q = p; q <= L; q++) for (int s2 = 0; s2 < 9; s2++) snippetText(snippetCaseText(d, p, s1, q, s2), fmt("snip:%d:%d:%d:%d:%d", d, p, s1, q, s2));
	}
}

// ---- family D: token table: every token x context x white space around it; whole, byte-wise, cut at every byte
struct Tok { std::string t; bool str; };
static std::vector<Tok> TOKS;
static void buildTokens() {
	static const char* num[] = { "0", "-0", "1", "9", "-9", "99999999", "999999999", "-99999999", "-999999999", "1000000000", "-1000000000", "2147483646", "2147483647", "2147483648", "2147483649", "-2147483647", "-2147483648", "-2147483649",
		"4294967295", "4294967296", "-4294967296", "9999999999", "-9999999999", "99999999999", "-99999999999", "9223372036854775807", "9223372036854775808", "-9223372036854775808", "18446744073709551616", "123456789012345678901234567890",
		"1E2", "1E+2", "1E-2", "1e+2", "1e-2", "1.5E3", "1.5E+3", "1.5E-3", "-1.5E+3", "0E0", "0e+0", "-0E-0", "0.0", "-0.0", "0.5", "1E400", "-1E400", "1e-400", "1E+02", "2E9", "9e9", "2147483647.0", "2147483648E0", "0.1E1", "1.0E+10", "12345678.9", "123456789.5", "1234567890E1" };
	static const char* lit[] = { "false", "true", "null" };
	static const char* str[] = { "\"\"", "\"\\b\"", "\"\\f\"", "\"\\r\"", "\"\\n\"", "\"\\t\"", "\"\\\"\"", "\"\\\\\"", "\"\\/\"", "\"\\b\\f\\r\\u00E9\"", "\"a\\bb\\fc\\rd\\ne\\tf\"", "\"\\u00e9\"", "\"\\u00E9\"", "\"\\u20AC\"", "\"\\u20ac\"",
		"\"\\uD83D\\uDE00\"", "\"\\ud83d\\ude00\"", "\"\\uD83d\\uDe00\"", "\"\\uD800\\uDC00\"", "\"\\uDBFF\\uDFFF\"", "\"\\uFFFF\"", "\"\\uABCD\"", "\"\\uabcd\"", "\"\\uAbCd\"", "\"\\u007F\"", "\"\\u0080\"", "\"\\u07FF\"", "\"\\u0800\"", "\"\\uD7FF\"", "\"\\uE000\"",
		"\"/\"", "\"//\"", "\"/*\"", "\"\\u0001\"", "\"\\u001F\"", "\"\xc3\xa9\"", "\"\xe2\x82\xac\"", "\"\xf0\x9f\x98\x80\"", "\"\x7f\"", "\"\\u00E9\\uD83D\\uDE00x\"", "\"false\"", "\"1E+2\"", "\"\\\\u00E9\"", "\"{\"", "\"]\"", "\",\"", "\":\"", "\"=\"" };
	for (size_t i = 0; i < sizeof num / sizeof *num; i++) { Tok k = { num[i], false }; TOKS.push_back(k); }
	for (size_t i = 0; i < sizeof lit / sizeof *lit; i++) { Tok k = { lit[i], false }; TOKS.push_back(k); }
	for (size_t i = 0; i < sizeof str / sizeof *str; i++) { Tok k = { str[i], true }; TOKS.push_back(k); }
	// \u escapes with every hexadecimal digit, of either case, in every position
	for (int pos = 0; pos < 4; pos++) for (const char* h = "0123456789abcdefABCDEF"; *h; h++) { std::string c = "0041"; c[pos] = *h; Tok k = { "\"\\u" + c + "\"", true }; TOKS.push_back(k); }
}
static const char* CTXS[] = { "%", "[%]", "[%,%]", "{\"k\":%}", "{\"k\":%,\"j\":%}", "[[%],%]", /* string tokens only: */ "{%:1}", "{%:%}", "{%:1,%:2}" };
enum { NCTXS = sizeof CTXS / sizeof *CTXS, NCTXS_ANY = 6 };
static const char* WSS[] = { "", " ", "\t", "\r", "\n", "\r\n", " \t\r\n" };
enum { NWS = sizeof WSS / sizeof *WSS };
static std::string tokenCaseText(int ti, int ci, int li, int wi) { std::string tok = std::string(WSS[li]) + TOKS[ti].t + WSS[wi], t; for (const char* c = CTXS[ci]; *c; c++) if (*c == '%') t += tok; else t += *c; return t; }
static void tokenCase(int ti, int ci, int li, int wi) { vf::add(W_TOK); if (checkText(tokenCaseText(ti, ci, li, wi), fmt("tok:%d:%d:%d:%d", ti, ci, li, wi), F_CUTS | F_PY)) vf::add(W_TOK_VALID); else vf::violation("harness_token_not_valid", "token table entry not classified as a valid document by the reference: '" + shortText(tokenCaseText(ti, ci, li, wi)) + "'", fmt("tok:%d:%d:%d:%d", ti, ci, li, wi)); }
static void tokenItem(int ti, bool allWs) {
	for (int ci = 0; ci < NCTXS; ci++) if (ci < NCTXS_ANY || TOKS[ti].str)
		for (int li = 0; li < NWS; li++) for (int wi = 0; wi < NWS; wi++) if (allWs || li == 0 || wi == 0 || li == wi) tokenCase(ti, ci, li, wi);
}

// ---- family E: every object with up to K members over 3 names (so: every pattern of repeated names) and 5 values
static const char* ONAMES[] = { "\"a\"", "\"b\"", "\"\"" };
static const char* OVALS[] = { "1", "[]", "{}", "\"x\"", "false" };
static std::string objectCaseText(int k, int idx) { std::string t = "{"; for (int i = 0; i < k; i++) { int m = idx % 15; idx /= 15; t += (i ? "," : "") + std::string(ONAMES[m % 3]) + ":" + OVALS[m / 3]; } return t + "}"; }
static int pow15(int k) { int n = 1; while (k--) n *= 15; return n; }
static void objectCase(int k, int idx) { vf::add(W_OBJDOC); std::string kase = fmt("obj:%d:%d", k, idx); if (!checkText(objectCaseText(k, idx), kase, F_CUTS | F_PY)) vf::violation("harness_object_not_valid", "generated object not classified as valid", kase); }

// ---- family F: long tokens and wide containers (token buffer, array and dictionary growth inside the parser)
enum { NLONGKINDS = 12 };
static bool longIsContainer(int kind) { return kind >= 9; }
static std::string longCaseText(int kind, int n) {
	std::string t;
	switch (kind) {
	case 0: t = "\"" + std::string(n, 'x') + "\""; break;                                            // string value
	case 1: t = "{\"" + std::string(n, 'x') + "\":1}"; break;                                        // member name
	case 2: t = "0."; for (int i = 0; i <= n; i++) t += char('0' + (i + 1) % 10); break;              // n+1 fraction digits
	case 3: for (int i = 0; i <= n; i++) t += char('0' + (i + 1) % 10); break;                       // n+1 integer digits
	case 4: t = "[-"; for (int i = 0; i <= n; i++) t += char('0' + (i + 1) % 10); t += "]"; break;    // negative, inside an array
	case 5: t = "1e" + std::string(n, '0') + "1"; break;                                             // exponent digits
	case 6: t = "\""; for (int i = 0; i < n; i++) t += "\\u00e9"; t += "\""; break;                   // string of escapes (2 bytes each)
	case 7: t = "\""; for (int i = 0; i < n; i++) t += (i % 2 ? "\\n" : "\xe2\x82\xac"); t += "\""; break;
	case 8: t = std::string(n + 1, 'a') + "{}"; break;                                                // XDL class name: not JSON (safety and chunk independence only)
	case 9: t = "["; for (int i = 0; i < n; i++) t += fmt(i ? ",%d" : "%d", i); t += "]"; break;
	case 10: t = "{"; for (int i = 0; i < n; i++) t += fmt(i ? ",\"k%d\":%d" : "\"k%d\":%d", i, i); t += "}"; break;
	default: t = "["; for (int i = 0; i < n; i++) t += (i ? "," : "") + std::string(i % 3 == 0 ? "[]" : i % 3 == 1 ? "{}" : "\"s\""); t += "]"; break;
	}
	return t;
}
// cut at every byte for the shorter ones and around every power of two (buffer and array capacities double there); the others are fed whole and byte by byte
static bool longCuts(int kind, int n) { int lim = vf::opt.thorough() ? (longIsContainer(kind) ? 64 : 300) : (longIsContainer(kind) ? 48 : 40); if (n <= lim) return true; for (int p = 64; p <= 4096; p *= 2) if (n >= p - 1 && n <= p + 1) return true; return false; }
static void longCase(int kind, int n) { vf::add(W_LONG); std::string kase = fmt("long:%d:%d", kind, n); bool v = checkText(longCaseText(kind, n), kase, (longCuts(kind, n) ? F_CUTS : 0) | F_PY); if (v) vf::add(W_LONG_VALID); if (v != (kind != 8)) vf::violation("harness_long_not_valid", "generated long document misclassified by the reference", kase); }

// ---- family G: the library's own chunker (Xdl::read / Json::read feed the parser in blocks of 16382 bytes): a token placed across every block boundary position, with and without BOM
static const char* RTOKS[] = { "\"a\\u00e9\\n\xe2\x82\xac\"", "-12.5e+3", "false", "{\"k\":[1,null]}" };
static const int RSIZES[] = { 1, 2, 3, 4, 16380, 16381, 16382, 16383, 16384, 32763, 32764, 32765, 49146, 100000, 100001 };
enum { NRTOKS = sizeof RTOKS / sizeof *RTOKS, NRSIZES = sizeof RSIZES / sizeof *RSIZES, RBLOCK = 16382 };
static std::string readCaseText(int kind, int a, int b) { // kind 0: the first b bytes of token a lie in the first block, the rest in the second; kind 1: document of exactly RSIZES[a] bytes
	if (kind == 0) return "[" + std::string(RBLOCK - 1 - b, ' ') + RTOKS[a] + ",1]";
	int n = RSIZES[a]; if (n == 1) return "7"; if (n == 2) return "[]"; if (n == 3) return "[7]"; return "[" + std::string(n - 3, ' ') + "7]";
}
static void readCase(int kind, int a, int b, int bom, int api) {
	std::string kase = fmt("read:%d:%d:%d:%d:%d", kind, a, b, bom, api); vf::cur(kase); vf::asan_clear(); vf::add(W_READ);
	std::string t = readCaseText(kind, a, b), path = vf::scratch_dir() + fmt("/read.%d.json", (int)getpid());
	FILE* f = fopen(path.c_str(), "wb"); if (!f) { fprintf(stderr, "cannot write %s\n", path.c_str()); _exit(2); }
	if (bom) fwrite("\xef\xbb\xbf", 1, 3, f);
	fwrite(t.data(), 1, t.size(), f); fclose(f);
	if (kind == 0 && b > 0 && b < (int)strlen(RTOKS[a])) vf::add(W_READ_SPLIT);
	Var v = api ? Xdl::read(path.c_str()) : Json::read(path.c_str());
	remove(path.c_str());
	rj::RV rv; bool ex = false; bool ok = rj::parse(t, rv, &ex);
	if (!ok || ex) { fprintf(stderr, "reference rejects its own file document\n"); _exit(2); }
	Var w = Json::decode(vfx::A(t));
	std::string T = fmt("%s of a %d-byte file%s", api ? "Xdl::read" : "Json::read", (int)t.size() + 3 * bom, bom ? " with BOM" : "");
	if (!v.ok()) vf::violation("chunk_dependence_read", T + " rejects a valid document ('" + shortText(kind == 0 ? std::string(RTOKS[a]) : t) + "' " + (kind == 0 ? fmt("with its first %d bytes in the first block)", b) : std::string(")")), kase);
	else if (dumpVar(v) != rj::dump(rv) || dumpVar(v) != dumpVar(w)) vf::violation("chunk_dependence_read", T + " gives " + dumpVar(v).substr(0, 200) + ", decode of the same text gives " + dumpVar(w).substr(0, 200), kase);
	if (vf::asan_tripped()) { vf::violation("asan", "ASan " + vf::asan_what() + " in " + T, kase); vf::asan_clear(); }
}
struct ReadItem { int kind, a, b; };
static std::vector<ReadItem> readItems() { std::vector<ReadItem> v; for (int a = 0; a < NRTOKS; a++) for (int b = -1; b <= (int)strlen(RTOKS[a]) + 1; b++) { ReadItem r = { 0, a, b }; v.push_back(r); } for (int a = 0; a < NRSIZES; a++) { ReadItem r = { 1, a, 0 }; v.push_back(r); } return v; }

template <class S>
static vf::BfsResult runPass(S& sys, int depth, const char* infoKey) {
	vf::Bfs<S> b(sys, sys.label);
	vf::BfsResult r = b.run(depth, 0);
	std::string pd; for (size_t i = 0; i < r.per_depth.size(); i++) pd += fmt(i ? ",%llu" : "%llu", (unsigned long long)r.per_depth[i]);
	vf::setinfo(infoKey, fmt("{\"depth_completed\": %d, \"states\": %llu, \"transitions\": %llu, \"new_states_per_depth\": [%s], \"alphabet\": %d, \"key\": \"%s\"}", r.depth_done, (unsigned long long)r.states, (unsigned long long)r.transitions, pd.c_str(), sys.nsym, sys.abstract ? "abstracted" : "exact"));
	return r;
}

// abstraction check: up to the exact pass's depth, the abstract states reached through the exact search must all be reached by the abstracted search
static bool abstractionCheck(const std::string& la, const std::string& lb, int depth, const char* infoKey) {
	std::set<std::string> sa, sb; char line[128];
	std::vector<std::string> fa = vf::list_scratch("abs." + la + "."), fb = vf::list_scratch("abs." + lb + ".");
	for (size_t i = 0; i < fa.size(); i++) { FILE* f = fopen(fa[i].c_str(), "r"); while (f && fgets(line, sizeof line, f)) sa.insert(strchr(line, ' ') ? strchr(line, ' ') + 1 : line); if (f) fclose(f); }
	for (size_t i = 0; i < fb.size(); i++) { FILE* f = fopen(fb[i].c_str(), "r"); while (f && fgets(line, sizeof line, f)) sb.insert(strchr(line, ' ') ? strchr(line, ' ') + 1 : line); if (f) fclose(f); }
	size_t onlyA = 0, onlyB = 0; for (std::set<std::string>::iterator it = sa.begin(); it != sa.end(); ++it) if (!sb.count(*it)) onlyA++; for (std::set<std::string>::iterator it = sb.begin(); it != sb.end(); ++it) if (!sa.count(*it)) onlyB++;
	vf::setinfo(infoKey, fmt("{\"depth\": %d, \"abstract_states_via_exact_search\": %llu, \"abstract_states_via_abstracted_search\": %llu, \"only_exact\": %llu, \"only_abstracted\": %llu}", depth, (unsigned long long)sa.size(), (unsigned long long)sb.size(), (unsigned long long)onlyA, (unsigned long long)onlyB));
	if (vf::nviolations() == 0 && (onlyA || sa.empty())) { fprintf(stderr, "HARNESS ERROR: abstraction of pass %s is not reachability-preserving up to depth %d (%llu of %llu abstract states reached by the exact search are never reached by the abstracted search)\n", lb.c_str(), depth, (unsigned long long)onlyA, (unsigned long long)sa.size()); return false; }
	return true;
}
static std::string PHASES; static double phaseT0;
static double cpuChildren() { struct rusage r; getrusage(RUSAGE_CHILDREN, &r); return r.ru_utime.tv_sec + r.ru_utime.tv_usec / 1e6 + r.ru_stime.tv_sec + r.ru_stime.tv_usec / 1e6; }
static void phase(const char* name) { double t = cpuChildren(); PHASES += fmt("%s\"%s\": %.1f", PHASES.empty() ? "" : ", ", name, t - phaseT0); phaseT0 = t; }

int main(int argc, char** argv) {
	vf::init(argc, argv, "C06", "c06_jsonparse");
	int cS = vf::counter("states"), cT = vf::counter("transitions"), cTr = vf::counter("traces");
	static const char* sn[] = { "NUMBER", "INT", "STRING", "PROPERTY", "IDENTIFIER", "NUMBER_E", "NUMBER_ES", "NUMBER_EV", "NUMBER_DOT", "MINUS", "WAIT_SEP", "WAIT_EQUAL", "WAIT_VALUE", "WAIT_PROPERTY", "WAIT_OBJ", "QPROPERTY", "ESCAPE", "ERR", "UNICODECHAR", "WAIT_COMMA_OR_PROPERTY", "WAIT_COMMA_OR_VALUE" };
	static const char* cn[] = { "ROOT", "ARRAY", "OBJECT", "COMMENT1", "COMMENT", "LINECOMMENT", "ENDCOMMENT" };
	for (int i = 0; i < NSTATES; i++) W_STATE[i] = vf::counter(fmt("w.state_%s", sn[i]).c_str());
	for (int i = 0; i < NCTX; i++) W_CTX[i] = vf::counter(fmt("w.context_%s", cn[i]).c_str());
	W_PUSHBACK = vf::counter("w.one_char_push_back_taken"); W_ACCEPT = vf::counter("w.valid_documents_compared"); W_REJECT_OPEN = vf::counter("w.open_top_level_prefixes_checked"); W_LENIENT = vf::counter("w.non_json_accepted_leniently");
	W_EXCLUDED = vf::counter("w.outside_statement_nul_or_lone_surrogate_or_bad_utf8"); C_PYLINES = vf::counter("texts_cross_checked_with_python"); W_DEEP = vf::counter("w.deep_documents"); W_SNIP = vf::counter("w.documents_with_inserted_snippets"); W_SNIP_VALID = vf::counter("w.snippet_documents_that_are_valid_json");
	W_SURROGATE_PAIR = vf::counter("w.surrogate_pair_escapes_combined"); W_DUPKEY_PENDING = vf::counter("w.bfs_states_with_pending_repeated_name"); W_DUPKEY = vf::counter("w.valid_documents_with_repeated_member_name"); W_MULTI = vf::counter("w.valid_documents_with_object_of_2_or_more_members");
	static const char* en[] = { "quote", "backslash", "slash", "b", "f", "n", "r", "t", "u" };
	for (int i = 0; i < 9; i++) W_ESC[i] = vf::counter(fmt("w.escape_%s", en[i]).c_str());
	W_HEXU = vf::counter("w.unicode_escape_uppercase_hex_digits"); W_HEXL = vf::counter("w.unicode_escape_lowercase_hex_digits");
	W_LIT[0] = vf::counter("w.literal_true"); W_LIT[1] = vf::counter("w.literal_false"); W_LIT[2] = vf::counter("w.literal_null");
	W_ATOF = vf::counter("w.integer_token_longer_than_9_chars_via_atof"); W_ATOIZ = vf::counter("w.integer_token_up_to_9_chars_via_atoi"); W_BEYOND32 = vf::counter("w.integer_token_outside_int32");
	W_EXPU = vf::counter("w.exponent_uppercase_E"); W_EXPPLUS = vf::counter("w.exponent_plus_sign"); W_TAB = vf::counter("w.tab_outside_strings_accepted"); W_CR = vf::counter("w.cr_outside_strings_accepted");
	W_BUFHEAP = vf::counter("w.texts_that_move_the_token_buffer_to_the_heap"); W_PB_CUT = vf::counter("w.two_cuts_starting_with_the_pushed_back_byte"); W_EMPTY = vf::counter("w.empty_chunks_fed"); W_CUTS = vf::counter("w.two_cuts_fed"); C_FAMPY = vf::counter("family_texts_cross_checked_with_python");
	W_TOK = vf::counter("w.token_table_documents"); W_TOK_VALID = vf::counter("w.token_table_documents_valid"); W_OBJDOC = vf::counter("w.object_family_documents"); W_LONG = vf::counter("w.long_or_wide_documents"); W_LONG_VALID = vf::counter("w.long_or_wide_documents_valid");
	W_DEEPCUT = vf::counter("w.deep_document_two_cuts"); W_READ = vf::counter("w.files_read_through_library_chunker"); W_READ_SPLIT = vf::counter("w.files_with_token_split_across_read_blocks");
	bool T = vf::opt.thorough();
	buildTokens();
	JsonSysH A(false, 99, 64, "exact"), B(true, 3, T ? 14 : 40, "abstract");
	JsonSysH AX(false, 99, 64, "exactx", NSYM_ALL), BX(true, 3, 40, "abstractx", NSYM_ALL); // the same two passes over the extended alphabet, shallower
	if (vf::opt.replay) {
		const std::string& k = vf::opt.kase;
		vf::parallel(1, [&](uint64_t) {
			int a, b, c, d, e;
			if (k.compare(0, 7, "exactx:") == 0) { vf::Bfs<JsonSysH> bf(AX, "exactx"); vf::Hist h = vf::hist_parse(k.substr(7)); bf.run_one(vf::Hist(), -1, 0, false); vf::H128 key; bf.run_one(h, -1, &key); }
			else if (k.compare(0, 10, "abstractx:") == 0) { vf::Bfs<JsonSysH> bf(BX, "abstractx"); vf::Hist h = vf::hist_parse(k.substr(10)); bf.run_one(vf::Hist(), -1, 0, false); vf::H128 key; bf.run_one(h, -1, &key); }
			else if (k.compare(0, 5, "exact") == 0) { vf::Bfs<JsonSysH> bf(A, "exact"); vf::Hist h = vf::hist_parse(k.substr(6)); bf.run_one(vf::Hist(), -1, 0, false); vf::H128 key; bf.run_one(h, -1, &key); }
			else if (k.compare(0, 8, "abstract") == 0) { vf::Bfs<JsonSysH> bf(B, "abstract"); vf::Hist h = vf::hist_parse(k.substr(9)); bf.run_one(vf::Hist(), -1, 0, false); vf::H128 key; bf.run_one(h, -1, &key); }
			else if (sscanf(k.c_str(), "snip:%d:%d:%d:%d:%d", &a, &b, &c, &d, &e) == 5) snippetText(snippetCaseText(a, b, c, d, e), k);
			else if (sscanf(k.c_str(), "tok:%d:%d:%d:%d", &a, &b, &c, &d) == 4) tokenCase(a, b, c, d);
			else if (sscanf(k.c_str(), "obj:%d:%d", &a, &b) == 2) objectCase(a, b);
			else if (sscanf(k.c_str(), "long:%d:%d", &a, &b) == 2) longCase(a, b);
			else if (sscanf(k.c_str(), "read:%d:%d:%d:%d:%d", &a, &b, &c, &d, &e) == 5) readCase(a, b, c, d, e);
			else if (sscanf(k.c_str(), "deep:%d:%d", &a, &b) == 2) deepCase(a, b);
			else if (sscanf(k.c_str(), "deepjunk:%d", &a) == 1) deepJunk(a);
			else for (int i = 0; i < NDEEPITEMS; i++) deepItem(i);
		});
		return vf::finish();
	}
	A.absDepth = T ? 5 : 4; B.absDepth = 99; // every abstract state the exact search reaches must be reached by the abstracted search at some depth
	phaseT0 = cpuChildren();
	vf::BfsResult ra = runPass(A, T ? 5 : 4, "pass_A_exact"); phase("pass_A");
	vf::BfsResult rb = runPass(B, T ? 10 : 8, "pass_B_abstract"); phase("pass_B");
	AX.absDepth = T ? 4 : 3; BX.absDepth = 99;
	vf::BfsResult rax = runPass(AX, T ? 4 : 3, "pass_AX_exact_extended_alphabet"); phase("pass_AX");
	vf::BfsResult rbx = runPass(BX, T ? 8 : 6, "pass_BX_abstract_extended_alphabet"); phase("pass_BX");
	vf::add(cS, ra.states + rb.states + rax.states + rbx.states); vf::add(cT, ra.transitions + rb.transitions + rax.transitions + rbx.transitions); vf::add(cTr, ra.traces + rb.traces + rax.traces + rbx.traces);
	vf::parallel(NDEEPITEMS, [&](uint64_t i) { deepItem((int)i); }); phase("deep");
	{ std::vector<std::pair<int, int> > items; for (int d = 0; d < NDOCS; d++) for (int q = 0; q <= (int)strlen(DOCS[d]); q++) items.push_back(std::make_pair(d, q)); vf::parallel(items.size(), [&](uint64_t i) { snippetItem(items[i].first, items[i].second, true); }); } phase("snippets");
	vf::parallel(TOKS.size(), [&](uint64_t i) { tokenItem((int)i, T); }); phase("token_table");
	{ int K = T ? 4 : 3; std::vector<std::pair<int, int> > items; for (int k = 1; k <= K; k++) for (int i = 0; i < pow15(k); i++) items.push_back(std::make_pair(k, i)); vf::parallel(items.size(), [&](uint64_t i) { objectCase(items[i].first, items[i].second); }, 64); } phase("objects");
	{ int NT = T ? 1100 : 300, NC = T ? 300 : 130; std::vector<std::pair<int, int> > items; for (int kind = 0; kind < NLONGKINDS; kind++) for (int n = 0; n <= (longIsContainer(kind) ? NC : NT); n++) items.push_back(std::make_pair(kind, n)); vf::parallel(items.size(), [&](uint64_t i) { longCase(items[items.size() - 1 - i].first, items[items.size() - 1 - i].second); }); } phase("long_wide");
	{ std::vector<ReadItem> items = readItems(); vf::parallel(items.size(), [&](uint64_t i) { for (int bom = 0; bom < 2; bom++) for (int api = 0; api < 2; api++) readCase(items[i].kind, items[i].a, items[i].b, bom, api); }); } phase("files");
	vf::setinfo("families", fmt("{\"tokens\": %d, \"token_contexts\": %d, \"white_space_forms\": %d, \"snippet_documents\": %d, \"snippets\": %d, \"object_members_max\": %d, \"long_token_max\": %d, \"wide_container_max\": %d, \"extended_bfs_alphabet\": %d}", (int)TOKS.size(), (int)NCTXS, (int)NWS, (int)NDOCS, (int)NSNIPS, T ? 4 : 3, T ? 1100 : 300, T ? 300 : 130, (int)NSYM_ALL));
	if (!abstractionCheck("exact", "abstract", A.absDepth, "abstraction_check") || !abstractionCheck("exactx", "abstractx", AX.absDepth, "abstraction_check_extended_alphabet")) { vf::finish(); return 2; }
	// cross-check of the reference recogniser against python's json on every collected text
	std::vector<std::string> files = vf::list_scratch("py.");
	if (files.empty() || vf::get(C_PYLINES) == 0 || vf::get(C_FAMPY) == 0) { fprintf(stderr, "HARNESS ERROR: no texts were collected for the cross-check of the reference recogniser against python json (scratch files could not be written?)\n"); vf::finish(); return 2; }
	{
		std::string cmd = "python3 /verif/tools/ref_json.py";
		for (size_t i = 0; i < files.size(); i++) cmd += " '" + files[i] + "'";
		cmd += " > '" + vf::scratch_dir() + "/py.out' 2>&1";
		int rc = system(cmd.c_str());
		FILE* f = fopen((vf::scratch_dir() + "/py.out").c_str(), "r");
		std::string out; char line[1000]; while (f && fgets(line, sizeof line, f)) out += line; if (f) fclose(f);
		vf::setinfo("python_cross_check", vf::jstr(out.size() > 1500 ? out.substr(out.size() - 1500) : out));
		phase("python"); vf::setinfo("cpu_seconds_of_children_per_phase", "{" + PHASES + "}");
		if (rc != 0) { fprintf(stderr, "HARNESS ERROR: reference recogniser disagrees with python json:\n%s\n", out.c_str()); vf::finish(); return 2; }
	}
	vf::sample(std::string("exact pass: every symbol sequence over the alphabet { } [ ] , : \" \\ / * = SP LF 0 1 - . e a _ true null e-acute \\ud83d \\ude00 0x01 0x80 0xff u; passes exactx/abstractx: the same plus false E + \\b \\f \\r TAB CR 9"));
	vf::sample("token table: [ \\t-2147483649\\r\\n,\\t-2147483649\\r\\n] ; {\"\\b\\f\\r\\u00E9\":1,\"\\b\\f\\r\\u00E9\":2} ; 1.5E+3 ; objects {\"a\":1,\"\":[],\"a\":false} ; strings/names/digit runs of every length up to 300");
	vf::sample("{\"a/\\ud83d\\ude00\":[1e1,-0.0,true,null]} cut at every byte; [[1 ; {\"a\":\"x ; 01 ; 1 2");
	return vf::finish();
}
