// C12 side pass — keeps the scheduler's assumption honest. The vsched exploration (s_c12_handles) sees only hooked
// synchronisation points; an access that is *not* one of them (a plain ++ on a reference count, a missing lock around a
// payload access) is atomic to it. This part runs the same program tuples FREE-RUNNING under ThreadSanitizer: two handle
// or counter operations of different worker threads are never ordered by happens-before unless the library orders them
// (thread creation orders main -> worker only), so an unsynchronised access pair is reported whatever the OS schedule was.
// It is not an exploration and decides nothing by itself: it reports "data_race" when the precondition of the
// scheduler-based enumeration (all shared accesses are atomic or lock-protected) is broken.
#include <asl/Array.h>
#include <asl/Map.h>
#include <asl/HashMap.h>
#include <asl/Pointer.h>
#include <asl/Shared.h>
#include <asl/Thread.h>
#include <asl/Mutex.h>
#include "vf.h"
using namespace asl;
using vf::fmt;

extern "C" {
int __tsan_get_report_data(void* report, const char** description, int* count, int* stack_count, int* mop_count, int* loc_count, int* mutex_count, int* thread_count, int* unique_tid_count, void** sleep_trace, unsigned long trace_size);
int __tsan_get_report_mop(void* report, unsigned long idx, int* tid, void** addr, int* size, int* write, int* atomic, void** trace, unsigned long trace_size);
}
static volatile int g_reports;
static char g_what[160];
extern "C" void __tsan_on_report(void* report) {
	const char* d = 0; int count, sc, mc, lc, mtc, tc, ut; void* sl[1];
	__tsan_get_report_data(report, &d, &count, &sc, &mc, &lc, &mtc, &tc, &ut, sl, 1);
	if (!g_reports && d) { snprintf(g_what, sizeof g_what, "%s", d); }
	__atomic_fetch_add(&g_reports, 1, __ATOMIC_RELAXED);
}
extern "C" const char* __tsan_default_options() { return "halt_on_error=0:exitcode=0:report_signal_unsafe=0:history_size=4:die_after_fork=0:print_summary=0"; }

// payload whose life cycle is counted with relaxed atomics (no happens-before edges added, no race of our own)
static int g_ctor, g_dtor, g_bad;
static inline void bump(int* p) { __atomic_fetch_add(p, 1, __ATOMIC_RELAXED); }
struct Tracked {
	int magic; int* heap;
	Tracked() : magic(0x600d), heap(new int(7)) { bump(&g_ctor); }
	Tracked(const Tracked& o) : magic(0x600d), heap(new int(*o.heap)) { bump(&g_ctor); }
	Tracked& operator=(const Tracked& o) { *heap = *o.heap; return *this; }
	~Tracked() { if (magic != 0x600d) bump(&g_bad); magic = 0xdead; delete heap; bump(&g_dtor); }
	bool operator==(const Tracked& o) const { return *heap == *o.heap; }
	bool operator!=(const Tracked& o) const { return !(*this == o); }
	bool operator<(const Tracked&) const { return false; }
};
ASL_SMART_CLASS(Obj, SmartObject) { public: Tracked t; ASL_SMART_INNER_DEF(Obj); };
class Obj : public SmartObject { public: ASL_SMART_DEF(Obj, SmartObject) };

template <class H> struct HK;
template <> struct HK<Array<Tracked> > { static Array<Tracked> make() { Array<Tracked> a; a << Tracked(); return a; } static bool alive(const Array<Tracked>& h) { return h.length() == 1 && h[0].magic == 0x600d; } static const char* name() { return "Array<Tracked>"; } };
template <> struct HK<Map<int, Tracked> > { static Map<int, Tracked> make() { Map<int, Tracked> m; m[1] = Tracked(); return m; } static bool alive(const Map<int, Tracked>& h) { return h.length() == 1 && h[1].magic == 0x600d; } static const char* name() { return "Map<int,Tracked>"; } };
template <> struct HK<HashMap<int, int> > { static HashMap<int, int> make() { HashMap<int, int> m(4); m[1] = 5; m[5] = 6; return m; } static bool alive(const HashMap<int, int>& h) { return h.length() == 2 && h[5] == 6; } static const char* name() { return "HashMap<int,int>"; } };
template <> struct HK<Shared<Tracked> > { static Shared<Tracked> make() { return Shared<Tracked>(new Tracked()); } static bool alive(const Shared<Tracked>& h) { return h->magic == 0x600d; } static const char* name() { return "Shared<Tracked>"; } };
template <> struct HK<Obj> { static Obj make() { return Obj(); } static bool alive(const Obj& h) { return h._()->t.magic == 0x600d; } static const char* name() { return "SmartObject-derived"; } };

enum Op { COPY, ASSIGN_LO, ASSIGN_OL, DROP_L, DROP_O, FRESH };
static const char* OPN[] = { "local=copy(own)", "local=own", "own=local", "drop local", "drop own", "own=fresh object" };
typedef std::vector<int> Prog;
static void genProgs(int maxLen, bool own, bool local, Prog cur, std::vector<Prog>& out) {
	out.push_back(cur);
	if ((int)cur.size() == maxLen) return;
	for (int op = 0; op < 6; op++) {
		bool ok = op == COPY ? (own && !local) : op == ASSIGN_LO || op == ASSIGN_OL ? (own && local) : op == DROP_L ? local : own;
		if (!ok) continue;
		if (op == FRESH && !cur.empty() && cur.back() == FRESH) continue;
		Prog n = cur; n.push_back(op);
		genProgs(maxLen, op == DROP_O ? false : own, op == COPY ? true : op == DROP_L ? false : local, n, out);
	}
}
static std::string progStr(const Prog& p) { std::string s; for (size_t i = 0; i < p.size(); i++) s += (i ? "; " : "") + std::string(OPN[p[i]]); return s.empty() ? "(nothing)" : s; }

static int g_go; // start line: relaxed, so it adds no happens-before edge
template <class H>
struct Worker : public Thread {
	H* own; H* local; const Prog* prog; int early;
	Worker() : own(0), local(0), prog(0), early(0) {}
	void check() { if ((own && !HK<H>::alive(*own)) || (local && !HK<H>::alive(*local))) early++; }
	void run() {
		for (int spin = 0; spin < 200000 && !__atomic_load_n(&g_go, __ATOMIC_RELAXED); spin++) {}
		for (size_t i = 0; i < prog->size(); i++) {
			switch ((*prog)[i]) {
			case COPY: local = new H(*own); break;
			case ASSIGN_LO: *local = *own; break;
			case ASSIGN_OL: *own = *local; break;
			case DROP_L: delete local; local = 0; break;
			case DROP_O: delete own; own = 0; break;
			case FRESH: *own = HK<H>::make(); break;
			}
			check();
		}
		delete local; local = 0; delete own; own = 0;
	}
};

static int C_RUNS, C_TUPLES, C_REPORTS;

template <class H>
static void handleJob(const std::vector<const Prog*>& progs, const std::string& kase, int reps) {
	for (int r = 0; r < reps; r++) {
		g_ctor = g_dtor = g_bad = 0; g_reports = 0; g_what[0] = 0;
		__atomic_store_n(&g_go, 0, __ATOMIC_RELAXED);
		int early = 0;
		{
			size_t n = progs.size();
			H* h0 = new H(HK<H>::make());
			std::vector<Worker<H>*> w(n);
			for (size_t i = 0; i < n; i++) { w[i] = new Worker<H>(); w[i]->own = new H(*h0); w[i]->prog = progs[i]; }
			for (size_t i = 0; i < n; i++) w[i]->start();
			__atomic_store_n(&g_go, 1, __ATOMIC_RELAXED);
			bool mainEarly = !HK<H>::alive(*h0);
			delete h0;
			for (size_t i = 0; i < n; i++) w[i]->join();
			early = mainEarly ? 1 : 0;
			for (size_t i = 0; i < n; i++) { early += w[i]->early; delete w[i]; }
		}
		vf::add(C_RUNS);
		int live = g_ctor - g_dtor;
		if (g_reports) { vf::add(C_REPORTS, g_reports); vf::violation("data_race", fmt("%s, programs [%s] free-running under ThreadSanitizer: %d report(s), first: %s", HK<H>::name(), kase.c_str(), (int)g_reports, g_what), kase); return; }
		if (live != 0 && r == 0 && !g_bad && !early) continue; // a lazily built static of the container may be constructed during the first run in a process
		if (live != 0 || g_bad || early) { vf::violation("handle_lifetime", fmt("%s, programs [%s] free-running: live=%d bad=%d early=%d", HK<H>::name(), kase.c_str(), live, (int)g_bad, early), kase); return; }
	}
}

struct Counter { int v; Counter(int x = 0) : v(x) {}
	Counter& operator+=(int d) { int t = v; sched_yield(); v = t + d; return *this; }
	Counter& operator-=(int d) { int t = v; sched_yield(); v = t - d; return *this; }
	Counter& operator*=(int d) { int t = v; sched_yield(); v = t * d; return *this; }
	Counter& operator++() { return *this += 1; } Counter& operator--() { return *this -= 1; }
	Counter operator++(int) { Counter c = *this; *this += 1; return c; } Counter operator--(int) { Counter c = *this; *this -= 1; return c; }
	operator int() const { return v; } };
struct CountWorker : public Thread {
	AtomicCount* ac; Atomic<Counter>* at; const Prog* prog;
	void run() {
		for (int spin = 0; spin < 200000 && !__atomic_load_n(&g_go, __ATOMIC_RELAXED); spin++) {}
		for (size_t i = 0; i < prog->size(); i++) {
			int op = (*prog)[i];
			if (ac) { if (op == 0) ++*ac; else --*ac; }
			else { switch (op) { case 0: ++*at; break; case 1: --*at; break; case 2: *at += 3; break; case 3: *at -= 2; break; default: *at *= 1; } }
		}
	}
};
static void counterJob(bool atomicT, const std::vector<const Prog*>& progs, const std::string& kase, int reps) {
	int expected = 10;
	for (size_t i = 0; i < progs.size(); i++) for (size_t j = 0; j < progs[i]->size(); j++) { int op = (*progs[i])[j]; expected += atomicT ? (op == 0 ? 1 : op == 1 ? -1 : op == 2 ? 3 : op == 3 ? -2 : 0) : (op == 0 ? 1 : -1); }
	for (int r = 0; r < reps; r++) {
		g_reports = 0; g_what[0] = 0; __atomic_store_n(&g_go, 0, __ATOMIC_RELAXED);
		int result;
		{
			AtomicCount ac(10); Atomic<Counter> at; at = Counter(10);
			std::vector<CountWorker*> w(progs.size());
			for (size_t i = 0; i < w.size(); i++) { w[i] = new CountWorker(); w[i]->ac = atomicT ? 0 : &ac; w[i]->at = atomicT ? &at : 0; w[i]->prog = progs[i]; }
			for (size_t i = 0; i < w.size(); i++) w[i]->start();
			__atomic_store_n(&g_go, 1, __ATOMIC_RELAXED);
			for (size_t i = 0; i < w.size(); i++) { w[i]->join(); delete w[i]; }
			result = atomicT ? (~at).v : (int)ac;
		}
		vf::add(C_RUNS);
		if (g_reports) { vf::add(C_REPORTS, g_reports); vf::violation("data_race", fmt("%s programs [%s] free-running under ThreadSanitizer: %d report(s), first: %s", atomicT ? "Atomic<Counter>" : "AtomicCount", kase.c_str(), (int)g_reports, g_what), kase); return; }
		if (result != expected) { vf::violation("lost_update", fmt("%s programs [%s] free-running: final value %d, expected %d", atomicT ? "Atomic<Counter>" : "AtomicCount", kase.c_str(), result, expected), kase); return; }
	}
}

struct Job { int family; int kind; std::vector<int> prog; };
static std::vector<Prog> HP, CP1, CP2;
static std::string jobName(const Job& j) { std::string s = fmt("r%d.k%d", j.family, j.kind); for (size_t i = 0; i < j.prog.size(); i++) s += fmt(".%d", j.prog[i]); return s; }
static void runJob(const Job& j, int reps) {
	std::vector<const Prog*> ps;
	const std::vector<Prog>& table = j.family == 0 ? HP : j.family == 1 ? CP1 : CP2;
	for (size_t i = 0; i < j.prog.size(); i++) ps.push_back(&table[j.prog[i]]);
	std::string desc;
	for (size_t i = 0; i < ps.size(); i++) desc += fmt("%sT%d: ", i ? " || " : "", (int)i + 1) + (j.family == 0 ? progStr(*ps[i]) : vf::hist_str(vf::Hist(ps[i]->begin(), ps[i]->end())));
	std::string kase = jobName(j);
	vf::cur(kase + " " + desc);
	vf::add(C_TUPLES);
	if (j.family == 0) {
		switch (j.kind) {
		case 0: handleJob<Array<Tracked> >(ps, kase, reps); break;
		case 1: handleJob<Map<int, Tracked> >(ps, kase, reps); break;
		case 2: handleJob<HashMap<int, int> >(ps, kase, reps); break;
		case 3: handleJob<Shared<Tracked> >(ps, kase, reps); break;
		default: handleJob<Obj>(ps, kase, reps); break;
		}
	} else counterJob(j.family == 2, ps, kase, reps);
}
static void genCounterProgs(int nops, int maxLen, std::vector<Prog>& out) {
	out.clear();
	for (int len = 1; len <= maxLen; len++) { int n = 1; for (int i = 0; i < len; i++) n *= nops; for (int x = 0; x < n; x++) { Prog p; int y = x; for (int i = 0; i < len; i++) { p.push_back(y % nops); y /= nops; } out.push_back(p); } }
}

int main(int argc, char** argv) {
	vf::init(argc, argv, "C12", "t_c12_race");
	C_RUNS = vf::counter("tsan_executions"); C_TUPLES = vf::counter("tsan_program_tuples"); C_REPORTS = vf::counter("tsan_reports");
	bool T = vf::opt.thorough();
	int reps = T ? 5 : 2;
	genProgs(T ? 3 : 2, true, false, Prog(), HP);
	genCounterProgs(2, 2, CP1);
	genCounterProgs(5, 2, CP2);
	std::vector<Job> jobs;
	for (int k = 0; k < 5; k++) for (size_t a = 0; a < HP.size(); a++) for (size_t b = a; b < HP.size(); b++) { Job j; j.family = 0; j.kind = k; j.prog.push_back((int)a); j.prog.push_back((int)b); jobs.push_back(j); }
	for (size_t a = 0; a < CP1.size(); a++) for (size_t b = a; b < CP1.size(); b++) { Job j; j.family = 1; j.kind = 0; j.prog.push_back((int)a); j.prog.push_back((int)b); jobs.push_back(j); }
	for (size_t a = 0; a < CP2.size(); a++) for (size_t b = a; b < CP2.size(); b++) { Job j; j.family = 2; j.kind = 0; j.prog.push_back((int)a); j.prog.push_back((int)b); jobs.push_back(j); }
	if (vf::opt.replay) {
		std::string k = vf::opt.kase; size_t sp = k.find(' '); if (sp != std::string::npos) k = k.substr(0, sp);
		for (size_t i = 0; i < jobs.size(); i++) if (jobName(jobs[i]) == k) { vf::parallel(1, [&](uint64_t) { runJob(jobs[i], 20); }); break; }
		return vf::finish();
	}
	vf::parallel(jobs.size(), [&](uint64_t i) { runJob(jobs[i], reps); }, 8);
	vf::setinfo("role", "\"assumption check for the scheduler-based part: every program tuple free-running under ThreadSanitizer; not an exploration\"");
	return vf::finish();
}
