// C12 side pass (flavour tsan): the program tuples of s_c12_handles.cpp plus 16-thread contention runs, free-running under
// ThreadSanitizer, with an in-run positive control. All code lives in s_c12_handles.cpp (section C12_RACE_PASS) so that the two
// passes cannot drift apart: same handle kinds, same operations, same program tables, same sequential model.
#define C12_RACE_PASS 1
#include "s_c12_handles.cpp"
